import Model.Bytes
namespace Slimta.Driver
open Slimta

def words (line : String) : List String :=
  (line.splitOn " ").filter (· ≠ "")

/-- `a,b,c` of hex strings; `-` alone = empty list; empty items written `-`... an empty byte string
    inside a list is written `_`. -/
def parseBytesList (s : String) : Option (List Bytes) :=
  if s == "-" then some []
  else (s.splitOn ",").mapM fun w => if w == "_" then some [] else ofHex w

def showBytesList (l : List Bytes) : String :=
  if l.isEmpty then "-" else ",".intercalate (l.map fun b => if b.isEmpty then "_" else toHex b)

def parseOptNat (s : String) : Option (Option Nat) :=
  if s == "-" then some none else s.toNat?.map some

def parseNatList (s : String) : Option (List Nat) :=
  if s == "-" then some [] else (s.splitOn ",").mapM (·.toNat?)

def showNatList (l : List Nat) : String :=
  if l.isEmpty then "-" else ",".intercalate (l.map toString)

end Slimta.Driver
