import Model.Server
import Driver.Util
namespace Slimta.Driver
open Slimta

def showParams (ps : List (Bytes × Option Bytes)) : String :=
  if ps.isEmpty then "-" else "+".intercalate (ps.map fun (k, v) =>
    toHexOrDash k ++ (match v with | none => "" | some x => "~" ++ toHexOrDash x))

def showCb : Server.Cb → String
  | .banner => "BANNER" | .ehlo a => s!"EHLO:{toHexOrDash a}" | .helo a => s!"HELO:{toHexOrDash a}"
  | .starttls => "STARTTLS" | .tlsHandshake => "TLS"
  | .auth c s z => s!"AUTH:{toHexOrDash c}:{toHexOrDash s}:{toHexOrDash z}"
  | .mail a ps => s!"MAIL:{toHexOrDash a}:{showParams ps}" | .rcpt a ps => s!"RCPT:{toHexOrDash a}:{showParams ps}"
  | .data => "DATA"
  | .haveData c => (match c with | none => "HAVEDATA:toobig" | some d => s!"HAVEDATA:{toHexOrDash d}")
  | .rset => "RSET" | .noop => "NOOP" | .quit => "QUIT"
  | .custom n a => s!"CUSTOM:{toHexOrDash n}:{match a with | none => "-" | some x => toHexOrDash x}"
  | .close => "CLOSE"

def showEvent : Server.Event → String
  | .reply c => s!"r{c}"
  | .cb c => "c" ++ showCb c

def parseHexTable (s : String) : List (String × Option String) :=
  if s == "-" then [] else (s.splitOn ";").filterMap fun kv =>
    match kv.splitOn "=" with
    | [k, v] => some (k, if v == "!" then none else some v)
    | _ => none

def serverOp (args : List String) : String :=
  match args with
  | ["run", tls, auth, ms, imm, verd, b64t, plaint, buf, segs, tlss] =>
    match parseOptNat ms, ofHex buf, parseBytesList segs with
    | some maxSize, some b, some sg =>
      -- `imm` is `0`/`1`, optionally followed by `:` and the comma-separated hex names of custom commands
      let immParts := imm.splitOn ":"
      let customs : List Bytes := match immParts with
        | [_, cs] => (cs.splitOn ",").filterMap ofHex
        | [_, cs, _] => (cs.splitOn ",").filterMap ofHex
        | _ => []
      -- a third part `S`: the handler object is the edge's SmtpSession (RSET / NOOP / QUIT never see a verdict)
      let session := match immParts with | [_, _, f] => f == "S" | _ => false
      let cfg : Server.Cfg := { startTls := tls == "1", auth := auth == "1", maxSize := maxSize,
                                immediateTls := immParts.head? == some "1", custom := customs, session := session }
      let vl : List (Option Nat) := if verd == "-" then [] else (verd.splitOn ",").map String.toNat?
      let v : Server.Verdicts := fun n => match vl[n]? with | some x => x | none => none
      let b64Tab := parseHexTable b64t
      let plainTab := parseHexTable plaint
      let ao : Server.AuthOracle := {
        b64 := fun x => match b64Tab.lookup (toHexOrDash x) with
          | some (some h) => ofHex h
          | _ => none
        plain := fun x => match plainTab.lookup (toHexOrDash x) with
          | some (some h) =>
            match h.splitOn ":" with
            | [c, s, z] => do pure ((← ofHex c), (← ofHex s), (← ofHex z))
            | _ => none
          | _ => none }
      let tlsStreams : List (List Bytes) :=
        if tlss == "none" then [] else (tlss.splitOn "/").filterMap parseBytesList
      let r := Server.serve cfg v ao ⟨b, sg⟩ tlsStreams
      let evs := if r.events.isEmpty then "-" else " ".intercalate (r.events.map showEvent)
      let tri : Server.Tri → String := fun t => match t with | .unset => "N" | .no => "F" | .yes => "T"
      let env := match r.state.envelope with
        | none => "-"
        | some (f, rs) => toHexOrDash f ++ ">" ++ showBytesList rs
      s!"{evs} | {r.ending} | mail={tri r.state.haveMail} rcpt={tri r.state.haveRcpt} ehlo={match r.state.ehloAs with | none => "-" | some a => toHexOrDash a} authed={r.state.authed} env={env} rest={toHexOrDash r.rest.flat}"
    | _, _, _ => "bad-op"
  | _ => "bad-op"

end Slimta.Driver
