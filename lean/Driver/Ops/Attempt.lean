import Model.Attempt
import Driver.Util
namespace Slimta.Driver
open Slimta

def parseRRes (s : String) : Option Attempt.RRes :=
  if s == "o" then some .ok
  else if s.startsWith "p" then ((s.drop 1).toString.toNat?).map .perm
  else if s.startsWith "t" then ((s.drop 1).toString.toNat?).map .temp
  else none

def parseOutcome (s : String) : Option Attempt.Outcome :=
  if s == "S" then some .success
  else if s.startsWith "P" then ((s.drop 1).toString.toNat?).map .permanent
  else if s.startsWith "T" then ((s.drop 1).toString.toNat?).map .transient
  else if s.startsWith "X" then ((s.drop 1).toString.toNat?).map .other
  else if s.startsWith "M" then
    let body := (s.drop 1).toString
    if body == "" then some (.mapping []) else
    ((body.splitOn ",").mapM fun (kv : String) =>
      match kv.splitOn "=" with
      | [k, v] => do pure ((← k.toNat?), (← parseRRes v))
      | _ => none).map .mapping
  else if s.startsWith "Q" then
    let body := (s.drop 1).toString
    if body == "" then some (.sequence []) else ((body.splitOn ",").mapM parseRRes).map .sequence
  else none

def showStep (o : Attempt.StepOut) : String :=
  let m := match o.msg with
    | none => "gone"
    | some m => s!"alive:{showNatList m.rcpts}:{m.attempts}"
  let b := if o.bounces.isEmpty then "-" else ";".intercalate (o.bounces.map fun b =>
    s!"{b.reply}:{showNatList b.rcpts}:{if b.tooMany then 1 else 0}")
  let f := if o.failed.isEmpty then "-" else ",".intercalate (o.failed.map fun (rc, r) => s!"{rc}={r}")
  let r := match o.retryIn with | none => "-" | some w => toString w
  s!"{m} b[{b}] d[{showNatList o.delivered}] f[{f}] r[{r}]"

def attemptOp (args : List String) : String :=
  match args with
  | ["run", snd, fac, bo, rc, outs] =>
    let backoffTab : List (Option Nat) := if bo == "-" then [] else (bo.splitOn ",").map fun x => x.toNat?
    match parseNatList rc, (if outs == "-" then some [] else (outs.splitOn "/").mapM parseOutcome) with
    | some rcpts, some os =>
      let cfg : Attempt.Cfg := {
        backoff := fun a => match backoffTab[a - 1]? with | some v => v | none => none
        senderNonEmpty := snd == "1", factoryBounces := fac == "1" }
      let rounds := Attempt.runHistory cfg (some ⟨rcpts, 0⟩) os
      if rounds.isEmpty then "-" else " | ".intercalate (rounds.map showStep)
    | _, _ => "bad-op"
  | _ => "bad-op"

end Slimta.Driver
