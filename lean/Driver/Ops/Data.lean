import Model.Data
import Driver.Util
namespace Slimta.Driver
open Slimta

def dataOp (args : List String) : String :=
  match args with
  | ["send", ps] =>
    match parseBytesList ps with
    | some parts => toHexOrDash (Data.send parts)
    | none => "bad-op"
  | ["run", ms, b, ss] =>
    match parseOptNat ms, ofHex b, parseBytesList ss with
    | some m, some buf0, some segs =>
      match Data.runLimited m buf0 segs with
      | .ok ⟨some d, rb, un⟩ => s!"ok {toHexOrDash d} {toHexOrDash rb} {toHexOrDash un.flatten}"
      | .ok ⟨none, rb, un⟩ => s!"toobig {toHexOrDash rb} {toHexOrDash un.flatten}"
      | .error .connectionLost => "err connectionLost"
      | .error .messageTooBig => "err messageTooBig"
      | .error .wouldBlock => "err wouldBlock"
    | _, _, _ => "bad-op"
  | _ => "bad-op"

end Slimta.Driver
