import Model.Wire
import Model.HttpHop
import Driver.Util
namespace Slimta.Driver
open Slimta

def natsOfBytes (b : Bytes) : List Nat := b.map (·.toNat)
def bytesOfNats (l : List Nat) : Bytes := l.map (fun n => UInt8.ofNat n)

def hexOrEmpty (w : String) : Option Bytes := if w == "-" then some [] else ofHex w
def showHex (b : Bytes) : String := if b.isEmpty then "-" else toHex b

def wireOp (args : List String) : String :=
  match args with
  | ["mail", addr, size] =>
    match hexOrEmpty addr with
    | some a => showHex (Wire.buildMail a (if size == "-" then none else some size.toUTF8.toList))
    | none => "bad-op"
  | ["rcpt", addr] =>
    match hexOrEmpty addr with
    | some a => showHex (Wire.buildRcpt a)
    | none => "bad-op"
  | ["hop", addr, rcpts, parts] =>
    match hexOrEmpty addr, parseBytesList rcpts, parseBytesList parts with
    | some a, some rs, some ps => showHex (Wire.hopBytes a rs ps)
    | _, _, _ => "bad-op"
  | ["httphop", ehlo, sender, rcpts, data] =>
    -- the request the HTTP relay writes, as the WSGI environ presents it, and what the edge makes of it
    match hexOrEmpty ehlo, hexOrEmpty sender, parseBytesList rcpts, hexOrEmpty data with
    | some e, some s, some rs, some d =>
      let env : HttpHop.Env := { ehlo := natsOfBytes e, sender := natsOfBytes s, rcpts := rs.map natsOfBytes, data := natsOfBytes d }
      let req := HttpHop.buildRequest env
      let g := fun n => match HttpHop.environGet req n with | some v => showHex (bytesOfNats v) | none => "none"
      let out := match HttpHop.edgeEnvelope [] req with
        | some o => showHex (bytesOfNats o.ehlo) ++ " " ++ showHex (bytesOfNats o.sender) ++ " " ++
            showBytesList (o.rcpts.map bytesOfNats) ++ " " ++ showHex (bytesOfNats o.data)
        | none => "error"
      "cl=" ++ g .contentLength ++ " ehlo=" ++ g .ehlo ++ " sender=" ++ g .sender ++ " rcpt=" ++ g .rcpt ++ " || " ++ out
    | _, _, _, _ => "bad-op"
  | ["edgeenv", dflt, opts, ehlo, sender, rcpts, data] =>
    -- a request that is NOT what the relay writes: no recipient header / no X-Ehlo header / a Content-Length shorter than the body
    -- (`opts`: comma-separated `norcpt`, `noehlo`, `cl=<n>`), and what the edge makes of it (`dflt`: the `[REMOTE_ADDR]` default)
    match hexOrEmpty dflt, hexOrEmpty ehlo, hexOrEmpty sender, parseBytesList rcpts, hexOrEmpty data with
    | some df, some e, some s, some rs, some d =>
      let env : HttpHop.Env := { ehlo := natsOfBytes e, sender := natsOfBytes s, rcpts := rs.map natsOfBytes, data := natsOfBytes d }
      let req0 := HttpHop.buildRequest env
      let os := opts.splitOn ","
      let hs1 := if os.contains "norcpt" then req0.headers.filter (fun h => !(h.1 == HttpHop.HName.rcpt)) else req0.headers
      let hs2 := if os.contains "noehlo" then hs1.filter (fun h => !(h.1 == HttpHop.HName.ehlo)) else hs1
      let hs3 := match os.find? (·.startsWith "cl=") with
        | some o => match (o.drop 3).toString.toNat? with
          | some n => hs2.map fun h => if h.1 == HttpHop.HName.contentLength then (h.1, HttpHop.decimal n) else h
          | none => hs2
        | none => hs2
      match HttpHop.edgeEnvelope (natsOfBytes df) { req0 with headers := hs3 } with
      | some o => showHex (bytesOfNats o.ehlo) ++ " " ++ showHex (bytesOfNats o.sender) ++ " " ++
          showBytesList (o.rcpts.map bytesOfNats) ++ " " ++ showHex (bytesOfNats o.data)
      | none => "error"
    | _, _, _, _, _ => "bad-op"
  | ["xreply", code, msg, cmd] =>
    match hexOrEmpty code, hexOrEmpty msg, (if cmd == "none" then some none else (hexOrEmpty cmd).map some) with
    | some c, some m, some k =>
      let h := Wire.buildXReply (natsOfBytes c) (natsOfBytes m) (k.map natsOfBytes)
      showHex (bytesOfNats h) ++ " " ++ (match Wire.parseXReplyCode h with | some x => showHex (bytesOfNats x) | none => "none")
    | _, _, _ => "bad-op"
  | ["parseaddr", kw, line] =>
    -- the server side: command line -> (command, address, rest)
    match hexOrEmpty line with
    | some l =>
      match Server.parseCommand l with
      | some (_, some arg) =>
        match Server.matchPrefix (if kw == "from" then Server.kwFROM else Server.kwTO) arg with
        | some afterLt =>
          match Server.splitAddr false afterLt with
          | some (a, rest) => "addr=" ++ showHex a ++ " rest=" ++ showHex rest
          | none => "501"
        | none => "501"
      | _ => "501"
    | none => "bad-op"
  | ["extline", name, param] =>
    match hexOrEmpty name, (if param == "none" then some none else (hexOrEmpty param).map some) with
    | some n, some p => showHex (Wire.buildExtLine n p)
    | _, _ => "bad-op"
  | ["parseext", line] =>
    match hexOrEmpty line with
    | some l => match Wire.parseExtLine l with
      | some (n, p) => showHex n ++ " " ++ (match p with | some v => showHex v | none => "none")
      | none => "nomatch"
    | none => "bad-op"
  | ["b64enc", d] =>
    match hexOrEmpty d with
    | some b => showHex (bytesOfNats (Wire.b64enc (natsOfBytes b)))
    | none => "bad-op"
  | ["b64dec", d] =>
    match hexOrEmpty d with
    | some b => match Wire.b64dec (natsOfBytes b) with
      | some r => showHex (bytesOfNats r)
      | none => "error"
    | none => "bad-op"
  | ["splitrcpts", d] =>
    match hexOrEmpty d with
    | some b => ",".intercalate ((Wire.splitTokens (natsOfBytes b)).map fun t => showHex (bytesOfNats t))
    | none => "bad-op"
  | _ => "bad-op"

end Slimta.Driver
