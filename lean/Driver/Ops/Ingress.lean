import Model.Ingress
import Driver.Ops.Policy
import Driver.Ops.Relay
import Driver.Ops.Edge
namespace Slimta.Driver
open Slimta

def parseW (w : String) : Option Ingress.W :=
  if w.startsWith "ok:" then (w.drop 3).toString.toNat?.map .ok
  else if w == "exc" then some .otherExc
  else if w == "qe" then some (.queueError none)
  else if w.startsWith "qe" then (w.drop 2).toString.toNat?.map fun c => .queueError (some c)
  else none

def showNats (l : List Nat) : String := if l.isEmpty then "-" else ",".intercalate (l.map toString)

/-- `ingress run <chain> <rcpts> <hdrs> <domt> <subt> <writes> <nonnull> <relay>`: one `Queue.enqueue` call on a fresh queue:
    what each edge answers, the envelopes of the policies, and — after the labels of the call have run through the composed
    queue machine — what the machine holds for every id the storage handed out and what was handed to the relay. -/
def ingressOp (args : List String) : String :=
  match args with
  | ["run", chain, rcpts, hdrs, domt, subt, writes, nn, relay] =>
    match policySetup chain rcpts hdrs domt subt, parseList parseW writes with
    | some (cfg, ps, e), some ws =>
      let c := Ingress.call cfg ps e ws 0 (nn == "1") (relay == "1")
      if ws.length != c.envs.length then s!"envelopes={c.envs.length}"
      else
        let ids := ws.filterMap fun | .ok id => some id | _ => none
        let head := s!"smtp={Ingress.smtpCode c} wsgi={Ingress.wsgiCode c} envs=" ++
          "|".intercalate (c.envs.map fun o => if o.rcpts.isEmpty then "-" else ",".intercalate (o.rcpts.map fun (sl, v) => s!"{sl}:{v}"))
        match QM.run true (QM.start [] (fun _ => []) (fun _ => true)) (Ingress.labels c) with
        | none => head ++ " stuck"
        | some q =>
          head ++ " stored=" ++ "|".intercalate (ids.map fun id =>
              s!"{id}=" ++ (match q.msgs id with | some m => showNats m.rcpts ++ s!"@{m.attempts}" | none => "none")) ++
            " handed=" ++ "|".intercalate (q.handed.reverse.map fun (id, r, a) => s!"{id}=" ++ showNats r ++ s!"@{a}") ++
            " active=" ++ showNats (ids.filter fun id => q.s.active.contains id)
    | _, _ => "bad-op"
  | ["httphop", n, ws] =>
    -- HttpRelay -> WsgiEdge -> Queue whose storage behaves as `ws`
    match n.toNat?, (ws.splitOn ",").mapM parseWrite with
    | some k, some l => showResult (Ingress.httpHop k l)
    | _, _ => "bad-op"
  | ["smtphop", n, ws] =>
    -- StaticSmtpRelay -> SmtpEdge -> Queue whose storage behaves as `ws`: the receiving server accepts every command and answers
    -- the message data with what the edge chooses from the enqueue results
    match n.toNat?, (ws.splitOn ",").mapM parseWrite with
    | some k, some l =>
      showResult (Relay.attempt {} { rcpts := List.replicate k (.code 250), eod := .code (Edge.smtpSees (Edge.enqueue l)) })
    | _, _ => "bad-op"
  | "proxyhop" :: rest =>
    -- edge -> ProxyQueue -> SMTP relay -> a next hop scripted as for `relay smtp`; error objects carry 550 / 450
    let (cfg, s) := relaySetup rest
    let r := Ingress.proxyHop (fun _ c => match c with | .perm => 550 | _ => 450) cfg s
    s!"smtp={Edge.smtpSees r} wsgi={Edge.wsgiSees r}"
  | _ => "bad-op"

end Slimta.Driver
