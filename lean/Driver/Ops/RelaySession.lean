import Model.RelaySession
import Driver.Util
namespace Slimta.Driver
open Slimta

def showCmd : RelaySession.Cmd → String
  | .mail => "mail" | .rcpt => "rcpt" | .data => "data" | .body => "body" | .empty => "empty" | .rset => "rset"

def parseAns (w : String) : Option RelaySession.Ans :=
  if w == "x" then some .broken else w.toNat?.map .code

/-- `relaysession session <lmtp> <pipelining> <n1,n2,..> <answers: code or x, comma separated, - = none>` -/
def relaySessionOp (args : List String) : String :=
  match args with
  | ["session", lmtp, pipe, ns, answers] =>
    match parseNatList ns, (if answers == "-" then some [] else (answers.splitOn ",").mapM parseAns) with
    | some nl, some al =>
      let cmds := RelaySession.session (lmtp == "1") (pipe == "1") nl al
      if cmds.isEmpty then "-" else ",".intercalate (cmds.map showCmd)
    | _, _ => "bad-op"
  | _ => "bad-op"

end Slimta.Driver
