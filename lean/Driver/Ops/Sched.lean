import Model.Sched
import Driver.Util
namespace Slimta.Driver
open Slimta

def sortNats (l : List Nat) : List Nat := (l.toArray.qsort (· < ·)).toList

def showPairs (l : List (Nat × Nat)) : String :=
  if l.isEmpty then "-" else ",".intercalate (l.map fun e => toString e.1 ++ ":" ++ toString e.2)

def showSched (s : Sched.State) : String :=
  "now=" ++ toString s.now ++ " q=" ++ showPairs s.queued ++ " ids=" ++ showNatList (sortNats s.queuedIds) ++
  " act=" ++ showNatList (sortNats s.active) ++
  " st=" ++ showPairs ((s.stored.toArray.qsort (fun a b => a.1 < b.1)).toList) ++
  " wake=" ++ (if s.wake then "1" else "0") ++
  " asleep=" ++ (match s.asleep with | none => "-" | some none => "inf" | some (some t) => toString t)

def parseCause (c : String) : Option Sched.Cause :=
  match c with | "s" => some .sched | "f" => some .flush | "e" => some .enqueue | _ => none

def parseSLabel (w : String) : Option Sched.Label :=
  let body := (w.drop 1).toString
  match w.front with
  | 'w' => match body.splitOn ":" with
    | [a, b] => match a.toNat?, b.toNat? with | some x, some y => some (.write x y) | _, _ => none
    | _ => none
  | 'A' => body.toNat?.map .activate
  | 'n' => match body.splitOn ":" with
    | [a, b] => match a.toNat?, b.toNat? with | some x, some y => some (.announce x y) | _, _ => none
    | _ => none
  | 't' => body.toNat?.map .tick
  | 's' => if body.isEmpty then some .sched else none
  | 'z' => if body.isEmpty then some .sleep else none
  | 'd' => match body.splitOn ":" with
    | [a, b] => match a.toNat?, parseCause b with | some x, some c => some (.dequeue x c) | _, _ => none
    | _ => none
  | 'D' => match body.splitOn ":" with
    | [a, b] => a.toNat?.map fun x => .done x (b == "1")
    | _ => none
  | 'r' => match body.splitOn ":" with
    | [a, b] => a.toNat?.bind fun x => if b == "-" then some (.retry x none) else b.toNat?.map fun y => .retry x (some y)
    | _ => none
  | 'R' => body.toNat?.map .remove
  | 'Q' => body.toNat?.map .requeue
  | 'f' => if body.isEmpty then some .flush else none
  | 'p' => if body.isEmpty then some .poke else none
  | _ => none

def showLog (s : Sched.State) : String :=
  if s.log.isEmpty then "-" else
  ",".intercalate (s.log.reverse.map fun (id, t, ts, c) =>
    toString id ++ "@" ++ toString t ++ ":" ++ toString ts ++ (match c with | .sched => "s" | .flush => "f" | .enqueue => "e"))

def schedRun : Sched.State → List (List String) → List String → String
  | s, [], acc => " / ".intercalate acc.reverse ++ " || log=" ++ showLog s
  | s, chunk :: rest, acc =>
    let rec go (s : Sched.State) (i : Nat) : List String → Sched.State ⊕ String
      | [] => .inl s
      | w :: ws => match parseSLabel w with
        | none => .inr ("bad-label:" ++ w)
        | some l => match Sched.step s l with
          | some s' => go s' (i + 1) ws
          | none => .inr ("disabled:" ++ toString acc.length ++ ":" ++ toString i ++ ":" ++ w ++ " at " ++ showSched s)
    match go s 0 chunk with
    | .inl s' => schedRun s' rest (showSched s' :: acc)
    | .inr e => " / ".intercalate (e :: acc).reverse

def schedOp (args : List String) : String :=
  match args with
  | ["run", pre, chunks] =>
    let cs := (chunks.splitOn "/").map fun c => if c == "-" then [] else c.splitOn ","
    -- messages already in storage when the queue starts: P<id>:<ts>
    let stored : List (Nat × Nat) := if pre == "-" then [] else (pre.splitOn ",").filterMap fun w =>
      match ((w.drop 1).toString).splitOn ":" with
      | [a, b] => match a.toNat?, b.toNat? with | some x, some y => some (x, y) | _, _ => none
      | _ => none
    schedRun { stored := stored } cs []
  | _ => "bad-op"

end Slimta.Driver
