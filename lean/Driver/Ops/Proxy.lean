import Model.Proxy
import Driver.Util
namespace Slimta.Driver
open Slimta

/-- `k=v;k=v` with hex keys; value `!` = rejected. Keys for the IP oracle are `4<hex>` / `6<hex>`. -/
def parseTable (s : String) : List (String × Option Bytes) :=
  if s == "-" then []
  else (s.splitOn ";").filterMap fun kv =>
    match kv.splitOn "=" with
    | [k, v] => if v == "!" then some (k, none) else (ofHex v).map fun b => (k, some b)
    | _ => none

def showAddr : Proxy.Addr → String
  | .none => "none"
  | .ip t p => s!"ip:{toHexOrDash t}:{p}"
  | .unix p => s!"unix:{toHexOrDash p}"

def proxyOp (args : List String) : String :=
  match args with
  | [mode, st, sh, ipt, n6t] =>
    match ofHex st, parseNatList sh with
    | some stream, some short =>
      let ipTab := parseTable ipt
      let n6Tab := parseTable n6t
      let ipo : Proxy.IpOracle := fun fam txt =>
        let key := (match fam with | .inet => "4" | .inet6 => "6") ++ toHexOrDash txt
        match ipTab.lookup key with
        | some v => v
        | none => none
      let ntop6 : Bytes → Bytes := fun b =>
        match n6Tab.lookup (toHexOrDash b) with
        | some (some v) => v
        | _ => []
      let sock : Proxy.Sock := ⟨stream, short⟩
      let res := match mode with
        | "v1" => some (Proxy.handleV1 ipo sock)
        | "v2" => some (Proxy.handleV2 ntop6 sock)
        | "auto" => some (Proxy.handle ipo ntop6 sock)
        | _ => none
      match res with
      | none => "bad-op"
      | some (out, s') =>
        let consumed := stream.length - s'.stream.length
        match out with
        | .drop => s!"drop {consumed}"
        | .proceed a => s!"proceed {showAddr a} {consumed}"
    | _, _ => "bad-op"
  | _ => "bad-op"

end Slimta.Driver
