import Model.DiskFS
import Driver.Util
namespace Slimta.Driver
open Slimta

def dots (s : String) : Option (List Nat) :=
  if s == "" || s == "-" then some [] else (s.splitOn ".").mapM String.toNat?

def parseDiskOp (s : String) : Option (DiskFS.Op × Nat × Nat) :=
  match s.splitOn ":" with
  | ["w", i, e, t, c1, c2] => do pure (.write (← i.toNat?) (← e.toNat?) (← t.toNat?), (← c1.toNat?), (← c2.toNat?))
  | ["t", i, t, c1] => do pure (.setTs (← i.toNat?) (← t.toNat?), (← c1.toNat?), 0)
  | ["i", i, c1] => do pure (.incr (← i.toNat?), (← c1.toNat?), 0)
  | ["d", i, l, c1] => do pure (.deliver (← i.toNat?) (← dots l), (← c1.toNat?), 0)
  | ["r", i] => do pure (.remove (← i.toNat?), 0, 0)
  | _ => none

def showRecover (fs : DiskFS.FS) (ids : List Nat) : String :=
  let items := ids.filterMap fun i =>
    match DiskFS.recover fs i with
    | some (e, m) => some s!"{i}:{e}:{m.ts}:{m.attempts}:{if m.delivered.isEmpty then "-" else ".".intercalate (m.delivered.map toString)}"
    | none => none
  if items.isEmpty then "-" else ",".intercalate items

def diskOp (args : List String) : String :=
  match args with
  | ["trace", ops] =>
    match (ops.splitOn ";").mapM parseDiskOp with
    | none => "bad-op"
    | some l =>
      let ids := (l.map fun (op, _, _) => op.id).eraseDups
      let (_, _, outs) := l.foldl (fun (acc : DiskFS.FS × Nat × List String) (op, c1, c2) =>
        let (fs, k, outs) := acc
        let es := DiskFS.effectsOf fs k c1 c2 op
        let points := (List.range (es.length + 1)).map fun n => showRecover (DiskFS.crashAt fs k c1 c2 op n) ids
        (DiskFS.applyAll fs es, k + 2, outs ++ [" | ".intercalate points])) ([], 0, [])
      " ;; ".intercalate outs
  | ["effects", ops] =>
    -- the file-system effects of every operation of a history, in order, with what they touch
    match (ops.splitOn ";").mapM parseDiskOp with
    | none => "bad-op"
    | some l =>
      let showPath : DiskFS.Path → String := fun | .env _ => "env" | .mfile _ => "meta" | .tmp _ => "tmp"
      let showEff : DiskFS.Effect → String := fun
        | .create _ => "create" | .append _ => "append" | .rename _ dst _ => "rename:" ++ showPath dst | .unlink p => "unlink:" ++ showPath p
      let (_, _, outs) := l.foldl (fun (acc : DiskFS.FS × Nat × List String) (op, c1, c2) =>
        let (fs, k, outs) := acc
        let es := DiskFS.effectsOf fs k c1 c2 op
        (DiskFS.applyAll fs es, k + 2, outs ++ [if es.isEmpty then "-" else ",".intercalate (es.map showEff)])) ([], 0, [])
      " ;; ".intercalate outs
  | _ => "bad-op"

end Slimta.Driver
