import Model.Relay
import Driver.Util
namespace Slimta.Driver
open Slimta

def parseOut (s : String) : Option Relay.Out :=
  match s with
  | "bad" => some .bad
  | "close" => some .close
  | "stall" => some .stall
  | _ => s.toNat?.map .code

def showCls : Relay.Cls → String
  | .ok => "ok" | .perm => "perm" | .temp => "temp"

def showResult : Relay.Result → String
  | .table l => "table:" ++ (if l.isEmpty then "-" else ",".intercalate (l.map showCls))
  | .raised c => "raised:" ++ showCls c

def kv (args : List String) (k : String) : Option String :=
  args.findSome? fun a => match a.splitOn "=" with
    | [k', v] => if k' == k then some v else none
    | _ => none

def relaySetup (rest : List String) : Relay.Cfg × Relay.Script :=
  let o (k : String) (d : Relay.Out) : Relay.Out := ((kv rest k).bind parseOut).getD d
  let b (k : String) (d : Bool) : Bool := match kv rest k with | some "1" => true | some "0" => false | _ => d
  let outs (k : String) : List Relay.Out := match kv rest k with
    | some v => if v == "-" then [] else (v.splitOn ",").filterMap parseOut
    | none => []
  let conn : Relay.Connect := match kv rest "connect" with | some "refused" => .refused | some "timeout" => .timeout | _ => .ok
  let s : Relay.Script := {
    connect := conn
    banner := o "banner" (.code 220)
    ehlo := o "ehlo" (.code 250)
    helo := o "helo" (.code 250)
    pipelining := b "pipelining" true
    offersTls := b "offerstls" false
    eightBit := b "eightbit" true
    smtputf8 := b "smtputf8" true
    starttls := o "starttls" (.code 220)
    ehlo2 := o "ehlo2" (.code 250)
    auth := o "auth" (.code 235)
    mail := o "mail" (.code 250)
    rcpts := outs "rcpts"
    data := o "data" (.code 354)
    eod := o "eod" (.code 250)
    eodPer := outs "eodper"
    rset := o "rset" (.code 250) }
  let cfg : Relay.Cfg := {
    lmtp := b "lmtp" false
    tlsRequired := b "tlsrequired" false
    credentials := b "credentials" false
    body8bit := b "body8bit" false
    hasEncoder := b "encoder" false
    utf8Addr := b "utf8addr" false }
  (cfg, s)

def relayOp (args : List String) : String :=
  match args with
  | "smtp" :: rest =>
    let (cfg, s) := relaySetup rest
    showResult (Relay.attempt cfg s)
  | ["pipe", per, outs] =>
    let l := (outs.splitOn ",").filterMap fun x => match x with
      | "exit0" => some Relay.PipeOut.exit0 | "fail5" => some .fail5xx | "fail" => some .failOther | "timeout" => some .timeout | "killed" => some .killed | _ => none
    showResult (Relay.pipeAttempt (per == "1") l)
  | ["http", n, what, status, hdr] =>
    match n.toNat? with
    | some nn =>
      let ho : Relay.HttpOut := match what with
        | "refused" => .refused | "timeout" => .timeout
        | _ => .response (status.toNat?.getD 0) hdr.toNat?
      showResult (Relay.httpAttempt nn ho)
    | none => "bad-op"
  | _ => "bad-op"

end Slimta.Driver
