import Model.Client
import Driver.Util
namespace Slimta.Driver
open Slimta

def parseMethod (s : String) : Option Client.Method :=
  match s with
  | "banner" => some .banner | "ehlo" => some .ehlo | "helo" => some .helo | "lhlo" => some .lhlo
  | "mail" => some .mail | "rcpt" => some .rcpt | "data" => some .data | "senddata" => some .sendData
  | "sendempty" => some .sendEmpty | "rset" => some .rset | "quit" => some .quit | "custom" => some .custom
  | "getreply" => some .getReply
  | _ => none

def clientOp (args : List String) : String :=
  match args with
  | ["run", lmtp, methods, buf, segs] =>
    match (if methods == "-" then some [] else (methods.splitOn ",").mapM parseMethod), ofHex buf, parseBytesList segs with
    | some ms, some b, some sg =>
      let s := Client.run { lmtp := lmtp == "1", buf := b, segs := sg } ms
      let f := if s.filled.isEmpty then "-" else ";".intercalate (s.filled.map fun (slot, c, t) => s!"{slot}:{toHexOrDash c}:{toHexOrDash t}")
      let ds := if s.dataSlots.isEmpty then "-" else "/".intercalate (s.dataSlots.map fun l => if l.isEmpty then "e" else showNatList l)
      s!"{f} | issued={s.next} pending={showNatList s.queue} pipelining={s.pipelining} data={ds} failed={s.failed.getD "-"} rest={toHexOrDash (s.buf ++ s.segs.flatten)}"
    | _, _, _ => "bad-op"
  | ["tls", lmtp, before, buf, segs, tls, after] =>
    -- methods, then STARTTLS (the TLS stream replaces the socket on 220), then more methods
    let pm := fun (m : String) => if m == "-" then some [] else (m.splitOn ",").mapM parseMethod
    match pm before, pm after, ofHex buf, parseBytesList segs, parseBytesList tls with
    | some ms, some ms2, some b, some sg, some tl =>
      let s0 := Client.run { lmtp := lmtp == "1", buf := b, segs := sg } ms
      let s := Client.run (Client.starttls s0 tl) ms2
      let f := if s.filled.isEmpty then "-" else ";".intercalate (s.filled.map fun (slot, c, t) => s!"{slot}:{toHexOrDash c}:{toHexOrDash t}")
      s!"{f} | issued={s.next} pending={showNatList s.queue} pipelining={s.pipelining} failed={s.failed.getD "-"} rest={toHexOrDash (s.buf ++ s.segs.flatten)}"
    | _, _, _, _, _ => "bad-op"
  | _ => "bad-op"

end Slimta.Driver
