import Model.QueueM
import Driver.Util
import Driver.Ops.Attempt
import Driver.Ops.Sched
namespace Slimta.Driver
open Slimta

def showDotsQ (l : List Nat) : String :=
  if l.isEmpty then "-" else ".".intercalate (l.map toString)

def parseDotsQ (s : String) : Option (List Nat) :=
  if s == "-" then some [] else (s.splitOn ".").mapM (·.toNat?)

/-- Labels of the composed machine: those of `sched run`, except
    `w<id>:<ts>:<r.r.r>:<0|1>` (recipients, non-empty sender) and `D<id>:<outcome>` (syntax of `attempt run`). -/
def parseQLabel (w : String) : Option QM.Label :=
  let body := (w.drop 1).toString
  match w.front with
  | 'w' => match body.splitOn ":" with
    | [a, b, c, d] => match a.toNat?, b.toNat?, parseDotsQ c with
      | some x, some y, some rs => some (.write x y rs (d == "1"))
      | _, _, _ => none
    | _ => none
  | 'D' => match body.splitOn ":" with
    | [a, b] => match a.toNat?, parseOutcome b with | some x, some o => some (.done x o) | _, _ => none
    | _ => none
  | _ => match parseSLabel w with
    | some (.activate id) => some (.activate id)
    | some (.announce id ts) => some (.announce id ts)
    | some (.tick dt) => some (.tick dt)
    | some .sched => some .sched
    | some .sleep => some .sleep
    | some (.dequeue id c) => some (.dequeue id c)
    | some (.retry id w) => some (.retry id w)
    | some (.requeue id) => some (.requeue id)
    | some (.remove id) => some (.remove id)
    | some .poke => some .poke
    | some .flush => some .flush
    | _ => none

def sortedIds (q : QM.State) : List Nat := sortNats (q.s.stored.map (·.1))

def showMsgs (q : QM.State) : String :=
  let items := (sortedIds q).filterMap fun id => (q.msgs id).map fun m => toString id ++ ":" ++ showDotsQ m.rcpts ++ ":" ++ toString m.attempts
  if items.isEmpty then "-" else ",".intercalate items

def showQM (q : QM.State) : String := showSched q.s ++ " m=" ++ showMsgs q

def showHanded (q : QM.State) : String :=
  if q.handed.isEmpty then "-" else
  ",".intercalate (q.handed.reverse.map fun (id, rs, a) => toString id ++ ":" ++ showDotsQ rs ++ ":" ++ toString a)

/-- Bounces asked for, per message (ids in `ids`), in the order they were asked for. -/
def showBounces (q : QM.State) (ids : List Nat) : String :=
  let items := ids.flatMap fun id => (q.bounces id).map fun b =>
    toString id ++ ":" ++ toString b.reply ++ ":" ++ showDotsQ b.rcpts ++ ":" ++ (if b.tooMany then "1" else "0")
  if items.isEmpty then "-" else ",".intercalate items

def showLedger (q : QM.State) (ids : List Nat) : String :=
  let items := ids.map fun id => toString id ++ ":" ++ showDotsQ (q.delivered id) ++ ":" ++
    showDotsQ ((q.failed id).map Prod.fst)
  if items.isEmpty then "-" else ",".intercalate items

def qmRun (fb : Bool) (ids : List Nat) : QM.State → List (List String) → List String → String
  | q, [], acc => " / ".intercalate acc.reverse ++ " || handed=" ++ showHanded q ++ " bounces=" ++ showBounces q ids ++
      " ledger=" ++ showLedger q ids
  | q, chunk :: rest, acc =>
    let rec go (q : QM.State) (i : Nat) : List String → QM.State ⊕ String
      | [] => .inl q
      | w :: ws => match parseQLabel w with
        | none => .inr ("bad-label:" ++ w)
        | some l => match QM.step fb q l with
          | some q' => go q' (i + 1) ws
          | none => .inr ("disabled:" ++ toString acc.length ++ ":" ++ toString i ++ ":" ++ w ++ " at " ++ showQM q)
    match go q 0 chunk with
    | .inl q' => qmRun fb ids q' rest (showQM q' :: acc)
    | .inr e => " / ".intercalate (e :: acc).reverse

def qmOp (args : List String) : String :=
  match args with
  | ["run", fb, idsS, pre, chunks] =>
    let cs := (chunks.splitOn "/").map fun c => if c == "-" then [] else c.splitOn ";"
    -- messages already in storage when the queue starts: P<id>:<ts>:<r.r.r>:<0|1>[:<attempts>]
    let pres : List (Nat × Nat × List Nat × Bool × Nat) := if pre == "-" then [] else (pre.splitOn ";").filterMap fun w =>
      match ((w.drop 1).toString).splitOn ":" with
      | [a, b, c, d] => match a.toNat?, b.toNat?, parseDotsQ c with
        | some x, some y, some rs => some (x, y, rs, d == "1", 0)
        | _, _, _ => none
      | [a, b, c, d, e] => match a.toNat?, b.toNat?, parseDotsQ c, e.toNat? with
        | some x, some y, some rs, some at0 => some (x, y, rs, d == "1", at0)     -- the attempt counter the storage holds
        | _, _, _, _ => none
      | _ => none
    let rc : Nat → List Nat := fun id => match pres.find? (·.1 == id) with | some e => e.2.2.1 | none => []
    let nn : Nat → Bool := fun id => match pres.find? (·.1 == id) with | some e => e.2.2.2.1 | none => true
    let att : Nat → Nat := fun id => match pres.find? (·.1 == id) with | some e => e.2.2.2.2 | none => 0
    match parseNatList idsS with
    | some ids => qmRun (fb == "1") ids (QM.startAt (pres.map fun e => (e.1, e.2.1)) rc nn att) cs []
    | none => "bad-op"
  | _ => "bad-op"

end Slimta.Driver
