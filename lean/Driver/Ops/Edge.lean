import Model.Edge
import Driver.Util
namespace Slimta.Driver
open Slimta

def parseWrite (w : String) : Option Edge.Write :=
  if w == "ok" then some .ok
  else if w == "exc" then some .otherExc
  else if w == "qe" then some (.queueError none)
  else if w.startsWith "qe" then (w.drop 2).toString.toNat?.map fun c => .queueError (some c)
  else none

def parseRelayOut (w : String) : Option Edge.RelayOut :=
  if w == "whole" then some .whole
  else if w.startsWith "raise" then (w.drop 5).toString.toNat?.map .raised
  else if w.startsWith "per:" then
    some (.perRcpt (((w.drop 4).toString.splitOn ".").map fun x => if x == "ok" then none else x.toNat?))
  else none

def edgeOp (args : List String) : String :=
  match args with
  | ["queue", ws] =>
    match (ws.splitOn ",").mapM parseWrite with
    | some l => let r := Edge.enqueue l
                "smtp=" ++ toString (Edge.smtpSees r) ++ " wsgi=" ++ toString (Edge.wsgiSees r)
    | none => "bad-op"
  | ["proxy", "crash"] =>
    -- relay._attempt raised something that is not a RelayError: ProxyQueue.enqueue lets it propagate, the edge answers 421 / 500
    "smtp=" ++ toString (Edge.smtpSees none) ++ " wsgi=" ++ toString (Edge.wsgiSees none)
  | ["proxy", o] =>
    match parseRelayOut o with
    | some ro => let r := some (Edge.proxyEnqueue ro)
                 "smtp=" ++ toString (Edge.smtpSees r) ++ " wsgi=" ++ toString (Edge.wsgiSees r)
    | none => "bad-op"
  | _ => "bad-op"

end Slimta.Driver
