import Model.Bounce
import Driver.Util
namespace Slimta.Driver
open Slimta

def showParts (ps : List Bounce.Part) : String :=
  if ps.isEmpty then "-" else ",".intercalate (ps.map fun p => match p with
    | .lit b => "L" ++ toHex b
    | .key k => "K" ++ toHex k)

def hexOpt (s : String) : Option (Option Bytes) :=
  if s == "-" then some none else (ofHex s).map some

def hx (s : String) : Option Bytes := if s == "_" then some [] else ofHex s

def showHx (b : Bytes) : String := if b.isEmpty then "_" else toHex b

/-- `bounce parse <template>` · `bounce format <remove:0|1> <template> <k=v,...>` · `bounce default` ·
    `bounce build <tplH|-> <tplF|-> sender rcpts client(-|name:ip) host(-|hex) code message cname cip proto boundary headersOnly origHeader origBody` -/
def bounceOp (args : List String) : String :=
  match args with
  | ["parse", t] => match hx t with
    | some b => showParts (Bounce.parseTemplate b)
    | none => "bad-op"
  | ["default"] => showParts Bounce.defaultHdr ++ " " ++ showParts Bounce.defaultFtr
  | ["format", rm, t, kv] =>
    let pairs : Option (List (Bytes × Bytes)) := if kv == "-" then some [] else
      (kv.splitOn ",").mapM fun w => match w.splitOn "=" with
        | [k, v] => do pure ((← hx k), (← hx v))
        | _ => none
    match hx t, pairs with
    | some b, some ps =>
      showHx (Bounce.format (rm == "1") (fun k => (ps.find? (·.1 == k)).map (·.2)) (Bounce.parseTemplate b))
    | _, _ => "bad-op"
  | ["build", th, tf, sender, rcpts, client, host, code, message, cname, cip, proto, boundary, ho, oh, ob] =>
    let cl : Option (Option (Bytes × Bytes)) := if client == "-" then some none else
      match client.splitOn ":" with
      | [n, ip] => do pure (some ((← hx n), (← hx ip)))
      | _ => none
    let res : Option String := do
      let hdr ← if th == "-" then some Bounce.defaultHdr else (hx th).map Bounce.parseTemplate
      let ftr ← if tf == "-" then some Bounce.defaultFtr else (hx tf).map Bounce.parseTemplate
      let c ← cl
      let h ← if host == "-" then some none else (hx host).map some
      let x : Bounce.Input := {
        sender := ← hx sender, rcpts := Bounce.joinRcpts (← (if rcpts == "-" then some [] else (rcpts.splitOn ",").mapM hx)),
        info := { client := c, host := h, code := ← hx code, message := ← hx message },
        clientName := ← hx cname, clientIp := ← hx cip, protocol := ← hx proto, boundary := ← hx boundary,
        headersOnly := ho == "1", origHeader := ← hx oh, origBody := ← hx ob }
      let (a, b) := Bounce.build hdr ftr x
      pure (showHx a ++ " " ++ showHx b ++ " " ++ showHx (Bounce.payload hdr ftr x))
    res.getD "bad-op"
  | _ => "bad-op"

end Slimta.Driver
