import Model.Envelope
import Driver.Util
namespace Slimta.Driver
open Slimta

def envelopeOp (args : List String) : String :=
  match args with
  | ["pf", d] =>
    match ofHex d with
    | some data =>
      let (h, b) := Envelope.parseFlatten data
      s!"{toHexOrDash h} {toHexOrDash b}"
    | none => "bad-op"
  | ["fields", d] =>
    match ofHex d with
    | some data =>
      let hd := match Envelope.findB data with | some (h, _) => h | none => data
      let fs := Envelope.fieldsOf hd []
      if fs.isEmpty then "-" else
        ";".intercalate (fs.map fun (n, ls) => toHexOrDash n ++ "=" ++ "|".intercalate (ls.map toHexOrDash))
    | none => "bad-op"
  | ["7bit", d] =>
    match ofHex d with
    | some body => match Envelope.encode7bitNoEncoder body with
      | some b => "ok " ++ toHexOrDash b
      | none => "unicode-error"
    | none => "bad-op"
  | _ => "bad-op"

end Slimta.Driver
