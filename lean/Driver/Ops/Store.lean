import Model.Store
import Driver.Util
namespace Slimta.Driver
open Slimta

def dotNats (s : String) : Option (List Nat) :=
  if s == "" || s == "-" then some [] else (s.splitOn ".").mapM String.toNat?

def showDots (l : List Nat) : String := if l.isEmpty then "-" else ".".intercalate (l.map toString)

def parseStoreOp (s : String) : Option Store.Op :=
  match s.splitOn ":" with
  | ["w", a, b, r, t] => do
    let a ← a.toNat?; let b ← b.toNat?; let r ← dotNats r; let t ← t.toNat?
    pure (.write a b r t)
  | ["t", i, t] => do pure (.setTs (← i.toNat?) (← t.toNat?))
  | ["i", i] => do pure (.incr (← i.toNat?))
  | ["d", i, l] => do pure (.deliver (← i.toNat?) (← dotNats l))
  | ["g", i] => do pure (.get (← i.toNat?))
  | ["r", i] => do pure (.remove (← i.toNat?))
  | ["l"] => some .load
  | _ => none

def showOut : Store.Out → String
  | .id i => s!"id:{i}"
  | .unit => "unit"
  | .attempts n => s!"att:{n}"
  | .env s c r a => s!"env:{s}:{c}:{showDots r}:{a}"
  | .listing l => "list:" ++ (if l.isEmpty then "-" else ",".intercalate (l.map fun (t, i) => s!"{t}={i}"))
  | .missing => "missing"

def storeOp (args : List String) : String :=
  match args with
  | [kind, ops] =>
    let k? : Option Store.Kind := match kind with | "inplace" => some .inplace | "accum" => some .accum | "redis" => some .redis | _ => none
    match k?, (if ops == "-" then some [] else (ops.splitOn ";").mapM parseStoreOp) with
    | some k, some l => let (_, outs) := Store.run k Store.init l
                        if outs.isEmpty then "-" else ";".intercalate (outs.map showOut)
    | _, _ => "bad-op"
  | _ => "bad-op"

end Slimta.Driver
