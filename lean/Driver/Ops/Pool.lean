import Model.Pool
import Driver.Util
namespace Slimta.Driver
open Slimta

def dotNatsP (s : String) : List Nat := if s.isEmpty then [] else (s.splitOn ".").filterMap (·.toNat?)

def parseDOp (w : String) : Option Pool.DOp :=
  if w == "p" then some .pop
  else if w == "pl" then some .popleft
  else if w == "c" then some .clear
  else if w.startsWith "al" then (w.drop 2).toString.toNat?.map .appendleft
  else if w.startsWith "el" then some (.extendleft (dotNatsP (w.drop 2).toString))
  else if w.startsWith "a" then (w.drop 1).toString.toNat?.map .append
  else if w.startsWith "e" then some (.extend (dotNatsP (w.drop 1).toString))
  else if w.startsWith "r" then (w.drop 1).toString.toNat?.map .remove
  else none

def showDOut : Pool.DOut → String
  | .unit => "u" | .val x => "v" ++ toString x | .wouldBlock => "block" | .indexError => "IndexError" | .valueError => "ValueError"

def showCSt : Pool.CSt → String
  | .ready ru => "R" ++ (if ru then "1" else "0")
  | .idle ru => "I" ++ (if ru then "1" else "0")
  | .busy r ru => "B" ++ toString r ++ ":" ++ (if ru then "1" else "0")
  | .exiting => "X"

def showPool (s : Pool.State) : String :=
  "c=" ++ (if s.clients.isEmpty then "-" else ".".intercalate (s.clients.map showCSt)) ++
  " q=" ++ showNatList s.queue ++ " r=" ++ showNatList (s.resulted.toArray.qsort (· < ·)).toList

def parseLabel (w : String) : Option Pool.Label :=
  let n := (w.drop 1).toString.toNat?
  match w.front, n with
  | 'a', some k => some (.attempt k)
  | 'p', some k => some (.poll k)
  | 'w', some k => some (.wake k)
  | 'x', some k => some (.expire k)
  | 'f', some k => some (.finish k)
  | 'F', some k => some (.fail k)
  | 'q', some k => some (.requeue k)
  | 'd', some k => some (.drop k)
  | 'u', some k => some (.unlink k)
  | _, _ => none

/-- chunks: returns the outputs so far and, on a disabled label, where. -/
def poolRun (rf : Bool) : Pool.State → List (List String) → List String → String
  | _, [], acc => " / ".intercalate acc.reverse
  | s, chunk :: rest, acc =>
    let rec go (s : Pool.State) (i : Nat) : List String → Pool.State ⊕ String
      | [] => .inl s
      | w :: ws => match parseLabel w with
        | none => .inr ("bad-label:" ++ w)
        | some l => match Pool.step rf s l with
          | some s' => go s' (i + 1) ws
          | none => .inr ("disabled:" ++ toString acc.length ++ ":" ++ toString i ++ ":" ++ w ++ " at " ++ showPool s)
    match go s 0 chunk with
    | .inl s' => poolRun rf s' rest (showPool s' :: acc)
    | .inr e => " / ".intercalate (e :: acc).reverse

def poolOp (args : List String) : String :=
  match args with
  | ["deque", ops] =>
    let ws := if ops == "-" then [] else ops.splitOn ","
    match ws.mapM parseDOp with
    | none => "bad-op"
    | some l =>
      let (d, outs) := l.foldl (fun (acc : Pool.BDeque × List String) op =>
        let (d', o) := acc.1.step op
        (d', showDOut o :: acc.2)) (({} : Pool.BDeque), [])
      ",".intercalate outs.reverse ++ " items=" ++ showNatList d.items ++ " sema=" ++ toString d.sema
  | ["run", size, reuse, rf, pers, chunks] =>
    match size.toNat? with
    | none => "bad-op"
    | some n =>
      let cs := (chunks.splitOn "/").map fun c => if c == "-" then [] else c.splitOn ","
      poolRun (rf == "1") (Pool.init n (reuse == "1") (pers == "1")) cs []
  | _ => "bad-op"

end Slimta.Driver
