import Model.Reply
import Driver.Util
namespace Slimta.Driver
open Slimta

def pyClasses : Reply.Classes where
  isD := fun c => let n := c.toNat
    (48 ≤ n && n ≤ 57) || (0x660 ≤ n && n ≤ 0x669) || (0x6f0 ≤ n && n ≤ 0x6f9)
  isS := fun c => let n := c.toNat
    (9 ≤ n && n ≤ 13) || (0x1c ≤ n && n ≤ 0x20) || n == 0x85 || n == 0xa0 || n == 0x1680 ||
    (0x2000 ≤ n && n ≤ 0x200a) || n == 0x2028 || n == 0x2029 || n == 0x202f || n == 0x205f || n == 0x3000

def parseText (s : String) : Option (List Char) :=
  (parseNatList s).map fun l => l.map Char.ofNat

def showText (t : Option (List Char)) : String :=
  match t with
  | none => "None"
  | some l => showNatList (l.map Char.toNat)

def replyOp (args : List String) : String :=
  match args with
  | ["encode", c, m] =>
    match ofHex c, ofHex m with
    | some code, some msg => toHexOrDash (Reply.encode code msg)
    | _, _ => "bad-op"
  | ["recv", b, ss] =>
    match ofHex b, parseBytesList ss with
    | some buf0, some segs =>
      match Reply.recvRun buf0 segs with
      | .ok r => s!"ok {toHexOrDash r.code} {toHexOrDash r.body} {toHexOrDash r.recvBuffer} {toHexOrDash r.unread.flatten}"
      | .error (.badReply, rb) => s!"err badReply {toHexOrDash rb}"
      | .error (.wouldBlock, _) => "err wouldBlock"
      | .error (.connectionLost, _) => "err connectionLost"
    | _, _ => "bad-op"
  | ["obj", c, m] =>
    match parseText c, parseText m with
    | some code, some msg =>
      let r := Reply.mk pyClasses code msg
      s!"msg={showText (Reply.getMessage r)} esc={showText (Reply.getEsc r)}"
    | _, _ => "bad-op"
  | ["objseq", ops] =>
    -- c:<codepoints> = assign code, m:<codepoints> = assign message, x = enhanced_status_code = False
    let step (r : Option Reply.R) (w : String) : Option Reply.R :=
      match r with
      | none => none
      | some r =>
        if w == "x" then some (Reply.escOff r)
        else match w.splitOn ":" with
          | ["c", t] => (parseText t).map (Reply.setCode r)
          | ["m", t] => (parseText t).map fun m => Reply.setMessage pyClasses r (some m)
          | _ => none
    match (ops.splitOn ";").foldl step (some { code := none, msg := none, esc := .none }) with
    | some r => s!"msg={showText (Reply.getMessage r)} esc={showText (Reply.getEsc r)}"
    | none => "bad-op"
  | _ => "bad-op"

end Slimta.Driver
