import Model.Mx
import Driver.Util
namespace Slimta.Driver
open Slimta

def parseMxAns (w : String) : Option (Mx.Ans (Nat × Nat)) :=
  if w == "nodata" then some .noData
  else if w == "notfound" then some .notFound
  else if w == "error" then some .error
  else if w == "r:" then some (.records [])
  else if w.startsWith "r:" then
    (((w.drop 2).toString.splitOn ",").mapM fun (x : String) => match x.splitOn "." with
      | [a, b] => match a.toNat?, b.toNat? with | some p, some h => some ((p, h) : Nat × Nat) | _, _ => none
      | _ => none).map Mx.Ans.records
  else none

def parseAAns (w : String) : Option (Mx.Ans Nat) :=
  if w == "nodata" then some .noData
  else if w == "notfound" then some .notFound
  else if w == "error" then some .error
  else if w.startsWith "r:" then ((w.drop 2).toString.toNat?).map fun n => Mx.Ans.records (List.replicate n 0)
  else none

def parseMxTtl (w : String) : Option (Mx.Ans (Nat × Nat × Nat)) :=
  if w == "nodata" then some .noData
  else if w == "notfound" then some .notFound
  else if w == "error" then some .error
  else if w == "r:" then some (.records [])
  else if w.startsWith "r:" then
    (((w.drop 2).toString.splitOn ",").mapM fun (x : String) => match x.splitOn "." with
      | [a, b, c] => match a.toNat?, b.toNat?, c.toNat? with
        | some p, some h, some t => some ((p, h, t) : Nat × Nat × Nat)
        | _, _, _ => none
      | _ => none).map Mx.Ans.records
  else none

def parseATtl (w : String) : Option (Mx.Ans Nat) :=
  if w == "nodata" then some .noData
  else if w == "notfound" then some .notFound
  else if w == "error" then some .error
  else if w == "r:" then some (.records [])
  else if w.startsWith "r:" then (((w.drop 2).toString.splitOn ",").mapM String.toNat?).map Mx.Ans.records
  else none

/-- `mx cache <step>/<step>/…` with step = `now;attempts;mx-answer;a-answer`: one `MxRecord` through a history of attempts. -/
def mxCache : Mx.Cache → List String → List String → String
  | _, [], acc => " / ".intercalate acc.reverse
  | c, st :: rest, acc =>
    match st.splitOn ";" with
    | [now, att, mx, a] =>
      match now.toNat?, att.toNat?, parseMxTtl mx, parseATtl a with
      | some n, some k, some m, some aa =>
        let (c', asked, o) := Mx.routeCached c n ⟨m, aa⟩ k
        let os := match o with | .deliverTo h => "deliver:" ++ toString h | .permanent => "perm" | .transient => "temp"
        mxCache c' rest (((if asked then "asked " else "cached ") ++ os) :: acc)
      | _, _, _, _ => "bad-op"
    | _ => "bad-op"

def mxOp (args : List String) : String :=
  match args with
  | ["cache", steps] => mxCache {} (steps.splitOn "/") []
  | ["route", hd, mx, a, att] =>
    match parseMxAns mx, parseAAns a, att.toNat? with
    | some m, some aa, some n =>
      match Mx.route (hd == "1") m aa n with
      | .deliverTo h => "deliver:" ++ toString h
      | .permanent => "perm"
      | .transient => "temp"
    | _, _, _ => "bad-op"
  | _ => "bad-op"

end Slimta.Driver
