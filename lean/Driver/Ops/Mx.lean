import Model.Mx
import Driver.Util
namespace Slimta.Driver
open Slimta

def parseMxAns (w : String) : Option (Mx.Ans (Nat × Nat)) :=
  if w == "nodata" then some .noData
  else if w == "notfound" then some .notFound
  else if w == "error" then some .error
  else if w == "r:" then some (.records [])
  else if w.startsWith "r:" then
    (((w.drop 2).toString.splitOn ",").mapM fun (x : String) => match x.splitOn "." with
      | [a, b] => match a.toNat?, b.toNat? with | some p, some h => some ((p, h) : Nat × Nat) | _, _ => none
      | _ => none).map Mx.Ans.records
  else none

def parseAAns (w : String) : Option (Mx.Ans Nat) :=
  if w == "nodata" then some .noData
  else if w == "notfound" then some .notFound
  else if w == "error" then some .error
  else if w.startsWith "r:" then ((w.drop 2).toString.toNat?).map fun n => Mx.Ans.records (List.replicate n 0)
  else none

def mxOp (args : List String) : String :=
  match args with
  | ["route", hd, mx, a, att] =>
    match parseMxAns mx, parseAAns a, att.toNat? with
    | some m, some aa, some n =>
      match Mx.route (hd == "1") m aa n with
      | .deliverTo h => "deliver:" ++ toString h
      | .permanent => "perm"
      | .transient => "temp"
    | _, _, _ => "bad-op"
  | _ => "bad-op"

end Slimta.Driver
