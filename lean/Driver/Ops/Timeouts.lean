import Model.Timeouts
import Driver.Util
namespace Slimta.Driver
open Slimta

def parseGaps (s : String) : List (Option Nat) :=
  if s == "-" then [] else (s.splitOn ",").map fun w => if w == "inf" then none else w.toNat?

def showEnding : Timeouts.Ending → String
  | .completed => "completed"
  | .timedOut k n => "timeout:" ++ toString k ++ ":" ++ toString n
  | .hung k => "hung:" ++ toString k

def parseServerStage (s : String) : Option Timeouts.ServerStage :=
  match s with
  | "tlsimmediate" => some .tlsImmediate | "command" => some .command | "data" => some .data
  | "authresponse" => some .authResponse | "starttlshandshake" => some .starttlsHandshake | "close" => some .close | _ => none

def parseRelayStage (s : String) : Option Timeouts.RelayStage :=
  match s with
  | "connect" => some .connect | "tlsimmediate" => some .tlsImmediate | "banner" => some .banner | "ehlo" => some .ehlo
  | "helo" => some .helo | "starttls" => some .starttls | "auth" => some .auth | "mail" => some .mail | "rcpt" => some .rcpt
  | "data" => some .data | "senddata" => some .sendData | "rset" => some .rset | "quit" => some .quit | "close" => some .close | "idlereply" => some .idleReply | _ => none

def showScope : Timeouts.Scope → String
  | .command => "command" | .data => "data" | .connect => "connect" | .single => "single" | .unscoped => "unscoped"

def serverStageName : Timeouts.ServerStage → String
  | .tlsImmediate => "tlsImmediate" | .command => "command" | .data => "data" | .authResponse => "authResponse"
  | .starttlsHandshake => "starttlsHandshake" | .close => "close"

def relayStageName : Timeouts.RelayStage → String
  | .connect => "connect" | .tlsImmediate => "tlsImmediate" | .banner => "banner" | .ehlo => "ehlo" | .helo => "helo"
  | .starttls => "starttls" | .auth => "auth" | .mail => "mail" | .rcpt => "rcpt" | .data => "data" | .sendData => "sendData"
  | .rset => "rset" | .quit => "quit" | .close => "close" | .idleReply => "idleReply"

def sortStrings (l : List String) : List String := (l.toArray.qsort (· < ·)).toList

/-- The model's scope table, in the format of harness/scopes.py. -/
def scopeTable : String :=
  let srv := sortStrings (Timeouts.allServerStages.map fun st => serverStageName st ++ "=" ++ showScope (Timeouts.serverScope st))
  let rel := sortStrings (Timeouts.allRelayStages.map fun st => relayStageName st ++ "=" ++ showScope (Timeouts.relayScope st))
  "server " ++ " ".intercalate srv ++ " | relay " ++ " ".intercalate rel ++
  " | pipe exec=" ++ showScope (Timeouts.otherScope .pipeExec) ++ " | http request=" ++ showScope (Timeouts.otherScope .httpRequest)

/-- `timeouts server|relay <command> <data> <connect> <single> <stage:gaps;stage:gaps;...>` -/
def timeoutsOp (args : List String) : String :=
  match args with
  | ["table"] => scopeTable
  | [who, c, d, cn, sg, steps] =>
    match c.toNat?, d.toNat?, cn.toNat?, sg.toNat? with
    | some c, some d, some cn, some sg =>
      let cfg : Timeouts.Cfg := { command := c, data := d, connect := cn, single := sg }
      let ws := (steps.splitOn ";").filterMap fun st =>
        match st.splitOn ":" with
        | [name, gaps] =>
          let scope : Option Timeouts.Scope :=
            if who == "server" then (parseServerStage name).map Timeouts.serverScope
            else if who == "relay" then (parseRelayStage name).map Timeouts.relayScope
            else if name == "single" then some .single else none
          scope.map fun sc => ({ scope := sc, gaps := parseGaps gaps } : Timeouts.Wait)
        | _ => none
      let (t, e) := Timeouts.runAll cfg 0 ws
      toString t ++ " " ++ showEnding e
    | _, _, _, _ => "bad-op"
  | _ => "bad-op"

end Slimta.Driver
