import Model.Policy
import Driver.Util
namespace Slimta.Driver
open Slimta

def parsePol (s : String) : Option Policy.Pol :=
  match s with
  | "S" => some .split
  | "D" => some .domainSplit
  | "A" => some .addDate
  | "M" => some .addMsgId
  | "R" => some .addReceived
  | "P" => some .peel
  | _ =>
    if s.startsWith "F" then
      let body := (s.drop 1).toString
      if body == "" then some (.forward [])
      else ((body.splitOn ".").mapM String.toNat?).map .forward
    else none

def parseHdr (s : String) : Option Policy.Hdr :=
  match s with
  | "d" => some .date
  | "m" => some .msgid
  | "r" => some .received
  | _ => if s.startsWith "o" then ((s.drop 1).toString.toNat?).map .other else none

def showHdr : Policy.Hdr → String
  | .date => "d" | .msgid => "m" | .received => "r" | .other k => s!"o{k}"

def parseList {α} (f : String → Option α) (s : String) : Option (List α) :=
  if s == "-" then some [] else (s.splitOn ",").mapM f

def policySetup (chain rcpts hdrs domt subt : String) : Option (Policy.Cfg × List Policy.Pol × Policy.Env) :=
  match parseList parsePol chain, parseNatList rcpts, parseList parseHdr hdrs with
  | some ps, some rv, some hs =>
    let domTab : List (Nat × Option Nat) :=
      if domt == "-" then [] else (domt.splitOn ";").filterMap fun kv =>
        match kv.splitOn "=" with
        | [k, v] => k.toNat?.map fun kk => (kk, v.toNat?)
        | _ => none
    let subTab : List ((Nat × Nat) × (Nat × Nat × Bool)) :=
      if subt == "-" then [] else (subt.splitOn ";").filterMap fun kv =>
        match kv.splitOn "=" with
        | [k, v] =>
          match k.splitOn ":", v.splitOn ":" with
          | [r, x], [nv, ch, ne] =>
            match r.toNat?, x.toNat?, nv.toNat?, ch.toNat? with
            | some r, some x, some nv, some ch => some ((r, x), (nv, ch, ne == "1"))
            | _, _, _, _ => none
          | _, _ => none
        | _ => none
    let cfg : Policy.Cfg := {
      domKey := fun v => match domTab.lookup v with | some r => r | none => none
      subn := fun r v => match subTab.lookup (r, v) with | some x => x | none => (v, 0, true) }
    let rc : List (Nat × Nat) := (List.range rv.length).zip rv
    let e : Policy.Env := { eid := 0, sender := 1, body := 2, rcpts := rc, hdrs := hs }
    some (cfg, ps, e)
  | _, _, _ => none

def policyOp (args : List String) : String :=
  match args with
  | ["run", chain, rcpts, hdrs, domt, subt] =>
    match policySetup chain rcpts hdrs domt subt with
    | some (cfg, ps, e) =>
      let out := Policy.runPolicies cfg ps e
      "|".intercalate (out.map fun o =>
        (if o.rcpts.isEmpty then "-" else ",".intercalate (o.rcpts.map fun (s, v) => s!"{s}:{v}")) ++ "/" ++
        (if o.hdrs.isEmpty then "-" else ",".intercalate (o.hdrs.map showHdr)) ++ s!"/{o.sender}/{o.body}")
    | none => "bad-op"
  | _ => "bad-op"

end Slimta.Driver
