import Driver.Util
-- one import per component (keep sorted; one line each so that merges stay trivial)
import Driver.Ops.Attempt
import Driver.Ops.Bounce
import Driver.Ops.Client
import Driver.Ops.Data
import Driver.Ops.Disk
import Driver.Ops.Edge
import Driver.Ops.Envelope
import Driver.Ops.Mx
import Driver.Ops.Policy
import Driver.Ops.Ingress
import Driver.Ops.Pool
import Driver.Ops.RelaySession
import Driver.Ops.Proxy
import Driver.Ops.QueueM
import Driver.Ops.Relay
import Driver.Ops.Reply
import Driver.Ops.Sched
import Driver.Ops.Server
import Driver.Ops.Store
import Driver.Ops.Timeouts
import Driver.Ops.Wire
open Slimta Slimta.Driver

def dispatch (line : String) : String :=
  match words line with
  | ["ping"] => "pong"
  -- one line per component
  | "attempt" :: rest => attemptOp rest
  | "bounce" :: rest => bounceOp rest
  | "client" :: rest => clientOp rest
  | "data" :: rest => dataOp rest
  | "disk" :: rest => diskOp rest
  | "edge" :: rest => edgeOp rest
  | "envelope" :: rest => envelopeOp rest
  | "mx" :: rest => mxOp rest
  | "policy" :: rest => policyOp rest
  | "ingress" :: rest => ingressOp rest
  | "pool" :: rest => poolOp rest
  | "relaysession" :: rest => relaySessionOp rest
  | "proxy" :: rest => proxyOp rest
  | "qm" :: rest => qmOp rest
  | "relay" :: rest => relayOp rest
  | "reply" :: rest => replyOp rest
  | "sched" :: rest => schedOp rest
  | "server" :: rest => serverOp rest
  | "store" :: rest => storeOp rest
  | "timeouts" :: rest => timeoutsOp rest
  | "wire" :: rest => wireOp rest
  | _ => "bad-op"
partial def loop (hin : IO.FS.Stream) (hout : IO.FS.Stream) : IO Unit := do
  let line ← hin.getLine
  if line.isEmpty then return ()
  let l := (line.dropEndWhile (fun c => c == '\n' || c == '\r')).toString
  if l == "flush" then
    hout.flush
  else
    hout.putStrLn (dispatch l)
  loop hin hout

def main : IO Unit := do
  let hin ← IO.getStdin
  let hout ← IO.getStdout
  loop hin hout
  hout.flush
