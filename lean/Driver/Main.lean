import Model.Bytes
import Model.Data
import Driver.Util
open Slimta Slimta.Driver

def dataOp (args : List String) : String :=
  match args with
  | ["send", ps] =>
    match parseBytesList ps with
    | some parts => toHexOrDash (Data.send parts)
    | none => "bad-op"
  | ["run", ms, b, ss] =>
    match parseOptNat ms, ofHex b, parseBytesList ss with
    | some m, some buf0, some segs =>
      match Data.run m buf0 segs with
      | .ok r => s!"ok {toHexOrDash r.data} {toHexOrDash r.recvBuffer} {toHexOrDash r.unread.flatten}"
      | .error .connectionLost => "err connectionLost"
      | .error .messageTooBig => "err messageTooBig"
      | .error .wouldBlock => "err wouldBlock"
    | _, _, _ => "bad-op"
  | _ => "bad-op"

def dispatch (line : String) : String :=
  match words line with
  | "data" :: rest => dataOp rest
  | ["ping"] => "pong"
  | _ => "bad-op"

partial def loop (hin : IO.FS.Stream) (hout : IO.FS.Stream) : IO Unit := do
  let line ← hin.getLine
  if line.isEmpty then return ()
  let l := (line.dropEndWhile (fun c => c == '\n' || c == '\r')).toString
  if l == "flush" then
    hout.flush
  else
    hout.putStrLn (dispatch l)
  loop hin hout

def main : IO Unit := do
  let hin ← IO.getStdin
  let hout ← IO.getStdout
  loop hin hout
  hout.flush
