import Model.Envelope
import Proofs.Lemmas.Reply
/-!
# C20 — Envelope parsing keeps the body byte-exact and the headers intact

Property theorems for the part of `Envelope.parse`/`flatten` that is slimta's own logic (the
header/body boundary, CRLF regeneration, the 8-bit refusal). CPython's `email` package is modelled
on the well-formed domain only and validated there by the correspondence campaign (partial).
-/
namespace Slimta.C20
open Slimta Slimta.Envelope

/-- One header line: content (no CR, no LF, at least one non-white-space byte — i.e. neither blank
    nor a white-space-only continuation line) and its line ending, LF or CRLF. -/
structure Line where
  content : Bytes
  eol : Bytes

def Line.WF (l : Line) : Prop :=
  (∀ b ∈ l.content, b ≠ 10 ∧ b ≠ 13) ∧ (∃ b ∈ l.content, isWs b = false) ∧ (l.eol = [10] ∨ l.eol = [13, 10])

def block (ls : List Line) : Bytes := (ls.map fun l => l.content ++ l.eol).flatten

theorem wsThenLF_content (c x : Bytes) (h1 : ∀ b ∈ c, b ≠ 10 ∧ b ≠ 13) (h2 : ∃ b ∈ c, isWs b = false) :
    wsThenLF (c ++ x) = none := by
  induction c with
  | nil => obtain ⟨b, hb, _⟩ := h2; simp at hb
  | cons a r ih =>
    have ha := h1 a (by simp)
    simp only [List.cons_append, wsThenLF]
    have : (a == 10) = false := by simp [ha.1]
    simp only [this, Bool.false_eq_true, if_false]
    by_cases hw : isWs a = true
    · simp only [hw, if_true]
      apply ih (fun b hb => h1 b (by simp [hb]))
      obtain ⟨b, hb, hbw⟩ := h2
      simp at hb
      rcases hb with rfl | hb
      · rw [hw] at hbw; simp at hbw
      · exact ⟨b, hb, hbw⟩
    · simp [hw]

theorem findB_content (c X : Bytes) (h1 : ∀ b ∈ c, b ≠ 10 ∧ b ≠ 13) :
    findB (c ++ X) = (findB X).map fun (h, p) => (c ++ h, p) := by
  induction c with
  | nil => cases hX : findB X <;> simp [hX]
  | cons a r ih =>
    have ha := h1 a (by simp)
    have ht : tryAt (a :: (r ++ X)) = none := by
      unfold tryAt
      split
      · rename_i heq; simp at heq; exact absurd heq.1 ha.2
      · rename_i heq; simp at heq; exact absurd heq.1 ha.1
      · rfl
    simp only [List.cons_append, findB, ht, ih (fun b hb => h1 b (by simp [hb]))]
    cases findB X <;> simp

theorem findB_eol_line (eol : Bytes) (he : eol = [10] ∨ eol = [13, 10]) (c Y : Bytes)
    (h1 : ∀ b ∈ c, b ≠ 10 ∧ b ≠ 13) (h2 : ∃ b ∈ c, isWs b = false) :
    findB (eol ++ (c ++ Y)) = (findB (c ++ Y)).map fun (h, p) => (eol ++ h, p) := by
  have hw := wsThenLF_content c Y h1 h2
  rcases he with rfl | rfl
  · simp only [List.cons_append, List.nil_append, findB, tryAt, hw]
    cases findB (c ++ Y) <;> simp
  · simp only [List.cons_append, List.nil_append, findB, tryAt, hw]
    cases findB (c ++ Y) <;> simp

theorem findB_eol_blank (eol nl body : Bytes) (he : eol = [10] ∨ eol = [13, 10])
    (hn : nl = [10] ∨ nl = [13, 10]) :
    findB (eol ++ (nl ++ body)) = some (eol ++ nl, body) := by
  have ht : ∀ k : Nat, ∀ (pre : Bytes), pre.length = k →
      List.take (pre.length + body.length - body.length) (pre ++ body) = pre := by
    intro k pre _; simp
  rcases he with rfl | rfl <;> rcases hn with rfl | rfl
  · have := ht 2 [10, 10] rfl
    simp [findB, tryAt, wsThenLF, isWs] at this ⊢
    simp [Nat.add_comm, Nat.add_left_comm]
  · have := ht 3 [10, 13, 10] rfl
    simp [findB, tryAt, wsThenLF, isWs] at this ⊢
    simp [Nat.add_comm, Nat.add_left_comm]
  · have := ht 3 [13, 10, 10] rfl
    simp [findB, tryAt, wsThenLF, isWs] at this ⊢
    simp [Nat.add_comm, Nat.add_left_comm]
  · have := ht 4 [13, 10, 13, 10] rfl
    simp [findB, tryAt, wsThenLF, isWs] at this ⊢
    simp [Nat.add_comm, Nat.add_left_comm]

/-- **The boundary is the first blank line, and nothing else.** For every well-formed header
    block, LF or CRLF (or mixed) line endings, and *every* body byte string, the header/body split
    is exact: header data = the block and the blank line, payload = the body bytes unchanged. -/
theorem boundary_exact (ls : List Line) (hne : ls ≠ []) (hwf : ∀ l ∈ ls, l.WF) (nl body : Bytes)
    (hn : nl = [10] ∨ nl = [13, 10]) :
    findB (block ls ++ (nl ++ body)) = some (block ls ++ nl, body) := by
  induction ls with
  | nil => exact absurd rfl hne
  | cons l rest ih =>
    obtain ⟨h1, h2, he⟩ := hwf l (by simp)
    cases rest with
    | nil =>
      simp only [block, List.map_cons, List.map_nil, List.flatten_cons, List.flatten_nil, List.append_nil,
        List.append_assoc]
      rw [findB_content _ _ h1, findB_eol_blank _ _ _ he hn]
      simp
    | cons l2 rest2 =>
      have ih' := ih (by simp) (fun x hx => hwf x (by simp [hx]))
      obtain ⟨g1, g2, _⟩ := hwf l2 (by simp)
      have e : block (l :: l2 :: rest2) ++ (nl ++ body)
          = l.content ++ (l.eol ++ (l2.content ++ (l2.eol ++ (block rest2 ++ (nl ++ body))))) := by
        simp [block, List.append_assoc]
      have e2 : block (l2 :: rest2) ++ (nl ++ body)
          = l2.content ++ (l2.eol ++ (block rest2 ++ (nl ++ body))) := by
        simp [block, List.append_assoc]
      rw [e, findB_content _ _ h1, findB_eol_line _ he _ _ g1 g2, ← e2, ih']
      simp [block, List.append_assoc]

/-- The same block with every line ending made CRLF. -/
def crlfLines (ls : List Line) : List Line := ls.map fun l => { l with eol := [13, 10] }

theorem normGo_block (ls : List Line) (hwf : ∀ l ∈ ls, l.WF) (x : Bytes) :
    normGo false (block ls ++ x) = block (crlfLines ls) ++ normGo false x := by
  induction ls with
  | nil => simp [block, crlfLines]
  | cons l rest ih =>
    obtain ⟨h1, h2, he⟩ := hwf l (by simp)
    have ih' := ih (fun y hy => hwf y (by simp [hy]))
    have hnl : ∀ b ∈ l.content, b ≠ 10 := fun b hb => (h1 b hb).1
    have hcr : (if l.content = [] then false else l.content.getLast? == some 13) = false := by
      by_cases hc : l.content = []
      · simp [hc]
      · simp only [hc, if_false]
        cases hl : l.content.getLast? with
        | none => simp
        | some v =>
          have := List.mem_of_getLast? hl
          have := (h1 v this).2
          simp [this]
    have e : block (l :: rest) ++ x = l.content ++ (l.eol ++ (block rest ++ x)) := by
      simp [block, List.append_assoc]
    have e' : block (crlfLines (l :: rest)) = l.content ++ ([13, 10] ++ block (crlfLines rest)) := by
      simp [block, crlfLines, List.append_assoc]
    rw [e, Reply.normGo_noLF _ hnl, hcr, e']
    rcases he with he | he <;> rw [he]
    · simp only [List.cons_append, List.nil_append, normGo]
      simp [ih', List.append_assoc]
    · simp only [List.cons_append, List.nil_append, normGo]
      simp [ih', List.append_assoc]

theorem crlfLines_wf (ls : List Line) (hwf : ∀ l ∈ ls, l.WF) : ∀ l ∈ crlfLines ls, l.WF := by
  intro l hl
  simp [crlfLines] at hl
  obtain ⟨l0, h0, rfl⟩ := hl
  obtain ⟨h1, h2, _⟩ := hwf l0 h0
  exact ⟨h1, h2, Or.inr rfl⟩

/-- **parse then flatten.** Header data = the original header block with every line ending turned
    into CRLF (same lines, same order, same content) plus the CRLF blank line; body = the original
    body bytes. -/
theorem parse_flatten (ls : List Line) (hne : ls ≠ []) (hwf : ∀ l ∈ ls, l.WF) (nl body : Bytes)
    (hn : nl = [10] ∨ nl = [13, 10]) :
    parseFlatten (block ls ++ (nl ++ body)) = (block (crlfLines ls) ++ [13, 10], body) := by
  unfold parseFlatten
  rw [boundary_exact ls hne hwf nl body hn]
  simp only [normCRLF]
  rw [normGo_block ls hwf nl]
  rcases hn with rfl | rfl <;> simp [normGo]

/-- **Re-parsing the flattened output is a fixed point.** -/
theorem reparse_fixed_point (ls : List Line) (hne : ls ≠ []) (hwf : ∀ l ∈ ls, l.WF) (nl body : Bytes)
    (hn : nl = [10] ∨ nl = [13, 10]) :
    let out := parseFlatten (block ls ++ (nl ++ body))
    parseFlatten (out.1 ++ out.2) = out := by
  simp only [parse_flatten ls hne hwf nl body hn]
  have hne' : crlfLines ls ≠ [] := by simpa [crlfLines] using hne
  have := parse_flatten (crlfLines ls) hne' (crlfLines_wf ls hwf) [13, 10] body (Or.inr rfl)
  rw [List.append_assoc, this]
  have hid : crlfLines (crlfLines ls) = crlfLines ls := by
    simp [crlfLines, Function.comp_def]
  rw [hid]

/-- **7-bit conversion without an encoder** refuses exactly the bodies that hold 8-bit data and
    leaves the others untouched. -/
theorem encode7bit_none (body : Bytes) :
    (isAscii body = false → encode7bitNoEncoder body = none) ∧
    (isAscii body = true → encode7bitNoEncoder body = some body) := by
  constructor <;> intro h <;> simp [encode7bitNoEncoder, h]

/-! ### non-vacuity -/

example : (⟨[83, 58, 32, 97], [10]⟩ : Line).WF ∧ (⟨[9, 98, 32], [13, 10]⟩ : Line).WF := by
  refine ⟨⟨by decide, ⟨83, by decide, by decide⟩, Or.inl rfl⟩, ⟨by decide, ⟨98, by decide, by decide⟩, Or.inr rfl⟩⟩

example : parseFlatten ([83, 58, 32, 97, 10, 9, 98, 32, 13, 10] ++ ([10] ++ [10, 0, 46, 13]))
    = ([83, 58, 32, 97, 13, 10, 9, 98, 32, 13, 10, 13, 10], [10, 0, 46, 13]) := by decide

end Slimta.C20
