import Model.Edge
import Model.Ingress
import Proofs.Lemmas.Ingress
import Proofs.C16
import Proofs.C01
import Proofs.C11
/-!
# C02 — an edge acknowledges a message only after custody of every recipient is taken

Theorems over `Model/Edge.lean`: the reply chosen by the SMTP and WSGI edges from *any* list of
enqueue results, `Queue.enqueue`'s result for any vector of write outcomes, `ProxyQueue.enqueue` for
any relay result, and the order of events (every write finished before the reply).
-/
namespace Slimta.C02
open Slimta.Edge

/-- Error objects carry error codes (a `QueueError.reply` / `RelayError.reply` is a 4xx or 5xx reply). -/
def ErrCode (c : Nat) : Prop := c / 100 = 4 ∨ c / 100 = 5

def ErrCodes (results : List Res) : Prop :=
  ∀ r ∈ results, match r with
    | .queueError (some c) => ErrCode c
    | .relayError c => ErrCode c
    | _ => True

theorem firstError_none {rs : List Res} : firstError rs = none ↔ ∀ r ∈ rs, r = .id := by
  induction rs with
  | nil => simp [firstError]
  | cons r rs ih =>
    cases r with
    | id => simp [firstError, ih]
    | queueError o => simp [firstError]
    | relayError c => simp [firstError]

theorem firstError_mem {rs : List Res} {r : Res} (h : firstError rs = some r) : r ∈ rs ∧ r ≠ .id := by
  induction rs with
  | nil => simp [firstError] at h
  | cons x xs ih =>
    cases x with
    | id => simp only [firstError] at h; exact ⟨List.mem_cons_of_mem _ (ih h).1, (ih h).2⟩
    | queueError o => simp only [firstError, Option.some.injEq] at h; subst h; simp
    | relayError c => simp only [firstError, Option.some.injEq] at h; subst h; simp

/-- The code sent for a failure is that failure's own 4xx/5xx code (451 when it carries none). -/
theorem replyCode_error {rs : List Res} {r : Res} (hc : ErrCodes rs) (h : firstError rs = some r) :
    ErrCode (replyCode (some r)) := by
  obtain ⟨hm, hne⟩ := firstError_mem h
  have := hc r hm
  cases r with
  | id => exact absurd rfl hne
  | queueError o =>
    cases o with
    | none => simp [replyCode, ErrCode]
    | some c => simpa [replyCode] using this
  | relayError c => simpa [replyCode] using this

/-- **SMTP: a 2xx reply to the end of DATA implies custody of every envelope.** -/
theorem smtp_ack_implies_custody (rs : List Res) (hc : ErrCodes rs) (h : smtpReply rs / 100 = 2) : ∀ r ∈ rs, r = .id := by
  cases hf : firstError rs with
  | none => exact firstError_none.mp hf
  | some r =>
    have := replyCode_error hc hf
    simp only [smtpReply, hf] at h
    unfold ErrCode at this; omega

theorem httpStatus_class (c : Nat) : httpStatus c / 100 = 2 ↔ c / 100 = 2 := by
  unfold httpStatus
  by_cases h2 : c / 100 = 2
  · simp [h2]
  · by_cases h4 : c / 100 = 4
    · simp [h4]
    · have e2 : (c / 100 == 2) = false := by simpa using h2
      have e4 : (c / 100 == 4) = false := by simpa using h4
      simp only [e2, e4, Bool.false_eq_true, if_false]
      split <;> simp [h2]

/-- **WSGI: a 2xx status implies custody of every envelope.** -/
theorem wsgi_ack_implies_custody (rs : List Res) (hc : ErrCodes rs) (h : wsgiStatus rs / 100 = 2) : ∀ r ∈ rs, r = .id :=
  smtp_ack_implies_custody rs hc ((httpStatus_class _).mp h)

/-- **Any failed write or relay is reported**: the SMTP reply is 4xx/5xx, the HTTP status 4xx/5xx. -/
theorem failure_is_reported (rs : List Res) (hc : ErrCodes rs) (r : Res) (hr : r ∈ rs) (hne : r ≠ .id) :
    ErrCode (smtpReply rs) ∧ (wsgiStatus rs / 100 = 4 ∨ wsgiStatus rs / 100 = 5) := by
  cases hf : firstError rs with
  | none => exact absurd (firstError_none.mp hf r hr) hne
  | some e =>
    have he := replyCode_error hc hf
    have hs : smtpReply rs = replyCode (some e) := by simp [smtpReply, hf]
    refine ⟨hs ▸ he, ?_⟩
    simp only [wsgiStatus, hs]
    unfold ErrCode at he
    unfold httpStatus
    rcases he with h4 | h5
    · have e2 : (replyCode (some e) / 100 == 2) = false := by simp [h4]
      simp [e2, h4]
    · have e2 : (replyCode (some e) / 100 == 2) = false := by simp [h5]
      have e4 : (replyCode (some e) / 100 == 4) = false := by simp [h5]
      simp only [e2, e4, Bool.false_eq_true, if_false]
      split <;> simp

/-- `Queue.enqueue`: every result is an id exactly when every write succeeded; another exception
    propagates and the client sees 421 / 500. -/
theorem enqueue_all_ids (ws : List Write) (rs : List Res) (h : enqueue ws = some rs) :
    (∀ r ∈ rs, r = .id) ↔ ∀ w ∈ ws, w = .ok := by
  simp only [enqueue] at h
  split at h
  · simp at h
  · rename_i hno
    simp only [Option.some.injEq] at h; subst h
    simp only [List.mem_map, forall_exists_index, and_imp, forall_apply_eq_imp_iff₂]
    constructor
    · intro hall w hw
      have := hall w hw
      cases w with
      | ok => rfl
      | queueError r => simp at this
      | otherExc => exfalso; apply hno; simpa using hw
    · intro hall w hw; rw [hall w hw]

theorem enqueue_exception (ws : List Write) (h : enqueue ws = none) : smtpSees (enqueue ws) = 421 ∧ wsgiSees (enqueue ws) = 500 := by
  simp [h, smtpSees, wsgiSees]

def WriteErrCodes (ws : List Write) : Prop := ∀ w ∈ ws, match w with | .queueError (some c) => ErrCode c | _ => True

theorem enqueue_errcodes (ws : List Write) (rs : List Res) (hw : WriteErrCodes ws) (h : enqueue ws = some rs) : ErrCodes rs := by
  simp only [enqueue] at h
  split at h
  · simp at h
  · simp only [Option.some.injEq] at h; subst h
    intro r hr
    obtain ⟨w, hwm, rfl⟩ := List.mem_map.mp hr
    have := hw w hwm
    cases w with
    | ok => trivial
    | queueError o => cases o <;> simpa using this
    | otherExc => trivial

/-- **End to end (Queue)**: whatever the write outcomes, a 2xx to the client of either edge means
    that every envelope of the message was written. -/
theorem queue_ack_means_all_written (ws : List Write) (hw : WriteErrCodes ws)
    (h : smtpSees (enqueue ws) / 100 = 2 ∨ wsgiSees (enqueue ws) / 100 = 2) : ∀ w ∈ ws, w = .ok := by
  cases he : enqueue ws with
  | none => simp [he, smtpSees, wsgiSees] at h
  | some rs =>
    have hc := enqueue_errcodes ws rs hw he
    rw [← enqueue_all_ids ws rs he]
    simp only [he, smtpSees, wsgiSees] at h
    rcases h with h | h
    · exact smtp_ack_implies_custody rs hc h
    · exact wsgi_ack_implies_custody rs hc h

/-- **ProxyQueue**: the result is an id exactly when the relay delivered to every recipient. -/
theorem proxy_id_iff (o : RelayOut) :
    proxyEnqueue o = [.id] ↔ (o = .whole ∨ ∃ l, o = .perRcpt l ∧ ∀ x ∈ l, x = none) := by
  cases o with
  | whole => simp [proxyEnqueue]
  | raised c => simp [proxyEnqueue]
  | perRcpt l =>
    simp only [proxyEnqueue, reduceCtorEq, RelayOut.perRcpt.injEq, exists_eq_left', false_or]
    cases hf : l.find? Option.isSome with
    | none =>
      simp only [true_iff]
      intro x hx
      have := List.find?_eq_none.mp hf x hx
      cases x <;> simp at this ⊢
    | some y =>
      have hy := List.find?_some hf
      have hm := List.mem_of_find?_eq_some hf
      cases y with
      | none => simp at hy
      | some c =>
        simp only [List.cons.injEq, reduceCtorEq, and_true, false_iff]
        intro hall
        have := hall _ hm
        simp at this

theorem proxy_ack_means_all_delivered (o : RelayOut)
    (hcodes : match o with | .raised c => ErrCode c | .perRcpt l => ∀ c, some c ∈ l → ErrCode c | .whole => True)
    (h : smtpSees (some (proxyEnqueue o)) / 100 = 2 ∨ wsgiSees (some (proxyEnqueue o)) / 100 = 2) :
    o = .whole ∨ ∃ l, o = .perRcpt l ∧ ∀ x ∈ l, x = none := by
  rw [← proxy_id_iff]
  have hc : ErrCodes (proxyEnqueue o) := by
    intro r hr
    cases o with
    | whole => simp [proxyEnqueue] at hr; subst hr; trivial
    | raised c => simp [proxyEnqueue] at hr; subst hr; exact hcodes
    | perRcpt l =>
      simp only [proxyEnqueue] at hr
      cases hf : l.find? Option.isSome with
      | none => simp [hf] at hr; subst hr; trivial
      | some y =>
        cases y with
        | none => simp [hf] at hr; subst hr; trivial
        | some c =>
          simp [hf] at hr; subst hr
          exact hcodes c (List.mem_of_find?_eq_some hf)
  have hall : ∀ r ∈ proxyEnqueue o, r = .id := by
    simp only [smtpSees, wsgiSees] at h
    rcases h with h | h
    · exact smtp_ack_implies_custody _ hc h
    · exact wsgi_ack_implies_custody _ hc h
  cases o with
  | whole => rfl
  | raised c => have := hall (.relayError c) (by simp [proxyEnqueue]); simp at this
  | perRcpt l =>
    simp only [proxyEnqueue] at hall ⊢
    cases hf : l.find? Option.isSome with
    | none => rfl
    | some y =>
      cases y with
      | none => rfl
      | some c => have := hall (.relayError c) (by simp [hf]); simp at this

/-! ## No reply before every write has completed -/

inductive EnqReach (n : Nat) : EnqState → Prop
  | init : EnqReach n (enqInit n)
  | step {s s' : EnqState} {l : EnqLabel} : EnqReach n s → enqStep n s l = some s' → EnqReach n s'

/-- **No early acknowledgement**: in every reachable state of `Queue.enqueue`'s event order, once a
    reply has been sent no write is pending, and every one of the `n` writes has its result. -/
theorem no_reply_before_writes_complete (n : Nat) (s : EnqState) (h : EnqReach n s) :
    (∀ i, i < n → i ∈ s.pending ∨ ∃ w, (i, w) ∈ s.results) ∧ (s.replied.isSome → s.pending = []) := by
  induction h with
  | init => simp [enqInit]
  | @step s1 s2 l _ hs ih =>
    cases l
    case writeDone i w =>
      simp only [enqStep] at hs
      split at hs
      · simp only [Option.some.injEq] at hs; subst hs
        refine ⟨fun j hj => ?_, fun hr => ?_⟩
        · by_cases hji : j = i
          · subst hji; exact Or.inr ⟨w, by simp⟩
          · rcases ih.1 j hj with hp | ⟨w', hw'⟩
            · exact Or.inl (by simp [List.mem_filter, hp, hji])
            · exact Or.inr ⟨w', List.mem_cons_of_mem _ hw'⟩
        · have := ih.2 hr
          simp [this]
      · simp at hs
    case reply =>
      simp only [enqStep] at hs
      split at hs
      · rename_i hc
        simp only [Option.some.injEq] at hs; subst hs
        simp only [Bool.and_eq_true, List.isEmpty_iff] at hc
        exact ⟨ih.1, fun _ => hc.1⟩
      · simp at hs

/-! ## One `Queue.enqueue` call, end to end: policies, storage writes, the reply, the queue machine

`Model/Ingress.lean` composes the three models an accepted message crosses: `Policy.runPolicies` (C16) produces the envelopes,
every successful `store.write` is a `write` step of the composed queue machine `Model/QueueM.lean` (C01 / C12), and the edge
chooses its reply from the result list (`Model/Edge.lean`). The statements below quantify over every policy chain, every
envelope, every vector of write outcomes AND every history of the queue machine in which the writes of the call have happened
— whatever else the queue did before, in between and after (other enqueues, scheduler turns, attempts, retries, removals). -/
section composed
open Slimta.QM Slimta.Ingress Slimta.Policy
open Slimta.Attempt (Rcpt)
open Slimta.Sched (sIds)

theorem writeLabels_mem (now : Nat) (nn : Bool) : ∀ (es : List Policy.Env) (ws : List W) (k : Nat) (hk : k < es.length) (id : Nat),
    ws[k]? = some (.ok id) → Label.write id now (rcptsOf es[k]) nn ∈ writeLabels now nn es ws
  | [], _, k, hk, _, _ => by simp at hk
  | e :: es, [], k, _, _, h => by simp at h
  | e :: es, w :: ws, 0, _, id, h => by
    simp only [List.getElem?_cons_zero, Option.some.injEq] at h; subst h
    simp [writeLabels]
  | e :: es, w :: ws, k + 1, hk, id, h => by
    have ih := writeLabels_mem now nn es ws k (by simpa using hk) id (by simpa using h)
    cases w <;> simp [writeLabels, ih]

/-- A success reply of either edge means the storage took every envelope the policies produced. -/
theorem ack_means_every_write_ok (c : Call) (hw : WriteErrCodes (c.ws.map W.toWrite))
    (hack : smtpCode c / 100 = 2 ∨ wsgiCode c / 100 = 2) : ∀ w ∈ c.ws, ∃ id, w = .ok id := by
  have h := queue_ack_means_all_written (c.ws.map W.toWrite) hw hack
  intro w hm
  have := h w.toWrite (List.mem_map_of_mem hm)
  cases w with
  | ok id => exact ⟨id, rfl⟩
  | queueError r => simp [W.toWrite] at this
  | otherExc => simp [W.toWrite] at this

/-- The policies put no recipient into two envelopes (C16 for an envelope whose recipient positions are distinct, as they are). -/
theorem no_recipient_in_two_envelopes (cfg : Cfg) (ps : List Pol) (e : Policy.Env) (hn : (slots e).Nodup) :
    (slotsOf (runPolicies cfg ps e)).Nodup :=
  (C16.recipients_conserved cfg ps e).nodup_iff.mpr hn

variable {fb : Bool} {pre : List (Nat × Nat)} {rc : Nat → List Rcpt} {nn0 : Nat → Bool} {att : Nat → Nat}

/-- **Acknowledged means in custody, recipient by recipient** (the property, over the composition): for every policy chain,
    envelope and vector of write outcomes (one per envelope the policies produced) — if the SMTP edge answers 2xx or the HTTP edge
    a 2xx status, then in every state of every history of the queue machine in which this call's writes have happened, every
    recipient of the message as the edge received it belongs to a message the storage took in this call, known to the queue
    machine with exactly the recipients of one of the policies' envelopes. -/
theorem ack_means_custody_of_every_recipient (cfg : Cfg) (ps : List Pol) (e : Policy.Env) (ws : List W) (now : Nat)
    (nn relay : Bool)
    (hlen : ws.length = (runPolicies cfg ps e).length)
    (hw : WriteErrCodes (ws.map W.toWrite))
    (hack : smtpCode (call cfg ps e ws now nn relay) / 100 = 2 ∨ wsgiCode (call cfg ps e ws now nn relay) / 100 = 2)
    {q0 q : State} {ls : List Label} (hr : ReachT fb q0 ls q)
    (hdone : ∀ l ∈ writeLabels now nn (runPolicies cfg ps e) ws, l ∈ ls)
    (x : Nat) (hx : x ∈ slots e) :
    ∃ id env, W.ok id ∈ ws ∧ env ∈ runPolicies cfg ps e ∧ x ∈ slots env ∧ q.orig id = some (slots env) ∧ q.nonNull id = nn := by
  have hall := ack_means_every_write_ok (call cfg ps e ws now nn relay) hw hack
  have hx' : x ∈ slotsOf (runPolicies cfg ps e) := (C16.recipients_conserved cfg ps e).mem_iff.mpr hx
  simp only [slotsOf, List.mem_flatMap] at hx'
  obtain ⟨env, henv, hxe⟩ := hx'
  obtain ⟨k, hk, hke⟩ := List.getElem_of_mem henv
  have hk' : k < ws.length := by omega
  obtain ⟨id, hid⟩ := hall ws[k] (List.getElem_mem hk')
  have hget : ws[k]? = some (.ok id) := by rw [List.getElem?_eq_getElem hk', hid]
  have hl := hdone _ (writeLabels_mem now nn _ ws k hk id hget)
  obtain ⟨ho, hnn, _⟩ := write_recorded hr hl
  refine ⟨id, env, ?_, henv, hxe, ?_, hnn⟩
  · rw [← hid]; exact List.getElem_mem hk'
  · rw [ho, hke]; rfl

/-- **… and from then on it is never lost** (C02 ∘ C16 ∘ C01): under the hypotheses above, in every later state of a history that
    began with a queue on a storage holding any messages, every recipient of the acknowledged message is reported delivered, or
    failed for good (and named in a bounce that quotes its reply when bounces are produced), or outstanding in a stored message
    that has a next step — counted in exactly one of the three. -/
theorem acknowledged_recipient_never_lost (cfg : Cfg) (ps : List Pol) (e : Policy.Env) (ws : List W) (now : Nat)
    (nn relay : Bool)
    (hlen : ws.length = (runPolicies cfg ps e).length)
    (hw : WriteErrCodes (ws.map W.toWrite))
    (hack : smtpCode (call cfg ps e ws now nn relay) / 100 = 2 ∨ wsgiCode (call cfg ps e ws now nn relay) / 100 = 2)
    (hpre : (pre.map (·.1)).Nodup) (hrc : ∀ id ∈ pre.map (·.1), (rc id).Nodup)
    {q : State} {ls : List Label} (hr : ReachT fb (startAt pre rc nn0 att) ls q)
    (hdone : ∀ l ∈ writeLabels now nn (runPolicies cfg ps e) ws, l ∈ ls)
    (x : Nat) (hx : x ∈ slots e) :
    ∃ id, W.ok id ∈ ws ∧
      (q.delivered id).count x + ((q.failed id).map Prod.fst).count x + (outstanding q.s.rem q id).count x = 1 ∧
      (x ∈ q.delivered id ∨
       (∃ rp, (x, rp) ∈ q.failed id ∧ ((fb && nn) = true → ∃ b ∈ q.bounces id, b.reply = rp ∧ x ∈ b.rcpts)) ∨
       (x ∈ outstanding q.s.rem q id ∧ id ∈ sIds q.s ∧ (id ∈ q.s.known → C12.Whereabouts q.s id))) := by
  obtain ⟨id, env, hid, _, hxe, ho, hnn⟩ :=
    ack_means_custody_of_every_recipient cfg ps e ws now nn relay hlen hw hack hr hdone x hx
  refine ⟨id, hid, C01.one_disposition hpre hrc hr.reach id _ ho x hxe, ?_⟩
  have := C01.accepted_never_lost hpre hrc hr.reach id _ ho x hxe
  rw [hnn] at this
  exact this

/-- The labels of an enqueue call ask nothing of the environment (no announcement, no relay answer among them) … -/
theorem labels_quiet (c : Call) : ∀ l ∈ labels c, quiet l := by
  intro l hl
  simp only [labels, List.mem_append] at hl
  rcases hl with h | h
  · -- a write label
    have : ∀ (es : List Policy.Env) (ws : List W), l ∈ writeLabels c.now c.nonNull es ws → quiet l := by
      intro es
      induction es with
      | nil => intro ws h; cases ws <;> simp [writeLabels] at h
      | cons e es ih =>
        intro ws h
        cases ws with
        | nil => simp [writeLabels] at h
        | cons w ws =>
          cases w with
          | ok id =>
            simp only [writeLabels, List.mem_cons] at h
            rcases h with rfl | h
            · trivial
            · exact ih ws h
          | queueError r => simp only [writeLabels] at h; exact ih ws h
          | otherExc => simp only [writeLabels] at h; exact ih ws h
    exact this _ _ h
  · split at h
    · have : ∀ (ws : List W), l ∈ handoffLabels ws → quiet l := by
        intro ws
        induction ws with
        | nil => intro h; simp [handoffLabels] at h
        | cons w ws ih =>
          intro h
          cases w with
          | ok id =>
            simp only [handoffLabels, List.mem_cons] at h
            rcases h with rfl | h
            · trivial
            · exact ih h
          | queueError r => simp only [handoffLabels] at h; exact ih h
          | otherExc => simp [handoffLabels] at h
      exact this _ h
    · simp at h

/-- … so a run of the machine over them, from any state a history has reached, is a history: the composed statements above apply
    to `Queue.enqueue` as it runs when nothing else happens in between, with `ls ++ labels c` as the history. -/
theorem enqueue_call_is_a_history {q0 q1 q : State} {ls : List Label} (c : Call) (h : ReachT fb q0 ls q1)
    (hrun : QM.run fb q1 (labels c) = some q) : ReachT fb q0 (ls ++ labels c) q :=
  reachT_of_run (labels c) ls q1 q h (labels_quiet c) hrun

/-! non-vacuity: a message for three recipients in two domains through the domain split, both writes taken, hand-offs made -/
def demoCfg : Cfg := { domKey := fun v => some (v % 2), subn := fun _ v => (v, 0, true) }
def demoEnv : Policy.Env := { eid := 0, sender := 1, body := 2, rcpts := [(0, 10), (1, 11), (2, 12)], hdrs := [] }
def demoCall : Call := call demoCfg [.domainSplit] demoEnv [.ok 7, .ok 8] 0 true true

example : (runPolicies demoCfg [.domainSplit] demoEnv).map slots = [[0, 2], [1]] := by decide
example : smtpCode demoCall = 250 ∧ wsgiCode demoCall = 204 ∧
    labels demoCall = [.write 7 0 [0, 2] true, .write 8 0 [1] true, .activate 7, .activate 8] := by decide
example : ((QM.run true (QM.start [] (fun _ => []) (fun _ => true)) (labels demoCall)).map fun q =>
    (q.orig 7, q.orig 8, q.handed)) = some (some [0, 2], some [1], [(8, [1], 0), (7, [0, 2], 0)]) := by rfl
example : smtpCode (call demoCfg [.domainSplit] demoEnv [.ok 7, .queueError none] 0 true true) = 451 ∧
    wsgiCode (call demoCfg [.domainSplit] demoEnv [.ok 7, .otherExc] 0 true true) = 500 ∧
    labels (call demoCfg [.domainSplit] demoEnv [.otherExc, .ok 8] 0 true true) = [.write 8 0 [1] true] := by decide
/-- the hypotheses of `acknowledged_recipient_never_lost` are met by that run -/
example : ∃ q, ReachT true (QM.start [] (fun _ => []) (fun _ => true)) (labels demoCall) q ∧
    ∀ l ∈ writeLabels 0 true (runPolicies demoCfg [.domainSplit] demoEnv) [.ok 7, .ok 8], l ∈ labels demoCall := by
  have hsome : (QM.run true (QM.start [] (fun _ => []) (fun _ => true)) (labels demoCall)).isSome = true := by rfl
  obtain ⟨q, hq⟩ := Option.isSome_iff_exists.mp hsome
  refine ⟨q, ?_, by decide⟩
  have hl : labels demoCall = [.write 7 0 [0, 2] true, .write 8 0 [1] true, .activate 7, .activate 8] := by decide
  have hquiet : ∀ l ∈ labels demoCall, quiet l := by
    intro l hm
    rw [hl] at hm
    simp only [List.mem_cons, List.not_mem_nil, or_false] at hm
    rcases hm with rfl | rfl | rfl | rfl <;> trivial
  have := reachT_of_run (fb := true) (labels demoCall) [] _ q ReachT.init hquiet hq
  simpa using this

end composed

/-! ## Edge → ProxyQueue → SMTP relay → next hop (C02 ∘ C11) -/
section proxyhop
open Slimta.Ingress Slimta.Relay

theorem zipIdx_all_none {l : List Cls} {code : Nat → Cls → Nat}
    (h : ∀ x ∈ l.zipIdx.map (fun (c, i) => match c with | Cls.ok => (none : Option Nat) | c => some (code i c)), x = none) :
    ∀ c ∈ l, c = .ok := by
  intro c hc
  obtain ⟨i, hi, rfl⟩ := List.getElem_of_mem hc
  have hm : (l[i], i) ∈ l.zipIdx := by
    rw [List.mem_zipIdx_iff_getElem?]; simp [hi]
  have := h _ (List.mem_map_of_mem hm)
  cases hci : l[i] with
  | ok => rfl
  | perm => simp [hci] at this
  | temp => simp [hci] at this

/-- **A proxied message is acknowledged only if the next hop took it for everybody**: for every behaviour of the next hop, every
    relay configuration and whatever codes the relay's error objects carry (4xx / 5xx) — if the client of the SMTP edge gets a 2xx, or
    the client of the HTTP edge a 2xx status, the connection was made, the handshake completed, and the next hop gave non-error
    replies to MAIL, to the RCPT of every recipient, to DATA and to the message data. -/
theorem proxy_hop_ack_means_next_hop_accepted (code : Nat → Cls → Nat) (hcode : ∀ i c, ErrCode (code i c))
    (cfg : Relay.Cfg) (hl : cfg.lmtp = false) (s : Script) (hne : s.rcpts ≠ [])
    (hack : smtpSees (proxyHop code cfg s) / 100 = 2 ∨ wsgiSees (proxyHop code cfg s) / 100 = 2) :
    s.connect = .ok ∧ handshake cfg s = none ∧
    (∃ c, s.eod = .code c ∧ isError c = false) ∧ (∃ c, s.data = .code c ∧ isError c = false) ∧
    (∃ c, s.mail = .code c ∧ isError c = false) ∧
    ∀ i, i < s.rcpts.length → ∃ c, s.rcpts[i]? = some (.code c) ∧ isError c = false := by
  have h := proxy_ack_means_all_delivered (relayOutOf code (attempt cfg s))
    (by cases hr : attempt cfg s with
        | table l =>
          simp only [relayOutOf]
          intro c hc
          obtain ⟨⟨cl, i⟩, _, he⟩ := List.mem_map.mp hc
          cases cl <;> simp at he <;> (rw [← he]; exact hcode _ _)
        | raised c => exact hcode 0 c) hack
  cases hr : attempt cfg s with
  | raised c => rw [hr] at h; simp [relayOutOf] at h
  | table l =>
    rw [hr] at h
    simp only [relayOutOf, reduceCtorEq, RelayOut.perRcpt.injEq, exists_eq_left', false_or] at h
    have hok := zipIdx_all_none h
    have hlen := C11.attempt_answers_everyone cfg s l hr
    have hcls : ∀ i, i < s.rcpts.length → C11.clsOf (attempt cfg s) i = some .ok := by
      intro i hi
      rw [hr]
      have hi' : i < l.length := by omega
      simp only [C11.clsOf, List.getElem?_eq_getElem hi']
      rw [hok _ (List.getElem_mem hi')]
    have hpos : 0 < s.rcpts.length := List.length_pos_iff.mpr hne
    have h0 := C11.attempt_delivered_only_if_accepted cfg hl s 0 (hcls 0 hpos)
    refine ⟨h0.1, h0.2.1, h0.2.2.2.1, h0.2.2.2.2.1, h0.2.2.2.2.2, fun i hi => ?_⟩
    exact (C11.attempt_delivered_only_if_accepted cfg hl s i (hcls i hi)).2.2.1

/-- non-vacuity: the second of two recipients refused with 550 → 550 / 500; everybody accepted → 250 / 204 -/
example : smtpSees (proxyHop (fun _ c => if c = .perm then 550 else 450) {} { rcpts := [.code 250, .code 550] }) = 550 ∧
    wsgiSees (proxyHop (fun _ c => if c = .perm then 550 else 450) {} { rcpts := [.code 250, .code 550] }) = 500 ∧
    smtpSees (proxyHop (fun _ c => if c = .perm then 550 else 450) {} { rcpts := [.code 250, .code 250] }) = 250 ∧
    wsgiSees (proxyHop (fun _ c => if c = .perm then 550 else 450) {} { rcpts := [.code 250, .code 250] }) = 204 := by decide

end proxyhop

/-! ## HttpRelay → WsgiEdge → Queue (C11 ∘ C02): the hop between two hosts that speak HTTP -/
section httphop
open Slimta.Ingress Slimta.Relay

/-- **Delivered over HTTP means in custody on the other side**: for every vector of write outcomes on the receiving host, if the
    HTTP relay on the sending host reports the message delivered (to anybody), every envelope of it was written there. -/
theorem http_hop_delivered_means_custody (n : Nat) (ws : List Write) (hw : WriteErrCodes ws) (l : List Cls)
    (h : httpHop n ws = .table l) : ∀ w ∈ ws, w = .ok := by
  obtain ⟨st, hdr, ho, hst⟩ := C11.http_delivered_only_on_2xx n _ l h
  apply queue_ack_means_all_written ws hw
  right
  cases he : enqueue ws with
  | none => simp [wsgiResponse, he] at ho; omega
  | some rs =>
    simp only [wsgiResponse, he, HttpOut.response.injEq] at ho
    simp only [wsgiSees, ho.1, hst]

/-- **The class of a failure survives the hop**: a write that fails with a `QueueError` makes the sending relay raise the class of
    the reply the edge chose (4xx: transient — the message is retried, not bounced; 5xx: permanent), and an exception on the
    receiving host (a bare 500) is a transient failure. -/
theorem http_hop_failure_class (n : Nat) (ws : List Write) (hw : WriteErrCodes ws) :
    (∀ rs r, enqueue ws = some rs → firstError rs = some r → httpHop n ws = .raised (factory (replyCode (some r)))) ∧
    (enqueue ws = none → httpHop n ws = .raised .temp) := by
  constructor
  · intro rs r he hf
    have hc := enqueue_errcodes ws rs hw he
    have hcode := replyCode_error hc hf
    simp only [httpHop, wsgiResponse, he, httpAttempt, wsgiStatus, smtpReply, hf]
    have hne : ¬ (httpStatus (replyCode (some r)) / 100 = 2) := by
      rw [httpStatus_class]
      rcases hcode with h | h <;> omega
    simp [hne]
  · intro he
    simp [httpHop, wsgiResponse, he, httpAttempt]

example : httpHop 2 [.ok, .queueError (some 452)] = .raised .temp ∧ httpHop 2 [.ok, .queueError (some 552)] = .raised .perm ∧
    httpHop 2 [.ok, .queueError none] = .raised .temp ∧ httpHop 2 [.ok, .otherExc] = .raised .temp ∧
    httpHop 2 [.ok, .ok] = .table [.ok, .ok] := by decide

end httphop

/-! ## SMTP relay → SMTP edge → Queue (C11 ∘ C02): the hop between two hosts that speak SMTP -/
section smtphop
open Slimta.Relay

/-- What the SMTP edge says to the end of DATA is 250, an error code, or the 421 of an exception: a reply the relay client does not
    take for an error is a 2xx. -/
theorem smtpSees_non_error (ws : List Write) (hw : WriteErrCodes ws) (h : isError (smtpSees (enqueue ws)) = false) :
    smtpSees (enqueue ws) / 100 = 2 := by
  cases he : enqueue ws with
  | none => simp [he, smtpSees, isError] at h
  | some rs =>
    simp only [he, smtpSees] at h ⊢
    cases hf : firstError rs with
    | none => simp [smtpReply, hf, replyCode]
    | some r =>
      have := replyCode_error (enqueue_errcodes ws rs hw he) hf
      simp only [smtpReply, hf, isError] at h
      unfold ErrCode at this
      rcases this with h4 | h5
      · simp [h4] at h
      · simp [h5] at h

/-- **Delivered over SMTP means in custody on the other side**: for every behaviour of the receiving server up to the end of DATA, if
    its reply to the message data is the one the SMTP edge chooses from the enqueue results (`Edge.smtpSees`), then a recipient the
    sending relay reports delivered has its message written on the receiving host — every envelope of it. -/
theorem smtp_hop_delivered_means_custody (cfg : Relay.Cfg) (hl : cfg.lmtp = false) (s : Script) (ws : List Write)
    (hw : WriteErrCodes ws) (heod : s.eod = .code (smtpSees (enqueue ws))) (i : Nat)
    (hi : C11.clsOf (attempt cfg s) i = some .ok) : ∀ w ∈ ws, w = .ok := by
  obtain ⟨_, _, _, ⟨c, hc, hne⟩, _, _⟩ := C11.attempt_delivered_only_if_accepted cfg hl s i hi
  rw [heod] at hc
  simp only [Out.code.injEq] at hc
  subst hc
  exact queue_ack_means_all_written ws hw (Or.inl (smtpSees_non_error ws hw hne))

example : C11.clsOf (attempt {} { rcpts := [.code 250, .code 250], eod := .code (smtpSees (enqueue [.ok, .ok])) }) 1 = some .ok ∧
    C11.clsOf (attempt {} { rcpts := [.code 250, .code 250], eod := .code (smtpSees (enqueue [.ok, .queueError (some 452)])) }) 1 = some .temp := by
  decide

end smtphop

/-! ## Two hosts: delivered on the sending side means never lost on the receiving side (C11 ∘ C02 ∘ C16 ∘ C01) -/
section twohosts
open Slimta.QM Slimta.Ingress Slimta.Policy Slimta.Relay
open Slimta.Attempt (Rcpt)
open Slimta.Sched (sIds)

theorem all_ok_smtp_250 (ws : List Write) (h : ∀ w ∈ ws, w = .ok) : smtpSees (enqueue ws) = 250 := by
  cases he : enqueue ws with
  | none =>
    exfalso
    simp only [enqueue] at he
    split at he
    · rename_i hc
      have hm : Write.otherExc ∈ ws := by simpa using hc
      have := h _ hm
      simp at this
    · simp at he
  | some rs =>
    have hids := (enqueue_all_ids ws rs he).mpr h
    have hfe : firstError rs = none := firstError_none.mpr hids
    simp [smtpSees, smtpReply, hfe, replyCode]

variable {fb : Bool} {pre : List (Nat × Nat)} {rc : Nat → List Rcpt} {nn0 : Nat → Bool} {att : Nat → Nat}

/-- **A message the sending host's relay reports delivered is never lost by the receiving host's queue**: host A's SMTP relay talks
    to host B's SMTP edge, whose reply to the message data is chosen from B's enqueue results. If A's relay reports some recipient
    delivered, then — in every state of every history of B's queue machine in which the writes of that enqueue call have happened —
    every recipient of the message as B's edge received it is delivered, failed for good (and bounced when bounces are produced) or
    outstanding with a next step on B, counted in exactly one of the three. -/
theorem delivered_upstream_never_lost_downstream (rcfg : Relay.Cfg) (hl : rcfg.lmtp = false) (s : Script)
    (cfg : Policy.Cfg) (ps : List Pol) (e : Policy.Env) (ws : List W) (now : Nat) (nn relay : Bool)
    (hlen : ws.length = (runPolicies cfg ps e).length)
    (hw : WriteErrCodes (ws.map W.toWrite))
    (heod : s.eod = .code (smtpCode (call cfg ps e ws now nn relay)))
    (i : Nat) (hi : C11.clsOf (attempt rcfg s) i = some .ok)
    (hpre : (pre.map (·.1)).Nodup) (hrc : ∀ id ∈ pre.map (·.1), (rc id).Nodup)
    {q : State} {ls : List Label} (hr : ReachT fb (startAt pre rc nn0 att) ls q)
    (hdone : ∀ l ∈ writeLabels now nn (runPolicies cfg ps e) ws, l ∈ ls)
    (x : Nat) (hx : x ∈ slots e) :
    ∃ id, W.ok id ∈ ws ∧
      (q.delivered id).count x + ((q.failed id).map Prod.fst).count x + (outstanding q.s.rem q id).count x = 1 ∧
      (x ∈ q.delivered id ∨
       (∃ rp, (x, rp) ∈ q.failed id ∧ ((fb && nn) = true → ∃ b ∈ q.bounces id, b.reply = rp ∧ x ∈ b.rcpts)) ∨
       (x ∈ outstanding q.s.rem q id ∧ id ∈ sIds q.s ∧ (id ∈ q.s.known → C12.Whereabouts q.s id))) := by
  have hall := smtp_hop_delivered_means_custody rcfg hl s (ws.map W.toWrite) hw heod i hi
  have hack : smtpCode (call cfg ps e ws now nn relay) / 100 = 2 := by
    show smtpSees (enqueue (ws.map W.toWrite)) / 100 = 2
    rw [all_ok_smtp_250 _ hall]
  exact acknowledged_recipient_never_lost cfg ps e ws now nn relay hlen hw (Or.inl hack) hpre hrc hr hdone x hx

/-- … and the same over HTTP: what host A's `HttpRelay` reports delivered to host B's `WsgiEdge` is never lost by B's queue. -/
theorem delivered_over_http_never_lost_downstream (n : Nat) (l : List Cls)
    (cfg : Policy.Cfg) (ps : List Pol) (e : Policy.Env) (ws : List W) (now : Nat) (nn relay : Bool)
    (hlen : ws.length = (runPolicies cfg ps e).length)
    (hw : WriteErrCodes (ws.map W.toWrite))
    (hdel : httpHop n (ws.map W.toWrite) = .table l)
    (hpre : (pre.map (·.1)).Nodup) (hrc : ∀ id ∈ pre.map (·.1), (rc id).Nodup)
    {q : State} {ls : List Label} (hr : ReachT fb (startAt pre rc nn0 att) ls q)
    (hdone : ∀ l ∈ writeLabels now nn (runPolicies cfg ps e) ws, l ∈ ls)
    (x : Nat) (hx : x ∈ slots e) :
    ∃ id, W.ok id ∈ ws ∧
      (q.delivered id).count x + ((q.failed id).map Prod.fst).count x + (outstanding q.s.rem q id).count x = 1 ∧
      (x ∈ q.delivered id ∨
       (∃ rp, (x, rp) ∈ q.failed id ∧ ((fb && nn) = true → ∃ b ∈ q.bounces id, b.reply = rp ∧ x ∈ b.rcpts)) ∨
       (x ∈ outstanding q.s.rem q id ∧ id ∈ sIds q.s ∧ (id ∈ q.s.known → C12.Whereabouts q.s id))) := by
  have hall := http_hop_delivered_means_custody n (ws.map W.toWrite) hw l hdel
  have hack : smtpCode (call cfg ps e ws now nn relay) / 100 = 2 := by
    show smtpSees (enqueue (ws.map W.toWrite)) / 100 = 2
    rw [all_ok_smtp_250 _ hall]
  exact acknowledged_recipient_never_lost cfg ps e ws now nn relay hlen hw (Or.inl hack) hpre hrc hr hdone x hx

end twohosts

/-! Non-vacuity -/
example : smtpReply [.id, .queueError none, .id] = 451 ∧ wsgiStatus [.id, .queueError (some 552)] = 500 ∧
    smtpReply [.id, .id] = 250 := by decide
example : proxyEnqueue (.perRcpt [none, some 550, none]) = [.relayError 550] := by decide

end Slimta.C02
