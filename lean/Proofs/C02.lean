import Model.Edge
/-!
# C02 — an edge acknowledges a message only after custody of every recipient is taken

Theorems over `Model/Edge.lean`: the reply chosen by the SMTP and WSGI edges from *any* list of
enqueue results, `Queue.enqueue`'s result for any vector of write outcomes, `ProxyQueue.enqueue` for
any relay result, and the order of events (every write finished before the reply).
-/
namespace Slimta.C02
open Slimta.Edge

/-- Error objects carry error codes (a `QueueError.reply` / `RelayError.reply` is a 4xx or 5xx reply). -/
def ErrCode (c : Nat) : Prop := c / 100 = 4 ∨ c / 100 = 5

def ErrCodes (results : List Res) : Prop :=
  ∀ r ∈ results, match r with
    | .queueError (some c) => ErrCode c
    | .relayError c => ErrCode c
    | _ => True

theorem firstError_none {rs : List Res} : firstError rs = none ↔ ∀ r ∈ rs, r = .id := by
  induction rs with
  | nil => simp [firstError]
  | cons r rs ih =>
    cases r with
    | id => simp [firstError, ih]
    | queueError o => simp [firstError]
    | relayError c => simp [firstError]

theorem firstError_mem {rs : List Res} {r : Res} (h : firstError rs = some r) : r ∈ rs ∧ r ≠ .id := by
  induction rs with
  | nil => simp [firstError] at h
  | cons x xs ih =>
    cases x with
    | id => simp only [firstError] at h; exact ⟨List.mem_cons_of_mem _ (ih h).1, (ih h).2⟩
    | queueError o => simp only [firstError, Option.some.injEq] at h; subst h; simp
    | relayError c => simp only [firstError, Option.some.injEq] at h; subst h; simp

/-- The code sent for a failure is that failure's own 4xx/5xx code (451 when it carries none). -/
theorem replyCode_error {rs : List Res} {r : Res} (hc : ErrCodes rs) (h : firstError rs = some r) :
    ErrCode (replyCode (some r)) := by
  obtain ⟨hm, hne⟩ := firstError_mem h
  have := hc r hm
  cases r with
  | id => exact absurd rfl hne
  | queueError o =>
    cases o with
    | none => simp [replyCode, ErrCode]
    | some c => simpa [replyCode] using this
  | relayError c => simpa [replyCode] using this

/-- **SMTP: a 2xx reply to the end of DATA implies custody of every envelope.** -/
theorem smtp_ack_implies_custody (rs : List Res) (hc : ErrCodes rs) (h : smtpReply rs / 100 = 2) : ∀ r ∈ rs, r = .id := by
  cases hf : firstError rs with
  | none => exact firstError_none.mp hf
  | some r =>
    have := replyCode_error hc hf
    simp only [smtpReply, hf] at h
    unfold ErrCode at this; omega

theorem httpStatus_class (c : Nat) : httpStatus c / 100 = 2 ↔ c / 100 = 2 := by
  unfold httpStatus
  by_cases h2 : c / 100 = 2
  · simp [h2]
  · by_cases h4 : c / 100 = 4
    · simp [h4]
    · have e2 : (c / 100 == 2) = false := by simpa using h2
      have e4 : (c / 100 == 4) = false := by simpa using h4
      simp only [e2, e4, Bool.false_eq_true, if_false]
      split <;> simp [h2]

/-- **WSGI: a 2xx status implies custody of every envelope.** -/
theorem wsgi_ack_implies_custody (rs : List Res) (hc : ErrCodes rs) (h : wsgiStatus rs / 100 = 2) : ∀ r ∈ rs, r = .id :=
  smtp_ack_implies_custody rs hc ((httpStatus_class _).mp h)

/-- **Any failed write or relay is reported**: the SMTP reply is 4xx/5xx, the HTTP status 4xx/5xx. -/
theorem failure_is_reported (rs : List Res) (hc : ErrCodes rs) (r : Res) (hr : r ∈ rs) (hne : r ≠ .id) :
    ErrCode (smtpReply rs) ∧ (wsgiStatus rs / 100 = 4 ∨ wsgiStatus rs / 100 = 5) := by
  cases hf : firstError rs with
  | none => exact absurd (firstError_none.mp hf r hr) hne
  | some e =>
    have he := replyCode_error hc hf
    have hs : smtpReply rs = replyCode (some e) := by simp [smtpReply, hf]
    refine ⟨hs ▸ he, ?_⟩
    simp only [wsgiStatus, hs]
    unfold ErrCode at he
    unfold httpStatus
    rcases he with h4 | h5
    · have e2 : (replyCode (some e) / 100 == 2) = false := by simp [h4]
      simp [e2, h4]
    · have e2 : (replyCode (some e) / 100 == 2) = false := by simp [h5]
      have e4 : (replyCode (some e) / 100 == 4) = false := by simp [h5]
      simp only [e2, e4, Bool.false_eq_true, if_false]
      split <;> simp

/-- `Queue.enqueue`: every result is an id exactly when every write succeeded; another exception
    propagates and the client sees 421 / 500. -/
theorem enqueue_all_ids (ws : List Write) (rs : List Res) (h : enqueue ws = some rs) :
    (∀ r ∈ rs, r = .id) ↔ ∀ w ∈ ws, w = .ok := by
  simp only [enqueue] at h
  split at h
  · simp at h
  · rename_i hno
    simp only [Option.some.injEq] at h; subst h
    simp only [List.mem_map, forall_exists_index, and_imp, forall_apply_eq_imp_iff₂]
    constructor
    · intro hall w hw
      have := hall w hw
      cases w with
      | ok => rfl
      | queueError r => simp at this
      | otherExc => exfalso; apply hno; simpa using hw
    · intro hall w hw; rw [hall w hw]

theorem enqueue_exception (ws : List Write) (h : enqueue ws = none) : smtpSees (enqueue ws) = 421 ∧ wsgiSees (enqueue ws) = 500 := by
  simp [h, smtpSees, wsgiSees]

def WriteErrCodes (ws : List Write) : Prop := ∀ w ∈ ws, match w with | .queueError (some c) => ErrCode c | _ => True

theorem enqueue_errcodes (ws : List Write) (rs : List Res) (hw : WriteErrCodes ws) (h : enqueue ws = some rs) : ErrCodes rs := by
  simp only [enqueue] at h
  split at h
  · simp at h
  · simp only [Option.some.injEq] at h; subst h
    intro r hr
    obtain ⟨w, hwm, rfl⟩ := List.mem_map.mp hr
    have := hw w hwm
    cases w with
    | ok => trivial
    | queueError o => cases o <;> simpa using this
    | otherExc => trivial

/-- **End to end (Queue)**: whatever the write outcomes, a 2xx to the client of either edge means
    that every envelope of the message was written. -/
theorem queue_ack_means_all_written (ws : List Write) (hw : WriteErrCodes ws)
    (h : smtpSees (enqueue ws) / 100 = 2 ∨ wsgiSees (enqueue ws) / 100 = 2) : ∀ w ∈ ws, w = .ok := by
  cases he : enqueue ws with
  | none => simp [he, smtpSees, wsgiSees] at h
  | some rs =>
    have hc := enqueue_errcodes ws rs hw he
    rw [← enqueue_all_ids ws rs he]
    simp only [he, smtpSees, wsgiSees] at h
    rcases h with h | h
    · exact smtp_ack_implies_custody rs hc h
    · exact wsgi_ack_implies_custody rs hc h

/-- **ProxyQueue**: the result is an id exactly when the relay delivered to every recipient. -/
theorem proxy_id_iff (o : RelayOut) :
    proxyEnqueue o = [.id] ↔ (o = .whole ∨ ∃ l, o = .perRcpt l ∧ ∀ x ∈ l, x = none) := by
  cases o with
  | whole => simp [proxyEnqueue]
  | raised c => simp [proxyEnqueue]
  | perRcpt l =>
    simp only [proxyEnqueue, reduceCtorEq, RelayOut.perRcpt.injEq, exists_eq_left', false_or]
    cases hf : l.find? Option.isSome with
    | none =>
      simp only [true_iff]
      intro x hx
      have := List.find?_eq_none.mp hf x hx
      cases x <;> simp at this ⊢
    | some y =>
      have hy := List.find?_some hf
      have hm := List.mem_of_find?_eq_some hf
      cases y with
      | none => simp at hy
      | some c =>
        simp only [List.cons.injEq, reduceCtorEq, and_true, false_iff]
        intro hall
        have := hall _ hm
        simp at this

theorem proxy_ack_means_all_delivered (o : RelayOut)
    (hcodes : match o with | .raised c => ErrCode c | .perRcpt l => ∀ c, some c ∈ l → ErrCode c | .whole => True)
    (h : smtpSees (some (proxyEnqueue o)) / 100 = 2 ∨ wsgiSees (some (proxyEnqueue o)) / 100 = 2) :
    o = .whole ∨ ∃ l, o = .perRcpt l ∧ ∀ x ∈ l, x = none := by
  rw [← proxy_id_iff]
  have hc : ErrCodes (proxyEnqueue o) := by
    intro r hr
    cases o with
    | whole => simp [proxyEnqueue] at hr; subst hr; trivial
    | raised c => simp [proxyEnqueue] at hr; subst hr; exact hcodes
    | perRcpt l =>
      simp only [proxyEnqueue] at hr
      cases hf : l.find? Option.isSome with
      | none => simp [hf] at hr; subst hr; trivial
      | some y =>
        cases y with
        | none => simp [hf] at hr; subst hr; trivial
        | some c =>
          simp [hf] at hr; subst hr
          exact hcodes c (List.mem_of_find?_eq_some hf)
  have hall : ∀ r ∈ proxyEnqueue o, r = .id := by
    simp only [smtpSees, wsgiSees] at h
    rcases h with h | h
    · exact smtp_ack_implies_custody _ hc h
    · exact wsgi_ack_implies_custody _ hc h
  cases o with
  | whole => rfl
  | raised c => have := hall (.relayError c) (by simp [proxyEnqueue]); simp at this
  | perRcpt l =>
    simp only [proxyEnqueue] at hall ⊢
    cases hf : l.find? Option.isSome with
    | none => rfl
    | some y =>
      cases y with
      | none => rfl
      | some c => have := hall (.relayError c) (by simp [hf]); simp at this

/-! ## No reply before every write has completed -/

inductive EnqReach (n : Nat) : EnqState → Prop
  | init : EnqReach n (enqInit n)
  | step {s s' : EnqState} {l : EnqLabel} : EnqReach n s → enqStep n s l = some s' → EnqReach n s'

/-- **No early acknowledgement**: in every reachable state of `Queue.enqueue`'s event order, once a
    reply has been sent no write is pending, and every one of the `n` writes has its result. -/
theorem no_reply_before_writes_complete (n : Nat) (s : EnqState) (h : EnqReach n s) :
    (∀ i, i < n → i ∈ s.pending ∨ ∃ w, (i, w) ∈ s.results) ∧ (s.replied.isSome → s.pending = []) := by
  induction h with
  | init => simp [enqInit]
  | @step s1 s2 l _ hs ih =>
    cases l
    case writeDone i w =>
      simp only [enqStep] at hs
      split at hs
      · simp only [Option.some.injEq] at hs; subst hs
        refine ⟨fun j hj => ?_, fun hr => ?_⟩
        · by_cases hji : j = i
          · subst hji; exact Or.inr ⟨w, by simp⟩
          · rcases ih.1 j hj with hp | ⟨w', hw'⟩
            · exact Or.inl (by simp [List.mem_filter, hp, hji])
            · exact Or.inr ⟨w', List.mem_cons_of_mem _ hw'⟩
        · have := ih.2 hr
          simp [this]
      · simp at hs
    case reply =>
      simp only [enqStep] at hs
      split at hs
      · rename_i hc
        simp only [Option.some.injEq] at hs; subst hs
        simp only [Bool.and_eq_true, List.isEmpty_iff] at hc
        exact ⟨ih.1, fun _ => hc.1⟩
      · simp at hs

/-! Non-vacuity -/
example : smtpReply [.id, .queueError none, .id] = 451 ∧ wsgiStatus [.id, .queueError (some 552)] = 500 ∧
    smtpReply [.id, .id] = 250 := by decide
example : proxyEnqueue (.perRcpt [none, some 550, none]) = [.relayError 550] := by decide

end Slimta.C02
