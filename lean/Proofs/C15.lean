import Model.Store
/-!
# C15 — every queue storage backend behaves like the same simple store

The reference store is the `inplace` model (one record per id, recipients deleted in place). The
accumulating representation of disk / redis / cloud (`accum`: indexes appended per round, highest
first, replayed in order by `get`) is proved to refine it for *every* operation sequence, any number
of delivered-marking rounds included. (Indexes out of range are a no-op in both models; the real
code raises `IndexError` there, the queue never produces them, the campaign stays in range.)
-/
namespace Slimta.C15
open Slimta.Store

/-- What a record of the accumulating representation stands for. -/
def absRec (r : Rec) : Rec := { r with rcpts := delSeq r.delivered r.rcpts, delivered := [] }

def absSt (s : St) : St := { recs := s.recs.map fun (i, r) => (i, absRec r), next := s.next }

theorem lookup_map (i : Nat) (l : List (Nat × Rec)) :
    lookup i (l.map fun (j, r) => (j, absRec r)) = (lookup i l).map absRec := by
  induction l with
  | nil => rfl
  | cons p rest ih =>
    obtain ⟨j, r⟩ := p
    simp only [List.map_cons, lookup]
    split <;> simp [ih]

theorem update_map (i : Nat) (f g : Rec → Rec) (h : ∀ r, absRec (f r) = g (absRec r)) (l : List (Nat × Rec)) :
    (update i f l).map (fun (j, r) => (j, absRec r)) = update i g (l.map fun (j, r) => (j, absRec r)) := by
  induction l with
  | nil => rfl
  | cons p rest ih =>
    obtain ⟨j, r⟩ := p
    simp only [List.map_cons, update]
    split <;> simp [ih, h]

theorem erase_map (i : Nat) (l : List (Nat × Rec)) :
    (erase i l).map (fun (j, r) => (j, absRec r)) = erase i (l.map fun (j, r) => (j, absRec r)) := by
  induction l with
  | nil => rfl
  | cons p rest ih =>
    obtain ⟨j, r⟩ := p
    simp only [List.map_cons, erase]
    split <;> simp [ih]

theorem delSeq_append (a b : List Nat) (l : List Nat) : delSeq (a ++ b) l = delSeq b (delSeq a l) := by
  simp [delSeq, List.foldl_append]

/-- One operation: the accumulating backend answers exactly as the reference store does, and the
    states stay related. -/
theorem step_refines (s : St) (op : Op) :
    step .inplace (absSt s) op = (absSt (step .accum s op).1, (step .accum s op).2) := by
  cases op with
  | write sender content rcpts ts =>
    simp [step, absSt, absRec, delSeq]
  | setTs i ts =>
    simp only [step, absSt, lookup_map]
    cases lookup i s.recs with
    | none => simp
    | some r =>
      simp only [Option.map_some]
      rw [update_map i _ (fun r => { r with ts := ts }) (by intro r; simp [absRec])]
  | incr i =>
    simp only [step, absSt, lookup_map]
    cases lookup i s.recs with
    | none => simp
    | some r =>
      simp only [Option.map_some]
      rw [update_map i _ (fun r => { r with attempts := r.attempts + 1 }) (by intro r; simp [absRec])]
      simp [absRec]
  | deliver i idxs =>
    simp only [step, absSt, lookup_map]
    cases lookup i s.recs with
    | none => simp
    | some r =>
      simp only [Option.map_some]
      rw [update_map i _ (fun r => { r with rcpts := delSeq (sortDesc idxs) r.rcpts })
        (by intro r; simp [absRec, delSeq_append])]
  | get i =>
    simp only [step, absSt, lookup_map]
    cases lookup i s.recs with
    | none => simp
    | some r =>
      simp only [Option.map_some]
      by_cases h : r.hasEnv <;> simp [absRec, visible, h]
  | remove i =>
    simp [step, absSt, erase_map]
  | load =>
    simp [step, absSt, absRec, List.map_map, Function.comp_def]

/-- **Refinement.** For every operation sequence (any number of messages, any number of
    delivered-marking rounds, operations on unknown ids included) the accumulating backends give
    the same answers as the reference store. -/
theorem accum_refines_reference (ops : List Op) (s : St) :
    (run .inplace (absSt s) ops).2 = (run .accum s ops).2 ∧
    (run .inplace (absSt s) ops).1 = absSt (run .accum s ops).1 := by
  induction ops generalizing s with
  | nil => simp [run]
  | cons op rest ih =>
    simp only [run, step_refines s op]
    obtain ⟨h1, h2⟩ := ih (step .accum s op).1
    simp [h1, h2]

theorem accum_refines_reference_init (ops : List Op) :
    (run .accum init ops).2 = (run .inplace init ops).2 := by
  have := (accum_refines_reference ops init).1
  simpa [absSt, init] using this.symm

/-! ### the reference store itself -/

/-- Every stored id is below the allocator. -/
def Fresh (s : St) : Prop := ∀ p ∈ s.recs, p.1 < s.next

theorem mem_update {i : Nat} {f : Rec → Rec} {l : List (Nat × Rec)} {p : Nat × Rec} (h : p ∈ update i f l) :
    ∃ q ∈ l, q.1 = p.1 := by
  induction l with
  | nil => simp [update] at h
  | cons x rest ih =>
    obtain ⟨j, r⟩ := x
    simp only [update] at h
    split at h
    · rcases List.mem_cons.mp h with rfl | h'
      · exact ⟨(j, r), by simp, rfl⟩
      · exact ⟨p, by simp [h'], rfl⟩
    · rcases List.mem_cons.mp h with rfl | h'
      · exact ⟨(j, r), by simp, rfl⟩
      · obtain ⟨q, hq, e⟩ := ih h'
        exact ⟨q, by simp [hq], e⟩

theorem mem_erase {i : Nat} {l : List (Nat × Rec)} {p : Nat × Rec} (h : p ∈ erase i l) : p ∈ l := by
  induction l with
  | nil => simp [erase] at h
  | cons x rest ih =>
    obtain ⟨j, r⟩ := x
    simp only [erase] at h
    split at h
    · simp [h]
    · rcases List.mem_cons.mp h with rfl | h'
      · simp
      · simp [ih h']

theorem fresh_step (k : Kind) (hk : k ≠ .redis) (s : St) (op : Op) (h : Fresh s) :
    Fresh (step k s op).1 ∧ s.next ≤ (step k s op).1.next := by
  have hk' : (k == Kind.redis) = false := by cases k <;> simp_all
  cases op with
  | write sender content rcpts ts =>
    refine ⟨?_, by simp [step]⟩
    intro p hp
    simp only [step, List.mem_append, List.mem_singleton] at hp
    rcases hp with hp | rfl
    · have := h p hp; simp only [step]; omega
    · simp [step]
  | setTs i ts =>
    simp only [step]
    cases lookup i s.recs with
    | none => simp [hk', h]
    | some r =>
      refine ⟨?_, Nat.le_refl _⟩
      intro p hp
      obtain ⟨q, hq, e⟩ := mem_update hp
      simpa [← e] using h q hq
  | incr i =>
    simp only [step]
    cases lookup i s.recs with
    | none => simp [hk', h]
    | some r =>
      refine ⟨?_, Nat.le_refl _⟩
      intro p hp
      obtain ⟨q, hq, e⟩ := mem_update hp
      simpa [← e] using h q hq
  | deliver i idxs =>
    simp only [step]
    cases lookup i s.recs with
    | none => simp [hk', h]
    | some r =>
      cases k with
      | redis => exact absurd rfl hk
      | inplace =>
        refine ⟨?_, Nat.le_refl _⟩
        intro p hp
        obtain ⟨q, hq, e⟩ := mem_update hp
        simpa [← e] using h q hq
      | accum =>
        refine ⟨?_, Nat.le_refl _⟩
        intro p hp
        obtain ⟨q, hq, e⟩ := mem_update hp
        simpa [← e] using h q hq
  | get i =>
    simp only [step]
    cases lookup i s.recs with
    | none => exact ⟨h, Nat.le_refl _⟩
    | some r => simp only; split <;> exact ⟨h, Nat.le_refl _⟩
  | remove i =>
    refine ⟨?_, Nat.le_refl _⟩
    intro p hp
    exact h p (mem_erase hp)
  | load => simp [step, h]

theorem lookup_none_of_not_mem {i : Nat} {l : List (Nat × Rec)} (h : ∀ p ∈ l, p.1 ≠ i) : lookup i l = none := by
  induction l with
  | nil => rfl
  | cons x rest ih =>
    obtain ⟨j, r⟩ := x
    have hj : j ≠ i := h (j, r) (by simp)
    simp only [lookup]
    simp [hj, ih (fun p hp => h p (by simp [hp]))]

/-- **Writes return distinct ids**: the id handed out is not the id of any stored message, and no
    later write can hand it out again. -/
theorem write_id_fresh (k : Kind) (s : St) (h : Fresh s) (sender content ts : Nat) (rcpts : List Nat) :
    (step k s (.write sender content rcpts ts)).2 = .id s.next ∧ lookup s.next s.recs = none ∧
    s.next < (step k s (.write sender content rcpts ts)).1.next := by
  refine ⟨by simp [step], ?_, by simp [step]⟩
  apply lookup_none_of_not_mem
  intro p hp
  have := h p hp
  omega

/-- An id that is not stored and lies below the allocator is never stored again, whatever
    operations follow (disk, cloud and dict representations). -/
theorem absent_stays_absent (k : Kind) (hk : k ≠ .redis) (i : Nat) (ops : List Op) (s : St) (hf : Fresh s)
    (hi : i < s.next) (ha : ∀ p ∈ s.recs, p.1 ≠ i) :
    ∀ p ∈ (run k s ops).1.recs, p.1 ≠ i := by
  have hk' : (k == Kind.redis) = false := by cases k <;> simp_all
  induction ops generalizing s with
  | nil => simpa [run] using ha
  | cons op rest ih =>
    simp only [run]
    obtain ⟨hf', hn⟩ := fresh_step k hk s op hf
    apply ih _ hf' (by omega)
    intro p hp
    cases op with
    | write sender content rcpts ts =>
      simp only [step, List.mem_append, List.mem_singleton] at hp
      rcases hp with hp | rfl
      · exact ha p hp
      · simp; omega
    | setTs j ts =>
      simp only [step] at hp
      cases hl : lookup j s.recs with
      | none => simp [hl, hk'] at hp; exact ha p hp
      | some r =>
        simp [hl] at hp
        obtain ⟨q, hq, e⟩ := mem_update hp
        rw [← e]; exact ha q hq
    | incr j =>
      simp only [step] at hp
      cases hl : lookup j s.recs with
      | none => simp [hl, hk'] at hp; exact ha p hp
      | some r =>
        simp [hl] at hp
        obtain ⟨q, hq, e⟩ := mem_update hp
        rw [← e]; exact ha q hq
    | deliver j idxs =>
      simp only [step] at hp
      cases hl : lookup j s.recs with
      | none => simp [hl, hk'] at hp; exact ha p hp
      | some r =>
        cases k with
        | redis => exact absurd rfl hk
        | inplace =>
          simp [hl] at hp
          obtain ⟨q, hq, e⟩ := mem_update hp
          rw [← e]; exact ha q hq
        | accum =>
          simp [hl] at hp
          obtain ⟨q, hq, e⟩ := mem_update hp
          rw [← e]; exact ha q hq
    | get j =>
      simp only [step] at hp
      cases hl : lookup j s.recs with
      | none => simp [hl] at hp; exact ha p hp
      | some r => simp only [hl] at hp; split at hp <;> exact ha p hp
    | remove j => exact ha p (mem_erase hp)
    | load => exact ha p hp

/-- **A removed message is gone for good** (reference, disk, cloud): once it is not stored, `get`
    fails and `load` does not list it after any further operations. -/
theorem removed_gone_for_good (k : Kind) (hk : k ≠ .redis) (i : Nat) (ops : List Op) (s : St) (hf : Fresh s)
    (hi : i < s.next) (ha : ∀ p ∈ s.recs, p.1 ≠ i) :
    (step k (run k s ops).1 (.get i)).2 = .missing ∧
    ∀ t, (t, i) ∉ (match (step k (run k s ops).1 .load).2 with | .listing l => l | _ => []) := by
  have h := absent_stays_absent k hk i ops s hf hi ha
  constructor
  · simp [step, lookup_none_of_not_mem h]
  · intro t ht
    simp only [step, List.mem_map] at ht
    obtain ⟨p, hp, e⟩ := ht
    obtain ⟨j, r⟩ := p
    simp at e
    exact h (j, r) hp e.2

/-- The message an operation addresses (`write` and `load` address none). -/
def target : Op → Option Nat
  | .setTs i _ | .incr i | .deliver i _ | .get i | .remove i => some i
  | _ => none

theorem lookup_update_ne {i j : Nat} (h : j ≠ i) (f : Rec → Rec) (l : List (Nat × Rec)) :
    lookup j (update i f l) = lookup j l := by
  induction l with
  | nil => rfl
  | cons x rest ih =>
    obtain ⟨a, r⟩ := x
    simp only [update]
    split
    · rename_i hai; simp at hai; subst hai
      have : (a == j) = false := by simp [Ne.symm h]
      simp [lookup, this]
    · simp [lookup, ih]

theorem lookup_erase_ne {i j : Nat} (h : j ≠ i) (l : List (Nat × Rec)) :
    lookup j (erase i l) = lookup j l := by
  induction l with
  | nil => rfl
  | cons x rest ih =>
    obtain ⟨a, r⟩ := x
    simp only [erase]
    split
    · rename_i hai; simp at hai; subst hai
      have : (a == j) = false := by simp [Ne.symm h]
      simp [lookup, this]
    · simp [lookup, ih]

theorem lookup_append_ne {i j : Nat} (h : j ≠ i) (r : Rec) (l : List (Nat × Rec)) :
    lookup j (l ++ [(i, r)]) = lookup j l := by
  induction l with
  | nil => have : (i == j) = false := by simp [Ne.symm h]
           simp [lookup, this]
  | cons x rest ih =>
    obtain ⟨a, r'⟩ := x
    simp only [List.cons_append, lookup]
    split <;> simp [ih]

/-- **Operations on one message never disturb another**: an operation addressed to message `i`
    leaves the record of every other message `j` exactly as it was (all representations), so the
    answers to operations on `j` do not depend on whether it ran before or after them. -/
theorem other_untouched (k : Kind) (s : St) (op : Op) (i j : Nat) (ht : target op = some i) (hne : j ≠ i) :
    lookup j (step k s op).1.recs = lookup j s.recs := by
  cases op with
  | write a b c d => simp [target] at ht
  | load => simp [target] at ht
  | setTs i' ts =>
    simp only [target, Option.some.injEq] at ht; subst ht
    simp only [step]
    cases hl : lookup i' s.recs with
    | none => by_cases hk : k = .redis <;> simp [hk, lookup_append_ne hne]
    | some r => simp [lookup_update_ne hne]
  | incr i' =>
    simp only [target, Option.some.injEq] at ht; subst ht
    simp only [step]
    cases hl : lookup i' s.recs with
    | none => by_cases hk : k = .redis <;> simp [hk, lookup_append_ne hne]
    | some r => simp [lookup_update_ne hne]
  | deliver i' idxs =>
    simp only [target, Option.some.injEq] at ht; subst ht
    simp only [step]
    cases hl : lookup i' s.recs with
    | none => by_cases hk : k = .redis <;> simp [hk, lookup_append_ne hne]
    | some r => cases k <;> simp [lookup_update_ne hne]
  | get i' =>
    simp only [target, Option.some.injEq] at ht; subst ht
    simp only [step]
    cases hl : lookup i' s.recs with
    | none => rfl
    | some r => simp only; split <;> rfl
  | remove i' =>
    simp only [target, Option.some.injEq] at ht; subst ht
    simp [step, lookup_erase_ne hne]

/-! ### the redis finding, on a concrete witness -/

/-- Known finding (negation witness): with redis semantics an update after `remove` brings the id
    back into `load`. -/
theorem redis_update_after_remove_resurrects :
    (run .redis init [.write 1 1 [0] 10, .remove 0, .setTs 0 20, .load]).2
      = [.id 0, .unit, .unit, .listing [(20, 0)]] := by decide

/-! ### non-vacuity -/

example : (run .accum init [.write 1 1 [7, 8, 9] 10, .deliver 0 [0], .deliver 0 [1], .get 0]).2
    = [.id 0, .unit, .unit, .env 1 1 [8] 0] := by decide

example : Fresh init := by intro p hp; simp [init] at hp

end Slimta.C15
