import Model.Store
import Model.DiskFS
import Proofs.C04
/-!
# C15 — every queue storage backend behaves like the same simple store

The reference store is the `inplace` model (one record per id, recipients deleted in place). The
accumulating representation of disk / redis / cloud (`accum`: indexes appended per round, highest
first, replayed in order by `get`) is proved to refine it for *every* operation sequence, any number
of delivered-marking rounds included. (Indexes out of range are a no-op in both models; the real
code raises `IndexError` there, the queue never produces them, the campaign stays in range.)
-/
namespace Slimta.C15
open Slimta.Store

/-- What a record of the accumulating representation stands for. -/
def absRec (r : Rec) : Rec := { r with rcpts := delSeq r.delivered r.rcpts, delivered := [] }

def absSt (s : St) : St := { recs := s.recs.map fun (i, r) => (i, absRec r), next := s.next }

theorem lookup_map (i : Nat) (l : List (Nat × Rec)) :
    lookup i (l.map fun (j, r) => (j, absRec r)) = (lookup i l).map absRec := by
  induction l with
  | nil => rfl
  | cons p rest ih =>
    obtain ⟨j, r⟩ := p
    simp only [List.map_cons, lookup]
    split <;> simp [ih]

theorem update_map (i : Nat) (f g : Rec → Rec) (h : ∀ r, absRec (f r) = g (absRec r)) (l : List (Nat × Rec)) :
    (update i f l).map (fun (j, r) => (j, absRec r)) = update i g (l.map fun (j, r) => (j, absRec r)) := by
  induction l with
  | nil => rfl
  | cons p rest ih =>
    obtain ⟨j, r⟩ := p
    simp only [List.map_cons, update]
    split <;> simp [ih, h]

theorem erase_map (i : Nat) (l : List (Nat × Rec)) :
    (erase i l).map (fun (j, r) => (j, absRec r)) = erase i (l.map fun (j, r) => (j, absRec r)) := by
  induction l with
  | nil => rfl
  | cons p rest ih =>
    obtain ⟨j, r⟩ := p
    simp only [List.map_cons, erase]
    split <;> simp [ih]

theorem delSeq_append (a b : List Nat) (l : List Nat) : delSeq (a ++ b) l = delSeq b (delSeq a l) := by
  simp [delSeq, List.foldl_append]

/-- One operation: the accumulating backend answers exactly as the reference store does, and the
    states stay related. -/
theorem step_refines (s : St) (op : Op) :
    step .inplace (absSt s) op = (absSt (step .accum s op).1, (step .accum s op).2) := by
  cases op with
  | write sender content rcpts ts =>
    simp [step, absSt, absRec, delSeq]
  | setTs i ts =>
    simp only [step, absSt, lookup_map]
    cases lookup i s.recs with
    | none => simp
    | some r =>
      simp only [Option.map_some]
      rw [update_map i _ (fun r => { r with ts := ts }) (by intro r; simp [absRec])]
  | incr i =>
    simp only [step, absSt, lookup_map]
    cases lookup i s.recs with
    | none => simp
    | some r =>
      simp only [Option.map_some]
      rw [update_map i _ (fun r => { r with attempts := r.attempts + 1 }) (by intro r; simp [absRec])]
      simp [absRec]
  | deliver i idxs =>
    simp only [step, absSt, lookup_map]
    cases lookup i s.recs with
    | none => simp
    | some r =>
      simp only [Option.map_some]
      rw [update_map i _ (fun r => { r with rcpts := delSeq (sortDesc idxs) r.rcpts })
        (by intro r; simp [absRec, delSeq_append])]
  | get i =>
    simp only [step, absSt, lookup_map]
    cases lookup i s.recs with
    | none => simp
    | some r =>
      simp only [Option.map_some]
      by_cases h : r.hasEnv <;> simp [absRec, visible, h]
  | remove i =>
    simp [step, absSt, erase_map]
  | load =>
    simp [step, absSt, absRec, List.map_map, Function.comp_def]

/-- **Refinement.** For every operation sequence (any number of messages, any number of
    delivered-marking rounds, operations on unknown ids included) the accumulating backends give
    the same answers as the reference store. -/
theorem accum_refines_reference (ops : List Op) (s : St) :
    (run .inplace (absSt s) ops).2 = (run .accum s ops).2 ∧
    (run .inplace (absSt s) ops).1 = absSt (run .accum s ops).1 := by
  induction ops generalizing s with
  | nil => simp [run]
  | cons op rest ih =>
    simp only [run, step_refines s op]
    obtain ⟨h1, h2⟩ := ih (step .accum s op).1
    simp [h1, h2]

theorem accum_refines_reference_init (ops : List Op) :
    (run .accum init ops).2 = (run .inplace init ops).2 := by
  have := (accum_refines_reference ops init).1
  simpa [absSt, init] using this.symm

/-! ### the reference store itself -/

/-- Every stored id is below the allocator. -/
def Fresh (s : St) : Prop := ∀ p ∈ s.recs, p.1 < s.next

theorem mem_update {i : Nat} {f : Rec → Rec} {l : List (Nat × Rec)} {p : Nat × Rec} (h : p ∈ update i f l) :
    ∃ q ∈ l, q.1 = p.1 := by
  induction l with
  | nil => simp [update] at h
  | cons x rest ih =>
    obtain ⟨j, r⟩ := x
    simp only [update] at h
    split at h
    · rcases List.mem_cons.mp h with rfl | h'
      · exact ⟨(j, r), by simp, rfl⟩
      · exact ⟨p, by simp [h'], rfl⟩
    · rcases List.mem_cons.mp h with rfl | h'
      · exact ⟨(j, r), by simp, rfl⟩
      · obtain ⟨q, hq, e⟩ := ih h'
        exact ⟨q, by simp [hq], e⟩

theorem mem_erase {i : Nat} {l : List (Nat × Rec)} {p : Nat × Rec} (h : p ∈ erase i l) : p ∈ l := by
  induction l with
  | nil => simp [erase] at h
  | cons x rest ih =>
    obtain ⟨j, r⟩ := x
    simp only [erase] at h
    split at h
    · simp [h]
    · rcases List.mem_cons.mp h with rfl | h'
      · simp
      · simp [ih h']

theorem fresh_step (k : Kind) (hk : k ≠ .redis) (s : St) (op : Op) (h : Fresh s) :
    Fresh (step k s op).1 ∧ s.next ≤ (step k s op).1.next := by
  have hk' : (k == Kind.redis) = false := by cases k <;> simp_all
  cases op with
  | write sender content rcpts ts =>
    refine ⟨?_, by simp [step]⟩
    intro p hp
    simp only [step, List.mem_append, List.mem_singleton] at hp
    rcases hp with hp | rfl
    · have := h p hp; simp only [step]; omega
    · simp [step]
  | setTs i ts =>
    simp only [step]
    cases lookup i s.recs with
    | none => simp [hk', h]
    | some r =>
      refine ⟨?_, Nat.le_refl _⟩
      intro p hp
      obtain ⟨q, hq, e⟩ := mem_update hp
      simpa [← e] using h q hq
  | incr i =>
    simp only [step]
    cases lookup i s.recs with
    | none => simp [hk', h]
    | some r =>
      refine ⟨?_, Nat.le_refl _⟩
      intro p hp
      obtain ⟨q, hq, e⟩ := mem_update hp
      simpa [← e] using h q hq
  | deliver i idxs =>
    simp only [step]
    cases lookup i s.recs with
    | none => simp [hk', h]
    | some r =>
      cases k with
      | redis => exact absurd rfl hk
      | inplace =>
        refine ⟨?_, Nat.le_refl _⟩
        intro p hp
        obtain ⟨q, hq, e⟩ := mem_update hp
        simpa [← e] using h q hq
      | accum =>
        refine ⟨?_, Nat.le_refl _⟩
        intro p hp
        obtain ⟨q, hq, e⟩ := mem_update hp
        simpa [← e] using h q hq
  | get i =>
    simp only [step]
    cases lookup i s.recs with
    | none => exact ⟨h, Nat.le_refl _⟩
    | some r => simp only; split <;> exact ⟨h, Nat.le_refl _⟩
  | remove i =>
    refine ⟨?_, Nat.le_refl _⟩
    intro p hp
    exact h p (mem_erase hp)
  | load => simp [step, h]

theorem lookup_none_of_not_mem {i : Nat} {l : List (Nat × Rec)} (h : ∀ p ∈ l, p.1 ≠ i) : lookup i l = none := by
  induction l with
  | nil => rfl
  | cons x rest ih =>
    obtain ⟨j, r⟩ := x
    have hj : j ≠ i := h (j, r) (by simp)
    simp only [lookup]
    simp [hj, ih (fun p hp => h p (by simp [hp]))]

/-- **Writes return distinct ids**: the id handed out is not the id of any stored message, and no
    later write can hand it out again. -/
theorem write_id_fresh (k : Kind) (s : St) (h : Fresh s) (sender content ts : Nat) (rcpts : List Nat) :
    (step k s (.write sender content rcpts ts)).2 = .id s.next ∧ lookup s.next s.recs = none ∧
    s.next < (step k s (.write sender content rcpts ts)).1.next := by
  refine ⟨by simp [step], ?_, by simp [step]⟩
  apply lookup_none_of_not_mem
  intro p hp
  have := h p hp
  omega

/-- An id that is not stored and lies below the allocator is never stored again, whatever
    operations follow (disk, cloud and dict representations). -/
theorem absent_stays_absent (k : Kind) (hk : k ≠ .redis) (i : Nat) (ops : List Op) (s : St) (hf : Fresh s)
    (hi : i < s.next) (ha : ∀ p ∈ s.recs, p.1 ≠ i) :
    ∀ p ∈ (run k s ops).1.recs, p.1 ≠ i := by
  have hk' : (k == Kind.redis) = false := by cases k <;> simp_all
  induction ops generalizing s with
  | nil => simpa [run] using ha
  | cons op rest ih =>
    simp only [run]
    obtain ⟨hf', hn⟩ := fresh_step k hk s op hf
    apply ih _ hf' (by omega)
    intro p hp
    cases op with
    | write sender content rcpts ts =>
      simp only [step, List.mem_append, List.mem_singleton] at hp
      rcases hp with hp | rfl
      · exact ha p hp
      · simp; omega
    | setTs j ts =>
      simp only [step] at hp
      cases hl : lookup j s.recs with
      | none => simp [hl, hk'] at hp; exact ha p hp
      | some r =>
        simp [hl] at hp
        obtain ⟨q, hq, e⟩ := mem_update hp
        rw [← e]; exact ha q hq
    | incr j =>
      simp only [step] at hp
      cases hl : lookup j s.recs with
      | none => simp [hl, hk'] at hp; exact ha p hp
      | some r =>
        simp [hl] at hp
        obtain ⟨q, hq, e⟩ := mem_update hp
        rw [← e]; exact ha q hq
    | deliver j idxs =>
      simp only [step] at hp
      cases hl : lookup j s.recs with
      | none => simp [hl, hk'] at hp; exact ha p hp
      | some r =>
        cases k with
        | redis => exact absurd rfl hk
        | inplace =>
          simp [hl] at hp
          obtain ⟨q, hq, e⟩ := mem_update hp
          rw [← e]; exact ha q hq
        | accum =>
          simp [hl] at hp
          obtain ⟨q, hq, e⟩ := mem_update hp
          rw [← e]; exact ha q hq
    | get j =>
      simp only [step] at hp
      cases hl : lookup j s.recs with
      | none => simp [hl] at hp; exact ha p hp
      | some r => simp only [hl] at hp; split at hp <;> exact ha p hp
    | remove j => exact ha p (mem_erase hp)
    | load => exact ha p hp

/-- **A removed message is gone for good** (reference, disk, cloud): once it is not stored, `get`
    fails and `load` does not list it after any further operations. -/
theorem removed_gone_for_good (k : Kind) (hk : k ≠ .redis) (i : Nat) (ops : List Op) (s : St) (hf : Fresh s)
    (hi : i < s.next) (ha : ∀ p ∈ s.recs, p.1 ≠ i) :
    (step k (run k s ops).1 (.get i)).2 = .missing ∧
    ∀ t, (t, i) ∉ (match (step k (run k s ops).1 .load).2 with | .listing l => l | _ => []) := by
  have h := absent_stays_absent k hk i ops s hf hi ha
  constructor
  · simp [step, lookup_none_of_not_mem h]
  · intro t ht
    simp only [step, List.mem_map] at ht
    obtain ⟨p, hp, e⟩ := ht
    obtain ⟨j, r⟩ := p
    simp at e
    exact h (j, r) hp e.2

/-- The message an operation addresses (`write` and `load` address none). -/
def target : Op → Option Nat
  | .setTs i _ | .incr i | .deliver i _ | .get i | .remove i => some i
  | _ => none

theorem lookup_update_ne {i j : Nat} (h : j ≠ i) (f : Rec → Rec) (l : List (Nat × Rec)) :
    lookup j (update i f l) = lookup j l := by
  induction l with
  | nil => rfl
  | cons x rest ih =>
    obtain ⟨a, r⟩ := x
    simp only [update]
    split
    · rename_i hai; simp at hai; subst hai
      have : (a == j) = false := by simp [Ne.symm h]
      simp [lookup, this]
    · simp [lookup, ih]

theorem lookup_erase_ne {i j : Nat} (h : j ≠ i) (l : List (Nat × Rec)) :
    lookup j (erase i l) = lookup j l := by
  induction l with
  | nil => rfl
  | cons x rest ih =>
    obtain ⟨a, r⟩ := x
    simp only [erase]
    split
    · rename_i hai; simp at hai; subst hai
      have : (a == j) = false := by simp [Ne.symm h]
      simp [lookup, this]
    · simp [lookup, ih]

theorem lookup_append_ne {i j : Nat} (h : j ≠ i) (r : Rec) (l : List (Nat × Rec)) :
    lookup j (l ++ [(i, r)]) = lookup j l := by
  induction l with
  | nil => have : (i == j) = false := by simp [Ne.symm h]
           simp [lookup, this]
  | cons x rest ih =>
    obtain ⟨a, r'⟩ := x
    simp only [List.cons_append, lookup]
    split <;> simp [ih]

/-- **Operations on one message never disturb another**: an operation addressed to message `i`
    leaves the record of every other message `j` exactly as it was (all representations), so the
    answers to operations on `j` do not depend on whether it ran before or after them. -/
theorem other_untouched (k : Kind) (s : St) (op : Op) (i j : Nat) (ht : target op = some i) (hne : j ≠ i) :
    lookup j (step k s op).1.recs = lookup j s.recs := by
  cases op with
  | write a b c d => simp [target] at ht
  | load => simp [target] at ht
  | setTs i' ts =>
    simp only [target, Option.some.injEq] at ht; subst ht
    simp only [step]
    cases hl : lookup i' s.recs with
    | none => by_cases hk : k = .redis <;> simp [hk, lookup_append_ne hne]
    | some r => simp [lookup_update_ne hne]
  | incr i' =>
    simp only [target, Option.some.injEq] at ht; subst ht
    simp only [step]
    cases hl : lookup i' s.recs with
    | none => by_cases hk : k = .redis <;> simp [hk, lookup_append_ne hne]
    | some r => simp [lookup_update_ne hne]
  | deliver i' idxs =>
    simp only [target, Option.some.injEq] at ht; subst ht
    simp only [step]
    cases hl : lookup i' s.recs with
    | none => by_cases hk : k = .redis <;> simp [hk, lookup_append_ne hne]
    | some r => cases k <;> simp [lookup_update_ne hne]
  | get i' =>
    simp only [target, Option.some.injEq] at ht; subst ht
    simp only [step]
    cases hl : lookup i' s.recs with
    | none => rfl
    | some r => simp only; split <;> rfl
  | remove i' =>
    simp only [target, Option.some.injEq] at ht; subst ht
    simp [step, lookup_erase_ne hne]

/-! ### the redis finding, on a concrete witness -/

/-- Known finding (negation witness): with redis semantics an update after `remove` brings the id
    back into `load`. -/
theorem redis_update_after_remove_resurrects :
    (run .redis init [.write 1 1 [0] 10, .remove 0, .setTs 0 20, .load]).2
      = [.id 0, .unit, .unit, .listing [(20, 0)]] := by decide

/-! ### non-vacuity -/

example : (run .accum init [.write 1 1 [7, 8, 9] 10, .deliver 0 [0], .deliver 0 [1], .get 0]).2
    = [.id 0, .unit, .unit, .env 1 1 [8] 0] := by decide

example : Fresh init := by intro p hp; simp [init] at hp

/-! ## The disk backend, effect by effect, refines the store model (C04's model ∘ C15's model)

`Model/DiskFS.lean` describes `DiskStorage` as file-system effects (what C04 cuts at every point); `Model/Store.lean` describes
every accumulating backend as a table of records (what C15 and C03 reason about). Run without a crash they are the same store:
after any sequence of complete operations, what a fresh `DiskStorage` recovers from the directories for an id is exactly the
record the store model holds for it. `envOf e`: sender, content and recipients of the envelope pickled with identity `e`. -/
section disk
open Slimta.DiskFS (FS recover)

variable (envOf : Nat → Nat × Nat × List Nat)

def toRec (p : Nat × DiskFS.Meta) : Rec :=
  ⟨(envOf p.1).1, (envOf p.1).2.1, (envOf p.1).2.2, p.2.delivered, p.2.attempts, p.2.ts, true⟩

def toOp : DiskFS.Op → Op
  | .write _ e ts => .write (envOf e).1 (envOf e).2.1 (envOf e).2.2 ts
  | .setTs i ts => .setTs i ts
  | .incr i => .incr i
  | .deliver i l => .deliver i l
  | .remove i => .remove i

/-- The directories and the table hold the same messages. -/
structure Rel (fs : FS) (s : St) : Prop where
  same : ∀ i, (recover fs i).map (toRec envOf) = lookup i s.recs
  fresh : Fresh s
  nodup : (s.recs.map (·.1)).Nodup

theorem lookup_append_same {i : Nat} (r : Rec) {l : List (Nat × Rec)} (h : lookup i l = none) :
    lookup i (l ++ [(i, r)]) = some r := by
  induction l with
  | nil => simp [lookup]
  | cons x rest ih =>
    obtain ⟨a, r'⟩ := x
    simp only [lookup] at h
    split at h
    · simp at h
    · rename_i hne
      simp only [List.cons_append, lookup, hne, Bool.false_eq_true, if_false]
      exact ih h

theorem lookup_update_same (i : Nat) (f : Rec → Rec) (l : List (Nat × Rec)) :
    lookup i (update i f l) = (lookup i l).map f := by
  induction l with
  | nil => rfl
  | cons x rest ih =>
    obtain ⟨a, r⟩ := x
    simp only [update]
    split
    · rename_i h; simp [lookup, h]
    · rename_i h; simp [lookup, h, ih]

theorem lookup_erase_same {i : Nat} {l : List (Nat × Rec)} (h : (l.map (·.1)).Nodup) : lookup i (erase i l) = none := by
  induction l with
  | nil => rfl
  | cons x rest ih =>
    obtain ⟨a, r⟩ := x
    simp only [List.map_cons, List.nodup_cons] at h
    simp only [erase]
    split
    · rename_i hai
      have : a = i := by simpa using hai
      subst this
      apply lookup_none_of_not_mem
      intro p hp hpe
      exact h.1 (List.mem_map.mpr ⟨p, hp, hpe⟩)
    · rename_i hai
      simp only [lookup, hai, Bool.false_eq_true, if_false]
      exact ih h.2

theorem map_fst_update (i : Nat) (f : Rec → Rec) (l : List (Nat × Rec)) : (update i f l).map (·.1) = l.map (·.1) := by
  induction l with
  | nil => rfl
  | cons x rest ih =>
    obtain ⟨a, r⟩ := x
    simp only [update]
    split <;> simp [ih]

theorem erase_sublist (i : Nat) (l : List (Nat × Rec)) : ((erase i l).map (·.1)).Sublist (l.map (·.1)) := by
  induction l with
  | nil => simp [erase]
  | cons x rest ih =>
    obtain ⟨a, r⟩ := x
    simp only [erase]
    split
    · simp
    · simpa using ih

theorem exec_other (fs : FS) (st : C04.Step) (j : Nat) (h : st.op.id ≠ j) : recover (C04.exec fs st) j = recover fs j := by
  rw [← C04.crashAt_all]; exact C04.crash_in_other_operation fs st.k st.c1 st.c2 st.op j h _

theorem fsGet_applyAll (p : DiskFS.Path) (hp : ∀ k, p ≠ .tmp k) (es : List DiskFS.Effect) (fs : FS)
    (h : ∀ e ∈ es, C04.target e ≠ p) : DiskFS.fsGet p (DiskFS.applyAll fs es) = DiskFS.fsGet p fs := by
  induction es generalizing fs with
  | nil => rfl
  | cons e rest ih =>
    simp only [DiskFS.applyAll, List.foldl_cons]
    have := ih (DiskFS.applyEffect fs e) (fun x hx => h x (by simp [hx]))
    simp only [DiskFS.applyAll] at this
    rw [this, C04.fsGet_applyEffect p fs e (h e (by simp)) hp]

/-- A meta update of a message that cannot be recovered (no envelope file, or no meta file) leaves it unrecoverable. -/
theorem exec_meta_missing (fs : FS) (st : C04.Step) (i : Nat)
    (hop : st.op = .setTs i (match st.op with | .setTs _ t => t | _ => 0) ∨ st.op = .incr i ∨
           st.op = .deliver i (match st.op with | .deliver _ l => l | _ => []))
    (hr : recover fs i = none) : recover (C04.exec fs st) i = none := by
  have hid : st.op.id = i := by rcases hop with h | h | h <;> (rw [h]; rfl)
  cases hm : DiskFS.fsGet (.mfile i) fs with
  | none =>
    have : DiskFS.effectsOf fs st.k st.c1 st.c2 st.op = [] := by
      rcases hop with h | h | h <;> (rw [h]; simp only [DiskFS.effectsOf, DiskFS.Op.id, hm])
    simp [C04.exec, this, DiskFS.applyAll, hr]
  | some c =>
    cases c with
    | envelope e =>
      have : DiskFS.effectsOf fs st.k st.c1 st.c2 st.op = [] := by
        rcases hop with h | h | h <;> (rw [h]; simp only [DiskFS.effectsOf, DiskFS.Op.id, hm])
      simp [C04.exec, this, DiskFS.applyAll, hr]
    | partialFile n =>
      have : DiskFS.effectsOf fs st.k st.c1 st.c2 st.op = [] := by
        rcases hop with h | h | h <;> (rw [h]; simp only [DiskFS.effectsOf, DiskFS.Op.id, hm])
      simp [C04.exec, this, DiskFS.applyAll, hr]
    | metaC m =>
      have heff : DiskFS.effectsOf fs st.k st.c1 st.c2 st.op = DiskFS.dump st.k st.c1 (.mfile i) (.metaC (DiskFS.newMeta m st.op)) := by
        rcases hop with h | h | h <;> (rw [h]; simp only [DiskFS.effectsOf, DiskFS.Op.id, hm])
      -- the envelope file is not touched, and it was not an envelope (else the message would have been recoverable)
      have henv : DiskFS.fsGet (.env i) (C04.exec fs st) = DiskFS.fsGet (.env i) fs := by
        simp only [C04.exec, heff]
        apply fsGet_applyAll _ (by intro k; simp)
        intro e he
        simp only [DiskFS.dump, List.mem_append, List.mem_singleton, List.mem_replicate] at he
        rcases he with (rfl | ⟨_, rfl⟩) | rfl <;> simp [C04.target]
      simp only [recover, hm] at hr
      simp only [recover, henv]
      cases he : DiskFS.fsGet (.env i) fs with
      | none => rfl
      | some c =>
        cases c with
        | envelope e => simp [he] at hr
        | metaC _ => rfl
        | partialFile _ => rfl

theorem exec_remove (fs : FS) (k c1 c2 i : Nat) : recover (C04.exec fs ⟨.remove i, k, c1, c2⟩) i = none := by
  have := C04.crash_in_remove fs k c1 c2 i 2 (by omega)
  simpa [DiskFS.crashAt, C04.exec, DiskFS.effectsOf] using this

/-- One complete operation of the disk backend is one step of the store model (a `write` gets the id the table hands out next). -/
theorem disk_step_refines (fs : FS) (s : St) (st : C04.Step) (h : Rel envOf fs s)
    (hw : ∀ id e ts, st.op = .write id e ts → id = s.next) :
    Rel envOf (C04.exec fs st) (step .accum s (toOp envOf st.op)).1 := by
  have hfresh' : Fresh (step .accum s (toOp envOf st.op)).1 := (fresh_step .accum (by decide) s _ h.fresh).1
  obtain ⟨op, k, c1, c2⟩ := st
  cases op with
  | write id e ts =>
    have hid : id = s.next := hw id e ts rfl
    subst hid
    have hnone : lookup s.next s.recs = none := (write_id_fresh .accum s h.fresh 0 0 ts []).2.1
    refine ⟨fun j => ?_, hfresh', ?_⟩
    · simp only [toOp, step]
      by_cases hj : j = s.next
      · subst hj
        rw [show recover (C04.exec fs ⟨.write s.next e ts, k, c1, c2⟩) s.next = some (e, ⟨ts, 0, []⟩) from
          C04.write_complete fs k c1 c2 s.next e ts, lookup_append_same _ hnone]
        rfl
      · rw [exec_other fs _ j (by simpa [DiskFS.Op.id] using Ne.symm hj), lookup_append_ne hj]
        exact h.same j
    · simp only [toOp, step, List.map_append, List.map_cons, List.map_nil]
      rw [List.nodup_append]
      refine ⟨h.nodup, by simp, ?_⟩
      intro a ha b hb
      simp only [List.mem_singleton] at hb; subst hb
      obtain ⟨p, hp, rfl⟩ := List.mem_map.mp ha
      have := h.fresh p hp
      omega
  | remove i =>
    refine ⟨fun j => ?_, hfresh', ?_⟩
    · simp only [toOp, step]
      by_cases hj : j = i
      · subst hj; rw [exec_remove, lookup_erase_same h.nodup]; rfl
      · rw [exec_other fs _ j (by simpa [DiskFS.Op.id] using Ne.symm hj), lookup_erase_ne hj]; exact h.same j
    · simp only [toOp, step]
      exact List.Nodup.sublist (erase_sublist i s.recs) h.nodup
  | setTs i ts =>
    refine ⟨fun j => ?_, hfresh', ?_⟩
    · by_cases hj : j = i
      · subst hj
        have hs := h.same j
        cases hr : recover fs j with
        | none =>
          rw [hr] at hs
          simp only [Option.map_none] at hs
          rw [exec_meta_missing fs _ j (Or.inl rfl) hr]
          simp [toOp, step, ← hs]
        | some p =>
          obtain ⟨e, m⟩ := p
          rw [hr] at hs
          rw [C04.exec_allowed fs _ j e m (Or.inr (Or.inl rfl)) hr]
          simp only [toOp, step, ← hs, Option.map_some]
          simp only [lookup_update_same, ← hs]
          simp [toRec, DiskFS.Op.id, DiskFS.newMeta]
      · rw [exec_other fs _ j (by simpa [DiskFS.Op.id] using Ne.symm hj)]
        simp only [toOp, step]
        split
        · simpa using h.same j
        · rw [lookup_update_ne hj]; exact h.same j
    · simp only [toOp, step]
      split
      · simpa using h.nodup
      · rw [map_fst_update]; exact h.nodup
  | incr i =>
    refine ⟨fun j => ?_, hfresh', ?_⟩
    · by_cases hj : j = i
      · subst hj
        have hs := h.same j
        cases hr : recover fs j with
        | none =>
          rw [hr] at hs
          simp only [Option.map_none] at hs
          rw [exec_meta_missing fs _ j (Or.inr (Or.inl rfl)) hr]
          simp [toOp, step, ← hs]
        | some p =>
          obtain ⟨e, m⟩ := p
          rw [hr] at hs
          rw [C04.exec_allowed fs _ j e m (Or.inr (Or.inr (Or.inl rfl))) hr]
          simp only [toOp, step, ← hs, Option.map_some]
          simp only [lookup_update_same, ← hs]
          simp [toRec, DiskFS.Op.id, DiskFS.newMeta]
      · rw [exec_other fs _ j (by simpa [DiskFS.Op.id] using Ne.symm hj)]
        simp only [toOp, step]
        split
        · simpa using h.same j
        · rw [lookup_update_ne hj]; exact h.same j
    · simp only [toOp, step]
      split
      · simpa using h.nodup
      · rw [map_fst_update]; exact h.nodup
  | deliver i l =>
    refine ⟨fun j => ?_, hfresh', ?_⟩
    · by_cases hj : j = i
      · subst hj
        have hs := h.same j
        cases hr : recover fs j with
        | none =>
          rw [hr] at hs
          simp only [Option.map_none] at hs
          rw [exec_meta_missing fs _ j (Or.inr (Or.inr rfl)) hr]
          simp [toOp, step, ← hs]
        | some p =>
          obtain ⟨e, m⟩ := p
          rw [hr] at hs
          rw [C04.exec_allowed fs _ j e m (Or.inr (Or.inr (Or.inr rfl))) hr]
          simp only [toOp, step, ← hs, Option.map_some]
          simp only [lookup_update_same, ← hs]
          simp [toRec, DiskFS.Op.id, DiskFS.newMeta]
      · rw [exec_other fs _ j (by simpa [DiskFS.Op.id] using Ne.symm hj)]
        simp only [toOp, step]
        split
        · simpa using h.same j
        · rw [lookup_update_ne hj]; exact h.same j
    · simp only [toOp, step]
      split
      · simpa using h.nodup
      · rw [map_fst_update]; exact h.nodup

/-- The ids of the writes are the ones the table hands out, in order (uuids in the code; the k-th write is message k here). -/
def SeqIds : Nat → List C04.Step → Prop
  | _, [] => True
  | n, st :: rest =>
    match st.op with
    | .write id _ _ => id = n ∧ SeqIds (n + 1) rest
    | _ => SeqIds n rest

theorem rel_init : Rel envOf [] init :=
  ⟨fun i => by simp [recover, DiskFS.fsGet, init, lookup], by intro p hp; simp [init] at hp, by simp [init]⟩

theorem run_fst_cons (k : Kind) (s : St) (op : Op) (ops : List Op) : (run k s (op :: ops)).1 = (run k (step k s op).1 ops).1 := by
  simp [run]

/-- **The disk backend refines the store model** over every history of complete operations. -/
theorem disk_refines_store (l : List C04.Step) (fs : FS) (s : St) (h : Rel envOf fs s) (hs : SeqIds s.next l) :
    Rel envOf (C04.execAll fs l) (run .accum s (l.map fun st => toOp envOf st.op)).1 := by
  induction l generalizing fs s with
  | nil => simpa [C04.execAll, run] using h
  | cons st rest ih =>
    simp only [C04.execAll, List.foldl_cons, List.map_cons, run_fst_cons]
    have hstep := disk_step_refines envOf fs s st h (by
      intro id e ts hop
      simp only [SeqIds, hop] at hs
      exact hs.1)
    apply ih _ _ hstep
    obtain ⟨op, k, c1, c2⟩ := st
    cases op <;> simp only [SeqIds] at hs <;> simp only [toOp, step]
    · exact hs.2
    · split <;> exact hs
    · split <;> exact hs
    · split <;> exact hs
    · exact hs

/-- **What a fresh `DiskStorage` shows for a message is what the reference store shows** (C04's model ∘ C15 ∘ C03): after every
    history of complete disk operations, for every id, the recipients `get` returns from the directories — the pickled envelope's
    recipients with the accumulated delivered indexes replayed — the attempt counter and the due time are those of the in-place
    reference store after the same operations; an id is recoverable from the directories exactly when the reference store has it. -/
theorem disk_get_is_reference_get (l : List C04.Step) (hs : SeqIds 0 l) (i : Nat) :
    (recover (C04.execAll [] l) i).map (fun p => (delSeq p.2.delivered (envOf p.1).2.2, p.2.attempts, p.2.ts)) =
    (lookup i (run .inplace init (l.map fun st => toOp envOf st.op)).1.recs).map (fun r => (r.rcpts, r.attempts, r.ts)) := by
  have hrel := disk_refines_store envOf l [] init (rel_init envOf) (by simpa [init] using hs)
  have href := (accum_refines_reference (l.map fun st => toOp envOf st.op) init).2
  have hinit : absSt init = init := by simp [absSt, init]
  rw [hinit] at href
  rw [href]
  simp only [absSt, lookup_map, ← hrel.same i, Option.map_map]
  cases recover (C04.execAll [] l) i with
  | none => rfl
  | some p => simp [toRec, absRec]

/-- non-vacuity: two messages; the first gets two delivered rounds (positions of the recipient list as it stands), an attempt
    and a new due time; the second is removed -/
def demoEnvOf : Nat → Nat × Nat × List Nat := fun e => (1, 2, if e = 9 then [10, 11, 12, 13] else [20])
def demoDisk : List C04.Step := [⟨.write 0 9 100, 0, 2, 1⟩, ⟨.write 1 8 100, 2, 1, 1⟩, ⟨.deliver 0 [0, 2], 4, 1, 0⟩, ⟨.incr 0, 6, 1, 0⟩,
  ⟨.deliver 0 [1], 8, 1, 0⟩, ⟨.setTs 0 300, 10, 1, 0⟩, ⟨.remove 1, 0, 0, 0⟩]
example : SeqIds 0 demoDisk := by simp [SeqIds, demoDisk]
example : (recover (C04.execAll [] demoDisk) 0).map (fun p => (delSeq p.2.delivered (demoEnvOf p.1).2.2, p.2.attempts, p.2.ts))
      = some ([11], 1, 300) ∧ recover (C04.execAll [] demoDisk) 1 = none := by decide

end disk

end Slimta.C15
