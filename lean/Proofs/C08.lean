import Model.Server
import Model.Client
import Proofs.C07
import Proofs.C17
/-!
# C08 — nothing crosses the STARTTLS boundary; AUTH only when permitted

Property theorems over `Model/Server.lean` and, for the client side, `Model/Client.lean` (`starttls`). TLS itself is an
opaque byte pipe that starts empty (partial): what is proved is what the server and the client do around it.
-/
namespace Slimta.C08
open Slimta Slimta.Server

/-- **After the handshake nothing received before it is used**: the session continues on the TLS
    stream with an empty receive buffer and the just-greeted state; whatever clear-text bytes were
    left (in the buffer or in flight) do not occur in the continuation at all. -/
theorem handshake_discards_cleartext (v : Verdicts) (ao : AuthOracle) (fuel k : Nat) (s : St) (st : Stream)
    (t : List Bytes) (ts : List (List Bytes)) (acc : List Event)
    (h : (loop v ao fuel s st acc).ending = "tls") :
    serve.go v ao fuel (k + 1) s st (t :: ts) acc =
      serve.go v ao fuel k (afterTls (loop v ao fuel s st acc).state).1 ⟨[], t⟩ ts
        ((loop v ao fuel s st acc).events ++ (afterTls (loop v ao fuel s st acc).state).2) := by
  simp [serve.go, h]

/-- …and the state it continues in is the just-greeted one: no EHLO identity, no sender, no
    recipient, no envelope, STARTTLS no longer offered, the channel marked encrypted. -/
theorem handshake_resets (s : St) :
    (afterTls s).1.ehloAs = none ∧ (afterTls s).1.haveMail = .unset ∧ (afterTls s).1.haveRcpt = .unset ∧
    (afterTls s).1.envelope = none ∧ (afterTls s).1.extTls = false ∧ (afterTls s).1.encrypted = true := by
  simp [afterTls]

/-- **AUTH is refused when not permitted**: the SASL exchange is entered only when AUTH is offered,
    an EHLO was accepted, the session is not yet authenticated and no transaction is open. -/
theorem auth_entered_only_when_permitted (s : St) (arg : Option Bytes) (m : Bytes) (i : Option Bytes)
    (h : (stepAuth s arg).2.2 = .auth m i) :
    s.extAuth = true ∧ s.ehloAs.isSome = true ∧ s.authed = false ∧ s.haveMail.truthy = false := by
  simp only [stepAuth] at h
  split at h
  · simp at h
  · split at h
    · simp at h
    · rename_i h1 h2
      simp at h1 h2
      refine ⟨h1, ?_, h2.1.2, h2.2⟩
      cases he : s.ehloAs <;> simp_all

/-- **Plain-text mechanisms need TLS; unknown mechanisms are refused**: the application sees an
    AUTH callback only on an encrypted session and only for PLAIN or LOGIN. -/
theorem auth_callback_needs_tls (v : Verdicts) (ao : AuthOracle) (s : St) (mech : Bytes) (initial : Option Bytes)
    (st : Stream) (s' : St) (evs : List Event) (nx : Next) (st' : Stream) (a b c : Bytes)
    (h : authExchange v ao s mech initial st = .ok (s', evs, nx, st')) (hc : .cb (.auth a b c) ∈ evs) :
    s.encrypted = true ∧ (mech = mPLAIN ∨ mech = mLOGIN) := by
  simp only [authExchange] at h
  split at h
  · simp at h; obtain ⟨_, rfl, _, _⟩ := h; simp at hc
  · rename_i hm
    split at h
    · simp at h; obtain ⟨_, rfl, _, _⟩ := h; simp at hc
    · rename_i he
      simp at he
      refine ⟨he, ?_⟩
      by_cases hp : mech = mPLAIN
      · exact Or.inl hp
      · by_cases hl : mech = mLOGIN
        · exact Or.inr hl
        · exfalso; simp [hp, hl] at hm

/-- **A malformed AUTH line never ends the session**: whatever its argument (none, unknown
    mechanism, junk), the command is answered and the server keeps reading commands. -/
theorem malformed_auth_continues (s : St) (arg : Option Bytes) :
    (stepAuth s arg).2.2 = .continue_ ∨ ∃ m i, (stepAuth s arg).2.2 = .auth m i := by
  simp only [stepAuth]
  repeat' split
  all_goals first
    | exact Or.inl rfl
    | exact Or.inr ⟨_, _, rfl⟩

/-- …and neither does a bad response inside the exchange (cancel `*`, bad base64, a PLAIN response
    the mechanism cannot parse): the exchange ends with a reply and the session goes on, unless the
    application itself chose a closing code. -/
theorem auth_exchange_never_aborts (v : Verdicts) (ao : AuthOracle) (s : St) (mech : Bytes) (initial : Option Bytes)
    (st : Stream) (s' : St) (evs : List Event) (nx : Next) (st' : Stream)
    (h : authExchange v ao s mech initial st = .ok (s', evs, nx, st')) : nx = .continue_ ∨ nx = .closed := by
  have hf : ∀ (s2 : St) (e2 : List Event) (code : Nat), (finish s2 e2 code).2.2 = .continue_ ∨ (finish s2 e2 code).2.2 = .closed := by
    intro s2 e2 code; simp only [finish]; split <;> simp
  simp only [authExchange, callback] at h
  repeat' split at h
  all_goals first
    | (simp at h; obtain ⟨_, _, rfl, _⟩ := h; first | exact Or.inl rfl | exact hf _ _ _)
    | (simp at h)

/-- **Authenticated only after the application accepted**: the `authed` flag goes up only
    together with a `235` reply (the application's verdict on the AUTH callback; the exchange
    produces a `235` nowhere else). -/
theorem authed_only_after_235 (v : Verdicts) (ao : AuthOracle) (s : St) (mech : Bytes) (initial : Option Bytes)
    (st : Stream) (s' : St) (evs : List Event) (nx : Next) (st' : Stream)
    (h : authExchange v ao s mech initial st = .ok (s', evs, nx, st')) (h0 : s.authed = false)
    (h1 : s'.authed = true) : .reply 235 ∈ evs := by
  simp only [authExchange, callback] at h
  repeat' split at h
  all_goals first
    | (simp at h; obtain ⟨rfl, _, _, _⟩ := h; simp [h0] at h1; done)
    | (simp at h; done)
    | skip
  all_goals (
    simp only [Except.ok.injEq, Prod.mk.injEq] at h
    obtain ⟨hs, he, _, _⟩ := h
    have hcode : (v s.ncb).getD 235 = 235 := by
      rw [C07.finish_state] at hs; subst hs; simpa using h1
    subst he
    simp [finish, hcode])

/-! ## the client side -/
section ClientSide

/-- **Nothing crosses the STARTTLS boundary on the client side.** A client that owes no reply sends STARTTLS; the
    server's `220` arrives followed by any bytes at all in clear text (`junk`: forged replies, a half reply, anything).
    The client's state after the handshake — what it will read next, the replies it has filled — is the same whatever
    `junk` was: it reads from the TLS stream with an empty buffer. -/
theorem client_handshake_discards_cleartext (s : Client.St) (hq : s.queue = []) (hf : s.failed = none) (hfresh : ∀ e ∈ s.filled, e.1 < s.next) (m : Bytes)
    (hu : Reply.utf8Ok (normCRLF m) = true) (junk junk' : Bytes) (tls : List Bytes) :
    Client.starttls { s with buf := Reply.encode [50, 50, 48] m ++ junk, segs := [] } tls =
    Client.starttls { s with buf := Reply.encode [50, 50, 48] m ++ junk', segs := [] } tls := by
  have key : ∀ j : Bytes, Client.starttls { s with buf := Reply.encode [50, 50, 48] m ++ j, segs := [] } tls =
      { s with queue := [], next := s.next + 1, filled := s.filled ++ [(s.next, [50, 50, 48], normCRLF m)], buf := [], segs := tls } := by
    intro j
    obtain ⟨r, hr, hcode, hbody, hrest⟩ := Slimta.C17.reply_roundtrip [50, 50, 48] ⟨50, 50, 48, rfl, by decide, by decide, by decide⟩ (by decide) m hu j
      (Reply.encode [50, 50, 48] m ++ j) [] (by simp) (by simp)
    simp only [Client.starttls, Client.call, hf, Option.isSome_none, Bool.false_eq_true, if_false, Client.enqueue, hq, List.nil_append, Client.flushNow,
      List.length_cons, List.length_nil, Client.flush, hr]
    have hlook : Client.lookupFilled s.next (s.filled ++ [(s.next, r.code, r.body)]) = some (r.code, r.body) := by
      unfold Client.lookupFilled
      rw [List.find?_append]
      have hnone : s.filled.find? (fun x => x.1 == s.next) = none := by
        rw [List.find?_eq_none]
        intro e he
        have := hfresh e he
        simp; omega
      simp [hnone]
    rw [hlook]
    simp [hcode, hbody]
  rw [key junk, key junk']

end ClientSide

end Slimta.C08
