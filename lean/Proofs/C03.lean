import Model.Attempt
namespace Slimta.C03
theorem placeholder : (1 : Nat) = 1 := rfl
end Slimta.C03
