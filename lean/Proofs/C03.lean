import Model.Attempt
import Proofs.Lemmas.Attempt
import Proofs.C15
import Proofs.C12
/-!
# C03 — settled recipients are never attempted again; one attempt in flight per message

Part 1 (this file): over *every* history of delivery attempts — any number of rounds, any number
of recipients, any mixture of outcomes, any backoff — a recipient the relay reported delivered or
permanently failed is in no later attempt. The storage side (indexes reported per round against
the list of the last `get`) is C15's `accum_refines_reference`, re-exported here for the
multi-round case. Part 2 (single attempt in flight under all interleavings of the scheduler's transition system,
`Model/Sched.lean`) is proved in `Proofs/C12.lean` and re-exported at the end of this file.
-/
namespace Slimta.C03
open Slimta.Attempt

/-- **A settled recipient is in no later attempt.** At any point of any valid history: whoever the
    attempt just made reported delivered or failed for good is absent from the recipient list of
    every later attempt of that message. -/
theorem settled_never_attempted_again (cfg : Cfg) (m : Msg) (o : Outcome) (os : List Outcome)
    (hv : ValidHistory cfg (some m) (o :: os)) (x : Rcpt)
    (hx : x ∈ (attempt cfg m o).delivered ∨ x ∈ (attempt cfg m o).failed.map Prod.fst) :
    ∀ l ∈ pres cfg (attempt cfg m o).msg os, x ∉ l := by
  obtain ⟨hc, _⟩ := hv
  intro l hl hxl
  cases hm : (attempt cfg m o).msg with
  | none => rw [hm] at hl; simp [pres] at hl
  | some m' =>
    rw [hm] at hl
    have hin : x ∈ m'.rcpts := pres_subset cfg os m' l hl x hxl
    have hcons := attempt_conserves cfg m o hc x
    simp only [restCount, hm] at hcons
    have hn : m.rcpts.Nodup := by cases o <;> first | exact hc | exact hc.2.1
    have hle := List.nodup_iff_count.mp hn x
    have h1 : 0 < m'.rcpts.count x := List.count_pos_iff.mpr hin
    rcases hx with hx | hx
    · have : 0 < (attempt cfg m o).delivered.count x := List.count_pos_iff.mpr hx
      omega
    · have : 0 < ((attempt cfg m o).failed.map Prod.fst).count x := List.count_pos_iff.mpr hx
      omega

/-- The next attempt is made for exactly the recipients that were only transiently refused. -/
theorem next_attempt_is_the_unsettled (cfg : Cfg) (m : Msg) (res : List (Rcpt × RRes)) (hc : Complete m res)
    (m' : Msg) (h : (attempt cfg m (.mapping res)).msg = some m') :
    m'.rcpts = m.rcpts.filter (fun x => !(settledOf res).contains x) := by
  have hunf : handlePartial cfg m res =
      if (tempsOf res).isEmpty then ⟨none, bouncesFor cfg (permsOf res) false, oksOf res, permsOf res, none⟩
      else retryLater cfg m (tempsOf res) (deleteIdxs (res.filterMap fun (rc, v) => match v with
        | .ok | .perm _ => some (m.rcpts.idxOf rc)
        | .temp _ => none) m.rcpts) (bouncesFor cfg (permsOf res) false) (oksOf res) (permsOf res) := rfl
  simp only [attempt] at h
  rw [hunf] at h
  split at h
  · simp at h
  · simp only [retryLater] at h
    split at h
    · simp at h
    · simp at h; subst h
      exact remaining_rcpts m res hc

/-- **Index agreement over any number of rounds**: the accumulating storage representation (disk,
    redis, cloud) returns after every sequence of operations, delivered-marking rounds included,
    what the reference store returns. -/
theorem index_agreement (ops : List Store.Op) :
    (Store.run .accum Store.init ops).2 = (Store.run .inplace Store.init ops).2 :=
  C15.accum_refines_reference_init ops

/-! ### non-vacuity -/

example : ValidHistory ⟨fun _ => some 0, true, true⟩ (some ⟨[0, 1, 2], 0⟩)
    [.mapping [(2, .ok), (0, .temp 1), (1, .temp 1)]] := by
  refine ⟨⟨by decide, by decide, ?_⟩, ?_⟩
  · intro x; simp; constructor <;> (intro h; rcases h with h | h | h <;> simp [h])
  · cases h : (attempt ⟨fun _ => some 0, true, true⟩ ⟨[0, 1, 2], 0⟩
      (.mapping [(2, .ok), (0, .temp 1), (1, .temp 1)])).msg <;> simp [ValidHistory]

example : pres ⟨fun _ => some 0, true, true⟩ (some ⟨[0, 1, 2], 0⟩)
    [.mapping [(2, .ok), (0, .temp 1), (1, .temp 1)], .mapping [(1, .perm 2), (0, .temp 1)], .success]
    = [[0, 1, 2], [0, 1], [0]] := by decide

/-- **Part 2 — one attempt in flight per message, under every interleaving** of enqueue, storage
    announcements, clock ticks, scheduler turns, `_dequeue` tasks, relay outcomes, retries, removals
    and flushes (calm environment, see `Proofs/C12.lean`): the attempts in flight are pairwise
    different messages, and a message in flight has neither a timetable entry nor a pending
    `_dequeue` task that could start a second one. -/
theorem one_attempt_in_flight_per_message {pre : List (Nat × Nat)} (hpre : (pre.map (·.1)).Nodup) {s : Sched.State}
    (hr : C12.Reach (C12.start pre) s) :
    s.inflight.Nodup ∧ ∀ id ∈ s.inflight, (∀ t, (t, id) ∉ s.queued) ∧ id ∉ Sched.dIds s :=
  C12.one_attempt_in_flight hpre hr

end Slimta.C03
