import Model.Attempt
import Proofs.Lemmas.Attempt
import Proofs.C15
import Proofs.C12
import Proofs.Lemmas.QueueM
import Proofs.Lemmas.QueueAttempts
/-!
# C03 — settled recipients are never attempted again; one attempt in flight per message

Part 1 (this file): over *every* history of delivery attempts — any number of rounds, any number
of recipients, any mixture of outcomes, any backoff — a recipient the relay reported delivered or
permanently failed is in no later attempt. The storage side (indexes reported per round against
the list of the last `get`) is C15's `accum_refines_reference`, re-exported here for the
multi-round case. Part 2 (single attempt in flight under all interleavings of the scheduler's transition system,
`Model/Sched.lean`) is proved in `Proofs/C12.lean` and re-exported at the end of this file.
-/
namespace Slimta.C03
open Slimta.Attempt

/-- **A settled recipient is in no later attempt.** At any point of any valid history: whoever the
    attempt just made reported delivered or failed for good is absent from the recipient list of
    every later attempt of that message. -/
theorem settled_never_attempted_again (cfg : Cfg) (m : Msg) (o : Outcome) (os : List Outcome)
    (hv : ValidHistory cfg (some m) (o :: os)) (x : Rcpt)
    (hx : x ∈ (attempt cfg m o).delivered ∨ x ∈ (attempt cfg m o).failed.map Prod.fst) :
    ∀ l ∈ pres cfg (attempt cfg m o).msg os, x ∉ l := by
  obtain ⟨hc, _⟩ := hv
  intro l hl hxl
  cases hm : (attempt cfg m o).msg with
  | none => rw [hm] at hl; simp [pres] at hl
  | some m' =>
    rw [hm] at hl
    have hin : x ∈ m'.rcpts := pres_subset cfg os m' l hl x hxl
    have hcons := attempt_conserves cfg m o hc x
    simp only [restCount, hm] at hcons
    have hn : m.rcpts.Nodup := by cases o <;> first | exact hc | exact hc.2.1
    have hle := List.nodup_iff_count.mp hn x
    have h1 : 0 < m'.rcpts.count x := List.count_pos_iff.mpr hin
    rcases hx with hx | hx
    · have : 0 < (attempt cfg m o).delivered.count x := List.count_pos_iff.mpr hx
      omega
    · have : 0 < ((attempt cfg m o).failed.map Prod.fst).count x := List.count_pos_iff.mpr hx
      omega

/-- The next attempt is made for exactly the recipients that were only transiently refused. -/
theorem next_attempt_is_the_unsettled (cfg : Cfg) (m : Msg) (res : List (Rcpt × RRes)) (hc : Complete m res)
    (m' : Msg) (h : (attempt cfg m (.mapping res)).msg = some m') :
    m'.rcpts = m.rcpts.filter (fun x => !(settledOf res).contains x) := by
  have hunf : handlePartial cfg m res =
      if (tempsOf res).isEmpty then ⟨none, bouncesFor cfg (permsOf res) false, oksOf res, permsOf res, none⟩
      else retryLater cfg m (tempsOf res) (deleteIdxs (res.filterMap fun (rc, v) => match v with
        | .ok | .perm _ => some (m.rcpts.idxOf rc)
        | .temp _ => none) m.rcpts) (bouncesFor cfg (permsOf res) false) (oksOf res) (permsOf res) := rfl
  simp only [attempt] at h
  rw [hunf] at h
  split at h
  · simp at h
  · simp only [retryLater] at h
    split at h
    · simp at h
    · simp at h; subst h
      exact remaining_rcpts m res hc

/-- **Index agreement over any number of rounds**: the accumulating storage representation (disk,
    redis, cloud) returns after every sequence of operations, delivered-marking rounds included,
    what the reference store returns. -/
theorem index_agreement (ops : List Store.Op) :
    (Store.run .accum Store.init ops).2 = (Store.run .inplace Store.init ops).2 :=
  C15.accum_refines_reference_init ops

/-! ### non-vacuity -/

example : ValidHistory ⟨fun _ => some 0, true, true⟩ (some ⟨[0, 1, 2], 0⟩)
    [.mapping [(2, .ok), (0, .temp 1), (1, .temp 1)]] := by
  refine ⟨⟨by decide, by decide, ?_⟩, ?_⟩
  · intro x; simp; constructor <;> (intro h; rcases h with h | h | h <;> simp [h])
  · cases h : (attempt ⟨fun _ => some 0, true, true⟩ ⟨[0, 1, 2], 0⟩
      (.mapping [(2, .ok), (0, .temp 1), (1, .temp 1)])).msg <;> simp [ValidHistory]

example : pres ⟨fun _ => some 0, true, true⟩ (some ⟨[0, 1, 2], 0⟩)
    [.mapping [(2, .ok), (0, .temp 1), (1, .temp 1)], .mapping [(1, .perm 2), (0, .temp 1)], .success]
    = [[0, 1, 2], [0, 1], [0]] := by decide

/-- **Part 2 — one attempt in flight per message, under every interleaving** of enqueue, storage
    announcements, clock ticks, scheduler turns, `_dequeue` tasks, relay outcomes, retries, removals
    and flushes (calm environment, see `Proofs/C12.lean`): the attempts in flight are pairwise
    different messages, and a message in flight has neither a timetable entry nor a pending
    `_dequeue` task that could start a second one. -/
theorem one_attempt_in_flight_per_message {pre : List (Nat × Nat)} (hpre : (pre.map (·.1)).Nodup) {s : Sched.State}
    (hr : C12.Reach (C12.start pre) s) :
    s.inflight.Nodup ∧ ∀ id ∈ s.inflight, (∀ t, (t, id) ∉ s.queued) ∧ id ∉ Sched.dIds s :=
  C12.one_attempt_in_flight hpre hr

/-! ## The composed machine (Model/QueueM.lean): both parts in one transition system -/
section composed
open Slimta.QM
open Slimta.Sched (sIds)
variable {fb : Bool} {pre : List (Nat × Nat)} {rc : Nat → List Rcpt} {nn : Nat → Bool} {att : Nat → Nat}

/-- **Every hand-off is for exactly the unsettled recipients**, under every interleaving: whenever a step of the composed machine
    hands message `id` to the relay (enqueue's own hand-off or a `_dequeue` task, whatever caused it), the recipients of that
    attempt are the ones outstanding at that moment, and none of them has been reported delivered or failed for good before. -/
theorem handoff_is_for_the_unsettled (hpre : (pre.map (·.1)).Nodup) (hrc : ∀ id ∈ pre.map (·.1), (rc id).Nodup) {q q' : State}
    (hr : Reach fb (startAt pre rc nn att) q) {l : Label} (hc : calm q l) (hs : step fb q l = some q')
    (id : Nat) (rs : List Rcpt) (a : Nat) (hnew : q'.handed = (id, rs, a) :: q.handed) :
    rs = outstanding q.s.rem q id ∧ ∀ x ∈ rs, x ∉ q.delivered id ∧ x ∉ (q.failed id).map Prod.fst := by
  have h := reach_inv hpre hrc hr
  have hv := vok_of_inv h.sched
  have hL := h.led
  have key : ∀ m, q.msgs id = some m → id ∉ q.s.rem → id ∉ q.s.retry → id ∉ q.s.retrying →
      m.rcpts = outstanding q.s.rem q id ∧ ∀ x ∈ m.rcpts, x ∉ q.delivered id ∧ x ∉ (q.failed id).map Prod.fst := by
    intro m hm h1 h2 h3
    have hpn := pend_none_of hL (v := view q.s) h2 h3
    have hout : outstanding q.s.rem q id = m.rcpts := by simp [outstanding, h1, hm, hpn]
    refine ⟨hout.symm, ?_⟩
    intro x hx
    have hst : id ∈ sIds q.s := (hL.stored id).mp (by simp [hm])
    cases ho : q.orig id with
    | none => have := hL.orig id hst; simp [ho] at this
    | some r =>
      have hl := hL.ledger id r ho x
      have hle := List.nodup_iff_count.mp (hL.nodup id r ho) x
      have : 0 < m.rcpts.count x := List.count_pos_iff.mpr hx
      have hl' : (q.delivered id).count x + ((q.failed id).map Prod.fst).count x + m.rcpts.count x = r.count x := by
        rw [← hout]; exact hl
      constructor
      · intro hd; have := List.count_pos_iff.mpr hd; omega
      · intro hd; have := List.count_pos_iff.mpr hd; omega
  unfold step at hs
  split at hs
  · simp at hs
  · rename_i s' hss
    cases l with
    | activate id' =>
      simp only [toSched] at hss
      obtain ⟨hw, _⟩ := sched_activate hss
      have hna : id' ∉ q.s.active := (h.sched.written id' hw).1
      have hna' : q.s.active.contains id' = false := by simpa using hna
      simp only [hna', Bool.false_eq_true, if_false] at hs
      obtain ⟨r, hro, hm⟩ := hL.fresh id' hw
      simp only [hro, Option.some.injEq] at hs; subst hs
      simp only [List.cons.injEq, Prod.mk.injEq, and_true] at hnew
      obtain ⟨rfl, rfl, _⟩ := hnew
      obtain ⟨w1, w2, w3, w4, _⟩ := hv.written id' hw
      exact key ⟨r, 0⟩ hm w4 w2 w3
    | dequeue id' c =>
      simp only [toSched] at hss
      simp only at hs
      split at hs
      · simp only [Option.some.injEq] at hs; subst hs
        exact absurd hnew.symm (List.cons_ne_self _ _)
      · rename_i hcond
        simp only [Bool.or_eq_true, not_or, Bool.not_eq_true] at hcond
        split at hs
        · rename_i m hm
          simp only [Option.some.injEq] at hs; subst hs
          simp only [List.cons.injEq, Prod.mk.injEq, and_true] at hnew
          obtain ⟨rfl, rfl, _⟩ := hnew
          have hna : id' ∉ q.s.active := by simpa using hcond.2
          have hnn : ¬ (id' ∈ q.s.inflight ∨ id' ∈ q.s.retry ∨ id' ∈ q.s.retrying ∨ id' ∈ q.s.rem) :=
            fun hx => hna ((h.sched.act id').mpr hx)
          exact key m hm (fun hx => hnn (Or.inr (Or.inr (Or.inr hx)))) (fun hx => hnn (Or.inr (Or.inl hx)))
            (fun hx => hnn (Or.inr (Or.inr (Or.inl hx))))
        · simp at hs
    | write id' ts rcpts nn' =>
      simp only at hs
      split at hs
      · simp only [Option.some.injEq] at hs; subst hs; exact absurd hnew.symm (List.cons_ne_self _ _)
      · simp at hs
    | done id' o =>
      simp only at hs
      split at hs
      · simp at hs
      · simp only [Option.some.injEq] at hs; subst hs; exact absurd hnew.symm (List.cons_ne_self _ _)
    | retry id' w =>
      simp only at hs
      split at hs
      · cases w <;> (simp only [Option.some.injEq] at hs; subst hs; exact absurd hnew.symm (List.cons_ne_self _ _))
      · simp at hs
    | requeue id' =>
      simp only at hs
      split at hs
      · simp only [Option.some.injEq] at hs; subst hs; exact absurd hnew.symm (List.cons_ne_self _ _)
      · simp at hs
    | announce _ _ => simp only [Option.some.injEq] at hs; subst hs; exact absurd hnew.symm (List.cons_ne_self _ _)
    | tick _ => simp only [Option.some.injEq] at hs; subst hs; exact absurd hnew.symm (List.cons_ne_self _ _)
    | sched => simp only [Option.some.injEq] at hs; subst hs; exact absurd hnew.symm (List.cons_ne_self _ _)
    | sleep => simp only [Option.some.injEq] at hs; subst hs; exact absurd hnew.symm (List.cons_ne_self _ _)
    | poke => simp only [Option.some.injEq] at hs; subst hs; exact absurd hnew.symm (List.cons_ne_self _ _)
    | flush => simp only [Option.some.injEq] at hs; subst hs; exact absurd hnew.symm (List.cons_ne_self _ _)
    | remove _ => simp only [Option.some.injEq] at hs; subst hs; exact absurd hnew.symm (List.cons_ne_self _ _)

/-- Part 2 carried to the composed machine: its scheduler component runs the scheduler model. -/
theorem one_attempt_in_flight_composed (hpre : (pre.map (·.1)).Nodup) {q : QM.State} (hr : QM.Reach fb (QM.startAt pre rc nn att) q) :
    q.s.inflight.Nodup ∧ ∀ id ∈ q.s.inflight, (∀ t, (t, id) ∉ q.s.queued) ∧ id ∉ Sched.dIds q.s :=
  C12.one_attempt_in_flight hpre (QM.reach_sched hr)

theorem step_handed {q q' : State} {l : Label} (hs : step fb q l = some q') :
    q'.handed = q.handed ∨ ∃ id rs a, q'.handed = (id, rs, a) :: q.handed := by
  unfold step at hs
  split at hs
  · simp at hs
  · cases l <;> simp only at hs <;> (repeat' split at hs) <;>
      first
      | (simp at hs; done)
      | (simp only [Option.some.injEq] at hs; subst hs; first | exact Or.inl rfl | exact Or.inr ⟨_, _, _, rfl⟩)

/-- **Nobody is ever attempted who was not accepted for that message** — in particular nobody a restarted queue found marked
    delivered (`C04.restarted_queue_never_loses` starts the machine on the recipients not yet marked): in every reachable state every
    hand-off made so far, of any message, was for recipients among those the message was accepted with. -/
theorem handed_within_accepted (hpre : (pre.map (·.1)).Nodup) (hrc : ∀ id ∈ pre.map (·.1), (rc id).Nodup) {q : State}
    (hr : Reach fb (startAt pre rc nn att) q) : ∀ e ∈ q.handed, ∃ r, q.orig e.1 = some r ∧ ∀ x ∈ e.2.1, x ∈ r := by
  induction hr with
  | init => simp [startAt]
  | @step q q' l hprev hc hs ih =>
    have hI := reach_inv hpre hrc hprev
    have hA := reach_A_from (inv_startAt fb pre rc nn att hpre hrc) (A_startAt pre rc nn att) hprev
    have horig : ∀ j, j ∈ q.s.known → q'.orig j = q.orig j := by
      intro j hj
      rcases step_orig hs with h | ⟨id', _, _, _, _, h, _, hnk, _⟩
      · rw [h.1]
      · have : j ≠ id' := fun e => hnk (e ▸ hj)
        rw [h, upd_ne _ _ this]
    intro e he
    rcases step_handed hs with hsame | ⟨id, rs, a, hnew⟩
    · rw [hsame] at he
      obtain ⟨r, ho, hsub⟩ := ih e he
      exact ⟨r, by rw [horig _ (hA.knownH e he)]; exact ho, hsub⟩
    · rw [hnew] at he
      simp only [List.mem_cons] at he
      rcases he with rfl | he
      · obtain ⟨hrs, _⟩ := handoff_is_for_the_unsettled hpre hrc hprev hc hs id rs a hnew
        -- the new entry: its recipients are the outstanding ones, and those are among the accepted ones (the ledger)
        have hknown' : id ∈ q'.s.known := (reach_A_from (inv_startAt fb pre rc nn att hpre hrc) (A_startAt pre rc nn att) (Reach.step hprev hc hs)).knownH (id, rs, a) (by rw [hnew]; simp)
        by_cases hst : id ∈ sIds q.s
        · obtain ⟨r, ho⟩ := Option.isSome_iff_exists.mp (hI.led.orig id hst)
          refine ⟨r, ?_, ?_⟩
          · rcases step_orig hs with h | ⟨id', _, _, _, hl, _, _, _, _⟩
            · show q'.orig id = some r
              rw [h.1]; exact ho
            · -- a `write` step makes no hand-off
              exfalso
              subst hl
              unfold step at hs
              split at hs
              · simp at hs
              · simp only at hs
                split at hs
                · simp only [Option.some.injEq] at hs; subst hs
                  exact absurd hnew.symm (List.cons_ne_self _ _)
                · simp at hs
          · intro x hx
            have hl : (q.delivered id).count x + ((q.failed id).map Prod.fst).count x + (outstanding q.s.rem q id).count x = r.count x :=
              hI.led.ledger id r ho x
            rw [← hrs] at hl
            have : 0 < rs.count x := List.count_pos_iff.mpr hx
            exact List.count_pos_iff.mp (by omega)
        · -- not stored: nothing is outstanding, the hand-off is empty
          have hmn : q.msgs id = none := msgs_none_of hI.led (v := view q.s) hst
          have : rs = [] := by rw [hrs]; simp [outstanding, hmn]
          subst this
          -- a hand-off needs a stored message: this case cannot arise, but an empty list is within anything
          unfold step at hs
          split at hs
          · simp at hs
          · cases l <;> simp only at hs <;> (repeat' split at hs) <;>
              first
              | (simp at hs; done)
              | (simp only [Option.some.injEq] at hs; subst hs
                 first
                 | exact absurd hnew.symm (List.cons_ne_self _ _)
                 | (simp only [List.cons.injEq, Prod.mk.injEq] at hnew
                    obtain ⟨⟨rfl, _, _⟩, _⟩ := hnew
                    simp_all))
      · obtain ⟨r, ho, hsub⟩ := ih e he
        exact ⟨r, by rw [horig _ (hA.knownH e he)]; exact ho, hsub⟩

/-- **After a restart nobody the storage shows as delivered is attempted again** (C03 ∘ C04): start the queue machine on what a fresh
    `DiskStorage` recovers from any directories (`C04.loadOf`, `C04.rcptsOf`: the pickled recipients with the delivered rounds
    replayed; `C04.attOf`: the stored attempt counters). In every state the restarted queue reaches, every hand-off of a recovered message is for recipients the storage still
    listed — a recipient whose delivery was recorded before the crash is in none of them. -/
theorem restart_never_reattempts_delivered (fs : DiskFS.FS) (ids : List Nat) (hnd : ids.Nodup) (envOf : Nat → List Nat)
    (henv : ∀ e, (envOf e).Nodup) (id : Nat) (hid : id ∈ (C04.loadOf fs ids).map (·.1)) {q : State}
    (hr : Reach fb (startAt (C04.loadOf fs ids) (C04.rcptsOf envOf fs) nn (C04.attOf fs)) q) :
    ∀ e ∈ q.handed, e.1 = id → ∀ x ∈ e.2.1, x ∈ C04.rcptsOf envOf fs id := by
  have hpre := C04.loadOf_nodup fs ids hnd
  have hrc : ∀ i ∈ (C04.loadOf fs ids).map (·.1), (C04.rcptsOf envOf fs i).Nodup := by
    intro i _
    simp only [C04.rcptsOf]
    split
    · exact (C04.delSeq_sublist _ _).nodup (henv _)
    · simp
  intro e he heid x hx
  obtain ⟨r, ho, hsub⟩ := handed_within_accepted hpre hrc hr e he
  obtain ⟨ls, hT⟩ := hr.trace
  have h0 : (startAt (C04.loadOf fs ids) (C04.rcptsOf envOf fs) nn (C04.attOf fs)).orig id = some (C04.rcptsOf envOf fs id) := by
    have hc : ((C04.loadOf fs ids).map (·.1)).contains id = true := List.contains_iff_mem.mpr hid
    show (if ((C04.loadOf fs ids).map (·.1)).contains id then some (C04.rcptsOf envOf fs id) else none) = _
    rw [if_pos hc]
  have horig := (orig_of_start hT (inv_startAt fb _ _ nn _ hpre hrc) h0 (Or.inl (by
    show id ∈ sIds (startAt (C04.loadOf fs ids) (C04.rcptsOf envOf fs) nn (C04.attOf fs)).s
    simpa [startAt, sIds] using hid))).1
  rw [heid, horig] at ho
  simp only [Option.some.injEq] at ho
  rw [ho]; exact hsub x hx

end composed

end Slimta.C03
