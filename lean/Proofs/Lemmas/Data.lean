import Model.Data
namespace Slimta.Data
open Slimta

/-! ### the reader is a byte-wise left fold -/

theorem feed_nil (s : RS) : feed s [] = s := rfl
theorem feed_cons (s : RS) (b : Byte) (bs : Bytes) : feed s (b :: bs) = feed (feedByte s b) bs := rfl
theorem feed_append (s : RS) (a b : Bytes) : feed s (a ++ b) = feed (feed s a) b := by
  simp [feed, List.foldl_append]

theorem feed_eod (s : RS) (h : s.eod = true) (p : Bytes) :
    feed s p = { s with after := s.after ++ p } := by
  induction p generalizing s with
  | nil => simp [feed]
  | cons b rest ih =>
    rw [feed_cons]
    have : feedByte s b = { s with after := s.after ++ [b] } := by simp [feedByte, h]
    rw [this, ih _ (by simpa using h)]
    simp

theorem finishLine_cur (s : RS) (c line : Bytes) :
    finishLine { s with cur := c } line = finishLine s line := by
  simp [finishLine]

theorem feed_noLF (p : Bytes) (s : RS) (hn : splitLF p = none) (he : s.eod = false) :
    feed s p = { s with cur := s.cur ++ p } := by
  induction p generalizing s with
  | nil => simp [feed]
  | cons b rest ih =>
    simp only [splitLF] at hn
    split at hn
    · simp at hn
    · rename_i hb
      split at hn
      · rw [feed_cons]
        have : feedByte s b = { s with cur := s.cur ++ [b] } := by
          simp only [feedByte, he]; simp [hb]
        rename_i hr
        rw [this, ih _ hr (by simpa using he)]
        simp
      · simp at hn

theorem feed_someLF (p : Bytes) (s : RS) (l r : Bytes) (hs : splitLF p = some (l, r))
    (he : s.eod = false) : feed s p = feed (finishLine s (s.cur ++ l)) r := by
  induction p generalizing s l with
  | nil => simp [splitLF] at hs
  | cons b rest ih =>
    simp only [splitLF] at hs
    split at hs
    · rename_i hb
      simp at hs; obtain ⟨rfl, rfl⟩ := hs
      rw [feed_cons]; simp [feedByte, he, hb]
    · rename_i hb
      split at hs
      · simp at hs
      · rename_i l' r' heq
        simp at hs; obtain ⟨rfl, rfl⟩ := hs
        rw [feed_cons]
        have h1 : feedByte s b = { s with cur := s.cur ++ [b] } := by
          simp only [feedByte, he]; simp [hb]
        rw [h1, ih _ _ heq (by simpa using he), finishLine_cur]
        simp

theorem addLines_eq_feed (s : RS) (p : Bytes) : addLines s p = feed s p := by
  fun_induction addLines s p with
  | case1 s p he => rw [feed_eod s he]
  | case2 s p he hn =>
    rw [feed_noLF p s hn (by simpa using he)]
  | case3 s p he l r hs _ ih =>
    rw [ih, feed_someLF p s l r hs (by simpa using he)]

/-! ### `recvLoop` against the whole-stream fold -/

theorem recvLoop_spec (segs : List Bytes) (s : RS) (hne : ∀ x ∈ segs, x ≠ []) :
    ((feed s segs.flatten).eod = true →
        ∃ r, recvLoop s segs = .ok r ∧ r.data = (feed s segs.flatten).data ∧
          r.recvBuffer ++ r.unread.flatten = (feed s segs.flatten).after) ∧
    ((feed s segs.flatten).eod = false → recvLoop s segs = .error .wouldBlock) := by
  induction segs generalizing s with
  | nil =>
    simp only [List.flatten_nil, feed_nil, recvLoop]
    constructor
    · intro h; simp [h]
    · intro h; simp [h]
  | cons piece rest ih =>
    by_cases he : s.eod = true
    · rw [feed_eod s he]
      simp [recvLoop, he]
    · have he' : s.eod = false := by simpa using he
      have hp : piece ≠ [] := hne piece (by simp)
      have hrest : ∀ x ∈ rest, x ≠ [] := fun x hx => hne x (by simp [hx])
      have hstep : recvLoop s (piece :: rest)
          = recvLoop (addLines s piece) rest := by
        simp [recvLoop, he', hp]
      rw [hstep, List.flatten_cons, feed_append, addLines_eq_feed]
      exact ih (feed s piece) hrest

/-! ### reading what the sender wrote -/

/-- A current line the stuffed stream can produce: never a lone leading dot. -/
def okCur (c : Bytes) : Prop := ∀ r, c = 46 :: r → ∃ r', r = 46 :: r'

@[simp] theorem unstuffLine_nil : unstuffLine [] = [] := rfl

theorem unstuffLine_append (c : Bytes) (hc : c ≠ []) (x : Bytes) :
    unstuffLine (c ++ x) = unstuffLine c ++ x := by
  cases c with
  | nil => exact absurd rfl hc
  | cons b r =>
    by_cases hb : b = 46
    · subst hb; simp [unstuffLine]
    · simp only [List.cons_append]
      unfold unstuffLine
      split
      · rename_i heq; simp at heq; exact absurd heq.1 hb
      · split
        · rename_i heq; simp at heq; exact absurd heq.1 hb
        · rfl

theorem not_eod_of_okCur (c x : Bytes) (hc : okCur c) (hx : ∀ b ∈ x, b ≠ 46) (hx0 : c = [] → x ≠ []) :
    isEodLine (c ++ x) = false := by
  cases c with
  | nil =>
    cases x with
    | nil => simp at hx0
    | cons b r => simp [isEodLine]; intro h; exact absurd h (hx b (by simp))
  | cons b r =>
    by_cases hb : b = 46
    · subst hb
      obtain ⟨r', rfl⟩ := hc r rfl
      simp [isEodLine, isWs]
    · simp [isEodLine, hb]

theorem unstuffLine_snoc (c : Bytes) (b : Byte) (h : c = [] → b ≠ 46) :
    unstuffLine (c ++ [b]) = unstuffLine c ++ [b] := by
  cases c with
  | nil =>
    have hb := h rfl
    simp only [List.nil_append]
    unfold unstuffLine
    split
    · rename_i heq; simp at heq; exact absurd heq.1 hb
    · simp
  | cons c0 r => exact unstuffLine_append _ (by simp) _

theorem step_lf (s : RS) (he : s.eod = false) (hc : okCur s.cur) :
    feedByte s 10 = { s with data := s.data ++ (unstuffLine s.cur ++ [10]), cur := [] } := by
  have hne : isEodLine (s.cur ++ [10]) = false :=
    not_eod_of_okCur s.cur [10] hc (by simp) (by simp)
  simp [feedByte, he, finishLine, hne, unstuffLine_snoc s.cur 10 (by simp)]

theorem step_other (s : RS) (he : s.eod = false) (b : Byte) (hb : b ≠ 10) :
    feedByte s b = { s with cur := s.cur ++ [b] } := by
  simp [feedByte, he, hb]

theorem okCur_snoc (c : Bytes) (b : Byte) (hc : okCur c) (h : c = [] → b ≠ 46) : okCur (c ++ [b]) := by
  intro r hr
  cases c with
  | nil => simp at hr; exact absurd hr.1 (h rfl)
  | cons c0 r0 =>
    simp at hr
    obtain ⟨rfl, rfl⟩ := hr
    obtain ⟨r', rfl⟩ := hc r0 rfl
    exact ⟨r' ++ [b], by simp⟩

/-- Reading a stuffed message: the reader stays before EOD and has seen exactly the message. -/
theorem feed_stuff (m : Bytes) (f : Bool) (s : RS) (he : s.eod = false) (hc : okCur s.cur)
    (hf : f = true ↔ s.cur = []) :
    (feed s (stuff f m)).eod = false ∧ okCur (feed s (stuff f m)).cur ∧
    (feed s (stuff f m)).data ++ unstuffLine (feed s (stuff f m)).cur = s.data ++ unstuffLine s.cur ++ m ∧
    (feed s (stuff f m)).after = s.after ∧
    ((feed s (stuff f m)).cur = [] ↔ (if m = [] then f = true else m.getLast? = some 10)) := by
  induction m generalizing f s with
  | nil => simp [stuff, feed_nil, he, hc, hf]
  | cons b rest ih =>
    unfold stuff
    by_cases hdot : (f && b == 46) = true
    · rw [if_pos hdot]
      simp at hdot
      obtain ⟨hft, rfl⟩ := hdot
      have hcur : s.cur = [] := hf.mp hft
      rw [feed_cons, feed_cons, step_other s he 46 (by decide), step_other _ (by simpa using he) 46 (by decide)]
      have := ih false { s with cur := s.cur ++ [46] ++ [46] } (by simpa using he)
        (by simp [hcur]; intro r hr; simp at hr; exact ⟨[], by simp [hr]⟩) (by simp)
      obtain ⟨h1, h2, h3, h4, h5⟩ := this
      simp only [List.append_assoc] at h1 h2 h3 h4 h5 ⊢
      refine ⟨h1, h2, ?_, h4, ?_⟩
      · rw [h3]; simp [hcur, unstuffLine]
      · rw [h5]
        cases rest with
        | nil => simp
        | cons r0 rs => simp [List.getLast?_cons_cons]
    · rw [if_neg hdot]
      have hnd : s.cur = [] → b ≠ 46 := by
        intro h0 hb
        have : f = true := hf.mpr h0
        simp [this, hb] at hdot
      by_cases hb : b = 10
      · subst hb
        rw [feed_cons, step_lf s he hc]
        have := ih true { s with data := s.data ++ (unstuffLine s.cur ++ [10]), cur := [] }
          (by simpa using he) (by intro r hr; simp at hr) (by simp)
        obtain ⟨h1, h2, h3, h4, h5⟩ := this
        simp only [show ((10 : UInt8) == 10) = true from rfl]
        refine ⟨h1, h2, ?_, h4, ?_⟩
        · rw [h3]; simp [unstuffLine]
        · rw [h5]
          cases rest with
          | nil => simp
          | cons r0 rs => simp [List.getLast?_cons_cons]
      · rw [feed_cons, step_other s he b hb]
        have hb' : (b == 10) = false := by simp [hb]
        rw [hb']
        have := ih false { s with cur := s.cur ++ [b] } (by simpa using he)
          (okCur_snoc s.cur b hc hnd) (by simp)
        obtain ⟨h1, h2, h3, h4, h5⟩ := this
        refine ⟨h1, h2, ?_, h4, ?_⟩
        · rw [h3]; simp [unstuffLine_snoc s.cur b hnd]
        · rw [h5]
          cases rest with
          | nil => simp [hb]
          | cons r0 rs => simp [List.getLast?_cons_cons]

theorem stuff_append (f : Bool) (p q : Bytes) :
    stuff f (p ++ q) = stuff f p ++ stuff (if p = [] then f else p.getLast? == some 10) q := by
  induction p generalizing f with
  | nil => simp [stuff]
  | cons b rest ih =>
    simp only [List.cons_append, stuff]
    split
    · rw [ih false]
      cases rest with
      | nil => rename_i h; simp at h; simp [h.2]
      | cons r0 rs => simp [List.getLast?_cons_cons]
    · rw [ih (b == 10)]
      cases rest with
      | nil => simp
      | cons r0 rs => simp [List.getLast?_cons_cons]

/-- Feeding the three bytes `.\r\n` at a line start ends the data. -/
theorem feed_marker (s : RS) (he : s.eod = false) (hcur : s.cur = []) (trail : Bytes) :
    feed s ([46, 13, 10] ++ trail) = { s with eod := true, cur := [], after := s.after ++ trail } := by
  rw [feed_append]
  have h1 : feed s [46, 13, 10] = { s with eod := true, cur := [] } := by
    simp only [feed_cons, feed_nil]
    rw [step_other s he 46 (by decide), step_other _ (by simpa using he) 13 (by decide)]
    simp [feedByte, he, hcur, finishLine, isEodLine, isWs]
  rw [h1, feed_eod _ (by simp)]

theorem getLast_of_endsWith_crlf (m : Bytes) (h : endsWith m CRLF = true) :
    m ≠ [] ∧ m.getLast? = some 10 := by
  simp only [endsWith, List.isSuffixOf_iff_suffix] at h
  obtain ⟨t, rfl⟩ := h
  simp [CRLF]

end Slimta.Data
