import Model.Pool
/-! Helper lemmas for the relay-pool transition system. -/
namespace Slimta.Pool

def held (r : Nat) (cl : List CSt) : Nat := cl.countP (CSt.holds r)

theorem held_append_ready (r : Nat) (cl : List CSt) : held r (cl ++ [.ready false]) = held r cl := by
  simp [held, List.countP_append, CSt.holds]

theorem held_set {r : Nat} {cl : List CSt} {c : Nat} {old st : CSt} (h : cl[c]? = some old) :
    held r (cl.set c st) + (if old.holds r then 1 else 0) = held r cl + (if st.holds r then 1 else 0) := by
  have hc : c < cl.length := by
    rcases List.getElem?_eq_some_iff.mp h with ⟨hc, _⟩; exact hc
  have hget : cl[c] = old := by
    rcases List.getElem?_eq_some_iff.mp h with ⟨_, he⟩; exact he
  unfold held
  rw [List.countP_set hc, hget]
  have : (if old.holds r = true then 1 else 0) ≤ cl.countP (CSt.holds r) := by
    have := List.boole_getElem_le_countP (p := CSt.holds r) hc
    rw [hget] at this; exact this
  omega

theorem countP_eraseIdx {α} (p : α → Bool) (l : List α) (i : Nat) (x : α) (h : l[i]? = some x) :
    (l.eraseIdx i).countP p + (if p x then 1 else 0) = l.countP p := by
  induction l generalizing i with
  | nil => simp at h
  | cons y ys ih =>
    cases i with
    | zero =>
      simp at h; subst h
      simp [List.countP_cons]
    | succ j =>
      simp at h
      have := ih j h
      simp only [List.eraseIdx_cons_succ, List.countP_cons]
      omega

theorem held_eraseIdx_exiting {r : Nat} {cl : List CSt} {c : Nat} (h : cl[c]? = some .exiting) :
    held r (cl.eraseIdx c) = held r cl := by
  have := countP_eraseIdx (CSt.holds r) cl c .exiting h
  simpa [held, CSt.holds] using this

theorem lt_of_getElem? {α} {l : List α} {i : Nat} {x : α} (h : l[i]? = some x) : i < l.length := by
  rcases List.getElem?_eq_some_iff.mp h with ⟨hc, _⟩; exact hc

/-- `_check_idle` only ever appends one fresh client. -/
theorem checkIdle_cases (s : State) :
    checkIdle s = s ∨ (checkIdle s = addClient s ∧ (s.size = 0 ∨ s.clients.length < s.size)) := by
  unfold checkIdle
  split
  · left; rfl
  · split
    · rename_i h
      right; refine ⟨rfl, ?_⟩
      simp at h; exact h
    · left; rfl


/-! ### a weighted sum over the clients, for the termination measure -/

def sumW (w : CSt → Nat) : List CSt → Nat
  | [] => 0
  | c :: cs => w c + sumW w cs

theorem sumW_append (w : CSt → Nat) (a b : List CSt) : sumW w (a ++ b) = sumW w a + sumW w b := by
  induction a with
  | nil => simp [sumW]
  | cons x xs ih => simp [sumW, ih]; omega

theorem sumW_set (w : CSt → Nat) {cl : List CSt} {c : Nat} {old st : CSt} (h : cl[c]? = some old) :
    sumW w (cl.set c st) + w old = sumW w cl + w st := by
  induction cl generalizing c with
  | nil => simp at h
  | cons y ys ih =>
    cases c with
    | zero => simp at h; subst h; simp [sumW]; omega
    | succ j =>
      simp at h
      have := ih h
      simp only [List.set_cons_succ, sumW]
      omega

theorem sumW_eraseIdx (w : CSt → Nat) {cl : List CSt} {c : Nat} {old : CSt} (h : cl[c]? = some old) :
    sumW w (cl.eraseIdx c) + w old = sumW w cl := by
  induction cl generalizing c with
  | nil => simp at h
  | cons y ys ih =>
    cases c with
    | zero => simp at h; subst h; simp [sumW]; omega
    | succ j =>
      simp at h
      have := ih h
      simp only [List.eraseIdx_cons_succ, sumW]
      omega

def CSt.isExiting : CSt → Bool
  | .exiting => true
  | _ => false

theorem all_set_false {cl : List CSt} {c : Nat} {st : CSt} (hc : c < cl.length) (hst : st.isExiting = false) :
    (cl.set c st).all CSt.isExiting = false := by
  rw [List.all_eq_false]
  exact ⟨st, List.mem_set hc st, by simp [hst]⟩

theorem all_false_of_getElem {cl : List CSt} {c : Nat} {st : CSt} (h : cl[c]? = some st) (hst : st.isExiting = false) :
    cl.all CSt.isExiting = false := by
  rw [List.all_eq_false]
  exact ⟨st, List.mem_of_getElem? h, by simp [hst]⟩

end Slimta.Pool
