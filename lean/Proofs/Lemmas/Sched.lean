import Model.Sched
/-! Helper lemmas for the scheduler transition system. -/
namespace Slimta.Sched

def qIds (s : State) : List Nat := s.queued.map (·.2)
def dIds (s : State) : List Nat := s.deq.map (·.1)
def sIds (s : State) : List Nat := s.stored.map (·.1)

def Sorted (l : List (Nat × Nat)) : Prop := l.Pairwise (fun a b => a.1 ≤ b.1)

theorem mem_insort {e x : Nat × Nat} {l : List (Nat × Nat)} : x ∈ insort e l ↔ x = e ∨ x ∈ l := by
  induction l with
  | nil => simp [insort]
  | cons y ys ih =>
    simp only [insort]
    split
    · simp
    · simp only [List.mem_cons, ih]
      constructor
      · rintro (h | h | h)
        · exact Or.inr (Or.inl h)
        · exact Or.inl h
        · exact Or.inr (Or.inr h)
      · rintro (h | h | h)
        · exact Or.inr (Or.inl h)
        · exact Or.inl h
        · exact Or.inr (Or.inr h)

theorem insort_perm (e : Nat × Nat) (l : List (Nat × Nat)) : (insort e l).Perm (e :: l) := by
  induction l with
  | nil => simp [insort]
  | cons y ys ih =>
    simp only [insort]
    split
    · exact List.Perm.refl _
    · exact (List.Perm.cons y ih).trans (List.Perm.swap e y ys)

theorem insort_sorted {e : Nat × Nat} {l : List (Nat × Nat)} (h : Sorted l) : Sorted (insort e l) := by
  induction l with
  | nil => simp [insort, Sorted]
  | cons y ys ih =>
    simp only [insort]
    have hy : ∀ b ∈ ys, y.1 ≤ b.1 := (List.pairwise_cons.mp h).1
    have hys : Sorted ys := (List.pairwise_cons.mp h).2
    split
    · rename_i hlt
      have hle : e.1 ≤ y.1 := by
        simp only [lt, Bool.or_eq_true, decide_eq_true_eq, Bool.and_eq_true, beq_iff_eq] at hlt
        omega
      refine List.pairwise_cons.mpr ⟨?_, h⟩
      intro b hb
      rcases List.mem_cons.mp hb with rfl | hb
      · exact hle
      · exact Nat.le_trans hle (hy b hb)
    · rename_i hlt
      have hle : y.1 ≤ e.1 := by
        simp only [lt, Bool.or_eq_true, decide_eq_true_eq, Bool.and_eq_true, beq_iff_eq, not_or, not_and] at hlt
        omega
      refine List.pairwise_cons.mpr ⟨?_, ih hys⟩
      intro b hb
      rcases mem_insort.mp hb with rfl | hb
      · exact hle
      · exact hy b hb

theorem sorted_dropWhile {l : List (Nat × Nat)} (p : Nat × Nat → Bool) (h : Sorted l) : Sorted (l.dropWhile p) :=
  List.Pairwise.sublist (List.dropWhile_sublist p) h

/-- In a sorted timetable everything due is in the `takeWhile` prefix. -/
theorem due_mem_takeWhile {l : List (Nat × Nat)} {now : Nat} (h : Sorted l) {e : Nat × Nat} (he : e ∈ l) (hd : e.1 ≤ now) :
    e ∈ l.takeWhile (fun x => x.1 ≤ now) := by
  induction l with
  | nil => simp at he
  | cons y ys ih =>
    have hy : ∀ b ∈ ys, y.1 ≤ b.1 := (List.pairwise_cons.mp h).1
    have hys : Sorted ys := (List.pairwise_cons.mp h).2
    by_cases hyn : y.1 ≤ now
    · simp only [List.takeWhile_cons, hyn, decide_true, if_true]
      rcases List.mem_cons.mp he with rfl | he
      · simp
      · exact List.mem_cons_of_mem _ (ih hys he)
    · exfalso
      rcases List.mem_cons.mp he with rfl | he
      · exact hyn hd
      · have := hy e he; omega

theorem mem_takeWhile_imp {l : List (Nat × Nat)} {p : Nat × Nat → Bool} {e : Nat × Nat} (h : e ∈ l.takeWhile p) :
    e ∈ l ∧ p e = true := by
  induction l with
  | nil => simp at h
  | cons y ys ih =>
    simp only [List.takeWhile_cons] at h
    split at h
    · rename_i hp
      rcases List.mem_cons.mp h with rfl | h
      · exact ⟨by simp, hp⟩
      · exact ⟨List.mem_cons_of_mem _ (ih h).1, (ih h).2⟩
    · simp at h

theorem mem_dropWhile_imp {l : List (Nat × Nat)} {p : Nat × Nat → Bool} {e : Nat × Nat} (h : e ∈ l.dropWhile p) : e ∈ l :=
  (List.dropWhile_sublist p).subset h

theorem mem_take_or_drop {l : List (Nat × Nat)} (p : Nat × Nat → Bool) {e : Nat × Nat} (h : e ∈ l) :
    e ∈ l.takeWhile p ∨ e ∈ l.dropWhile p := by
  have : e ∈ l.takeWhile p ++ l.dropWhile p := by rw [List.takeWhile_append_dropWhile]; exact h
  exact List.mem_append.mp this

/-- The first remaining entry is not due, so none of the remaining ones is. -/
theorem dropWhile_not_due {l : List (Nat × Nat)} {now : Nat} (h : Sorted l) {e : Nat × Nat}
    (he : e ∈ l.dropWhile (fun x => decide (x.1 ≤ now))) : now < e.1 := by
  induction l with
  | nil => simp at he
  | cons y ys ih =>
    have hy : ∀ b ∈ ys, y.1 ≤ b.1 := (List.pairwise_cons.mp h).1
    have hys : Sorted ys := (List.pairwise_cons.mp h).2
    simp only [List.dropWhile_cons] at he
    split at he
    · exact ih hys he
    · rename_i hp
      simp at hp
      rcases List.mem_cons.mp he with rfl | he
      · exact hp
      · have := hy e he; omega

theorem head_le_of_sorted {l : List (Nat × Nat)} (h : Sorted l) {x e : Nat × Nat} (hx : l.head? = some x) (he : e ∈ l) :
    x.1 ≤ e.1 := by
  cases l with
  | nil => simp at hx
  | cons y ys =>
    simp at hx; subst hx
    rcases List.mem_cons.mp he with rfl | he
    · exact Nat.le_refl _
    · exact (List.pairwise_cons.mp h).1 e he

/-! ### storage lookups -/

theorem tsOf_none {s : State} {id : Nat} : tsOf s id = none ↔ id ∉ sIds s := by
  simp only [tsOf, sIds, Option.map_eq_none_iff, List.find?_eq_none, List.mem_map, not_exists, not_and]
  constructor
  · intro h x hx hxe; exact h x hx (by simp [hxe])
  · intro h x hx; have := h x hx; simpa using this

theorem find_assoc {l : List (Nat × Nat)} {id ts : Nat} (hn : (l.map (·.1)).Nodup) (h : (id, ts) ∈ l) :
    (l.find? (·.1 == id)).map (·.2) = some ts := by
  induction l with
  | nil => simp at h
  | cons y ys ih =>
    simp only [List.map_cons, List.nodup_cons] at hn
    rcases List.mem_cons.mp h with rfl | h
    · simp
    · have hne : y.1 ≠ id := by
        intro he; apply hn.1; rw [he]; exact List.mem_map.mpr ⟨(id, ts), h, rfl⟩
      simp only [List.find?_cons]
      have : (y.1 == id) = false := by simpa using hne
      rw [this]
      exact ih hn.2 h

theorem tsOf_some {s : State} {id ts : Nat} (hn : (sIds s).Nodup) (h : (id, ts) ∈ s.stored) : tsOf s id = some ts :=
  find_assoc hn h

theorem mem_without {l : List Nat} {id x : Nat} : x ∈ without l id ↔ x ∈ l ∧ x ≠ id := by
  simp [without]

/-- `_add_queued` either refuses (the id is in the id set or active) or inserts. -/
theorem addQueued_cases (s : State) (ts id : Nat) :
    (addQueued s ts id = s ∧ (id ∈ s.queuedIds ∨ id ∈ s.active)) ∨
    (addQueued s ts id = { s with queued := insort (ts, id) s.queued, queuedIds := id :: s.queuedIds, wake := true } ∧
      id ∉ s.queuedIds ∧ id ∉ s.active) := by
  unfold addQueued
  split
  · rename_i h
    left; refine ⟨rfl, ?_⟩
    simpa using h
  · rename_i h
    right; refine ⟨rfl, ?_⟩
    simpa using h

end Slimta.Sched
