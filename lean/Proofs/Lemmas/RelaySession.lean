import Model.RelaySession


namespace Slimta.RelaySession

/-- The connection is clean when a delivery leaves it alive: the last thing written is RSET, or the
    message data, which was accepted. -/
theorem failRset_shape (cmds : List Cmd) (as : List Ans) :
    (failRset cmds as).cmds = cmds ++ [.rset] ∧ (failRset cmds as).delivered = false := by
  unfold failRset; split <;> simp [dead]

theorem afterEnvelope_clean (lmtp p : Bool) (cmds : List Cmd) (m : Nat) (rs : List Nat) (d : Nat) (as : List Ans)
    (h : (afterEnvelope lmtp p cmds m rs d as).alive = true) :
    ((afterEnvelope lmtp p cmds m rs d as).delivered = false ∧ (afterEnvelope lmtp p cmds m rs d as).cmds.getLast? = some .rset) ∨
    ((afterEnvelope lmtp p cmds m rs d as).delivered = true ∧ (afterEnvelope lmtp p cmds m rs d as).cmds.getLast? = some .body) := by
  unfold afterEnvelope at h ⊢
  simp only at h ⊢
  split
  · split
    · split
      · split <;> simp_all [dead]
      · split
        · simp_all [dead]
        · left; rw [(failRset_shape _ _).1, (failRset_shape _ _).2]; simp
    · left; rw [(failRset_shape _ _).1, (failRset_shape _ _).2]; simp
  · split
    · simp_all [dead]
    · split
      · left; rw [(failRset_shape _ _).1, (failRset_shape _ _).2]; simp
      · right; simp

end Slimta.RelaySession

namespace Slimta.RelaySession

theorem afterEnvelope_body (lmtp p : Bool) (cmds : List Cmd) (m : Nat) (rs : List Nat) (d : Nat) (as : List Ans)
    (hb : .body ∈ (afterEnvelope lmtp p cmds m rs d as).cmds) (hn : .body ∉ cmds) :
    isError m = false ∧ (∃ r ∈ rs, isError r = false) ∧ isError d = false := by
  unfold afterEnvelope at hb
  simp only at hb
  split at hb
  · exfalso
    split at hb
    · split at hb
      · split at hb <;> simp_all [dead]
      · split at hb
        · simp_all [dead]
        · rw [(failRset_shape _ _).1] at hb; simp_all
    · rw [(failRset_shape _ _).1] at hb; simp_all
  · rename_i hc
    simp only [Bool.or_eq_true, not_or, Bool.not_eq_true, beq_iff_eq] at hc
    refine ⟨hc.1.1, ?_, hc.2⟩
    have hlen : (rs.filter fun c => !isError c).length ≠ 0 := hc.1.2
    cases hf : rs.filter (fun c => !isError c) with
    | nil => rw [hf] at hlen; simp at hlen
    | cons x xs =>
      have hx : x ∈ rs.filter (fun c => !isError c) := by rw [hf]; simp
      rw [List.mem_filter] at hx
      exact ⟨x, hx.1, by simpa using hx.2⟩

/-- The commands of one delivery: MAIL first and only there. -/
def Shape (cmds : List Cmd) : Prop := ∃ tl, cmds = .mail :: tl ∧ .mail ∉ tl

theorem shape_append {cmds : List Cmd} (h : Shape cmds) (x : List Cmd) (hx : .mail ∉ x) : Shape (cmds ++ x) := by
  obtain ⟨tl, rfl, ht⟩ := h
  exact ⟨tl ++ x, rfl, by simp [ht, hx]⟩

theorem envCmds_shape (n : Nat) : Shape ([Cmd.mail] ++ List.replicate n Cmd.rcpt ++ [Cmd.data]) :=
  ⟨List.replicate n .rcpt ++ [.data], by simp, by simp [List.mem_replicate]⟩

theorem failRset_keeps_shape {cmds : List Cmd} (h : Shape cmds) (as : List Ans) : Shape (failRset cmds as).cmds := by
  rw [(failRset_shape _ _).1]; exact shape_append h _ (by simp)

theorem afterEnvelope_keeps_shape (lmtp p : Bool) {cmds : List Cmd} (h : Shape cmds) (m : Nat) (rs : List Nat) (d : Nat) (as : List Ans) :
    Shape (afterEnvelope lmtp p cmds m rs d as).cmds := by
  unfold afterEnvelope
  simp only
  split
  · split
    · split
      · split <;> simp only [dead] <;> exact shape_append h _ (by simp)
      · split
        · simp only [dead]; exact shape_append h _ (by simp)
        · exact failRset_keeps_shape (shape_append h _ (by simp)) _
    · exact failRset_keeps_shape h _
  · split
    · simp only [dead]; exact shape_append h _ (by simp)
    · split
      · exact failRset_keeps_shape (shape_append h _ (by simp)) _
      · exact shape_append h _ (by simp)

theorem deliver_shape (lmtp p : Bool) (n : Nat) (as : List Ans) : Shape (deliver lmtp p n as).cmds := by
  unfold deliver
  simp only
  split
  · split
    · exact envCmds_shape n
    · split
      · exact afterEnvelope_keeps_shape _ _ (envCmds_shape n) _ _ _ _
      · exact envCmds_shape n
  · split
    · exact ⟨[], rfl, by simp⟩
    · split
      · exact failRset_keeps_shape ⟨[], rfl, by simp⟩ _
      · split
        · exact ⟨_, rfl, by simp [List.mem_replicate]⟩
        · split
          · exact envCmds_shape n
          · exact afterEnvelope_keeps_shape _ _ (envCmds_shape n) _ _ _ _

/-- **A failed transaction is reset before the connection is used again.** When a delivery leaves
    the connection alive, the last command written is RSET, or the message data, and then that was
    accepted. -/
theorem deliver_clean (lmtp p : Bool) (n : Nat) (as : List Ans) (h : (deliver lmtp p n as).alive = true) :
    ((deliver lmtp p n as).delivered = false ∧ (deliver lmtp p n as).cmds.getLast? = some .rset) ∨
    ((deliver lmtp p n as).delivered = true ∧ (deliver lmtp p n as).cmds.getLast? = some .body) := by
  cases p with
  | true =>
    simp only [deliver, if_true] at h ⊢
    cases hr : readN (n + 2) as with
    | none => simp [hr, dead] at h
    | some v =>
      obtain ⟨cs, r⟩ := v
      cases cs with
      | nil => simp [hr, dead] at h
      | cons m tl =>
        simp only [hr] at h ⊢
        exact afterEnvelope_clean _ _ _ _ _ _ _ h
  | false =>
    simp only [deliver, Bool.false_eq_true, if_false] at h ⊢
    cases h1 : readN 1 as with
    | none => simp [h1, dead] at h
    | some v1 =>
      obtain ⟨ms, r1⟩ := v1
      simp only [h1] at h ⊢
      by_cases hm : isError (ms.headD 0) = true
      · simp only [hm, if_true] at h ⊢
        left; rw [(failRset_shape _ _).1, (failRset_shape _ _).2]; simp
      · simp only [hm, Bool.false_eq_true, if_false] at h ⊢
        cases h2 : readN n r1 with
        | none => simp [h2, dead] at h
        | some v2 =>
          obtain ⟨rs, r2⟩ := v2
          simp only [h2] at h ⊢
          cases h3 : readN 1 r2 with
          | none => simp [h3, dead] at h
          | some v3 =>
            obtain ⟨ds, r3⟩ := v3
            simp only [h3] at h ⊢
            exact afterEnvelope_clean _ _ _ _ _ _ _ h

end Slimta.RelaySession

namespace Slimta.RelaySession

/-- In a command list, every MAIL that is not the first command comes right after RSET or after message data. -/
def MailAfterClean : List Cmd → Prop
  | a :: b :: rest => (b = .mail → a = .rset ∨ a = .body) ∧ MailAfterClean (b :: rest)
  | _ => True

theorem mailAfterClean_noMail : ∀ (x : Cmd) (l : List Cmd), .mail ∉ l → MailAfterClean (x :: l)
  | _, [], _ => trivial
  | _, b :: rest, h => by
    have hb : b ≠ .mail := fun e => h (by simp [e])
    exact ⟨fun e => absurd e hb, mailAfterClean_noMail b rest (fun hm => h (List.mem_cons_of_mem _ hm))⟩

theorem mailAfterClean_append : ∀ (l : List Cmd) (m : List Cmd), MailAfterClean l → MailAfterClean m →
    (∀ a b, l.getLast? = some a → m.head? = some b → b = .mail → a = .rset ∨ a = .body) → MailAfterClean (l ++ m)
  | [], m, _, hm, _ => by simpa using hm
  | [a], [], _, _, _ => trivial
  | [a], b :: rest, _, hm, hj => ⟨fun e => hj a b rfl rfl e, hm⟩
  | a :: b :: rest, m, hl, hm, hj => by
    refine ⟨hl.1, ?_⟩
    have := mailAfterClean_append (b :: rest) m hl.2 hm (fun x y hx hy => hj x y (by simpa [List.getLast?_cons_cons] using hx) hy)
    simpa using this

/-- **One message at a time, and a failed transaction is reset before the next message uses the
    connection**: over any number of messages on one connection and any peer behaviour, a MAIL
    command that is not the first command of the connection's mail traffic comes directly after a
    RSET or after message data (which the peer then accepted: `deliver_clean`). -/
theorem session_clean (lmtp p : Bool) : ∀ (ns : List Nat) (as : List Ans), MailAfterClean (session lmtp p ns as)
  | [], _ => trivial
  | n :: ns, as => by
    unfold session
    simp only
    obtain ⟨tl, htl, hno⟩ := deliver_shape lmtp p n as
    have h1 : MailAfterClean (deliver lmtp p n as).cmds := by rw [htl]; exact mailAfterClean_noMail _ _ hno
    by_cases ha : (deliver lmtp p n as).alive = true
    · simp only [ha, if_true]
      refine mailAfterClean_append _ _ h1 (session_clean lmtp p ns _) ?_
      intro a b hla _ _
      rcases deliver_clean lmtp p n as ha with ⟨_, hl⟩ | ⟨_, hl⟩
      · rw [hl] at hla; cases hla; exact Or.inl rfl
      · rw [hl] at hla; cases hla; exact Or.inr rfl
    · simp only [ha, Bool.false_eq_true, if_false, List.append_nil]
      exact h1

/-- Message content goes out only when the peer accepted the sender, a recipient and DATA. -/
example : (deliver false true 2 [.code 250, .code 550, .code 250, .code 354, .code 250]).cmds = [.mail, .rcpt, .rcpt, .data, .body] := by decide
example : (deliver false true 2 [.code 250, .code 550, .code 550, .code 354, .code 250, .code 250]).cmds = [.mail, .rcpt, .rcpt, .data, .empty, .rset] := by decide
example : (deliver false false 2 [.code 550, .code 250]).cmds = [.mail, .rset] := by decide
example : (session true true [1, 1] [.code 250, .code 250, .code 354, .code 450, .code 250, .code 250, .code 250, .code 354, .code 250]) =
    [.mail, .rcpt, .data, .body, .rset, .mail, .rcpt, .data, .body] := by decide

end Slimta.RelaySession
