import Model.Ingress
import Proofs.Lemmas.QueueM
import Proofs.Lemmas.Policy
/-!
Helper lemmas for the composed statements about one `Queue.enqueue` call (Model/Ingress.lean): histories of the
composed queue machine with the labels taken, and what a `write` step leaves behind for good.
-/
namespace Slimta.QM
open Slimta.Attempt

/-- `Reach` with the labels taken so far (oldest first). -/
inductive ReachT (fb : Bool) (q0 : State) : List Label → State → Prop
  | init : ReachT fb q0 [] q0
  | step {ls : List Label} {q q' : State} {l : Label} :
      ReachT fb q0 ls q → calm q l → step fb q l = some q' → ReachT fb q0 (ls ++ [l]) q'

theorem ReachT.reach {fb : Bool} {q0 q : State} {ls : List Label} (h : ReachT fb q0 ls q) : Reach fb q0 q := by
  induction h with
  | init => exact Reach.init
  | step _ hc hs ih => exact Reach.step ih hc hs

theorem Reach.trace {fb : Bool} {q0 q : State} (h : Reach fb q0 q) : ∃ ls, ReachT fb q0 ls q := by
  induction h with
  | init => exact ⟨[], ReachT.init⟩
  | step _ hc hs ih => obtain ⟨ls, h⟩ := ih; exact ⟨_, ReachT.step h hc hs⟩

/-- The scheduler never forgets an id it has been told about. -/
theorem sched_known_mono {s s' : Sched.State} {l : Sched.Label} (h : Sched.step s l = some s') {id : Nat}
    (hk : id ∈ s.known) : id ∈ s'.known := by
  cases l with
  | write i ts =>
    simp only [Sched.step] at h
    split at h
    · simp at h
    · simp only [Option.some.injEq] at h; subst h; simp [hk]
  | activate i =>
    simp only [Sched.step] at h
    split at h
    · simp only [Option.some.injEq] at h; subst h
      split <;> simp [Sched.handOff, hk]
    · simp at h
  | announce i ts =>
    simp only [Sched.step] at h
    split at h
    · simp only [Option.some.injEq] at h; subst h
      simp only [Sched.addQueued]
      split <;> split <;> simp [hk]
    · simp at h
  | tick dt => simp only [Sched.step, Option.some.injEq] at h; subst h; exact hk
  | sched =>
    simp only [Sched.step] at h
    split at h
    · simp only [Option.some.injEq] at h; subst h
      simp only [Sched.schedCut]
      split <;> exact hk
    · simp at h
  | sleep =>
    simp only [Sched.step] at h
    split at h
    · simp only [Option.some.injEq] at h; subst h
      simp only [Sched.schedSleep]
      split
      · exact hk
      · split <;> exact hk
    · simp at h
  | dequeue i c =>
    simp only [Sched.step] at h
    split at h
    · simp only [Option.some.injEq] at h; subst h
      split
      · exact hk
      · split
        · exact hk
        · simp [Sched.handOff, hk]
    · simp at h
  | done i ok =>
    simp only [Sched.step] at h
    split at h
    · simp only [Option.some.injEq] at h; subst h
      split <;> exact hk
    · simp at h
  | retry i w =>
    simp only [Sched.step] at h
    split at h
    · cases w with
      | none => simp only [Option.some.injEq] at h; subst h; exact hk
      | some w => simp only [Option.some.injEq] at h; subst h; exact hk
    · simp at h
  | requeue i =>
    simp only [Sched.step] at h
    split at h
    · split at h
      · simp only [Option.some.injEq] at h; subst h
        simp only [Sched.addQueued]
        split <;> exact hk
      · simp at h
    · simp at h
  | remove i =>
    simp only [Sched.step] at h
    split at h
    · simp only [Option.some.injEq] at h; subst h; exact hk
    · simp at h
  | poke => simp only [Sched.step, Option.some.injEq] at h; subst h; exact hk
  | flush => simp only [Sched.step, Option.some.injEq] at h; subst h; exact hk

/-- Only a `write` touches what a message was accepted with, and only for an id the queue has never heard of. -/
theorem step_orig {fb : Bool} {q q' : State} {l : Label} (h : step fb q l = some q') :
    q'.orig = q.orig ∧ q'.nonNull = q.nonNull ∨
    ∃ id ts r nn, l = .write id ts r nn ∧ q'.orig = upd q.orig id (some r) ∧ q'.nonNull = upd q.nonNull id nn ∧ id ∉ q.s.known ∧
      id ∉ Sched.sIds q.s := by
  cases l with
  | write id ts r nn =>
    right
    have hss := step_sched h
    unfold step at h
    split at h
    · simp at h
    · simp only at h
      split at h
      · simp only [Option.some.injEq] at h; subst h
        refine ⟨id, ts, r, nn, rfl, rfl, rfl, ?_, (sched_write hss).1⟩
        simp only [toSched, Sched.step] at hss
        split at hss
        · simp at hss
        · rename_i hg
          simp only [Bool.or_eq_true, not_or] at hg
          simpa using hg.1.1
      · simp at h
  | _ =>
    left
    unfold step at h
    split at h
    · simp at h
    · simp only at h; (repeat' split at h) <;> simp_all <;> (subst h; exact ⟨rfl, rfl⟩)

theorem step_write {fb : Bool} {q q' : State} {id ts : Nat} {r : List Rcpt} {nn : Bool}
    (h : step fb q (.write id ts r nn) = some q') : q'.orig id = some r ∧ q'.nonNull id = nn ∧ id ∈ q'.s.known := by
  have hss := step_sched h
  unfold step at h
  split at h
  · simp at h
  · simp only at h
    split at h
    · simp only [Option.some.injEq] at h; subst h
      refine ⟨by simp, by simp, ?_⟩
      simp only [toSched, Sched.step] at hss
      split at hss
      · simp at hss
      · simp only [Option.some.injEq] at hss; rw [← hss]; simp
    · simp at h

/-- **A write is for good**: once the storage has taken an envelope, in every later state of every history the queue machine
    still knows the message by the recipients it was accepted with. -/
theorem write_recorded {fb : Bool} {q0 q : State} {ls : List Label} (hr : ReachT fb q0 ls q) {id ts : Nat} {r : List Rcpt}
    {nn : Bool} (hm : Label.write id ts r nn ∈ ls) : q.orig id = some r ∧ q.nonNull id = nn ∧ id ∈ q.s.known := by
  induction hr with
  | init => simp at hm
  | @step ls q q' l hprev hc hs ih =>
    have hmono := fun (h : id ∈ q.s.known) => sched_known_mono (step_sched hs) h
    rcases List.mem_append.mp hm with hm | hm
    · obtain ⟨ho, hn, hk⟩ := ih hm
      refine ⟨?_, ?_, hmono hk⟩
      · rcases step_orig hs with h | ⟨id', _, r', _, _, h, _, hnk, _⟩
        · rw [h.1]; exact ho
        · have : id ≠ id' := fun e => hnk (e ▸ hk)
          rw [h, upd_ne _ _ this]; exact ho
      · rcases step_orig hs with h | ⟨id', _, r', _, _, _, h, hnk, _⟩
        · rw [h.2]; exact hn
        · have : id ≠ id' := fun e => hnk (e ▸ hk)
          rw [h, upd_ne _ _ this]; exact hn
    · simp only [List.mem_singleton] at hm
      subst hm
      exact step_write hs

/-- A stored id stays stored unless this very step removes it (and then the removal was pending). -/
theorem sched_ids {s s' : Sched.State} {l : Sched.Label} (h : Sched.step s l = some s') {id : Nat} (hid : id ∈ Sched.sIds s) :
    id ∈ Sched.sIds s' ∨ (l = .remove id ∧ id ∈ s.rem) := by
  cases l with
  | write i ts => left; have := congrArg View.ids (sched_write h).2; simp only [view] at this; rw [this]; simp [hid]
  | activate i =>
    left
    have := (sched_activate h).2
    split at this <;> (have := congrArg View.ids this; simp only [view] at this; rw [this]; exact hid)
  | announce i ts => left; have := congrArg View.ids (view_frame h trivial); simp only [view] at this; rw [this]; exact hid
  | tick dt => left; have := congrArg View.ids (view_frame h trivial); simp only [view] at this; rw [this]; exact hid
  | sched => left; have := congrArg View.ids (view_frame h trivial); simp only [view] at this; rw [this]; exact hid
  | sleep => left; have := congrArg View.ids (view_frame h trivial); simp only [view] at this; rw [this]; exact hid
  | poke => left; have := congrArg View.ids (view_frame h trivial); simp only [view] at this; rw [this]; exact hid
  | flush => left; have := congrArg View.ids (view_frame h trivial); simp only [view] at this; rw [this]; exact hid
  | dequeue i c =>
    left
    have := sched_dequeue h
    split at this <;> (have := congrArg View.ids this; simp only [view] at this; rw [this]; exact hid)
  | done i ok =>
    left
    have := congrArg View.ids (sched_done h).2
    cases ok <;> (simp only [view] at this; rw [this]; exact hid)
  | retry i w =>
    left
    cases w with
    | none => have := congrArg View.ids (sched_retry_none h).2; simp only [view] at this; rw [this]; exact hid
    | some w => have := congrArg View.ids (sched_retry_some h).2; simp only [view] at this; rw [this]; exact hid
  | requeue i => left; have := congrArg View.ids (sched_requeue h).2; simp only [view] at this; rw [this]; exact hid
  | remove i =>
    obtain ⟨hrem, hv⟩ := sched_remove h
    by_cases hi : i = id
    · subst hi; exact Or.inr ⟨rfl, hrem⟩
    · left
      have := congrArg View.ids hv
      simp only [view] at this
      rw [this]
      simp only [Sched.sIds, List.mem_map] at hid ⊢
      obtain ⟨e, he, rfl⟩ := hid
      exact ⟨e, List.mem_filter.mpr ⟨he, by simpa using Ne.symm hi⟩, rfl⟩

/-- **What a message was accepted with is never rewritten**: for an id the storage holds or the queue knows at the start, in
    every later state of every history `orig` is what it was (a second `write` of the id is impossible: the scheduler refuses the
    write of a stored or known id, and a stored id leaves the storage only through a removal the queue itself decided, which
    makes it known for good). -/
theorem orig_of_start {fb : Bool} {q0 q : State} {ls : List Label} (hT : ReachT fb q0 ls q) (hinv : Inv fb q0) {id : Nat}
    {r : List Rcpt} (h0 : q0.orig id = some r) (hs : id ∈ Sched.sIds q0.s ∨ id ∈ q0.s.known) :
    q.orig id = some r ∧ (id ∈ Sched.sIds q.s ∨ id ∈ q.s.known) ∧ Inv fb q := by
  induction hT with
  | init => exact ⟨h0, hs, hinv⟩
  | @step ls q q' l hprev hc hstep ih =>
    obtain ⟨ho, hsk, hI⟩ := ih
    have hss := step_sched hstep
    refine ⟨?_, ?_, inv_step hI hc hstep⟩
    · rcases step_orig hstep with h | ⟨id', _, r', _, _, h, _, hnk, hns⟩
      · rw [h.1]; exact ho
      · have : id ≠ id' := by
          intro e; subst e
          rcases hsk with h1 | h1
          · exact hns h1
          · exact hnk h1
        rw [h, upd_ne _ _ this]; exact ho
    · rcases hsk with h1 | h1
      · rcases sched_ids hss h1 with h2 | ⟨_, hrem⟩
        · exact Or.inl h2
        · right
          apply sched_known_mono hss
          apply hI.sched.known id
          right; right; left
          exact (hI.sched.act id).mpr (Or.inr (Or.inr (Or.inr hrem)))
      · exact Or.inr (sched_known_mono hss h1)

/-- Labels whose calmness asks nothing of the environment. -/
def quiet : Label → Prop
  | .announce _ _ => False
  | .done _ _ => False
  | _ => True

theorem calm_of_quiet {q : State} {l : Label} (h : quiet l) : calm q l := by
  cases l <;> simp only [quiet] at h <;> trivial

/-- A run of `QM.run` over quiet labels is a history. -/
theorem reachT_of_run {fb : Bool} {q0 : State} : ∀ (ls : List Label) (pre : List Label) (q1 q : State),
    ReachT fb q0 pre q1 → (∀ l ∈ ls, quiet l) → run fb q1 ls = some q → ReachT fb q0 (pre ++ ls) q
  | [], pre, q1, q, h, _, hrun => by
    simp only [run, Option.some.injEq] at hrun; subst hrun; simpa using h
  | l :: ls, pre, q1, q, h, hq, hrun => by
    simp only [run] at hrun
    split at hrun
    · rename_i q2 hs
      have h2 := ReachT.step h (calm_of_quiet (hq l (by simp))) hs
      have := reachT_of_run ls (pre ++ [l]) q2 q h2 (fun x hx => hq x (by simp [hx])) hrun
      simpa using this
    · simp at hrun

end Slimta.QM
