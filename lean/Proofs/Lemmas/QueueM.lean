import Model.QueueM
import Proofs.Lemmas.Attempt
import Proofs.C12
/-!
Lemmas about the composed queue machine (Model/QueueM.lean): the two phases of an attempt are
`Attempt.attempt`; a step of the machine is a step of the scheduler model; the ledger invariant.
-/
namespace Slimta.QM
open Slimta.Attempt
open Slimta.Sched (sIds dIds qIds without mem_without)

/-! ### the two phases of one attempt are `Attempt.attempt` -/

/-- What the two phases add up to, for a backoff answer `b`. -/
def compose (bn : Bool) (m : Msg) (o : Outcome) (b : Option Nat) : StepOut :=
  let p := phase1 bn m o
  match p.pend with
  | none => ⟨none, p.bounces, p.delivered, p.failed, none⟩
  | some pd =>
    match b with
    | none => ⟨none, p.bounces ++ (giveUp bn m.rcpts pd).2, p.delivered, p.failed ++ (giveUp bn m.rcpts pd).1, none⟩
    | some w => ⟨some ⟨pd.newRcpts m.rcpts, m.attempts + 1⟩, p.bounces, p.delivered, p.failed, some w⟩

theorem bouncesIf_eq (cfg : Cfg) (pairs : List (Rcpt × ReplyId)) (t : Bool) :
    bouncesIf (cfg.senderNonEmpty && cfg.factoryBounces) pairs t = bouncesFor cfg pairs t := rfl

def dIdx (m : Msg) (res : List (Rcpt × RRes)) : List Nat :=
  res.filterMap fun (rc, v) => match v with
    | .ok | .perm _ => some (m.rcpts.idxOf rc)
    | .temp _ => none

theorem handlePartial_unf (cfg : Cfg) (m : Msg) (res : List (Rcpt × RRes)) :
    handlePartial cfg m res =
      if (tempsOf res).isEmpty then ⟨none, bouncesFor cfg (permsOf res) false, oksOf res, permsOf res, none⟩
      else retryLater cfg m (tempsOf res) (deleteIdxs (dIdx m res) m.rcpts) (bouncesFor cfg (permsOf res) false) (oksOf res) (permsOf res) := rfl

theorem partial1_unf (bn : Bool) (m : Msg) (res : List (Rcpt × RRes)) :
    partial1 bn m res = ⟨oksOf res, permsOf res, bouncesIf bn (permsOf res) false,
      if (tempsOf res).isEmpty then none else some (.part (tempsOf res) (dIdx m res))⟩ := rfl

theorem partial_eq (cfg : Cfg) (m : Msg) (res : List (Rcpt × RRes)) :
    handlePartial cfg m res =
      (let p := partial1 (cfg.senderNonEmpty && cfg.factoryBounces) m res
       match p.pend with
       | none => ⟨none, p.bounces, p.delivered, p.failed, none⟩
       | some pd =>
         match cfg.backoff (m.attempts + 1) with
         | none => ⟨none, p.bounces ++ (giveUp (cfg.senderNonEmpty && cfg.factoryBounces) m.rcpts pd).2, p.delivered,
                    p.failed ++ (giveUp (cfg.senderNonEmpty && cfg.factoryBounces) m.rcpts pd).1, none⟩
         | some w => ⟨some ⟨pd.newRcpts m.rcpts, m.attempts + 1⟩, p.bounces, p.delivered, p.failed, some w⟩) := by
  rw [handlePartial_unf, partial1_unf]
  cases h : (tempsOf res).isEmpty
  · simp only [retryLater, giveUp, Pend.newRcpts, bouncesIf_eq]
    cases cfg.backoff (m.attempts + 1) <;> simp
  · simp [bouncesIf_eq]

/-- **The two-phase split is `Attempt.attempt`.** -/
theorem phases_eq_attempt (cfg : Cfg) (m : Msg) (o : Outcome) :
    attempt cfg m o = compose (cfg.senderNonEmpty && cfg.factoryBounces) m o (cfg.backoff (m.attempts + 1)) := by
  cases o with
  | success => rfl
  | permanent r => rfl
  | transient r =>
    simp only [attempt, compose, phase1, giveUp, Pend.newRcpts]
    cases cfg.backoff (m.attempts + 1) <;> simp
  | other r =>
    simp only [attempt, compose, phase1, giveUp, Pend.newRcpts]
    cases cfg.backoff (m.attempts + 1) <;> simp
  | mapping res => simp only [attempt, compose, phase1]; exact partial_eq cfg m res
  | sequence l => simp only [attempt, compose, phase1]; exact partial_eq cfg m _

/-! ### a step of the machine is a step of the scheduler -/

theorem step_sched {fb : Bool} {q q' : State} {l : Label} (h : step fb q l = some q') :
    Sched.step q.s (toSched fb q l) = some q'.s := by
  unfold step at h
  split at h
  · simp at h
  · rename_i s' hs
    rw [hs]
    cases l <;> simp only at h <;> (repeat' split at h) <;> simp_all <;> (try (subst h; rfl))



/-! ### grouping by reply: every failed pair is in the group of its reply -/

theorem addToGroup_self (rc : Rcpt) (rp : ReplyId) (gs : List (ReplyId × List Rcpt)) :
    ∃ g, (rp, g) ∈ addToGroup rc rp gs ∧ rc ∈ g := by
  induction gs with
  | nil => exact ⟨[rc], by simp [addToGroup], by simp⟩
  | cons g0 rest ih =>
    obtain ⟨k, grp⟩ := g0
    simp only [addToGroup]
    split
    · rename_i hk
      have : k = rp := by simpa using hk
      subst this
      exact ⟨grp ++ [rc], by simp, by simp⟩
    · obtain ⟨g, hg, hrc⟩ := ih
      exact ⟨g, by simp [hg], hrc⟩

theorem addToGroup_mono (rc : Rcpt) (rp : ReplyId) (gs : List (ReplyId × List Rcpt)) (k : ReplyId) (g : List Rcpt)
    (h : (k, g) ∈ gs) : ∃ g', (k, g') ∈ addToGroup rc rp gs ∧ ∀ y ∈ g, y ∈ g' := by
  induction gs with
  | nil => simp at h
  | cons g0 rest ih =>
    obtain ⟨k0, grp⟩ := g0
    simp only [addToGroup]
    split
    · rename_i hk
      have hk' : k0 = rp := by simpa using hk
      rcases List.mem_cons.mp h with he | h'
      · have h1 : k = k0 := (Prod.mk.inj he).1
        have h2 : g = grp := (Prod.mk.inj he).2
        subst h1; subst h2
        exact ⟨g ++ [rc], by simp [hk'], fun y hy => by simp [hy]⟩
      · exact ⟨g, by simp [h'], fun y hy => hy⟩
    · rcases List.mem_cons.mp h with he | h'
      · exact ⟨g, by simp [he], fun y hy => hy⟩
      · obtain ⟨g', hg', hsub⟩ := ih h'
        exact ⟨g', by simp [hg'], hsub⟩

theorem splitByReply_mono (ps : List (Rcpt × ReplyId)) (acc : List (ReplyId × List Rcpt)) (k : ReplyId) (g : List Rcpt)
    (h : (k, g) ∈ acc) : ∃ g', (k, g') ∈ splitByReply ps acc ∧ ∀ y ∈ g, y ∈ g' := by
  induction ps generalizing acc g with
  | nil => exact ⟨g, by simpa [splitByReply] using h, fun y hy => hy⟩
  | cons p rest ih =>
    obtain ⟨rc, rp⟩ := p
    obtain ⟨g1, hg1, hsub1⟩ := addToGroup_mono rc rp acc k g h
    obtain ⟨g2, hg2, hsub2⟩ := ih _ g1 hg1
    exact ⟨g2, by simpa [splitByReply] using hg2, fun y hy => hsub2 y (hsub1 y hy)⟩

theorem mem_splitByReply (ps : List (Rcpt × ReplyId)) (acc : List (ReplyId × List Rcpt)) (x : Rcpt) (r : ReplyId)
    (h : (x, r) ∈ ps) : ∃ g, (r, g) ∈ splitByReply ps acc ∧ x ∈ g := by
  induction ps generalizing acc with
  | nil => simp at h
  | cons p rest ih =>
    obtain ⟨rc, rp⟩ := p
    rcases List.mem_cons.mp h with he | h'
    · have h1 : x = rc := (Prod.mk.inj he).1
      have h2 : r = rp := (Prod.mk.inj he).2
      subst h1; subst h2
      obtain ⟨g, hg, hx⟩ := addToGroup_self x r acc
      obtain ⟨g', hg', hsub⟩ := splitByReply_mono rest _ r g hg
      exact ⟨g', by simpa [splitByReply] using hg', hsub x hx⟩
    · obtain ⟨g, hg, hx⟩ := ih _ h'
      exact ⟨g, by simpa [splitByReply] using hg, hx⟩

theorem bouncesIf_names (pairs : List (Rcpt × ReplyId)) (t : Bool) (x : Rcpt) (r : ReplyId) (h : (x, r) ∈ pairs) :
    ∃ b ∈ bouncesIf true pairs t, b.reply = r ∧ x ∈ b.rcpts := by
  obtain ⟨g, hg, hx⟩ := mem_splitByReply pairs [] x r h
  refine ⟨⟨r, g, t⟩, ?_, rfl, hx⟩
  simp only [bouncesIf, if_true, List.mem_map]
  exact ⟨(r, g), hg, rfl⟩

/-! ### one attempt, phase by phase -/

theorem phase1_pendOk (bn : Bool) (m : Msg) (o : Outcome) (hc : CompleteOutcome m o) (pd : Pend)
    (h : (phase1 bn m o).pend = some pd) (x : Rcpt) :
    (pd.newRcpts m.rcpts).count x = (pd.out m.rcpts).count x := by
  have part : ∀ res, Complete m res → (partial1 bn m res).pend = some pd →
      (pd.newRcpts m.rcpts).count x = (pd.out m.rcpts).count x := by
    intro res hres hp
    rw [partial1_unf] at hp
    simp only at hp
    split at hp
    · simp at hp
    · simp only [Option.some.injEq] at hp
      subst hp
      simp only [Pend.newRcpts, Pend.out]
      have h1 : deleteIdxs (dIdx m res) m.rcpts = m.rcpts.filter (fun y => !(settledOf res).contains y) := remaining_rcpts m res hres
      rw [h1]
      exact count_remaining m res hres x
  cases o with
  | success => simp [phase1] at h
  | permanent r => simp [phase1] at h
  | transient r => simp only [phase1, Option.some.injEq] at h; subst h; rfl
  | other r => simp only [phase1, Option.some.injEq] at h; subst h; rfl
  | mapping res => exact part res hc h
  | sequence l => exact part _ hc h

theorem phase1_count (bn : Bool) (m : Msg) (o : Outcome) (hc : CompleteOutcome m o) (x : Rcpt) :
    (phase1 bn m o).delivered.count x + ((phase1 bn m o).failed.map Prod.fst).count x
      + (match (phase1 bn m o).pend with | none => 0 | some pd => (pd.out m.rcpts).count x) = m.rcpts.count x := by
  have h := attempt_conserves ⟨fun _ => some 0, bn, true⟩ m o hc x
  rw [phases_eq_attempt] at h
  simp only [Bool.and_true, compose] at h
  cases hp : (phase1 bn m o).pend with
  | none => simp only [hp, restCount] at h ⊢; exact h
  | some pd =>
    simp only [hp, restCount] at h ⊢
    rw [phase1_pendOk bn m o hc pd hp x] at h
    exact h

theorem phase1_bounced (m : Msg) (o : Outcome) (x : Rcpt) (r : ReplyId) (h : (x, r) ∈ (phase1 true m o).failed) :
    ∃ b ∈ (phase1 true m o).bounces, b.reply = r ∧ x ∈ b.rcpts := by
  have part : ∀ res, (x, r) ∈ (partial1 true m res).failed → ∃ b ∈ (partial1 true m res).bounces, b.reply = r ∧ x ∈ b.rcpts := by
    intro res hres
    rw [partial1_unf] at hres ⊢
    exact bouncesIf_names _ false x r hres
  cases o with
  | success => simp [phase1] at h
  | permanent r' =>
    simp only [phase1, List.mem_map, Prod.mk.injEq] at h
    obtain ⟨a, ha, rfl, rfl⟩ := h
    exact ⟨⟨r', m.rcpts, false⟩, by simp [phase1], rfl, ha⟩
  | transient r' => simp [phase1] at h
  | other r' => simp [phase1] at h
  | mapping res => exact part res h
  | sequence l => exact part _ h

theorem bouncesIf_count (pairs : List (Rcpt × ReplyId)) (t : Bool) (x : Rcpt) :
    ((bouncesIf true pairs t).flatMap (·.rcpts)).count x = (pairs.map Prod.fst).count x := by
  have e : (bouncesIf true pairs t).flatMap (·.rcpts) = groupRcpts (splitByReply pairs []) := by
    simp only [bouncesIf, if_true, groupRcpts, List.flatMap_map]
  rw [e, count_splitByReply]; simp

theorem phase1_bcount (m : Msg) (o : Outcome) (x : Rcpt) :
    ((phase1 true m o).bounces.flatMap (·.rcpts)).count x = ((phase1 true m o).failed.map Prod.fst).count x := by
  have part : ∀ res, ((partial1 true m res).bounces.flatMap (·.rcpts)).count x = ((partial1 true m res).failed.map Prod.fst).count x := by
    intro res; rw [partial1_unf]; exact bouncesIf_count _ _ _
  cases o with
  | success => simp [phase1]
  | permanent r => simp [phase1, List.map_map, Function.comp_def]
  | transient r => simp [phase1]
  | other r => simp [phase1]
  | mapping res => exact part res
  | sequence l => exact part _

theorem giveUp_bcount (rcpts : List Rcpt) (pd : Pend) (x : Rcpt) :
    ((giveUp true rcpts pd).2.flatMap (·.rcpts)).count x = ((giveUp true rcpts pd).1.map Prod.fst).count x := by
  cases pd with
  | whole r => simp [giveUp, List.map_map, Function.comp_def]
  | part pairs idxs => exact bouncesIf_count pairs true x

theorem phase1_quiet (m : Msg) (o : Outcome) : (phase1 false m o).bounces = [] := by
  cases o <;> simp [phase1, partial1, bouncesIf]

theorem giveUp_quiet (rcpts : List Rcpt) (pd : Pend) : (giveUp false rcpts pd).2 = [] := by
  cases pd <;> simp [giveUp, bouncesIf]

theorem giveUp_count (bn : Bool) (rcpts : List Rcpt) (pd : Pend) (x : Rcpt) :
    ((giveUp bn rcpts pd).1.map Prod.fst).count x = (pd.out rcpts).count x := by
  cases pd with
  | whole r => simp [giveUp, Pend.out, List.map_map, Function.comp_def]
  | part pairs idxs => rfl

theorem giveUp_bounced (rcpts : List Rcpt) (pd : Pend) (x : Rcpt) (r : ReplyId) (h : (x, r) ∈ (giveUp true rcpts pd).1) :
    ∃ b ∈ (giveUp true rcpts pd).2, b.reply = r ∧ x ∈ b.rcpts := by
  cases pd with
  | whole r' =>
    simp only [giveUp, List.mem_map, Prod.mk.injEq] at h
    obtain ⟨a, ha, rfl, rfl⟩ := h
    exact ⟨⟨r', rcpts, true⟩, by simp [giveUp], rfl, ha⟩
  | part pairs idxs => exact bouncesIf_names pairs true x r h



/-! ### what a scheduler step does to the lists the ledger looks at -/

structure View where
  rem : List Nat
  retry : List Nat
  retrying : List Nat
  inflight : List Nat
  written : List Nat
  ids : List Nat

def view (s : Sched.State) : View := ⟨s.rem, s.retry, s.retrying, s.inflight, s.written, sIds s⟩

theorem view_addQueued (s : Sched.State) (ts id : Nat) : view (Sched.addQueued s ts id) = view s := by
  unfold Sched.addQueued; split <;> rfl

theorem view_frame {s s' : Sched.State} {l : Sched.Label} (h : Sched.step s l = some s')
    (hl : match l with | .announce .. | .tick _ | .sched | .sleep | .poke | .flush => True | _ => False) :
    view s' = view s := by
  cases l <;> simp only at hl <;> simp only [Sched.step] at h
  · split at h
    · simp only [Option.some.injEq] at h; subst h; rw [view_addQueued]; rfl
    · simp at h
  · simp only [Option.some.injEq] at h; subst h; rfl
  · split at h
    · simp only [Option.some.injEq] at h; subst h
      simp only [Sched.schedCut]; split <;> rfl
    · simp at h
  · split at h
    · simp only [Option.some.injEq] at h; subst h
      simp only [Sched.schedSleep]; split
      · rfl
      · split <;> rfl
    · simp at h
  · simp only [Option.some.injEq] at h; subst h; rfl
  · simp only [Option.some.injEq] at h; subst h; rfl



/-! ### the ledger invariant -/

/-- The recipients of message `id` that are neither delivered nor failed for good. -/
def outstanding (rem : List Nat) (q : State) (id : Nat) : List Rcpt :=
  if id ∈ rem then [] else
  match q.msgs id with
  | none => []
  | some m => match q.pend id with
    | some pd => pd.out m.rcpts
    | none => m.rcpts

/-- What the ledger needs to know about the scheduler's lists (all of it follows from C12's invariant). -/
structure VOk (v : View) : Prop where
  excl : ∀ id, (id ∈ v.inflight → id ∉ v.retry ∧ id ∉ v.retrying ∧ id ∉ v.rem) ∧ (id ∈ v.retry → id ∉ v.retrying ∧ id ∉ v.rem) ∧
    (id ∈ v.retrying → id ∉ v.rem)
  written : ∀ id ∈ v.written, id ∉ v.inflight ∧ id ∉ v.retry ∧ id ∉ v.retrying ∧ id ∉ v.rem ∧ id ∈ v.ids
  stored : ∀ id, (id ∈ v.inflight ∨ id ∈ v.retry ∨ id ∈ v.retrying ∨ id ∈ v.rem) → id ∈ v.ids

theorem vok_of_inv {s : Sched.State} (h : C12.Inv s) : VOk (view s) where
  excl := h.excl
  written := fun id hw => by
    obtain ⟨hna, _, _, ts, hts, _⟩ := h.written id hw
    have hn : ¬ (id ∈ s.inflight ∨ id ∈ s.retry ∨ id ∈ s.retrying ∨ id ∈ s.rem) := fun hx => hna ((h.act id).mpr hx)
    refine ⟨fun hx => hn (Or.inl hx), fun hx => hn (Or.inr (Or.inl hx)), fun hx => hn (Or.inr (Or.inr (Or.inl hx))),
      fun hx => hn (Or.inr (Or.inr (Or.inr hx))), ?_⟩
    exact List.mem_map.mpr ⟨(id, ts), hts, rfl⟩
  stored := fun id hx => h.actStored id ((h.act id).mpr hx)

structure L (fb : Bool) (v : View) (q : State) : Prop where
  stored : ∀ id, (q.msgs id).isSome ↔ id ∈ v.ids
  orig : ∀ id, id ∈ v.ids → (q.orig id).isSome
  nodup : ∀ id r, q.orig id = some r → r.Nodup
  flightIff : ∀ id, (q.flight id).isSome ↔ id ∈ v.inflight
  flightMsg : ∀ id m, q.flight id = some m → q.msgs id = some m
  pendIff : ∀ id, (q.pend id).isSome ↔ (id ∈ v.retry ∨ id ∈ v.retrying)
  pendOk : ∀ id pd m, q.pend id = some pd → q.msgs id = some m → ∀ x, (pd.newRcpts m.rcpts).count x = (pd.out m.rcpts).count x
  ledger : ∀ id r, q.orig id = some r → ∀ x,
    (q.delivered id).count x + ((q.failed id).map Prod.fst).count x + (outstanding v.rem q id).count x = r.count x
  fresh : ∀ id ∈ v.written, ∃ r, q.orig id = some r ∧ q.msgs id = some ⟨r, 0⟩
  bounced : ∀ id x r, (x, r) ∈ q.failed id → (fb && q.nonNull id) = true → ∃ b ∈ q.bounces id, b.reply = r ∧ x ∈ b.rcpts
  quiet : ∀ id, (fb && q.nonNull id) = false → q.bounces id = []
  bcount : ∀ id x, (fb && q.nonNull id) = true →
    ((q.bounces id).flatMap (·.rcpts)).count x = ((q.failed id).map Prod.fst).count x

/-- The scheduler part of the state is not mentioned by `L`. -/
theorem L_s {fb : Bool} {v : View} {q : State} (s' : Sched.State) (h : L fb v q) : L fb v { q with s := s' } :=
  ⟨h.stored, h.orig, h.nodup, h.flightIff, h.flightMsg, h.pendIff, h.pendOk, h.ledger, h.fresh, h.bounced, h.quiet, h.bcount⟩

@[simp] theorem upd_same {α : Type} (f : Nat → α) (i : Nat) (v : α) : upd f i v i = v := by simp [upd]
theorem upd_ne {α : Type} (f : Nat → α) {i j : Nat} (v : α) (h : j ≠ i) : upd f i v j = f j := by simp [upd, h]

theorem isSome_of_eq {α : Type} {o : Option α} {a : α} (h : o = some a) : o.isSome = true := by simp [h]

/-- facts about a stored id that is in none of the working lists -/
theorem pend_none_of {fb v q} (h : L fb v q) {id : Nat} (h1 : id ∉ v.retry) (h2 : id ∉ v.retrying) : q.pend id = none := by
  cases hp : q.pend id with
  | none => rfl
  | some pd => rcases (h.pendIff id).mp (isSome_of_eq hp) with hx | hx <;> contradiction

theorem flight_none_of {fb v q} (h : L fb v q) {id : Nat} (h1 : id ∉ v.inflight) : q.flight id = none := by
  cases hp : q.flight id with
  | none => rfl
  | some m => exact absurd ((h.flightIff id).mp (isSome_of_eq hp)) h1

theorem msgs_none_of {fb v q} (h : L fb v q) {id : Nat} (h1 : id ∉ v.ids) : q.msgs id = none := by
  cases hp : q.msgs id with
  | none => rfl
  | some m => exact absurd ((h.stored id).mp (isSome_of_eq hp)) h1


theorem outstanding_congr {rem rem' : List Nat} {q q' : State} {j : Nat} (hr : j ∈ rem' ↔ j ∈ rem)
    (hm : q'.msgs j = q.msgs j) (hp : q'.pend j = q.pend j) : outstanding rem' q' j = outstanding rem q j := by
  unfold outstanding
  by_cases hj : j ∈ rem
  · simp [hj, hr.mpr hj]
  · have : j ∉ rem' := fun hx => hj (hr.mp hx)
    simp [hj, this, hm, hp]

theorem L_write {fb : Bool} {v : View} {q : State} (hv : VOk v) (h : L fb v q) (id : Nat) (rcpts : List Rcpt) (nn : Bool)
    (hid : id ∉ v.ids) (hn : rcpts.Nodup) :
    L fb { v with written := id :: v.written, ids := id :: v.ids }
      { q with msgs := upd q.msgs id (some ⟨rcpts, 0⟩), orig := upd q.orig id (some rcpts), nonNull := upd q.nonNull id nn,
               delivered := upd q.delivered id [], failed := upd q.failed id [], bounces := upd q.bounces id [] } := by
  have hnot : id ∉ v.inflight ∧ id ∉ v.retry ∧ id ∉ v.retrying ∧ id ∉ v.rem :=
    ⟨fun hx => hid (hv.stored id (Or.inl hx)), fun hx => hid (hv.stored id (Or.inr (Or.inl hx))),
     fun hx => hid (hv.stored id (Or.inr (Or.inr (Or.inl hx)))), fun hx => hid (hv.stored id (Or.inr (Or.inr (Or.inr hx))))⟩
  have hpn := pend_none_of h hnot.2.1 hnot.2.2.1
  have hfn := flight_none_of h hnot.1
  refine ⟨?_, ?_, ?_, ?_, ?_, ?_, ?_, ?_, ?_, ?_, ?_, ?_⟩
  · intro j
    by_cases hj : j = id
    · subst hj; simp
    · simp only [upd_ne _ _ hj, List.mem_cons, hj, false_or]; exact h.stored j
  · intro j hjm
    by_cases hj : j = id
    · subst hj; simp
    · simp only [upd_ne _ _ hj]
      exact h.orig j (by simpa [hj] using hjm)
  · intro j r hr
    by_cases hj : j = id
    · subst hj; simp only [upd_same, Option.some.injEq] at hr; subst hr; exact hn
    · simp only [upd_ne _ _ hj] at hr; exact h.nodup j r hr
  · exact h.flightIff
  · intro j m hm
    by_cases hj : j = id
    · subst hj; rw [hfn] at hm; simp at hm
    · simp only [upd_ne _ _ hj]; exact h.flightMsg j m hm
  · exact h.pendIff
  · intro j pd m hp hm
    by_cases hj : j = id
    · subst hj; rw [hpn] at hp; simp at hp
    · simp only [upd_ne _ _ hj] at hm; exact h.pendOk j pd m hp hm
  · intro j r hr x
    by_cases hj : j = id
    · subst hj
      simp only [upd_same, Option.some.injEq] at hr; subst hr
      simp [outstanding, hnot.2.2.2, hpn]
    · simp only [upd_ne _ _ hj] at hr ⊢
      have := h.ledger j r hr x
      simp only [outstanding, upd_ne _ _ hj] at this ⊢
      exact this
  · intro j hjw
    rcases List.mem_cons.mp hjw with hj | hjw'
    · subst hj; exact ⟨rcpts, by simp, by simp⟩
    · have hj : j ≠ id := fun he => hid (he ▸ (hv.written j hjw').2.2.2.2)
      simp only [upd_ne _ _ hj]; exact h.fresh j hjw'
  · intro j x r hx hb
    by_cases hj : j = id
    · subst hj; simp at hx
    · simp only [upd_ne _ _ hj] at hx hb ⊢; exact h.bounced j x r hx hb
  · intro j hb
    by_cases hj : j = id
    · subst hj; simp
    · simp only [upd_ne _ _ hj] at hb ⊢; exact h.quiet j hb
  · intro j x hb
    by_cases hj : j = id
    · subst hj; simp
    · simp only [upd_ne _ _ hj] at hb ⊢; exact h.bcount j x hb

theorem L_handoff {fb : Bool} {v : View} {q : State} (h : L fb v q) (id : Nat) (m : Msg) (hm : q.msgs id = some m)
    (w' : List Nat) (hw : ∀ j, j ∈ w' → j ∈ v.written) (e : Nat × List Rcpt × Nat) :
    L fb { v with inflight := id :: v.inflight, written := w' }
      { q with flight := upd q.flight id (some m), handed := e :: q.handed } := by
  refine ⟨h.stored, h.orig, h.nodup, ?_, ?_, h.pendIff, h.pendOk, ?_, ?_, h.bounced, h.quiet, h.bcount⟩
  · intro j
    by_cases hj : j = id
    · subst hj; simp
    · simp only [upd_ne _ _ hj, List.mem_cons, hj, false_or]; exact h.flightIff j
  · intro j m' hm'
    by_cases hj : j = id
    · subst hj; simp only [upd_same, Option.some.injEq] at hm'; subst hm'; exact hm
    · simp only [upd_ne _ _ hj] at hm'; exact h.flightMsg j m' hm'
  · intro j r hr x
    have := h.ledger j r hr x
    simp only [outstanding] at this ⊢
    exact this
  · intro j hj
    exact h.fresh j (hw j hj)

theorem L_done_final {fb : Bool} {v : View} {q : State} (hv : VOk v) (h : L fb v q) (id : Nat) (m : Msg) (o : Outcome)
    (hf : q.flight id = some m) (hc : CompleteOutcome m o) (hp : (phase1 (fb && q.nonNull id) m o).pend = none) :
    L fb { v with inflight := without v.inflight id, rem := id :: v.rem }
      { q with flight := upd q.flight id none, pend := upd q.pend id none,
               delivered := upd q.delivered id (q.delivered id ++ (phase1 (fb && q.nonNull id) m o).delivered),
               failed := upd q.failed id (q.failed id ++ (phase1 (fb && q.nonNull id) m o).failed),
               bounces := upd q.bounces id (q.bounces id ++ (phase1 (fb && q.nonNull id) m o).bounces) } := by
  have hin : id ∈ v.inflight := (h.flightIff id).mp (isSome_of_eq hf)
  obtain ⟨hn1, hn2, hn3⟩ := (hv.excl id).1 hin
  have hpn := pend_none_of h hn1 hn2
  have hmsg := h.flightMsg id m hf
  refine ⟨h.stored, h.orig, h.nodup, ?_, ?_, ?_, ?_, ?_, h.fresh, ?_, ?_, ?_⟩
  · intro j
    by_cases hj : j = id
    · subst hj; simp [mem_without]
    · simp only [upd_ne _ _ hj, mem_without, ne_eq, hj, not_false_eq_true, and_true]; exact h.flightIff j
  · intro j m' hm'
    by_cases hj : j = id
    · subst hj; simp at hm'
    · simp only [upd_ne _ _ hj] at hm'; exact h.flightMsg j m' hm'
  · intro j
    by_cases hj : j = id
    · subst hj; simp [hn1, hn2]
    · simp only [upd_ne _ _ hj]; exact h.pendIff j
  · intro j pd m' hpd hm'
    by_cases hj : j = id
    · subst hj; simp at hpd
    · simp only [upd_ne _ _ hj] at hpd; exact h.pendOk j pd m' hpd hm'
  · intro j r hr x
    by_cases hj : j = id
    · subst hj
      have h0 := h.ledger j r hr x
      have h1 := phase1_count (fb && q.nonNull j) m o hc x
      simp only [hp] at h1
      simp only [outstanding, hn3, if_false, hmsg, hpn] at h0
      simp only [outstanding, upd_same, List.mem_cons, true_or, if_true, List.count_append, List.map_append, List.count_nil]
      omega
    · have := h.ledger j r hr x
      simp only [outstanding, upd_ne _ _ hj, List.mem_cons, hj, false_or] at this ⊢
      exact this
  · intro j x r hx hb
    by_cases hj : j = id
    · subst hj
      simp only [upd_same, List.mem_append] at hx ⊢
      rcases hx with hx | hx
      · obtain ⟨b, hb1, hb2⟩ := h.bounced j x r hx hb
        exact ⟨b, Or.inl hb1, hb2⟩
      · rw [hb] at hx ⊢
        obtain ⟨b, hb1, hb2⟩ := phase1_bounced m o x r hx
        exact ⟨b, Or.inr hb1, hb2⟩
    · simp only [upd_ne _ _ hj] at hx ⊢; exact h.bounced j x r hx hb
  · intro j hb
    by_cases hj : j = id
    · subst hj
      simp only [upd_same, hb, phase1_quiet, List.append_nil]
      exact h.quiet j hb
    · simp only [upd_ne _ _ hj]; exact h.quiet j hb
  · intro j x hb
    by_cases hj : j = id
    · subst hj
      have h0 := h.bcount j x hb
      have h1 := phase1_bcount m o x
      simp only [upd_same, hb, List.flatMap_append, List.count_append, List.map_append]
      omega
    · simp only [upd_ne _ _ hj]; exact h.bcount j x hb

theorem L_done_retry {fb : Bool} {v : View} {q : State} (hv : VOk v) (h : L fb v q) (id : Nat) (m : Msg) (o : Outcome) (pd : Pend)
    (hf : q.flight id = some m) (hc : CompleteOutcome m o) (hp : (phase1 (fb && q.nonNull id) m o).pend = some pd) :
    L fb { v with inflight := without v.inflight id, retry := id :: v.retry }
      { q with flight := upd q.flight id none, pend := upd q.pend id (some pd),
               delivered := upd q.delivered id (q.delivered id ++ (phase1 (fb && q.nonNull id) m o).delivered),
               failed := upd q.failed id (q.failed id ++ (phase1 (fb && q.nonNull id) m o).failed),
               bounces := upd q.bounces id (q.bounces id ++ (phase1 (fb && q.nonNull id) m o).bounces) } := by
  have hin : id ∈ v.inflight := (h.flightIff id).mp (isSome_of_eq hf)
  obtain ⟨hn1, hn2, hn3⟩ := (hv.excl id).1 hin
  have hpn := pend_none_of h hn1 hn2
  have hmsg := h.flightMsg id m hf
  refine ⟨h.stored, h.orig, h.nodup, ?_, ?_, ?_, ?_, ?_, h.fresh, ?_, ?_, ?_⟩
  · intro j
    by_cases hj : j = id
    · subst hj; simp [mem_without]
    · simp only [upd_ne _ _ hj, mem_without, ne_eq, hj, not_false_eq_true, and_true]; exact h.flightIff j
  · intro j m' hm'
    by_cases hj : j = id
    · subst hj; simp at hm'
    · simp only [upd_ne _ _ hj] at hm'; exact h.flightMsg j m' hm'
  · intro j
    by_cases hj : j = id
    · subst hj; simp
    · simp only [upd_ne _ _ hj, List.mem_cons, hj, false_or]; exact h.pendIff j
  · intro j pd' m' hpd hm'
    by_cases hj : j = id
    · subst hj
      simp only [upd_same, Option.some.injEq] at hpd; subst hpd
      rw [hmsg] at hm'; simp only [Option.some.injEq] at hm'; subst hm'
      exact phase1_pendOk _ m o hc _ hp
    · simp only [upd_ne _ _ hj] at hpd; exact h.pendOk j pd' m' hpd hm'
  · intro j r hr x
    by_cases hj : j = id
    · subst hj
      have h0 := h.ledger j r hr x
      have h1 := phase1_count (fb && q.nonNull j) m o hc x
      simp only [hp] at h1
      simp only [outstanding, hn3, if_false, hmsg, hpn] at h0
      simp only [outstanding, upd_same, hn3, if_false, hmsg, List.count_append, List.map_append]
      omega
    · have := h.ledger j r hr x
      simp only [outstanding, upd_ne _ _ hj] at this ⊢
      exact this
  · intro j x r hx hb
    by_cases hj : j = id
    · subst hj
      simp only [upd_same, List.mem_append] at hx ⊢
      rcases hx with hx | hx
      · obtain ⟨b, hb1, hb2⟩ := h.bounced j x r hx hb
        exact ⟨b, Or.inl hb1, hb2⟩
      · rw [hb] at hx ⊢
        obtain ⟨b, hb1, hb2⟩ := phase1_bounced m o x r hx
        exact ⟨b, Or.inr hb1, hb2⟩
    · simp only [upd_ne _ _ hj] at hx ⊢; exact h.bounced j x r hx hb
  · intro j hb
    by_cases hj : j = id
    · subst hj
      simp only [upd_same, hb, phase1_quiet, List.append_nil]
      exact h.quiet j hb
    · simp only [upd_ne _ _ hj]; exact h.quiet j hb
  · intro j x hb
    by_cases hj : j = id
    · subst hj
      have h0 := h.bcount j x hb
      have h1 := phase1_bcount m o x
      simp only [upd_same, hb, List.flatMap_append, List.count_append, List.map_append]
      omega
    · simp only [upd_ne _ _ hj]; exact h.bcount j x hb

theorem L_retry_none {fb : Bool} {v : View} {q : State} (hv : VOk v) (h : L fb v q) (id : Nat) (pd : Pend) (m : Msg)
    (hin : id ∈ v.retry) (hpd : q.pend id = some pd) (hm : q.msgs id = some m) :
    L fb { v with retry := without v.retry id, rem := id :: v.rem }
      { q with msgs := upd q.msgs id (some { m with attempts := m.attempts + 1 }), pend := upd q.pend id none,
               failed := upd q.failed id (q.failed id ++ (giveUp (fb && q.nonNull id) m.rcpts pd).1),
               bounces := upd q.bounces id (q.bounces id ++ (giveUp (fb && q.nonNull id) m.rcpts pd).2) } := by
  obtain ⟨hn2, hn3⟩ := (hv.excl id).2.1 hin
  have hnf : id ∉ v.inflight := fun hx => ((hv.excl id).1 hx).1 hin
  have hfn := flight_none_of h hnf
  refine ⟨?_, h.orig, h.nodup, h.flightIff, ?_, ?_, ?_, ?_, ?_, ?_, ?_, ?_⟩
  · intro j
    by_cases hj : j = id
    · subst hj; simpa using (h.stored j).mp (isSome_of_eq hm)
    · simp only [upd_ne _ _ hj]; exact h.stored j
  · intro j m' hm'
    by_cases hj : j = id
    · subst hj; rw [hfn] at hm'; simp at hm'
    · simp only [upd_ne _ _ hj]; exact h.flightMsg j m' hm'
  · intro j
    by_cases hj : j = id
    · subst hj; simp [mem_without, hn2]
    · simp only [upd_ne _ _ hj, mem_without, ne_eq, hj, not_false_eq_true, and_true]; exact h.pendIff j
  · intro j pd' m' hpd' hm'
    by_cases hj : j = id
    · subst hj; simp at hpd'
    · simp only [upd_ne _ _ hj] at hpd' hm'; exact h.pendOk j pd' m' hpd' hm'
  · intro j r hr x
    by_cases hj : j = id
    · subst hj
      have h0 := h.ledger j r hr x
      have h1 := giveUp_count (fb && q.nonNull j) m.rcpts pd x
      simp only [outstanding, hn3, if_false, hm, hpd] at h0
      simp only [outstanding, upd_same, List.mem_cons, true_or, if_true, List.count_append, List.map_append, List.count_nil]
      omega
    · have := h.ledger j r hr x
      simp only [outstanding, upd_ne _ _ hj, List.mem_cons, hj, false_or] at this ⊢
      exact this
  · intro j hjw
    have hj : j ≠ id := fun he => (hv.written j hjw).2.1 (he ▸ hin)
    simp only [upd_ne _ _ hj]; exact h.fresh j hjw
  · intro j x r hx hb
    by_cases hj : j = id
    · subst hj
      simp only [upd_same, List.mem_append] at hx ⊢
      rcases hx with hx | hx
      · obtain ⟨b, hb1, hb2⟩ := h.bounced j x r hx hb
        exact ⟨b, Or.inl hb1, hb2⟩
      · rw [hb] at hx ⊢
        obtain ⟨b, hb1, hb2⟩ := giveUp_bounced m.rcpts pd x r hx
        exact ⟨b, Or.inr hb1, hb2⟩
    · simp only [upd_ne _ _ hj] at hx ⊢; exact h.bounced j x r hx hb
  · intro j hb
    by_cases hj : j = id
    · subst hj
      simp only [upd_same, hb, giveUp_quiet, List.append_nil]
      exact h.quiet j hb
    · simp only [upd_ne _ _ hj]; exact h.quiet j hb
  · intro j x hb
    by_cases hj : j = id
    · subst hj
      have h0 := h.bcount j x hb
      have h1 := giveUp_bcount m.rcpts pd x
      simp only [upd_same, hb, List.flatMap_append, List.count_append, List.map_append]
      omega
    · simp only [upd_ne _ _ hj]; exact h.bcount j x hb

theorem L_retry_some {fb : Bool} {v : View} {q : State} (hv : VOk v) (h : L fb v q) (id : Nat) (pd : Pend) (m : Msg)
    (hin : id ∈ v.retry) (hpd : q.pend id = some pd) (hm : q.msgs id = some m) :
    L fb { v with retry := without v.retry id, retrying := id :: v.retrying }
      { q with msgs := upd q.msgs id (some { m with attempts := m.attempts + 1 }) } := by
  obtain ⟨hn2, hn3⟩ := (hv.excl id).2.1 hin
  have hnf : id ∉ v.inflight := fun hx => ((hv.excl id).1 hx).1 hin
  have hfn := flight_none_of h hnf
  refine ⟨?_, h.orig, h.nodup, h.flightIff, ?_, ?_, ?_, ?_, ?_, h.bounced, h.quiet, h.bcount⟩
  · intro j
    by_cases hj : j = id
    · subst hj; simpa using (h.stored j).mp (isSome_of_eq hm)
    · simp only [upd_ne _ _ hj]; exact h.stored j
  · intro j m' hm'
    by_cases hj : j = id
    · subst hj; rw [hfn] at hm'; simp at hm'
    · simp only [upd_ne _ _ hj]; exact h.flightMsg j m' hm'
  · intro j
    by_cases hj : j = id
    · subst hj; simp [hpd]
    · simp only [mem_without, ne_eq, hj, not_false_eq_true, and_true, List.mem_cons, false_or]; exact h.pendIff j
  · intro j pd' m' hpd' hm'
    by_cases hj : j = id
    · subst hj
      simp only [upd_same, Option.some.injEq] at hm'; subst hm'
      exact h.pendOk j pd' m hpd' hm
    · simp only [upd_ne _ _ hj] at hm'; exact h.pendOk j pd' m' hpd' hm'
  · intro j r hr x
    by_cases hj : j = id
    · subst hj
      have h0 := h.ledger j r hr x
      simp only [outstanding, hn3, if_false, hm, hpd] at h0
      simp only [outstanding, upd_same, hn3, if_false, hpd]
      exact h0
    · have := h.ledger j r hr x
      simp only [outstanding, upd_ne _ _ hj] at this ⊢
      exact this
  · intro j hjw
    have hj : j ≠ id := fun he => (hv.written j hjw).2.1 (he ▸ hin)
    simp only [upd_ne _ _ hj]; exact h.fresh j hjw

theorem L_requeue {fb : Bool} {v : View} {q : State} (hv : VOk v) (h : L fb v q) (id : Nat) (pd : Pend) (m : Msg)
    (hin : id ∈ v.retrying) (hpd : q.pend id = some pd) (hm : q.msgs id = some m) :
    L fb { v with retrying := without v.retrying id }
      { q with msgs := upd q.msgs id (some { m with rcpts := pd.newRcpts m.rcpts }), pend := upd q.pend id none } := by
  have hn3 := (hv.excl id).2.2 hin
  have hn1 : id ∉ v.retry := fun hx => ((hv.excl id).2.1 hx).1 hin
  have hnf : id ∉ v.inflight := fun hx => ((hv.excl id).1 hx).2.1 hin
  have hfn := flight_none_of h hnf
  refine ⟨?_, h.orig, h.nodup, h.flightIff, ?_, ?_, ?_, ?_, ?_, h.bounced, h.quiet, h.bcount⟩
  · intro j
    by_cases hj : j = id
    · subst hj; simpa using (h.stored j).mp (isSome_of_eq hm)
    · simp only [upd_ne _ _ hj]; exact h.stored j
  · intro j m' hm'
    by_cases hj : j = id
    · subst hj; rw [hfn] at hm'; simp at hm'
    · simp only [upd_ne _ _ hj]; exact h.flightMsg j m' hm'
  · intro j
    by_cases hj : j = id
    · subst hj; simp [mem_without, hn1]
    · simp only [upd_ne _ _ hj, mem_without, ne_eq, hj, not_false_eq_true, and_true]; exact h.pendIff j
  · intro j pd' m' hpd' hm'
    by_cases hj : j = id
    · subst hj; simp at hpd'
    · simp only [upd_ne _ _ hj] at hpd' hm'; exact h.pendOk j pd' m' hpd' hm'
  · intro j r hr x
    by_cases hj : j = id
    · subst hj
      have h0 := h.ledger j r hr x
      have h1 := h.pendOk j pd m hpd hm x
      simp only [outstanding, hn3, if_false, hm, hpd] at h0
      simp only [outstanding, upd_same, hn3, if_false]
      omega
    · have := h.ledger j r hr x
      simp only [outstanding, upd_ne _ _ hj] at this ⊢
      exact this
  · intro j hjw
    have hj : j ≠ id := fun he => (hv.written j hjw).2.2.1 (he ▸ hin)
    simp only [upd_ne _ _ hj]; exact h.fresh j hjw

theorem L_remove {fb : Bool} {v : View} {q : State} (hv : VOk v) (h : L fb v q) (id : Nat) (ids' : List Nat)
    (hin : id ∈ v.rem) (hids : ∀ j, j ∈ ids' ↔ j ∈ v.ids ∧ j ≠ id) :
    L fb { v with rem := without v.rem id, ids := ids' } { q with msgs := upd q.msgs id none } := by
  have hn1 : id ∉ v.retry := fun hx => ((hv.excl id).2.1 hx).2 hin
  have hn2 : id ∉ v.retrying := fun hx => ((hv.excl id).2.2 hx) hin
  have hnf : id ∉ v.inflight := fun hx => ((hv.excl id).1 hx).2.2 hin
  have hfn := flight_none_of h hnf
  have hpn := pend_none_of h hn1 hn2
  refine ⟨?_, ?_, h.nodup, h.flightIff, ?_, h.pendIff, ?_, ?_, ?_, h.bounced, h.quiet, h.bcount⟩
  · intro j
    by_cases hj : j = id
    · subst hj; simp [hids]
    · simp only [upd_ne _ _ hj, hids, ne_eq, hj, not_false_eq_true, and_true]; exact h.stored j
  · intro j hjm
    exact h.orig j ((hids j).mp hjm).1
  · intro j m' hm'
    by_cases hj : j = id
    · subst hj; rw [hfn] at hm'; simp at hm'
    · simp only [upd_ne _ _ hj]; exact h.flightMsg j m' hm'
  · intro j pd' m' hpd' hm'
    by_cases hj : j = id
    · subst hj; simp at hm'
    · simp only [upd_ne _ _ hj] at hm'; exact h.pendOk j pd' m' hpd' hm'
  · intro j r hr x
    by_cases hj : j = id
    · subst hj
      have h0 := h.ledger j r hr x
      simp only [outstanding, hin, if_true] at h0
      simp only [outstanding, upd_same, mem_without, ne_eq, not_true_eq_false, and_false, if_false]
      exact h0
    · have := h.ledger j r hr x
      simp only [outstanding, upd_ne _ _ hj, mem_without, ne_eq, hj, not_false_eq_true, and_true] at this ⊢
      exact this
  · intro j hjw
    have hj : j ≠ id := fun he => (hv.written j hjw).2.2.2.1 (he ▸ hin)
    simp only [upd_ne _ _ hj]; exact h.fresh j hjw


/-! ### what each scheduler step does to the view -/

theorem sched_write {s s' : Sched.State} {id ts : Nat} (h : Sched.step s (.write id ts) = some s') :
    id ∉ sIds s ∧ view s' = { view s with written := id :: s.written, ids := id :: sIds s } := by
  simp only [Sched.step] at h
  split at h
  · simp at h
  · rename_i hc
    simp only [Bool.or_eq_true, List.contains_eq_mem, decide_eq_true_eq, Option.isSome_iff_ne_none, ne_eq, not_or,
      Decidable.not_not, Nat.not_lt] at hc
    simp only [Option.some.injEq] at h; subst h
    exact ⟨Sched.tsOf_none.mp hc.1.2, rfl⟩

theorem sched_activate {s s' : Sched.State} {id : Nat} (h : Sched.step s (.activate id) = some s') :
    id ∈ s.written ∧
    (if s.active.contains id then view s' = { view s with written := without s.written id }
     else view s' = { view s with written := without s.written id, inflight := id :: s.inflight }) := by
  simp only [Sched.step] at h
  split at h
  · rename_i hw
    simp only [Option.some.injEq] at h; subst h
    refine ⟨by simpa using hw, ?_⟩
    by_cases ha : s.active.contains id = true
    · simp only [ha, if_true]; rfl
    · simp only [ha, if_false]; rfl
  · simp at h

theorem sched_dequeue {s s' : Sched.State} {id : Nat} {c : Sched.Cause} (h : Sched.step s (.dequeue id c) = some s') :
    if (Sched.tsOf s id).isNone || s.active.contains id then view s' = view s
    else view s' = { view s with inflight := id :: s.inflight } := by
  simp only [Sched.step] at h
  split at h
  · simp only [Option.some.injEq] at h; subst h
    have e1 : Sched.tsOf ({ s with deq := s.deq.erase (id, c) } : Sched.State) id = Sched.tsOf s id := rfl
    simp only [e1]
    by_cases h1 : (Sched.tsOf s id).isNone = true
    · simp only [h1, if_true, Bool.true_or]; rfl
    · by_cases h2 : s.active.contains id = true
      · simp only [h1, h2, if_true, Bool.or_true, if_false]; rfl
      · simp only [h1, h2, if_false, Bool.or_self]; rfl
  · simp at h

theorem sched_done {s s' : Sched.State} {id : Nat} {ok : Bool} (h : Sched.step s (.done id ok) = some s') :
    id ∈ s.inflight ∧
    view s' = (if ok then { view s with inflight := without s.inflight id, rem := id :: s.rem }
               else { view s with inflight := without s.inflight id, retry := id :: s.retry }) := by
  simp only [Sched.step] at h
  split at h
  · rename_i hw
    simp only [Option.some.injEq] at h; subst h
    refine ⟨by simpa using hw, ?_⟩
    cases ok <;> rfl
  · simp at h

theorem sched_retry_none {s s' : Sched.State} {id : Nat} (h : Sched.step s (.retry id none) = some s') :
    id ∈ s.retry ∧ view s' = { view s with retry := without s.retry id, rem := id :: s.rem } := by
  simp only [Sched.step] at h
  split at h
  · rename_i hw
    simp only [Option.some.injEq] at h; subst h
    exact ⟨by simpa using hw, rfl⟩
  · simp at h

theorem sched_retry_some {s s' : Sched.State} {id w : Nat} (h : Sched.step s (.retry id (some w)) = some s') :
    id ∈ s.retry ∧ view s' = { view s with retry := without s.retry id, retrying := id :: s.retrying } := by
  simp only [Sched.step] at h
  split at h
  · rename_i hw
    simp only [Option.some.injEq] at h; subst h
    refine ⟨by simpa using hw, ?_⟩
    simp only [view, sIds, C12.setTs_ids]
  · simp at h

theorem sched_requeue {s s' : Sched.State} {id : Nat} (h : Sched.step s (.requeue id) = some s') :
    id ∈ s.retrying ∧ view s' = { view s with retrying := without s.retrying id } := by
  simp only [Sched.step] at h
  split at h
  · rename_i hw
    split at h
    · simp only [Option.some.injEq] at h; subst h
      refine ⟨by simpa using hw, ?_⟩
      rw [view_addQueued]; rfl
    · simp at h
  · simp at h

theorem sched_remove {s s' : Sched.State} {id : Nat} (h : Sched.step s (.remove id) = some s') :
    id ∈ s.rem ∧ view s' = { view s with rem := without s.rem id, ids := (s.stored.filter (fun e => e.1 != id)).map (·.1) } := by
  simp only [Sched.step] at h
  split at h
  · rename_i hw
    simp only [Option.some.injEq] at h; subst h
    exact ⟨by simpa using hw, rfl⟩
  · simp at h


/-! ### the invariant of the composed machine -/

/-- Environment assumptions: C12's `Calm` for announcements, and the relay contract — per-recipient results
    name exactly the recipients the attempt was handed. -/
def calm (q : State) : Label → Prop
  | .announce id _ => id ∉ q.s.written ∧ id ∉ dIds q.s
  | .done id o => ∀ m, q.flight id = some m → CompleteOutcome m o
  | _ => True

theorem calm_sched {fb : Bool} {q : State} {l : Label} (hc : calm q l) : C12.calm q.s (toSched fb q l) := by
  cases l <;> simp only [toSched, C12.calm] <;> first | trivial | exact hc

structure Inv (fb : Bool) (q : State) : Prop where
  sched : C12.Inv q.s
  led : L fb (view q.s) q

theorem inv_step {fb : Bool} {q q' : State} {l : Label} (h : Inv fb q) (hc : calm q l) (hs : step fb q l = some q') :
    Inv fb q' := by
  have hv := vok_of_inv h.sched
  have hL := h.led
  unfold step at hs
  split at hs
  · simp at hs
  · rename_i s' hss
    have hI' : C12.Inv s' := C12.inv_step _ _ _ h.sched (calm_sched hc) hss
    cases l with
    | write id ts rcpts nn =>
      simp only [toSched] at hss
      obtain ⟨hid, hview⟩ := sched_write hss
      simp only at hs
      split at hs
      · rename_i hcond
        simp only [Bool.and_eq_true, decide_eq_true_eq] at hcond
        simp only [Option.some.injEq] at hs; subst hs
        refine ⟨hI', ?_⟩
        show L fb (view s') _
        rw [hview]
        exact L_s s' (L_write hv hL id rcpts nn hid hcond.1)
      · simp at hs
    | activate id =>
      simp only [toSched] at hss
      obtain ⟨hw, hview⟩ := sched_activate hss
      have hna : id ∉ q.s.active := (h.sched.written id hw).1
      have hna' : q.s.active.contains id = false := by simpa using hna
      simp only [hna', Bool.false_eq_true, if_false] at hview hs
      obtain ⟨r, hr, hm⟩ := hL.fresh id hw
      simp only [hr, Option.some.injEq] at hs; subst hs
      refine ⟨hI', ?_⟩
      show L fb (view s') _
      rw [hview]
      have := L_handoff hL id ⟨r, 0⟩ hm (without q.s.written id) (fun j hj => (mem_without.mp hj).1) (id, r, 0)
      exact L_s s' this
    | announce id ts =>
      simp only [toSched] at hss
      simp only [Option.some.injEq] at hs; subst hs
      refine ⟨hI', ?_⟩
      show L fb (view s') _
      rw [view_frame hss trivial]
      exact L_s s' hL
    | tick dt =>
      simp only [toSched] at hss
      simp only [Option.some.injEq] at hs; subst hs
      refine ⟨hI', ?_⟩
      show L fb (view s') _
      rw [view_frame hss trivial]
      exact L_s s' hL
    | sched =>
      simp only [toSched] at hss
      simp only [Option.some.injEq] at hs; subst hs
      refine ⟨hI', ?_⟩
      show L fb (view s') _
      rw [view_frame hss trivial]
      exact L_s s' hL
    | sleep =>
      simp only [toSched] at hss
      simp only [Option.some.injEq] at hs; subst hs
      refine ⟨hI', ?_⟩
      show L fb (view s') _
      rw [view_frame hss trivial]
      exact L_s s' hL
    | poke =>
      simp only [toSched] at hss
      simp only [Option.some.injEq] at hs; subst hs
      refine ⟨hI', ?_⟩
      show L fb (view s') _
      rw [view_frame hss trivial]
      exact L_s s' hL
    | flush =>
      simp only [toSched] at hss
      simp only [Option.some.injEq] at hs; subst hs
      refine ⟨hI', ?_⟩
      show L fb (view s') _
      rw [view_frame hss trivial]
      exact L_s s' hL
    | dequeue id c =>
      simp only [toSched] at hss
      have hview := sched_dequeue hss
      simp only at hs
      split at hs
      · rename_i hcond
        simp only [hcond, if_true] at hview
        simp only [Option.some.injEq] at hs; subst hs
        refine ⟨hI', ?_⟩
        show L fb (view s') _
        rw [hview]
        exact L_s s' hL
      · rename_i hcond
        simp only [hcond, Bool.false_eq_true, if_false] at hview
        split at hs
        · rename_i m hm
          simp only [Option.some.injEq] at hs; subst hs
          refine ⟨hI', ?_⟩
          show L fb (view s') _
          rw [hview]
          have := L_handoff hL id m hm q.s.written (fun j hj => hj) (id, m.rcpts, m.attempts)
          exact L_s s' this
        · simp at hs
    | done id o =>
      simp only at hs
      split at hs
      · simp at hs
      · rename_i p hp
        simp only [verdict, Option.map_eq_some_iff] at hp
        obtain ⟨m, hf, hpe⟩ := hp
        have hcm : CompleteOutcome m o := hc m hf
        simp only [toSched, verdict, hf, Option.map_some] at hss
        obtain ⟨hin, hview⟩ := sched_done hss
        simp only [Option.some.injEq] at hs; subst hs
        refine ⟨hI', ?_⟩
        show L fb (view s') _
        rw [hview, ← hpe]
        cases hpp : (phase1 (fb && q.nonNull id) m o).pend with
        | none =>
          simp only [hpp, Option.isNone_none, if_true]
          exact L_s s' (L_done_final hv hL id m o hf hcm hpp)
        | some pd =>
          simp only [hpp, Option.isNone_some, Bool.false_eq_true, if_false]
          exact L_s s' (L_done_retry hv hL id m o pd hf hcm hpp)
    | retry id w =>
      simp only [toSched] at hss
      simp only at hs
      split at hs
      · rename_i pd m hpd hm
        cases w with
        | none =>
          obtain ⟨hin, hview⟩ := sched_retry_none hss
          simp only [Option.some.injEq] at hs; subst hs
          refine ⟨hI', ?_⟩
          show L fb (view s') _
          rw [hview]
          exact L_s s' (L_retry_none hv hL id pd m hin hpd hm)
        | some w =>
          obtain ⟨hin, hview⟩ := sched_retry_some hss
          simp only [Option.some.injEq] at hs; subst hs
          refine ⟨hI', ?_⟩
          show L fb (view s') _
          rw [hview]
          exact L_s s' (L_retry_some hv hL id pd m hin hpd hm)
      · simp at hs
    | requeue id =>
      simp only [toSched] at hss
      simp only at hs
      split at hs
      · rename_i pd m hpd hm
        obtain ⟨hin, hview⟩ := sched_requeue hss
        simp only [Option.some.injEq] at hs; subst hs
        refine ⟨hI', ?_⟩
        show L fb (view s') _
        rw [hview]
        exact L_s s' (L_requeue hv hL id pd m hin hpd hm)
      · simp at hs
    | remove id =>
      simp only [toSched] at hss
      obtain ⟨hin, hview⟩ := sched_remove hss
      simp only [Option.some.injEq] at hs; subst hs
      refine ⟨hI', ?_⟩
      show L fb (view s') _
      rw [hview]
      exact L_s s' (L_remove hv hL id _ hin (fun j => C12.mem_ids_filter))


/-- States reachable by calm steps. -/
inductive Reach (fb : Bool) (q0 : State) : State → Prop
  | init : Reach fb q0 q0
  | step {q q' : State} {l : Label} : Reach fb q0 q → calm q l → step fb q l = some q' → Reach fb q0 q'

theorem inv_start (fb : Bool) (pre : List (Nat × Nat)) (rc : Nat → List Rcpt) (nn : Nat → Bool)
    (hpre : (pre.map (·.1)).Nodup) (hrc : ∀ id ∈ pre.map (·.1), (rc id).Nodup) : Inv fb (start pre rc nn) where
  sched := C12.inv_start pre hpre
  led := {
    stored := by
      intro id
      show (if (pre.map (·.1)).contains id then some (⟨rc id, 0⟩ : Msg) else none).isSome ↔ id ∈ pre.map (·.1)
      by_cases h : id ∈ pre.map (·.1) <;> simp [h]
    orig := by
      intro id hid
      show (if (pre.map (·.1)).contains id then some (rc id) else none).isSome
      have : id ∈ pre.map (·.1) := hid
      simp [this]
    nodup := by
      intro id r hr
      have hr' : (if (pre.map (·.1)).contains id then some (rc id) else none) = some r := hr
      by_cases h : id ∈ pre.map (·.1)
      · simp [h] at hr'; subst hr'; exact hrc id h
      · simp [h] at hr'
    flightIff := by intro id; simp [start, view]
    flightMsg := by intro id m hm; simp [start] at hm
    pendIff := by intro id; simp [start, view]
    pendOk := by intro id pd m hp; simp [start] at hp
    ledger := by
      intro id r hr x
      have hr' : (if (pre.map (·.1)).contains id then some (rc id) else none) = some r := hr
      by_cases h : id ∈ pre.map (·.1)
      · simp [h] at hr'; subst hr'
        simp [outstanding, start, view, h]
      · simp [h] at hr'
    fresh := by intro id hid; simp [start, view] at hid
    bounced := by intro id x r hx; simp [start] at hx
    quiet := by intro id _; rfl
    bcount := by intro id x _; rfl }

theorem inv_startAt (fb : Bool) (pre : List (Nat × Nat)) (rc : Nat → List Rcpt) (nn : Nat → Bool) (att : Nat → Nat)
    (hpre : (pre.map (·.1)).Nodup) (hrc : ∀ id ∈ pre.map (·.1), (rc id).Nodup) : Inv fb (startAt pre rc nn att) where
  sched := C12.inv_start pre hpre
  led := {
    stored := by
      intro id
      show (if (pre.map (·.1)).contains id then some (⟨rc id, att id⟩ : Msg) else none).isSome ↔ id ∈ pre.map (·.1)
      by_cases h : id ∈ pre.map (·.1) <;> simp [h]
    orig := by
      intro id hid
      show (if (pre.map (·.1)).contains id then some (rc id) else none).isSome
      have : id ∈ pre.map (·.1) := hid
      simp [this]
    nodup := by
      intro id r hr
      have hr' : (if (pre.map (·.1)).contains id then some (rc id) else none) = some r := hr
      by_cases h : id ∈ pre.map (·.1)
      · simp [h] at hr'; subst hr'; exact hrc id h
      · simp [h] at hr'
    flightIff := by intro id; simp [startAt, view]
    flightMsg := by intro id m hm; simp [startAt] at hm
    pendIff := by intro id; simp [startAt, view]
    pendOk := by intro id pd m hp; simp [startAt] at hp
    ledger := by
      intro id r hr x
      have hr' : (if (pre.map (·.1)).contains id then some (rc id) else none) = some r := hr
      by_cases h : id ∈ pre.map (·.1)
      · simp [h] at hr'; subst hr'
        simp [outstanding, startAt, view, h]
      · simp [h] at hr'
    fresh := by intro id hid; simp [startAt, view] at hid
    bounced := by intro id x r hx; simp [startAt] at hx
    quiet := by intro id _; rfl
    bcount := by intro id x _; rfl }

theorem start_eq_startAt (pre : List (Nat × Nat)) (rc : Nat → List Rcpt) (nn : Nat → Bool) :
    start pre rc nn = startAt pre rc nn (fun _ => 0) := rfl

theorem reach_inv_from {fb : Bool} {q0 q : State} (h0 : Inv fb q0) (hr : Reach fb q0 q) : Inv fb q := by
  induction hr with
  | init => exact h0
  | step _ hc hs ih => exact inv_step ih hc hs

theorem reach_inv {fb : Bool} {pre : List (Nat × Nat)} {rc : Nat → List Rcpt} {nn : Nat → Bool} {att : Nat → Nat}
    (hpre : (pre.map (·.1)).Nodup) (hrc : ∀ id ∈ pre.map (·.1), (rc id).Nodup) {q : State}
    (hr : Reach fb (startAt pre rc nn att) q) : Inv fb q := by
  induction hr with
  | init => exact inv_startAt fb pre rc nn att hpre hrc
  | step _ hc hs ih => exact inv_step ih hc hs

/-- The scheduler part of a run of the composed machine is a (calm) run of the scheduler model. -/
theorem reach_sched {fb : Bool} {pre : List (Nat × Nat)} {rc : Nat → List Rcpt} {nn : Nat → Bool} {att : Nat → Nat} {q : State}
    (hr : Reach fb (startAt pre rc nn att) q) : C12.Reach (C12.start pre) q.s := by
  induction hr with
  | init => exact C12.Reach.init
  | step _ hc hs ih => exact C12.Reach.step ih (calm_sched hc) (step_sched hs)

end Slimta.QM
