import Proofs.Lemmas.QueueM
import Proofs.Lemmas.Ingress
/-!
The attempt counter of the composed queue machine: the k-th hand-off of a message to the relay carries `attempts = k`
(the number the backoff function and the relay see), under every interleaving.
-/
namespace Slimta.QM
open Slimta.Attempt Slimta.Sched

/-- The hand-offs of message `id`, newest first. -/
def hOf (q : State) (id : Nat) : List (Nat × List Rcpt × Nat) := q.handed.filter (·.1 == id)

/-- The message is between a hand-off and the `increment_attempts` that follows a deferred attempt. -/
def counting (s : Sched.State) (id : Nat) : Nat := if id ∈ s.inflight ∨ id ∈ s.retry then 1 else 0

/-- `base id`: the attempt counter the storage held for the message when this queue started (0 for everything enqueued later). -/
structure A (base : Nat → Nat) (q : State) : Prop where
  shape : ∀ id, (hOf q id).map (·.2.2) = (List.range (hOf q id).length).reverse.map (· + base id)
  count : ∀ id m, q.msgs id = some m → id ∉ q.s.rem → m.attempts + counting q.s id = (hOf q id).length + base id
  knownH : ∀ e ∈ q.handed, e.1 ∈ q.s.known
  baseZero : ∀ id, base id ≠ 0 → id ∈ sIds q.s ∨ id ∈ q.s.known

theorem hOf_cons_same (q : State) (id : Nat) (r : List Rcpt) (a : Nat) (rest : List (Nat × List Rcpt × Nat))
    (h : q.handed = (id, r, a) :: rest) : hOf q id = (id, r, a) :: rest.filter (·.1 == id) := by
  simp [hOf, h]

theorem range_succ_reverse (n : Nat) : (List.range (n + 1)).reverse = n :: (List.range n).reverse := by
  rw [List.range_succ, List.reverse_append]; rfl

/-- Steps that leave storage, hand-offs and the working lists alone. -/
theorem A_frame {base : Nat → Nat} {q : State} {s' : Sched.State} (hA : A base q) (hv : view s' = view q.s) (hk : ∀ x ∈ q.s.known, x ∈ s'.known) :
    A base { q with s := s' } := by
  have hrem : s'.rem = q.s.rem := congrArg View.rem hv
  have hinf : s'.inflight = q.s.inflight := congrArg View.inflight hv
  have hret : s'.retry = q.s.retry := congrArg View.retry hv
  have hids : sIds s' = sIds q.s := congrArg View.ids hv
  refine ⟨hA.shape, ?_, fun e he => hk _ (hA.knownH e he), ?_⟩
  · intro id m hm hr
    have := hA.count id m hm (by simpa [hrem] using hr)
    simpa [counting, hinf, hret, hOf] using this
  · intro id hb
    rcases hA.baseZero id hb with h | h
    · left; show id ∈ sIds s'; rw [hids]; exact h
    · exact Or.inr (hk _ h)

theorem A_startAt (pre : List (Nat × Nat)) (rc : Nat → List Rcpt) (nn : Nat → Bool) (att : Nat → Nat) :
    A (fun id => if id ∈ pre.map (·.1) then att id else 0) (startAt pre rc nn att) := by
  refine ⟨fun id => by simp [hOf, startAt], ?_, by simp [startAt], ?_⟩
  · intro id m hm _
    simp only [startAt] at hm
    split at hm
    · rename_i hc
      simp only [Option.some.injEq] at hm; subst hm
      have : id ∈ pre.map (·.1) := List.contains_iff_mem.mp hc
      simp [counting, hOf, startAt, this]
    · simp at hm
  · intro id hb
    left
    by_cases h : id ∈ pre.map (·.1)
    · simpa [startAt, sIds] using h
    · simp [h] at hb

theorem A_step {fb : Bool} {base : Nat → Nat} {q q' : State} {l : Label} (hI : Inv fb q) (hA : A base q) (hc : calm q l)
    (hs : step fb q l = some q') : A base q' := by
  have hI' : Inv fb q' := inv_step hI hc hs
  have hv := vok_of_inv hI.sched
  have hss0 := step_sched hs
  have hkm : ∀ x ∈ q.s.known, x ∈ q'.s.known := fun x hx => sched_known_mono hss0 hx
  have hbz : ∀ id, base id ≠ 0 → id ∈ sIds q'.s ∨ id ∈ q'.s.known := by
    intro id hb
    rcases hA.baseZero id hb with h1 | h1
    · rcases sched_ids hss0 h1 with h2 | ⟨_, hrem⟩
      · exact Or.inl h2
      · right
        apply sched_known_mono hss0
        apply hI.sched.known id
        right; right; left
        exact (hI.sched.act id).mpr (Or.inr (Or.inr (Or.inr hrem)))
    · exact Or.inr (sched_known_mono hss0 h1)
  unfold step at hs
  split at hs
  · simp at hs
  · rename_i s' hss
    cases l with
    | announce id ts =>
      simp only [toSched] at hss
      simp only [Option.some.injEq] at hs; subst hs
      exact A_frame hA (view_frame hss trivial) hkm
    | tick dt =>
      simp only [toSched] at hss
      simp only [Option.some.injEq] at hs; subst hs
      exact A_frame hA (view_frame hss trivial) hkm
    | sched =>
      simp only [toSched] at hss
      simp only [Option.some.injEq] at hs; subst hs
      exact A_frame hA (view_frame hss trivial) hkm
    | sleep =>
      simp only [toSched] at hss
      simp only [Option.some.injEq] at hs; subst hs
      exact A_frame hA (view_frame hss trivial) hkm
    | poke =>
      simp only [toSched] at hss
      simp only [Option.some.injEq] at hs; subst hs
      exact A_frame hA (view_frame hss trivial) hkm
    | flush =>
      simp only [toSched] at hss
      simp only [Option.some.injEq] at hs; subst hs
      exact A_frame hA (view_frame hss trivial) hkm
    | write id ts rcpts nn =>
      simp only [toSched] at hss
      obtain ⟨hid, hview⟩ := sched_write hss
      have hnk : id ∉ q.s.known := by
        simp only [Sched.step] at hss
        split at hss
        · simp at hss
        · rename_i hg
          simp only [Bool.or_eq_true, not_or] at hg
          simpa using hg.1.1
      simp only at hs
      split at hs
      · simp only [Option.some.injEq] at hs; subst hs
        have hrem : s'.rem = q.s.rem := congrArg View.rem hview
        have hinf : s'.inflight = q.s.inflight := congrArg View.inflight hview
        have hret : s'.retry = q.s.retry := congrArg View.retry hview
        refine ⟨hA.shape, ?_, fun e he => hkm _ (hA.knownH e he), hbz⟩
        intro j m hm hr
        by_cases hj : j = id
        · subst hj
          simp only [upd_same, Option.some.injEq] at hm; subst hm
          have hno : hOf q j = [] := by
            simp only [hOf, List.filter_eq_nil_iff]
            intro e he hej
            have : e.1 = j := by simpa using hej
            exact hnk (this ▸ hA.knownH e he)
          have h1 : j ∉ q.s.inflight := fun hx => hid (hv.stored j (Or.inl hx))
          have h2 : j ∉ q.s.retry := fun hx => hid (hv.stored j (Or.inr (Or.inl hx)))
          have hb0 : base j = 0 := by
            by_cases hb : base j = 0
            · exact hb
            · exfalso
              rcases hA.baseZero j hb with h | h
              · exact hid h
              · exact hnk h
          show 0 + counting s' j = (hOf q j).length + base j
          simp [counting, hinf, hret, h1, h2, hno, hb0]
        · replace hm : q.msgs j = some m := (upd_ne q.msgs _ hj).symm.trans hm
          have := hA.count j m hm (by simpa [hrem] using hr)
          simpa [counting, hinf, hret, hOf] using this
      · simp at hs
    | activate id =>
      simp only [toSched] at hss
      obtain ⟨hw, hview⟩ := sched_activate hss
      have hna : id ∉ q.s.active := (hI.sched.written id hw).1
      have hna' : q.s.active.contains id = false := by simpa using hna
      simp only [hna', Bool.false_eq_true, if_false] at hview hs
      obtain ⟨r, hr, hm⟩ := hI.led.fresh id hw
      simp only [hr, Option.some.injEq] at hs; subst hs
      have hrem : s'.rem = q.s.rem := congrArg View.rem hview
      have hinf : s'.inflight = id :: q.s.inflight := congrArg View.inflight hview
      have hret : s'.retry = q.s.retry := congrArg View.retry hview
      obtain ⟨w1, w2, w3, w4, _⟩ := hv.written id hw
      have w1' : id ∉ q.s.inflight := w1
      have w2' : id ∉ q.s.retry := w2
      have hcount0 := hA.count id ⟨r, 0⟩ hm w4
      simp only [counting, w1', w2', or_self, if_false, Nat.add_zero] at hcount0
      have hlen0 : (hOf q id).length = 0 := by omega
      have hb0 : base id = 0 := by omega
      have hnil : hOf q id = [] := List.eq_nil_of_length_eq_zero hlen0
      refine ⟨?_, ?_, ?_, hbz⟩
      · intro j
        by_cases hj : j = id
        · subst hj
          have : hOf { q with s := s', flight := upd q.flight j (some ⟨r, 0⟩), handed := (j, r, 0) :: q.handed } j = [(j, r, 0)] := by
            have := hnil
            simp only [hOf] at this ⊢
            simp [this]
          rw [this]; simp [hb0]
        · have : hOf { q with s := s', flight := upd q.flight id (some ⟨r, 0⟩), handed := (id, r, 0) :: q.handed } j = hOf q j := by
            simp [hOf, List.filter_cons, Ne.symm hj]
          rw [this]; exact hA.shape j
      · intro j m hmj hrj
        by_cases hj : j = id
        · subst hj
          rw [hm] at hmj
          simp only [Option.some.injEq] at hmj; subst hmj
          have : hOf { q with s := s', flight := upd q.flight j (some ⟨r, 0⟩), handed := (j, r, 0) :: q.handed } j = [(j, r, 0)] := by
            have := hnil
            simp only [hOf] at this ⊢
            simp [this]
          rw [this]
          simp [counting, hinf, hb0]
        · have hh : hOf { q with s := s', flight := upd q.flight id (some ⟨r, 0⟩), handed := (id, r, 0) :: q.handed } j = hOf q j := by
            simp [hOf, List.filter_cons, Ne.symm hj]
          rw [hh]
          have := hA.count j m hmj (by simpa [hrem] using hrj)
          simpa [counting, hinf, hret, hj] using this
      · intro e he
        simp only [List.mem_cons] at he
        rcases he with rfl | he
        · exact hkm _ (hI.sched.known id (Or.inr (Or.inr (Or.inr hw))))
        · exact hkm _ (hA.knownH e he)
    | dequeue id c =>
      simp only [toSched] at hss
      have hview := sched_dequeue hss
      simp only at hs
      split at hs
      · rename_i hcond
        simp only [hcond, if_true] at hview
        simp only [Option.some.injEq] at hs; subst hs
        exact A_frame hA hview hkm
      · rename_i hcond
        simp only [hcond, Bool.false_eq_true, if_false] at hview
        split at hs
        · rename_i m hm
          simp only [Option.some.injEq] at hs; subst hs
          have hrem : s'.rem = q.s.rem := congrArg View.rem hview
          have hinf : s'.inflight = id :: q.s.inflight := congrArg View.inflight hview
          have hret : s'.retry = q.s.retry := congrArg View.retry hview
          have hna : id ∉ q.s.active := by
            simp only [Bool.or_eq_true, not_or] at hcond
            simpa using hcond.2
          have h1 : id ∉ q.s.inflight := fun hx => hna ((hI.sched.act id).mpr (Or.inl hx))
          have h2 : id ∉ q.s.retry := fun hx => hna ((hI.sched.act id).mpr (Or.inr (Or.inl hx)))
          have h4 : id ∉ q.s.rem := fun hx => hna ((hI.sched.act id).mpr (Or.inr (Or.inr (Or.inr hx))))
          have hcnt : m.attempts = (hOf q id).length + base id := by
            have := hA.count id m hm h4
            simpa [counting, h1, h2] using this
          have hnew : hOf { q with s := s', flight := upd q.flight id (some m), handed := (id, m.rcpts, m.attempts) :: q.handed } id
              = (id, m.rcpts, m.attempts) :: hOf q id := by simp [hOf]
          refine ⟨?_, ?_, ?_, hbz⟩
          · intro j
            by_cases hj : j = id
            · subst hj
              rw [hnew]
              simp only [List.map_cons, List.length_cons, range_succ_reverse, hA.shape j, hcnt]
            · have : hOf { q with s := s', flight := upd q.flight id (some m), handed := (id, m.rcpts, m.attempts) :: q.handed } j = hOf q j := by
                simp [hOf, List.filter_cons, Ne.symm hj]
              rw [this]; exact hA.shape j
          · intro j mj hmj hrj
            by_cases hj : j = id
            · subst hj
              rw [hm] at hmj
              simp only [Option.some.injEq] at hmj; subst hmj
              rw [hnew]
              simp only [List.length_cons, counting, hinf, List.mem_cons, true_or, if_true]
              omega
            · have hh : hOf { q with s := s', flight := upd q.flight id (some m), handed := (id, m.rcpts, m.attempts) :: q.handed } j = hOf q j := by
                simp [hOf, List.filter_cons, Ne.symm hj]
              rw [hh]
              have := hA.count j mj hmj (by simpa [hrem] using hrj)
              simpa [counting, hinf, hret, hj] using this
          · intro e he
            simp only [List.mem_cons] at he
            rcases he with rfl | he
            · have hin : id ∈ s'.inflight := by rw [hinf]; simp
              exact hI'.sched.known id (Or.inr (Or.inr (Or.inl ((hI'.sched.act id).mpr (Or.inl hin)))))
            · exact hkm _ (hA.knownH e he)
        · simp at hs
    | done id o =>
      simp only at hs
      split at hs
      · simp at hs
      · rename_i p hp
        simp only [verdict, Option.map_eq_some_iff] at hp
        obtain ⟨m, hf, hpe⟩ := hp
        simp only [toSched, verdict, hf, Option.map_some] at hss
        obtain ⟨hin, hview⟩ := sched_done hss
        simp only [Option.some.injEq] at hs; subst hs
        obtain ⟨e1, e2, e3⟩ := (hv.excl id).1 hin
        refine ⟨hA.shape, ?_, fun e he => hkm _ (hA.knownH e he), hbz⟩
        intro j mj hmj hrj
        show mj.attempts + counting s' j = (hOf q j).length + base j
        cases hok : (phase1 (fb && q.nonNull id) m o).pend.isNone with
        | true =>
          simp only [hok, if_true] at hview
          have hrem : s'.rem = id :: q.s.rem := congrArg View.rem hview
          have hinf : s'.inflight = without q.s.inflight id := congrArg View.inflight hview
          have hret : s'.retry = q.s.retry := congrArg View.retry hview
          have hj : j ≠ id := by
            intro e; subst e
            exact hrj (by show j ∈ s'.rem; rw [hrem]; simp)
          have hr0 : j ∉ q.s.rem := fun hx => hrj (by show j ∈ s'.rem; rw [hrem]; simp [hx])
          have := hA.count j mj hmj hr0
          simpa [counting, hinf, hret, mem_without, hj] using this
        | false =>
          simp only [hok, Bool.false_eq_true, if_false] at hview
          have hrem : s'.rem = q.s.rem := congrArg View.rem hview
          have hinf : s'.inflight = without q.s.inflight id := congrArg View.inflight hview
          have hret : s'.retry = id :: q.s.retry := congrArg View.retry hview
          have hr0 : j ∉ q.s.rem := fun hx => hrj (by show j ∈ s'.rem; rw [hrem]; exact hx)
          have := hA.count j mj hmj hr0
          by_cases hj : j = id
          · subst hj
            simpa [counting, hinf, hret, mem_without, hin] using this
          · simpa [counting, hinf, hret, mem_without, hj] using this
    | retry id w =>
      simp only [toSched] at hss
      simp only at hs
      split at hs
      · rename_i pd m hpd hm
        cases w with
        | none =>
          obtain ⟨hin, hview⟩ := sched_retry_none hss
          simp only [Option.some.injEq] at hs; subst hs
          have hrem : s'.rem = id :: q.s.rem := congrArg View.rem hview
          have hinf : s'.inflight = q.s.inflight := congrArg View.inflight hview
          have hret : s'.retry = without q.s.retry id := congrArg View.retry hview
          refine ⟨hA.shape, ?_, fun e he => hkm _ (hA.knownH e he), hbz⟩
          intro j mj hmj hrj
          have hj : j ≠ id := by
            intro e; subst e
            exact hrj (by show j ∈ s'.rem; rw [hrem]; simp)
          have hr0 : j ∉ q.s.rem := fun hx => hrj (by show j ∈ s'.rem; rw [hrem]; simp [hx])
          replace hmj : q.msgs j = some mj := (upd_ne q.msgs _ hj).symm.trans hmj
          have := hA.count j mj hmj hr0
          show mj.attempts + counting s' j = (hOf q j).length + base j
          simpa [counting, hinf, hret, mem_without, hj] using this
        | some w =>
          obtain ⟨hin, hview⟩ := sched_retry_some hss
          simp only [Option.some.injEq] at hs; subst hs
          have hrem : s'.rem = q.s.rem := congrArg View.rem hview
          have hinf : s'.inflight = q.s.inflight := congrArg View.inflight hview
          have hret : s'.retry = without q.s.retry id := congrArg View.retry hview
          have hni : id ∉ q.s.inflight := fun hx => ((hv.excl id).1 hx).1 hin
          refine ⟨hA.shape, ?_, fun e he => hkm _ (hA.knownH e he), hbz⟩
          intro j mj hmj hrj
          have hr0 : j ∉ q.s.rem := fun hx => hrj (by show j ∈ s'.rem; rw [hrem]; exact hx)
          show mj.attempts + counting s' j = (hOf q j).length + base j
          by_cases hj : j = id
          · subst hj
            simp only [upd_same, Option.some.injEq] at hmj; subst hmj
            have := hA.count j m hm hr0
            simp only [counting, hin, or_true, if_true] at this
            simp [counting, hinf, hret, mem_without, hni]
            omega
          · replace hmj : q.msgs j = some mj := (upd_ne q.msgs _ hj).symm.trans hmj
            have := hA.count j mj hmj hr0
            simpa [counting, hinf, hret, mem_without, hj] using this
      · simp at hs
    | requeue id =>
      simp only [toSched] at hss
      simp only at hs
      split at hs
      · rename_i pd m hpd hm
        obtain ⟨hin, hview⟩ := sched_requeue hss
        simp only [Option.some.injEq] at hs; subst hs
        have hrem : s'.rem = q.s.rem := congrArg View.rem hview
        have hinf : s'.inflight = q.s.inflight := congrArg View.inflight hview
        have hret : s'.retry = q.s.retry := congrArg View.retry hview
        refine ⟨hA.shape, ?_, fun e he => hkm _ (hA.knownH e he), hbz⟩
        intro j mj hmj hrj
        have hr0 : j ∉ q.s.rem := fun hx => hrj (by show j ∈ s'.rem; rw [hrem]; exact hx)
        show mj.attempts + counting s' j = (hOf q j).length + base j
        by_cases hj : j = id
        · subst hj
          simp only [upd_same, Option.some.injEq] at hmj; subst hmj
          have := hA.count j m hm hr0
          simpa [counting, hinf, hret] using this
        · replace hmj : q.msgs j = some mj := (upd_ne q.msgs _ hj).symm.trans hmj
          have := hA.count j mj hmj hr0
          simpa [counting, hinf, hret] using this
      · simp at hs
    | remove id =>
      simp only [toSched] at hss
      obtain ⟨hin, hview⟩ := sched_remove hss
      simp only [Option.some.injEq] at hs; subst hs
      have hrem : s'.rem = without q.s.rem id := congrArg View.rem hview
      have hinf : s'.inflight = q.s.inflight := congrArg View.inflight hview
      have hret : s'.retry = q.s.retry := congrArg View.retry hview
      refine ⟨hA.shape, ?_, fun e he => hkm _ (hA.knownH e he), hbz⟩
      intro j mj hmj hrj
      show mj.attempts + counting s' j = (hOf q j).length + base j
      by_cases hj : j = id
      · subst hj; simp at hmj
      · replace hmj : q.msgs j = some mj := (upd_ne q.msgs _ hj).symm.trans hmj
        have hr0 : j ∉ q.s.rem := fun hx => hrj (by show j ∈ s'.rem; rw [hrem]; exact mem_without.mpr ⟨hx, hj⟩)
        have := hA.count j mj hmj hr0
        simpa [counting, hinf, hret] using this

theorem reach_A_from {fb : Bool} {base : Nat → Nat} {q0 q : State} (h0 : Inv fb q0) (hA0 : A base q0)
    (hr : Reach fb q0 q) : A base q := by
  induction hr with
  | init => exact hA0
  | step hprev hc hs ih => exact A_step (reach_inv_from h0 hprev) ih hc hs

theorem reach_A {fb : Bool} {pre : List (Nat × Nat)} {rc : Nat → List Rcpt} {nn : Nat → Bool}
    (hpre : (pre.map (·.1)).Nodup) (hrc : ∀ id ∈ pre.map (·.1), (rc id).Nodup) {q : State}
    (hr : Reach fb (start pre rc nn) q) : A (fun _ => 0) q := by
  have h0 := A_startAt pre rc nn (fun _ => 0)
  simp only [ite_self] at h0
  exact reach_A_from (inv_start fb pre rc nn hpre hrc) h0 hr

/-! ### a backoff function: the next attempt is made only if it allowed it -/

/-- `_retry_later` asks `backoff(envelope, attempts)` with the incremented counter: histories in which every `retry` label carries
    that answer. -/
def obeys (bo : Nat → Option Nat) (q : State) : Label → Prop
  | .retry id w => ∀ m, q.msgs id = some m → w = bo (m.attempts + 1)
  | _ => True

inductive ReachB (fb : Bool) (bo : Nat → Option Nat) (q0 : State) : State → Prop
  | init : ReachB fb bo q0 q0
  | step {q q' : State} {l : Label} : ReachB fb bo q0 q → calm q l → obeys bo q l → step fb q l = some q' → ReachB fb bo q0 q'

theorem ReachB.reach {fb : Bool} {bo : Nat → Option Nat} {q0 q : State} (h : ReachB fb bo q0 q) : Reach fb q0 q := by
  induction h with
  | init => exact Reach.init
  | step _ hc _ hs ih => exact Reach.step ih hc hs

structure B (bo : Nat → Option Nat) (base : Nat → Nat) (q : State) : Prop where
  stored : ∀ id m, q.msgs id = some m → id ∉ q.s.rem → m.attempts = base id ∨ (bo m.attempts).isSome
  handed : ∀ e ∈ q.handed, e.2.2 = base e.1 ∨ (bo e.2.2).isSome

theorem B_step {fb : Bool} {bo : Nat → Option Nat} {base : Nat → Nat} {q q' : State} {l : Label} (hI : Inv fb q) (hA : A base q)
    (hB : B bo base q) (ho : obeys bo q l) (hs : step fb q l = some q') : B bo base q' := by
  have hss0 := step_sched hs
  unfold step at hs
  split at hs
  · simp at hs
  · rename_i s' hss
    cases l with
    | announce id ts =>
      simp only [toSched] at hss
      simp only [Option.some.injEq] at hs; subst hs
      have hrem : s'.rem = q.s.rem := congrArg View.rem (view_frame hss trivial)
      exact ⟨fun j m hm hr => hB.stored j m hm (by simpa [hrem] using hr), hB.handed⟩
    | tick dt =>
      simp only [toSched] at hss
      simp only [Option.some.injEq] at hs; subst hs
      have hrem : s'.rem = q.s.rem := congrArg View.rem (view_frame hss trivial)
      exact ⟨fun j m hm hr => hB.stored j m hm (by simpa [hrem] using hr), hB.handed⟩
    | sched =>
      simp only [toSched] at hss
      simp only [Option.some.injEq] at hs; subst hs
      have hrem : s'.rem = q.s.rem := congrArg View.rem (view_frame hss trivial)
      exact ⟨fun j m hm hr => hB.stored j m hm (by simpa [hrem] using hr), hB.handed⟩
    | sleep =>
      simp only [toSched] at hss
      simp only [Option.some.injEq] at hs; subst hs
      have hrem : s'.rem = q.s.rem := congrArg View.rem (view_frame hss trivial)
      exact ⟨fun j m hm hr => hB.stored j m hm (by simpa [hrem] using hr), hB.handed⟩
    | poke =>
      simp only [toSched] at hss
      simp only [Option.some.injEq] at hs; subst hs
      have hrem : s'.rem = q.s.rem := congrArg View.rem (view_frame hss trivial)
      exact ⟨fun j m hm hr => hB.stored j m hm (by simpa [hrem] using hr), hB.handed⟩
    | flush =>
      simp only [toSched] at hss
      simp only [Option.some.injEq] at hs; subst hs
      have hrem : s'.rem = q.s.rem := congrArg View.rem (view_frame hss trivial)
      exact ⟨fun j m hm hr => hB.stored j m hm (by simpa [hrem] using hr), hB.handed⟩
    | write id ts rcpts nn =>
      simp only [toSched] at hss
      obtain ⟨hid, hview⟩ := sched_write hss
      have hnk : id ∉ q.s.known := by
        simp only [Sched.step] at hss
        split at hss
        · simp at hss
        · rename_i hg
          simp only [Bool.or_eq_true, not_or] at hg
          simpa using hg.1.1
      simp only at hs
      split at hs
      · simp only [Option.some.injEq] at hs; subst hs
        have hrem : s'.rem = q.s.rem := congrArg View.rem hview
        refine ⟨?_, hB.handed⟩
        intro j m hm hr
        by_cases hj : j = id
        · subst hj
          have : some (⟨rcpts, 0⟩ : Msg) = some m := (upd_same q.msgs j _).symm.trans hm
          simp only [Option.some.injEq] at this; subst this
          left
          show 0 = base j
          by_cases hb : base j = 0
          · exact hb.symm
          · exfalso
            rcases hA.baseZero j hb with h | h
            · exact hid h
            · exact hnk h
        · exact hB.stored j m ((upd_ne q.msgs _ hj).symm.trans hm) (by simpa [hrem] using hr)
      · simp at hs
    | activate id =>
      simp only [toSched] at hss
      obtain ⟨hw, hview⟩ := sched_activate hss
      have hna : id ∉ q.s.active := (hI.sched.written id hw).1
      have hna' : q.s.active.contains id = false := by simpa using hna
      simp only [hna', Bool.false_eq_true, if_false] at hview hs
      obtain ⟨r, hr, hm⟩ := hI.led.fresh id hw
      simp only [hr, Option.some.injEq] at hs; subst hs
      have hrem : s'.rem = q.s.rem := congrArg View.rem hview
      have hv := vok_of_inv hI.sched
      obtain ⟨_, _, _, w4, _⟩ := hv.written id hw
      refine ⟨fun j m hmj hrj => hB.stored j m hmj (by simpa [hrem] using hrj), ?_⟩
      intro e he
      simp only [List.mem_cons] at he
      rcases he with rfl | he
      · exact hB.stored id ⟨r, 0⟩ hm w4
      · exact hB.handed e he
    | dequeue id c =>
      simp only [toSched] at hss
      have hview := sched_dequeue hss
      simp only at hs
      split at hs
      · rename_i hcond
        simp only [hcond, if_true] at hview
        simp only [Option.some.injEq] at hs; subst hs
        have hrem : s'.rem = q.s.rem := congrArg View.rem hview
        exact ⟨fun j m hm hr => hB.stored j m hm (by simpa [hrem] using hr), hB.handed⟩
      · rename_i hcond
        simp only [hcond, Bool.false_eq_true, if_false] at hview
        split at hs
        · rename_i m hm
          simp only [Option.some.injEq] at hs; subst hs
          have hrem : s'.rem = q.s.rem := congrArg View.rem hview
          have hna : id ∉ q.s.active := by
            simp only [Bool.or_eq_true, not_or] at hcond
            simpa using hcond.2
          have h4 : id ∉ q.s.rem := fun hx => hna ((hI.sched.act id).mpr (Or.inr (Or.inr (Or.inr hx))))
          refine ⟨fun j mj hmj hrj => hB.stored j mj hmj (by simpa [hrem] using hrj), ?_⟩
          intro e he
          simp only [List.mem_cons] at he
          rcases he with rfl | he
          · exact hB.stored id m hm h4
          · exact hB.handed e he
        · simp at hs
    | done id o =>
      simp only at hs
      split at hs
      · simp at hs
      · rename_i p hp
        simp only [verdict, Option.map_eq_some_iff] at hp
        obtain ⟨m, hf, hpe⟩ := hp
        simp only [toSched, verdict, hf, Option.map_some] at hss
        obtain ⟨hin, hview⟩ := sched_done hss
        simp only [Option.some.injEq] at hs; subst hs
        refine ⟨?_, hB.handed⟩
        intro j mj hmj hrj
        apply hB.stored j mj hmj
        intro hx
        apply hrj
        show j ∈ s'.rem
        have := congrArg View.rem hview
        simp only [view] at this
        rw [this]
        split <;> simp [hx]
    | retry id w =>
      simp only [toSched] at hss
      simp only at hs
      split at hs
      · rename_i pd m hpd hm
        cases w with
        | none =>
          obtain ⟨hin, hview⟩ := sched_retry_none hss
          simp only [Option.some.injEq] at hs; subst hs
          have hrem : s'.rem = id :: q.s.rem := congrArg View.rem hview
          refine ⟨?_, hB.handed⟩
          intro j mj hmj hrj
          have hj : j ≠ id := by
            intro e; subst e
            exact hrj (by show j ∈ s'.rem; rw [hrem]; simp)
          exact hB.stored j mj ((upd_ne q.msgs _ hj).symm.trans hmj) (fun hx => hrj (by show j ∈ s'.rem; rw [hrem]; simp [hx]))
        | some w =>
          obtain ⟨hin, hview⟩ := sched_retry_some hss
          simp only [Option.some.injEq] at hs; subst hs
          have hrem : s'.rem = q.s.rem := congrArg View.rem hview
          refine ⟨?_, hB.handed⟩
          intro j mj hmj hrj
          by_cases hj : j = id
          · subst hj
            have : some ({ m with attempts := m.attempts + 1 } : Msg) = some mj := (upd_same q.msgs j _).symm.trans hmj
            simp only [Option.some.injEq] at this; subst this
            right
            have := ho m hm
            show (bo (m.attempts + 1)).isSome
            rw [← this]; rfl
          · exact hB.stored j mj ((upd_ne q.msgs _ hj).symm.trans hmj) (by simpa [hrem] using hrj)
      · simp at hs
    | requeue id =>
      simp only [toSched] at hss
      simp only at hs
      split at hs
      · rename_i pd m hpd hm
        obtain ⟨hin, hview⟩ := sched_requeue hss
        simp only [Option.some.injEq] at hs; subst hs
        have hrem : s'.rem = q.s.rem := congrArg View.rem hview
        refine ⟨?_, hB.handed⟩
        intro j mj hmj hrj
        by_cases hj : j = id
        · subst hj
          have : some ({ m with rcpts := pd.newRcpts m.rcpts } : Msg) = some mj := (upd_same q.msgs j _).symm.trans hmj
          simp only [Option.some.injEq] at this; subst this
          exact hB.stored j m hm (by simpa [hrem] using hrj)
        · exact hB.stored j mj ((upd_ne q.msgs _ hj).symm.trans hmj) (by simpa [hrem] using hrj)
      · simp at hs
    | remove id =>
      simp only [toSched] at hss
      obtain ⟨hin, hview⟩ := sched_remove hss
      simp only [Option.some.injEq] at hs; subst hs
      have hrem : s'.rem = without q.s.rem id := congrArg View.rem hview
      refine ⟨?_, hB.handed⟩
      intro j mj hmj hrj
      by_cases hj : j = id
      · subst hj
        have : (none : Option Msg) = some mj := (upd_same q.msgs j _).symm.trans hmj
        simp at this
      · exact hB.stored j mj ((upd_ne q.msgs _ hj).symm.trans hmj)
          (fun hx => hrj (by show j ∈ s'.rem; rw [hrem]; exact mem_without.mpr ⟨hx, hj⟩))

theorem reach_B_from {fb : Bool} {bo : Nat → Option Nat} {base : Nat → Nat} {q0 q : State} (h0 : Inv fb q0) (hA0 : A base q0)
    (hB0 : B bo base q0) (hr : ReachB fb bo q0 q) : B bo base q := by
  induction hr with
  | init => exact hB0
  | step hprev hc ho hs ih => exact B_step (reach_inv_from h0 hprev.reach) (reach_A_from h0 hA0 hprev.reach) ih ho hs

theorem B_startAt (bo : Nat → Option Nat) (pre : List (Nat × Nat)) (rc : Nat → List Rcpt) (nn : Nat → Bool) (att : Nat → Nat) :
    B bo (fun id => if id ∈ pre.map (·.1) then att id else 0) (startAt pre rc nn att) := by
  refine ⟨?_, by simp [startAt]⟩
  intro id m hm _
  simp only [startAt] at hm
  split at hm
  · rename_i hc
    simp only [Option.some.injEq] at hm; subst hm
    have : id ∈ pre.map (·.1) := List.contains_iff_mem.mp hc
    left; simp [this]
  · simp at hm

theorem reach_B {fb : Bool} {bo : Nat → Option Nat} {pre : List (Nat × Nat)} {rc : Nat → List Rcpt} {nn : Nat → Bool}
    (hpre : (pre.map (·.1)).Nodup) (hrc : ∀ id ∈ pre.map (·.1), (rc id).Nodup) {q : State}
    (hr : ReachB fb bo (start pre rc nn) q) : B bo (fun _ => 0) q := by
  have hA0 := A_startAt pre rc nn (fun _ => 0)
  have hB0 := B_startAt bo pre rc nn (fun _ => 0)
  simp only [ite_self] at hA0 hB0
  exact reach_B_from (inv_start fb pre rc nn hpre hrc) hA0 hB0 hr

end Slimta.QM
