import Model.Proxy
namespace Slimta.Proxy
open Slimta

/-- `recv` hands out a non-empty prefix of the stream, at most `n` bytes. -/
theorem recv_spec {s s' : Sock} {n : Nat} {got : Bytes} (hn : 0 < n) (h : recv s n = some (got, s')) :
    0 < got.length ∧ got.length ≤ n ∧ s.stream = got ++ s'.stream := recv_length hn h

theorem recv_none {s : Sock} {n : Nat} (h : recv s n = none) : s.stream = [] := by
  unfold recv at h
  split at h
  · rename_i he; simpa using he
  · simp at h

theorem recv_some_of_ne {s : Sock} {n : Nat} (h : s.stream ≠ []) : ∃ got s', recv s n = some (got, s') := by
  unfold recv
  simp [h]

/-- Everything `readN` returns: the bytes are taken from the front of the stream, in order, and
    exactly enough of them to reach `target`. -/
theorem readN_some {target : Nat} {read : Bytes} {s : Sock} {r : Bytes} {s' : Sock}
    (h : readN target read s = some (r, s')) :
    ∃ got, r = read ++ got ∧ s.stream = got ++ s'.stream ∧ got.length = target - read.length := by
  fun_induction readN target read s with
  | case1 read s hlt hr => simp at h
  | case2 read s hlt got s1 hr _ ih =>
    obtain ⟨g2, rfl, hs, hl⟩ := ih h
    obtain ⟨hp, hle, hst⟩ := recv_spec (by omega) hr
    refine ⟨got ++ g2, by simp, by simp [hst, hs], ?_⟩
    simp at hl ⊢; omega
  | case3 read s hge =>
    simp at h
    obtain ⟨rfl, rfl⟩ := h
    exact ⟨[], by simp, by simp, by simp; omega⟩

/-- `readN` fails only by running into EOF, having consumed the whole (too short) stream. -/
theorem readN_none {target : Nat} {read : Bytes} {s : Sock} (h : readN target read s = none) :
    s.stream.length < target - read.length := by
  fun_induction readN target read s with
  | case1 read s hlt hr =>
    have := recv_none hr
    simp [this]; omega
  | case2 read s hlt got s1 hr _ ih =>
    have := ih h
    obtain ⟨hp, hle, hst⟩ := recv_spec (by omega) hr
    simp [hst] at this ⊢; omega
  | case3 read s hge => simp at h

theorem readN_enough {target : Nat} {read : Bytes} {s : Sock}
    (h : target - read.length ≤ s.stream.length) :
    ∃ sh, readN target read s = some (read ++ s.stream.take (target - read.length),
      ⟨s.stream.drop (target - read.length), sh⟩) := by
  cases hr : readN target read s with
  | none => have := readN_none hr; omega
  | some p =>
    obtain ⟨r, s'⟩ := p
    obtain ⟨got, rfl, hs, hl⟩ := readN_some hr
    refine ⟨s'.short, ?_⟩
    have h1 : s.stream.take (target - read.length) = got := by
      rw [hs, ← hl]; simp
    have h2 : s.stream.drop (target - read.length) = s'.stream := by
      rw [hs, ← hl]; simp
    rw [h1, h2]

/-! ### reading a v1 line -/

theorem endsCRLF_snoc_lf {x : Bytes} (h : endsCRLF (x ++ [10]) = true) : endsCR x = true := by
  simp only [endsCRLF, endsWith, List.isSuffixOf_iff_suffix] at h
  obtain ⟨t, ht⟩ := h
  have : t ++ [13] ++ [10] = x ++ [10] := by simpa [CRLF] using ht
  have := List.append_inj_left' this rfl
  simp [endsCR, ← this]

theorem endsCRLF_last {l : Bytes} (h : endsCRLF l = true) : ∃ t, l = t ++ [13, 10] := by
  simp only [endsCRLF, endsWith, List.isSuffixOf_iff_suffix] at h
  obtain ⟨t, ht⟩ := h
  exact ⟨t, by simpa [CRLF] using ht.symm⟩

/-- The line `l` is read exactly when CRLF first appears (at a position the loop inspects) at its
    very end: nothing after `l` is touched, whatever the short-read pattern. -/
theorem readLineLoop_exact (l payload : Bytes) (hend : endsCRLF l = true) (hlen : l.length ≤ 107)
    (read : Bytes) (s : Sock) (rem : Bytes) (hl : l = read ++ rem) (hrem : rem ≠ [])
    (hs : s.stream = rem ++ payload)
    (hno : ∀ pre suf, l = pre ++ suf → read.length < pre.length → suf ≠ [] → endsCRLF pre = false) :
    ∃ sh, readLineLoop read s = some (l, ⟨payload, sh⟩) := by
  induction hn : rem.length using Nat.strongRecOn generalizing read s rem with
  | _ n ih =>
    subst hn
    have hrl : 0 < rem.length := by cases rem <;> simp_all
    have hlt : read.length < 107 := by
      have : l.length = read.length + rem.length := by rw [hl]; simp
      omega
    rw [readLineLoop]
    simp only [hlt, dif_pos]
    have hsne : s.stream ≠ [] := by rw [hs]; simp [hrem]
    obtain ⟨got, s', hr⟩ := recv_some_of_ne (n := min (107 - read.length) (if endsCR read = true then 1 else 2)) hsne
    have htry : 0 < min (107 - read.length) (if endsCR read = true then 1 else 2) := by
      split <;> omega
    obtain ⟨hg0, hgle, hst⟩ := recv_spec htry hr
    -- the read never crosses the end of the line
    have hgrem : got.length ≤ rem.length := by
      by_cases h1 : rem.length = 1
      · -- then the missing byte is the final LF and `read` ends in CR: only one byte is requested
        obtain ⟨t, ht⟩ := endsCRLF_last hend
        have hcr : endsCR read = true := by
          obtain ⟨x, rfl⟩ : ∃ x, rem = [x] := by
            cases rem with
            | nil => simp at hrl
            | cons x r => cases r with
              | nil => exact ⟨x, rfl⟩
              | cons _ _ => simp at h1
          have e : read ++ [x] = (t ++ [13]) ++ [10] := by rw [← hl, ht]; simp
          have hx := List.append_inj_right' e rfl
          have hread := List.append_inj_left' e rfl
          simp [endsCR, hread]
        simp [hcr] at hgle
        omega
      · have : (if endsCR read = true then 1 else 2) ≤ 2 := by split <;> omega
        omega
    have hgot : got = rem.take got.length := by
      have := congrArg (List.take got.length) hst
      rw [hs, List.take_append_of_le_length hgrem] at this
      simpa using this.symm
    have hs' : s'.stream = rem.drop got.length ++ payload := by
      have := congrArg (List.drop got.length) hst
      rw [hs, List.drop_append_of_le_length hgrem] at this
      simpa using this.symm
    have hrem' : rem = got ++ rem.drop got.length := by
      have := (List.take_append_drop got.length rem).symm
      rw [← hgot] at this
      exact this
    rw [hr]
    simp only
    by_cases hdone : rem.drop got.length = []
    · -- the whole line has been read
      have hfull : read ++ got = l := by rw [hl]; rw [hrem', hdone]; simp
      rw [hfull]
      simp only [hend, if_true]
      refine ⟨s'.short, ?_⟩
      have hsp : s'.stream = payload := by rw [hs', hdone]; simp
      cases s' with
      | mk st sh => simp at hsp; subst hsp; rfl
    · have hnot : endsCRLF (read ++ got) = false :=
        hno (read ++ got) (rem.drop got.length) (by rw [hl]; rw [List.append_assoc, ← hrem']) (by simp; omega) hdone
      simp only [hnot, Bool.false_eq_true, if_false]
      have hlen' : (rem.drop got.length).length < rem.length := by simp; omega
      exact ih _ hlen' (read ++ got) s' (rem.drop got.length)
        (by rw [hl]; rw [List.append_assoc, ← hrem']) hdone hs'
        (fun pre suf hps hp hsuf => hno pre suf hps (by simp at hp; omega) hsuf) rfl

/-- Consumption bound of the v1 reader: the line it returns never exceeds 107 bytes. -/
theorem readLineLoop_bound (read : Bytes) (s : Sock) (r : Bytes) (s' : Sock) (hr0 : read.length ≤ 107)
    (h : readLineLoop read s = some (r, s')) :
    r.length ≤ 107 ∧ ∃ got, r = read ++ got ∧ s.stream = got ++ s'.stream := by
  fun_induction readLineLoop read s with
  | case1 read s hlt tryRead hr => simp at h
  | case2 read s hlt tryRead got s1 hr _ read' hcrlf =>
    simp at h
    obtain ⟨rfl, rfl⟩ := h
    have htry : 0 < tryRead := by simp [tryRead]; split <;> omega
    obtain ⟨hg0, hgle, hst⟩ := recv_spec htry hr
    refine ⟨?_, got, rfl, hst⟩
    simp [read', tryRead] at hgle ⊢
    omega
  | case3 read s hlt tryRead got s1 hr _ read' hcrlf ih =>
    have htry : 0 < tryRead := by simp [tryRead]; split <;> omega
    obtain ⟨hg0, hgle, hst⟩ := recv_spec htry hr
    have hl' : read'.length ≤ 107 := by simp [read', tryRead] at hgle ⊢; omega
    obtain ⟨hb, g2, rfl, hs2⟩ := ih hl' h
    exact ⟨hb, got ++ g2, by simp [read'], by rw [hst, hs2]; simp⟩
  | case4 read s hge =>
    simp at h
    obtain ⟨rfl, rfl⟩ := h
    exact ⟨hr0, [], by simp, by simp⟩

/-- The v1 reader fails only by meeting EOF before 107 bytes: the whole stream was shorter. -/
theorem readLineLoop_none (read : Bytes) (s : Sock) (h : readLineLoop read s = none) :
    read.length + s.stream.length < 107 := by
  fun_induction readLineLoop read s with
  | case1 read s hlt tryRead hr =>
    have := recv_none hr
    simp [this]; omega
  | case2 read s hlt tryRead got s1 hr _ read' hcrlf => simp at h
  | case3 read s hlt tryRead got s1 hr _ read' hcrlf ih =>
    have htry : 0 < tryRead := by simp [tryRead]; split <;> omega
    obtain ⟨hg0, hgle, hst⟩ := recv_spec htry hr
    have := ih h
    simp [read', hst] at this ⊢
    omega
  | case4 read s hge => simp at h

/-! ### splitting the v1 line into fields -/

theorem splitSP_ne_nil (b : Bytes) : splitSP b ≠ [] := by
  induction b with
  | nil => simp [splitSP]
  | cons x r ih =>
    simp only [splitSP]
    split
    · simp
    · split <;> simp

theorem splitSP_noSP (a : Bytes) (h : ∀ b ∈ a, b ≠ 32) : splitSP a = [a] := by
  induction a with
  | nil => rfl
  | cons x r ih =>
    have hx : x ≠ 32 := h x (by simp)
    simp only [splitSP]
    simp [hx, ih (fun b hb => h b (by simp [hb]))]

theorem splitSP_field (a rest : Bytes) (h : ∀ b ∈ a, b ≠ 32) :
    splitSP (a ++ 32 :: rest) = a :: splitSP rest := by
  induction a with
  | nil => simp [splitSP]
  | cons x r ih =>
    have hx : x ≠ 32 := h x (by simp)
    simp only [List.cons_append, splitSP]
    simp [hx, ih (fun b hb => h b (by simp [hb]))]

/-- `b' '.join(parts)` -/
def joinSP : List Bytes → Bytes
  | [] => []
  | [p] => p
  | p :: ps => p ++ 32 :: joinSP ps

theorem joinSP_splitSP (b : Bytes) : joinSP (splitSP b) = b := by
  induction b with
  | nil => rfl
  | cons x r ih =>
    simp only [splitSP]
    split
    · rename_i hx
      simp at hx; subst hx
      have := splitSP_ne_nil r
      cases hs : splitSP r with
      | nil => exact absurd hs this
      | cons p ps => rw [hs] at ih; simp [joinSP, ih]
    · split
      · rename_i hs; exact absurd hs (splitSP_ne_nil r)
      · rename_i p ps hs
        rw [hs] at ih
        cases ps with
        | nil => simp [joinSP] at ih ⊢; exact ih
        | cons q qs => simp [joinSP] at ih ⊢; exact ih

theorem parsePort_some {p : Bytes} {v : Nat} (h : parsePort p = some v) :
    p ≠ [] ∧ p.all isDigit = true ∧ v = decVal p ∧ v ≤ 65535 := by
  unfold parsePort at h
  split at h
  · rename_i hc
    simp at hc
    simp only at h
    split at h
    · simp at h; subst h
      refine ⟨hc.1, by simpa using hc.2, rfl, by assumption⟩
    · simp at h
  · simp at h

end Slimta.Proxy
