import Model.Policy
namespace Slimta.Policy

def slots (e : Env) : List Nat := e.rcpts.map Prod.fst
def slotsOf (l : List Env) : List Nat := l.flatMap slots
def eids (l : List Env) : List Nat := l.map (·.eid)

@[simp] theorem slotsOf_nil : slotsOf [] = [] := rfl
@[simp] theorem slotsOf_cons (e : Env) (l : List Env) : slotsOf (e :: l) = slots e ++ slotsOf l := by
  simp [slotsOf]
@[simp] theorem slotsOf_append (a b : List Env) : slotsOf (a ++ b) = slotsOf a ++ slotsOf b := by
  simp [slotsOf]
@[simp] theorem eids_cons (e : Env) (l : List Env) : eids (e :: l) = e.eid :: eids l := rfl
@[simp] theorem eids_nil : eids [] = [] := rfl
@[simp] theorem eids_append (a b : List Env) : eids (a ++ b) = eids a ++ eids b := by simp [eids]

theorem mem_eids {l : List Env} {x : Env} (h : x ∈ l) : x.eid ∈ eids l := by
  simp only [eids, List.mem_map]; exact ⟨x, h, rfl⟩

/-! ### replaceObj / removeObj -/

theorem eids_replaceObj (e : Env) (l : List Env) : eids (replaceObj e l) = eids l := by
  induction l with
  | nil => rfl
  | cons x xs ih =>
    simp only [replaceObj]
    split
    · rename_i h; simp at h; simp [h]
    · simp [ih]

theorem count_replaceObj (k : Nat) (cur cur' : Env) (l : List Env) (hn : (eids l).Nodup) (hm : cur ∈ l)
    (he : cur'.eid = cur.eid) :
    (slotsOf (replaceObj cur' l)).count k + (slots cur).count k
      = (slotsOf l).count k + (slots cur').count k := by
  induction l with
  | nil => simp at hm
  | cons x xs ih =>
    simp only [eids_cons, List.nodup_cons] at hn
    simp only [replaceObj]
    rcases List.mem_cons.mp hm with rfl | hm'
    · simp [he, List.count_append]; omega
    · have hne : x.eid ≠ cur.eid := by
        intro h; exact hn.1 (h ▸ mem_eids hm')
      have : (x.eid == cur'.eid) = false := by simp [he, hne]
      simp only [this, Bool.false_eq_true, if_false, slotsOf_cons, List.count_append]
      have := ih hn.2 hm'
      omega

theorem mem_replaceObj_self (cur cur' : Env) (l : List Env) (hm : cur ∈ l) (he : cur'.eid = cur.eid) :
    cur' ∈ replaceObj cur' l := by
  induction l with
  | nil => simp at hm
  | cons x xs ih =>
    simp only [replaceObj]
    split
    · simp
    · rename_i h
      rcases List.mem_cons.mp hm with rfl | hm'
      · simp [he] at h
      · simp [ih hm']

theorem mem_replaceObj_other (e x : Env) (l : List Env) (hx : x ∈ l) (hne : x.eid ≠ e.eid) :
    x ∈ replaceObj e l := by
  induction l with
  | nil => simp at hx
  | cons y ys ih =>
    simp only [replaceObj]
    rcases List.mem_cons.mp hx with rfl | hx'
    · have : (x.eid == e.eid) = false := by simp [hne]
      simp [this]
    · split
      · simp [hx']
      · simp [ih hx']

theorem mem_of_mem_replaceObj (e y : Env) (l : List Env) (hy : y ∈ replaceObj e l) : y = e ∨ y ∈ l := by
  induction l with
  | nil => simp [replaceObj] at hy
  | cons x xs ih =>
    simp only [replaceObj] at hy
    split at hy
    · rcases List.mem_cons.mp hy with rfl | h
      · exact Or.inl rfl
      · exact Or.inr (by simp [h])
    · rcases List.mem_cons.mp hy with rfl | h
      · exact Or.inr (by simp)
      · rcases ih h with h | h
        · exact Or.inl h
        · exact Or.inr (by simp [h])

theorem count_removeObj (k : Nat) (c : Env) (l : List Env) (hn : (eids l).Nodup) (hm : c ∈ l) :
    (slotsOf (removeObj c.eid l)).count k + (slots c).count k = (slotsOf l).count k := by
  induction l with
  | nil => simp at hm
  | cons x xs ih =>
    simp only [eids_cons, List.nodup_cons] at hn
    simp only [removeObj]
    rcases List.mem_cons.mp hm with rfl | hm'
    · simp [List.count_append]; omega
    · have hne : x.eid ≠ c.eid := by
        intro h; exact hn.1 (h ▸ mem_eids hm')
      have : (x.eid == c.eid) = false := by simp [hne]
      simp only [this, Bool.false_eq_true, if_false, slotsOf_cons, List.count_append]
      have := ih hn.2 hm'
      omega

theorem mem_removeObj_other (i : Nat) (x : Env) (l : List Env) (hx : x ∈ l) (hne : x.eid ≠ i) :
    x ∈ removeObj i l := by
  induction l with
  | nil => simp at hx
  | cons y ys ih =>
    simp only [removeObj]
    rcases List.mem_cons.mp hx with rfl | hx'
    · have : (x.eid == i) = false := by simp [hne]
      simp [this]
    · split
      · exact hx'
      · simp [ih hx']

theorem mem_of_mem_removeObj (i : Nat) (y : Env) (l : List Env) (hy : y ∈ removeObj i l) : y ∈ l := by
  induction l with
  | nil => simp [removeObj] at hy
  | cons x xs ih =>
    simp only [removeObj] at hy
    split at hy
    · simp [hy]
    · rcases List.mem_cons.mp hy with rfl | h
      · simp
      · simp [ih h]

theorem not_mem_eids_removeObj (i : Nat) (l : List Env) (hn : (eids l).Nodup) : i ∉ eids (removeObj i l) := by
  induction l with
  | nil => simp [removeObj]
  | cons x xs ih =>
    simp only [eids_cons, List.nodup_cons] at hn
    simp only [removeObj]
    split
    · rename_i h; simp at h; rw [← h]; exact hn.1
    · rename_i h; simp at h
      simp only [eids_cons, List.mem_cons, not_or]
      exact ⟨fun e => h e.symm, ih hn.2⟩

theorem nodup_eids_removeObj (i : Nat) (l : List Env) (hn : (eids l).Nodup) : (eids (removeObj i l)).Nodup := by
  induction l with
  | nil => simp [removeObj]
  | cons x xs ih =>
    simp only [eids_cons, List.nodup_cons] at hn
    simp only [removeObj]
    split
    · exact hn.2
    · simp only [eids_cons, List.nodup_cons]
      refine ⟨?_, ih hn.2⟩
      intro hmem
      simp only [eids, List.mem_map] at hmem
      obtain ⟨y, hy, hye⟩ := hmem
      exact hn.1 (hye ▸ mem_eids (mem_of_mem_removeObj i y xs hy))

/-! ### the policies -/

theorem splitCopies_spec (e : Env) (rs : List (Nat × Nat)) (n : Nat) :
    slotsOf (splitCopies e rs n) = rs.map Prod.fst ∧ eids (splitCopies e rs n) = List.range' n rs.length ∧
    ∀ r ∈ splitCopies e rs n, r.sender = e.sender ∧ r.body = e.body ∧ r.hdrs = e.hdrs := by
  induction rs generalizing n with
  | nil => simp [splitCopies]
  | cons r rest ih =>
    obtain ⟨h1, h2, h3⟩ := ih (n + 1)
    refine ⟨?_, ?_, ?_⟩
    · simp [splitCopies, slots, copyEnv, h1]
    · simp [splitCopies, copyEnv, h2, List.range'_succ]
    · intro x hx
      simp only [splitCopies, List.mem_cons] at hx
      rcases hx with rfl | hx
      · simp [copyEnv]
      · exact h3 x hx

theorem copiesOf_spec (e : Env) (ls : List (List (Nat × Nat))) (n : Nat) :
    slotsOf (copiesOf e ls n) = ls.flatten.map Prod.fst ∧ eids (copiesOf e ls n) = List.range' n ls.length ∧
    ∀ r ∈ copiesOf e ls n, r.sender = e.sender ∧ r.body = e.body ∧ r.hdrs = e.hdrs := by
  induction ls generalizing n with
  | nil => simp [copiesOf]
  | cons g rest ih =>
    obtain ⟨h1, h2, h3⟩ := ih (n + 1)
    refine ⟨?_, ?_, ?_⟩
    · simp [copiesOf, slots, copyEnv, h1]
    · simp [copiesOf, copyEnv, h2, List.range'_succ]
    · intro x hx
      simp only [copiesOf, List.mem_cons] at hx
      rcases hx with rfl | hx
      · simp [copyEnv]
      · exact h3 x hx

def groupSlots : List (Nat × List (Nat × Nat)) → List Nat
  | [] => []
  | g :: rest => g.2.map Prod.fst ++ groupSlots rest

theorem groupSlots_eq (gs : List (Nat × List (Nat × Nat))) :
    (gs.map (·.2)).flatten.map Prod.fst = groupSlots gs := by
  induction gs with
  | nil => rfl
  | cons g rest ih => simp [groupSlots, ← ih]

theorem count_addToGroups (j k : Nat) (r : Nat × Nat) (gs : List (Nat × List (Nat × Nat))) :
    (groupSlots (addToGroups k r gs)).count j = (groupSlots gs).count j + ([r.1] : List Nat).count j := by
  induction gs with
  | nil => simp [addToGroups, groupSlots]
  | cons g rest ih =>
    obtain ⟨k', grp⟩ := g
    simp only [addToGroups]
    split
    · simp only [groupSlots, List.map_append, List.count_append, List.map_cons, List.map_nil]; omega
    · simp only [groupSlots, List.count_append] at ih ⊢
      omega

theorem count_domainGroups (cfg : Cfg) (j : Nat) (rs : List (Nat × Nat))
    (acc : List (Nat × List (Nat × Nat)) × List (Nat × Nat)) :
    (groupSlots (domainGroups cfg rs acc).1).count j + ((domainGroups cfg rs acc).2.map Prod.fst).count j
      = (groupSlots acc.1).count j + (acc.2.map Prod.fst).count j + (rs.map Prod.fst).count j := by
  induction rs generalizing acc with
  | nil => simp [domainGroups]
  | cons r rest ih =>
    obtain ⟨groups, bad⟩ := acc
    simp only [domainGroups]
    split
    · rename_i k hk
      rw [ih]
      simp only [count_addToGroups, List.map_cons, List.count_cons, List.count_nil]
      omega
    · rw [ih]
      simp only [List.map_append, List.count_append, List.map_cons, List.map_nil, List.count_cons, List.count_nil]
      omega

theorem flatten_singletons (bad : List (Nat × Nat)) : ((bad.map fun b => [b]).flatten) = bad := by
  induction bad with
  | nil => rfl
  | cons b rest ih => simp [ih]

/-- A policy that returns nothing leaves identity, recipient slots, sender and body alone. -/
theorem apply_none {cfg : Cfg} {p : Pol} {e e' : Env} {next next' : Nat}
    (h : apply cfg p e next = (e', none, next')) :
    e'.eid = e.eid ∧ slots e' = slots e ∧ e'.sender = e.sender ∧ e'.body = e.body ∧ next' = next := by
  cases p <;> simp only [apply] at h
  · split at h <;> simp at h
    obtain ⟨rfl, rfl⟩ := h; simp
  · split at h <;> simp at h
    obtain ⟨rfl, rfl⟩ := h; simp
  · simp at h; obtain ⟨rfl, rfl⟩ := h
    simp [slots, List.map_map, Function.comp_def]
  · simp at h; obtain ⟨rfl, rfl⟩ := h; simp [slots]
  · simp at h; obtain ⟨rfl, rfl⟩ := h; simp [slots]
  · simp at h; obtain ⟨rfl, rfl⟩ := h; simp [slots]
  · split at h <;> simp at h
    obtain ⟨rfl, rfl⟩ := h; simp

/-- A policy that returns new envelopes: they carry the input's recipient slots exactly once
    between them, its sender and body; each is the (mutated) input itself or a fresh object. -/
theorem apply_some {cfg : Cfg} {p : Pol} {e e' : Env} {ret : List Env} {next next' : Nat}
    (hlt : e.eid < next) (h : apply cfg p e next = (e', some ret, next')) :
    e'.eid = e.eid ∧ next ≤ next' ∧ (∀ k, (slotsOf ret).count k = (slots e).count k) ∧
    (∀ r ∈ ret, r.sender = e.sender ∧ r.body = e.body ∧ (r = e' ∨ (next ≤ r.eid ∧ r.eid < next'))) ∧
    (eids ret).Nodup := by
  cases p <;> simp only [apply] at h
  · -- split
    split at h <;> simp at h
    obtain ⟨rfl, rfl, rfl⟩ := h
    obtain ⟨h1, h2, h3⟩ := splitCopies_spec e e.rcpts next
    refine ⟨rfl, by omega, fun k => by rw [h1]; rfl, ?_, by rw [h2]; exact List.nodup_range'⟩
    intro r hr
    have hm := mem_eids hr
    rw [h2, List.mem_range'_1] at hm
    exact ⟨(h3 r hr).1, (h3 r hr).2.1, Or.inr hm⟩
  · -- domainSplit
    split at h <;> simp at h
    obtain ⟨rfl, rfl, rfl⟩ := h
    obtain ⟨h1, h2, h3⟩ := copiesOf_spec e
      ((domainGroups cfg e.rcpts ([], [])).1.map (·.2) ++ (domainGroups cfg e.rcpts ([], [])).2.map fun b => [b]) next
    refine ⟨rfl, by omega, ?_, ?_, by rw [h2]; exact List.nodup_range'⟩
    · intro k
      rw [h1]
      have := count_domainGroups cfg k e.rcpts ([], [])
      simp only [groupSlots, List.map_nil, List.count_nil, Nat.zero_add] at this
      simp only [List.flatten_append, List.map_append, List.count_append, flatten_singletons, slots,
        groupSlots_eq]
      exact this
    · intro r hr
      have hm := mem_eids hr
      rw [h2, List.mem_range'_1] at hm
      exact ⟨(h3 r hr).1, (h3 r hr).2.1, Or.inr (by simpa using hm)⟩
  · simp at h
  · simp at h
  · simp at h
  · simp at h
  · -- peel
    split at h <;> simp at h
    rename_i r r2 rs hr
    obtain ⟨rfl, rfl, rfl⟩ := h
    refine ⟨rfl, by omega, ?_, ?_, ?_⟩
    · intro k; simp [slots, copyEnv, hr, List.count_cons]
    · intro x hx
      simp at hx
      rcases hx with rfl | rfl
      · simp
      · simp [copyEnv]
    · simp [copyEnv]; omega

/-! ### the recursion of `_run_policies` -/

structure Good (st : St) : Prop where
  nodup : (eids st.results).Nodup
  bound : ∀ x ∈ st.results, x.eid < st.next

theorem eq_of_eid {l : List Env} (hn : (eids l).Nodup) {x y : Env} (hx : x ∈ l) (hy : y ∈ l)
    (h : x.eid = y.eid) : x = y := by
  induction l with
  | nil => simp at hx
  | cons z zs ih =>
    simp only [eids_cons, List.nodup_cons] at hn
    rcases List.mem_cons.mp hx with rfl | hx' <;> rcases List.mem_cons.mp hy with rfl | hy'
    · rfl
    · exact absurd (h ▸ mem_eids hy') hn.1
    · exact absurd (h ▸ mem_eids hx') hn.1
    · exact ih hn.2 hx' hy'

/-- What one call `recurse(current, i)` does to the result list. -/
def Spec (cur : Env) (st st' : St) : Prop :=
  Good st' ∧ st.next ≤ st'.next ∧
  (∀ k, (slotsOf st'.results).count k = (slotsOf st.results).count k) ∧
  (∀ x ∈ st.results, x.eid ≠ cur.eid → x ∈ st'.results) ∧
  (∀ y ∈ st'.results, (y ∈ st.results ∧ y.eid ≠ cur.eid) ∨
      (y.sender = cur.sender ∧ y.body = cur.body ∧ (y.eid = cur.eid ∨ st.next ≤ y.eid)))

/-- The `for env in ret: recurse(env, i+1)` loop, given the specification of each call. -/
theorem fold_spec (f : Env → St → St)
    (hf : ∀ cur st, Good st → cur ∈ st.results → Spec cur st (f cur st))
    (todo : List Env) (s : St) (hg : Good s) (hin : ∀ e ∈ todo, e ∈ s.results) (hnd : (eids todo).Nodup) :
    let s' := todo.foldl (fun s env => f env s) s
    Good s' ∧ s.next ≤ s'.next ∧
    (∀ k, (slotsOf s'.results).count k = (slotsOf s.results).count k) ∧
    (∀ x ∈ s.results, x.eid ∉ eids todo → x ∈ s'.results) ∧
    (∀ y ∈ s'.results, (y ∈ s.results ∧ y.eid ∉ eids todo) ∨
      (∃ e ∈ todo, y.sender = e.sender ∧ y.body = e.body ∧ (y.eid = e.eid ∨ s.next ≤ y.eid))) := by
  induction todo generalizing s with
  | nil =>
    exact ⟨hg, Nat.le_refl _, fun _ => rfl, fun x hx _ => hx, fun y hy => Or.inl ⟨hy, by simp⟩⟩
  | cons e rest ih =>
    simp only [eids_cons, List.nodup_cons] at hnd
    obtain ⟨g1, n1, c1, m1, o1⟩ := hf e s hg (hin e (by simp))
    have hin' : ∀ x ∈ rest, x ∈ (f e s).results := by
      intro x hx
      refine m1 x (hin x (by simp [hx])) ?_
      intro h; exact hnd.1 (h ▸ mem_eids hx)
    obtain ⟨g2, n2, c2, m2, o2⟩ := ih (f e s) g1 hin' hnd.2
    simp only [List.foldl_cons]
    refine ⟨g2, Nat.le_trans n1 n2, fun k => (c2 k).trans (c1 k), ?_, ?_⟩
    · intro x hx hne
      simp only [eids_cons, List.mem_cons, not_or] at hne
      exact m2 x (m1 x hx hne.1) hne.2
    · intro y hy
      rcases o2 y hy with ⟨hy1, hne⟩ | ⟨e2, he2, hs, hb, hid⟩
      · rcases o1 y hy1 with ⟨hy0, hne0⟩ | ⟨hs, hb, hid⟩
        · refine Or.inl ⟨hy0, ?_⟩
          simp only [eids_cons, List.mem_cons, not_or]
          exact ⟨hne0, hne⟩
        · exact Or.inr ⟨e, by simp, hs, hb, hid⟩
      · refine Or.inr ⟨e2, by simp [he2], hs, hb, ?_⟩
        rcases hid with h | h
        · exact Or.inl h
        · exact Or.inr (Nat.le_trans n1 h)

theorem recurse_spec (cfg : Cfg) (ps : List Pol) :
    ∀ cur st, Good st → cur ∈ st.results → Spec cur st (recurse cfg ps cur st) := by
  induction ps with
  | nil =>
    intro cur st hg hc
    simp only [recurse]
    refine ⟨hg, Nat.le_refl _, fun _ => rfl, fun x hx _ => hx, ?_⟩
    intro y hy
    by_cases h : y.eid = cur.eid
    · have := eq_of_eid hg.nodup hy hc h
      subst this
      exact Or.inr ⟨rfl, rfl, Or.inl rfl⟩
    · exact Or.inl ⟨hy, h⟩
  | cons p ps ih =>
    intro cur st hg hc
    have hlt : cur.eid < st.next := hg.bound cur hc
    simp only [recurse]
    rcases hap : apply cfg p cur st.next with ⟨cur', ret?, next'⟩
    cases ret? with
    | none =>
      obtain ⟨he, hsl, hse, hbo, hnx⟩ := apply_none hap
      subst hnx
      simp only
      have hg1 : Good { results := replaceObj cur' st.results, next := st.next } := by
        refine ⟨by simpa [eids_replaceObj] using hg.nodup, ?_⟩
        intro x hx
        rcases mem_of_mem_replaceObj cur' x st.results hx with rfl | hx'
        · simpa [he] using hlt
        · exact hg.bound x hx'
      have hc1 : cur' ∈ replaceObj cur' st.results := mem_replaceObj_self cur cur' st.results hc he
      obtain ⟨g2, n2, c2, m2, o2⟩ := ih cur' _ hg1 hc1
      dsimp only at n2 c2 m2 o2
      refine ⟨g2, n2, ?_, ?_, ?_⟩
      · intro k
        rw [c2 k]
        have := count_replaceObj k cur cur' st.results hg.nodup hc he
        simp only [hsl] at this
        omega
      · intro x hx hne
        exact m2 x (mem_replaceObj_other cur' x st.results hx (by simpa [he] using hne)) (by simpa [he] using hne)
      · intro y hy
        rcases o2 y hy with ⟨hy1, hne⟩ | ⟨hs, hb, hid⟩
        · rcases mem_of_mem_replaceObj cur' y st.results hy1 with rfl | hy0
          · exact absurd rfl hne
          · exact Or.inl ⟨hy0, by simpa [he] using hne⟩
        · exact Or.inr ⟨by rw [hs, hse], by rw [hb, hbo], by simpa [he] using hid⟩
    | some ret =>
      obtain ⟨he, hnx, hcnt, hret, hnd⟩ := apply_some hlt hap
      simp only
      have hc1 : cur' ∈ replaceObj cur' st.results := mem_replaceObj_self cur cur' st.results hc he
      have hnd1 : (eids (replaceObj cur' st.results)).Nodup := by simpa [eids_replaceObj] using hg.nodup
      -- the state handed to the loop
      have hg1 : Good { results := removeObj cur'.eid (replaceObj cur' st.results) ++ ret, next := next' } := by
        constructor
        · simp only [eids_append]
          rw [List.nodup_append]
          refine ⟨nodup_eids_removeObj _ _ hnd1, hnd, ?_⟩
          intro a ha b hb hab
          subst hab
          simp only [eids, List.mem_map] at ha hb
          obtain ⟨x, hx, hxe⟩ := ha
          obtain ⟨r, hr, hre⟩ := hb
          have hxold := mem_of_mem_removeObj _ x _ hx
          rcases (hret r hr).2.2 with rfl | hfresh
          · have hm := mem_eids hx
            rw [hxe, ← hre] at hm
            exact not_mem_eids_removeObj r.eid _ hnd1 hm
          · have hxlt : x.eid < st.next := by
              rcases mem_of_mem_replaceObj cur' x st.results hxold with rfl | hx0
              · simpa [he] using hlt
              · exact hg.bound x hx0
            omega
        · intro x hx
          simp only [List.mem_append] at hx
          rcases hx with hx | hx
          · have hxold := mem_of_mem_removeObj _ x _ hx
            have : x.eid < st.next := by
              rcases mem_of_mem_replaceObj cur' x st.results hxold with rfl | hx0
              · simpa [he] using hlt
              · exact hg.bound x hx0
            simp only; omega
          · rcases (hret x hx).2.2 with rfl | hfresh
            · simp only [he]; omega
            · exact hfresh.2
      have hin : ∀ e ∈ ret, e ∈ (removeObj cur'.eid (replaceObj cur' st.results) ++ ret) := by
        intro e he'; simp [he']
      obtain ⟨g2, n2, c2, m2, o2⟩ := fold_spec (fun env s => recurse cfg ps env s) ih ret _ hg1 hin hnd
      dsimp only at n2 c2 m2 o2
      refine ⟨g2, Nat.le_trans hnx n2, ?_, ?_, ?_⟩
      · intro k
        rw [c2 k]
        have h1 := count_replaceObj k cur cur' st.results hg.nodup hc he
        have h2 := count_removeObj k cur' (replaceObj cur' st.results) hnd1 hc1
        have h3 := hcnt k
        simp only [slotsOf_append, List.count_append]
        omega
      · intro x hx hne
        refine m2 x ?_ ?_
        · simp only [List.mem_append]
          exact Or.inl (mem_removeObj_other _ x _ (mem_replaceObj_other cur' x _ hx (by simpa [he] using hne))
            (by simpa [he] using hne))
        · intro hmem
          simp only [eids, List.mem_map] at hmem
          obtain ⟨r, hr, hre⟩ := hmem
          rcases (hret r hr).2.2 with rfl | hfresh
          · exact hne (by rw [← hre, he])
          · have := hg.bound x hx; omega
      · intro y hy
        rcases o2 y hy with ⟨hy1, hne⟩ | ⟨e, hemem, hs, hb, hid⟩
        · simp only [List.mem_append] at hy1
          rcases hy1 with hy1 | hy1
          · have hyne : y.eid ≠ cur'.eid := by
              intro h
              have hm := mem_eids hy1
              rw [h] at hm
              exact not_mem_eids_removeObj cur'.eid _ hnd1 hm
            rcases mem_of_mem_replaceObj cur' y st.results (mem_of_mem_removeObj _ y _ hy1) with rfl | hy0
            · exact absurd rfl hyne
            · exact Or.inl ⟨hy0, by simpa [he] using hyne⟩
          · exact absurd (mem_eids hy1) hne
        · obtain ⟨hs', hb', hk⟩ := hret e hemem
          refine Or.inr ⟨by rw [hs, hs'], by rw [hb, hb'], ?_⟩
          rcases hid with h | h
          · rcases hk with rfl | hfresh
            · exact Or.inl (by rw [h, he])
            · exact Or.inr (by omega)
          · exact Or.inr (by omega)

end Slimta.Policy
