import Model.Reply
/-! Lemmas about the enhanced-status-code prefix parser of `Model/Reply.lean`. -/
namespace Slimta.Reply

/-- What the proofs need of the character classes (true of Python's `\d` / `\s`). -/
structure ClassesOk (k : Classes) : Prop where
  dotNotDigit : k.isD '.' = false
  spaceIsSpace : k.isS ' ' = true
  digitNotSpace : ∀ c, k.isD c = true → k.isS c = false
  zeroDigit : k.isD '0' = true

def Digits3 (k : Classes) (d : Text) : Prop := d ≠ [] ∧ d.length ≤ 3 ∧ ∀ c ∈ d, k.isD c = true

theorem takeDigits3_spec {k : Classes} {t d r : Text} (h : takeDigits3 k t = some (d, r)) :
    t = d ++ r ∧ Digits3 k d := by
  unfold takeDigits3 at h
  split at h
  · rename_i a b c r'
    split at h
    · rename_i ha
      split at h
      · rename_i hb
        split at h
        · rename_i hc
          simp at h; obtain ⟨rfl, rfl⟩ := h
          exact ⟨rfl, by simp, by simp, by intro x hx; simp at hx; rcases hx with rfl | rfl | rfl <;> assumption⟩
        · simp at h; obtain ⟨rfl, rfl⟩ := h
          exact ⟨rfl, by simp, by simp, by intro x hx; simp at hx; rcases hx with rfl | rfl <;> assumption⟩
      · simp at h; obtain ⟨rfl, rfl⟩ := h
        exact ⟨rfl, by simp, by simp, by intro x hx; simp at hx; subst hx; assumption⟩
    · simp at h
  · rename_i a b
    split at h
    · rename_i ha
      split at h
      · rename_i hb
        simp at h; obtain ⟨rfl, rfl⟩ := h
        exact ⟨by simp, by simp, by simp, by intro x hx; simp at hx; rcases hx with rfl | rfl <;> assumption⟩
      · simp at h; obtain ⟨rfl, rfl⟩ := h
        exact ⟨rfl, by simp, by simp, by intro x hx; simp at hx; subst hx; assumption⟩
    · simp at h
  · rename_i a
    split at h
    · rename_i ha
      simp at h; obtain ⟨rfl, rfl⟩ := h
      exact ⟨by simp, by simp, by simp, by intro x hx; simp at hx; subst hx; assumption⟩
    · simp at h
  · simp at h

/-- Digits followed by a non-digit are taken back exactly. -/
theorem takeDigits3_of {k : Classes} {d : Text} (hd : Digits3 k d) (x : Char) (r : Text) (hx : k.isD x = false) :
    takeDigits3 k (d ++ x :: r) = some (d, x :: r) := by
  obtain ⟨hne, hlen, hall⟩ := hd
  match d, hne, hlen, hall with
  | [a], _, _, hall =>
    have ha := hall a (by simp)
    cases r with
    | nil => simp [takeDigits3, ha, hx]
    | cons y ys => simp [takeDigits3, ha, hx]
  | [a, b], _, _, hall =>
    have ha := hall a (by simp); have hb := hall b (by simp)
    simp [takeDigits3, ha, hb, hx]
  | [a, b, c], _, _, hall =>
    have ha := hall a (by simp); have hb := hall b (by simp); have hc := hall c (by simp)
    simp [takeDigits3, ha, hb, hc]
  | a :: b :: c :: e :: rest, _, hlen, _ => simp at hlen

theorem dropWhile_head_not {p : Char → Bool} {l : Text} {c : Char} (h : (l.dropWhile p).head? = some c) : p c = false := by
  induction l with
  | nil => simp at h
  | cons y ys ih =>
    simp only [List.dropWhile_cons] at h
    split at h
    · exact ih h
    · rename_i hp
      simp at h; subst h; simpa using hp

theorem dropWhile_id_of_head {p : Char → Bool} {l : Text} (h : ∀ c, l.head? = some c → p c = false) : l.dropWhile p = l := by
  cases l with
  | nil => rfl
  | cons y ys => simp [List.dropWhile_cons, h y rfl]

/-- What `matchEscPrefix` returns, spelled out. -/
theorem matchEscPrefix_spec {k : Classes} {t : Text} {c : Char} {subj det rest : Text}
    (h : matchEscPrefix k t = some (c, subj, det, rest)) :
    (c = '2' ∨ c = '4' ∨ c = '5') ∧ Digits3 k subj ∧ Digits3 k det ∧ (∀ x, rest.head? = some x → k.isS x = false) := by
  unfold matchEscPrefix at h
  split at h
  · rename_i c' r1
    split at h
    · rename_i hc
      split at h
      · rename_i subj' r2 h1
        split at h
        · rename_i det' s r3 h2
          split at h
          · rename_i hs
            simp at h
            obtain ⟨rfl, rfl, rfl, rfl⟩ := h
            refine ⟨by simp at hc; rcases hc with (hc | hc) | hc <;> simp [hc], (takeDigits3_spec h1).2, (takeDigits3_spec h2).2, ?_⟩
            intro x hx
            exact dropWhile_head_not hx
          · simp at h
        · simp at h
      · simp at h
    · simp at h
  · simp at h

/-- Conversely: a class character, two digit groups, white space and a text that does not begin
    with white space are parsed back into exactly those parts. -/
theorem matchEscPrefix_of {k : Classes} (hk : ClassesOk k) {c : Char} {subj det rest : Text}
    (hc : c = '2' ∨ c = '4' ∨ c = '5') (hs : Digits3 k subj) (hd : Digits3 k det)
    (hr : ∀ x, rest.head? = some x → k.isS x = false) :
    matchEscPrefix k (c :: '.' :: (subj ++ '.' :: (det ++ ' ' :: rest))) = some (c, subj, det, rest) := by
  have h1 := takeDigits3_of hs '.' (det ++ ' ' :: rest) hk.dotNotDigit
  have hsp : k.isD ' ' = false := by
    cases hh : k.isD ' ' with
    | false => rfl
    | true => have := hk.digitNotSpace ' ' hh; rw [hk.spaceIsSpace] at this; exact absurd this (by simp)
  have h2 := takeDigits3_of hd ' ' rest hsp
  have hcc : (c == '2' || c == '4' || c == '5') = true := by
    rcases hc with rfl | rfl | rfl <;> decide
  simp only [matchEscPrefix, hcc, if_true, h1, h2, hk.spaceIsSpace]
  simp [List.dropWhile_cons, hk.spaceIsSpace, dropWhile_id_of_head hr]

end Slimta.Reply
