import Model.Server
import Proofs.Lemmas.Reply
import Proofs.Lemmas.Data
import Proofs.C05
namespace Slimta.Server
open Slimta

/-- A socket script without empty reads (an empty read is end-of-file, not data). -/
def NoEmpty (segs : List Bytes) : Prop := ∀ x ∈ segs, x ≠ []

/-- Two connections that will deliver the same bytes. -/
def Same (a b : Stream) : Prop := a.flat = b.flat ∧ NoEmpty a.segs ∧ NoEmpty b.segs

/-- What `recvLine` returns is determined by the concatenated bytes. -/
theorem recvLine_flat (segs : List Bytes) (buf : Bytes) (hne : NoEmpty segs) :
    match Reply.matchLine (buf ++ segs.flatten) with
    | some (l, r) => ∃ st', recvLine buf segs = .ok (l, st') ∧ st'.flat = r ∧ NoEmpty st'.segs
    | none => recvLine buf segs = .error .wouldBlock := by
  induction segs generalizing buf with
  | nil =>
    simp only [List.flatten_nil, List.append_nil, recvLine]
    cases h : Reply.matchLine buf with
    | none => rfl
    | some p => obtain ⟨l, r⟩ := p; exact ⟨⟨r, []⟩, rfl, by simp [Stream.flat], by intro x hx; simp at hx⟩
  | cons seg rest ih =>
    have hseg : seg ≠ [] := hne seg (by simp)
    have hrest : NoEmpty rest := fun x hx => hne x (by simp [hx])
    simp only [recvLine]
    cases h : Reply.matchLine buf with
    | some p =>
      obtain ⟨l, r⟩ := p
      have := Reply.matchLine_append (seg :: rest).flatten h
      rw [this]
      exact ⟨⟨r, seg :: rest⟩, rfl, by simp [Stream.flat], hne⟩
    | none =>
      have hs : seg.isEmpty = false := by cases seg <;> simp_all
      simp only [hs, Bool.false_eq_true, if_false]
      have := ih (buf ++ seg) hrest
      simpa [List.flatten_cons, List.append_assoc] using this

theorem recvLine_same (a b : Stream) (h : Same a b) :
    (∃ l sa sb, recvLine a.buf a.segs = .ok (l, sa) ∧ recvLine b.buf b.segs = .ok (l, sb) ∧ Same sa sb) ∨
    (recvLine a.buf a.segs = .error .wouldBlock ∧ recvLine b.buf b.segs = .error .wouldBlock) := by
  obtain ⟨hf, ha, hb⟩ := h
  have h1 := recvLine_flat a.segs a.buf ha
  have h2 := recvLine_flat b.segs b.buf hb
  simp only [Stream.flat] at hf
  rw [← hf] at h2
  cases hm : Reply.matchLine (a.buf ++ a.segs.flatten) with
  | none => rw [hm] at h1 h2; exact Or.inr ⟨h1, h2⟩
  | some p =>
    obtain ⟨l, r⟩ := p
    rw [hm] at h1 h2
    obtain ⟨sa, e1, f1, n1⟩ := h1
    obtain ⟨sb, e2, f2, n2⟩ := h2
    exact Or.inl ⟨l, sa, sb, e1, e2, by rw [Same, f1, f2]; exact ⟨rfl, n1, n2⟩⟩

/-! ### the DATA phase -/

theorem recvLoop_unread_suffix (segs : List Bytes) (s : Data.RS) (r : Data.Result)
    (h : Data.recvLoop s segs = .ok r) : ∃ pre, segs = pre ++ r.unread := by
  induction segs generalizing s with
  | nil =>
    simp only [Data.recvLoop] at h
    split at h <;> simp at h
    subst h; exact ⟨[], rfl⟩
  | cons piece rest ih =>
    simp only [Data.recvLoop] at h
    split at h
    · simp at h; subst h; exact ⟨[], rfl⟩
    · split at h
      · simp at h
      · obtain ⟨pre, hp⟩ := ih _ h
        exact ⟨piece :: pre, by simp [hp]⟩

theorem runLimited_same (maxSize : Option Nat) (a b : Stream) (h : Same a b) :
    (∃ d ra rb, Data.runLimited maxSize a.buf a.segs = .ok ⟨d, ra.buf, ra.segs⟩ ∧
        Data.runLimited maxSize b.buf b.segs = .ok ⟨d, rb.buf, rb.segs⟩ ∧ Same ra rb) ∨
    (∃ e, Data.runLimited maxSize a.buf a.segs = .error e ∧ Data.runLimited maxSize b.buf b.segs = .error e) := by
  obtain ⟨hf, ha, hb⟩ := h
  simp only [Stream.flat] at hf
  have hobs := C05.data_segmentation_independent a.buf b.buf a.segs b.segs ha hb hf
  simp only [Data.runLimited]
  cases h1 : Data.run a.buf a.segs with
  | error e1 =>
    cases h2 : Data.run b.buf b.segs with
    | error e2 =>
      rw [h1, h2] at hobs
      simp only [C05.observable] at hobs
      right; exact ⟨e1, rfl, by simp at hobs; rw [hobs]⟩
    | ok r2 => rw [h1, h2] at hobs; simp [C05.observable] at hobs
  | ok r1 =>
    cases h2 : Data.run b.buf b.segs with
    | error e2 => rw [h1, h2] at hobs; simp [C05.observable] at hobs
    | ok r2 =>
      rw [h1, h2] at hobs
      simp only [C05.observable, Except.ok.injEq, Prod.mk.injEq] at hobs
      obtain ⟨hd, hr⟩ := hobs
      obtain ⟨p1, hp1⟩ := recvLoop_unread_suffix a.segs _ r1 h1
      obtain ⟨p2, hp2⟩ := recvLoop_unread_suffix b.segs _ r2 h2
      have n1 : NoEmpty r1.unread := fun x hx => ha x (by rw [hp1]; simp [hx])
      have n2 : NoEmpty r2.unread := fun x hx => hb x (by rw [hp2]; simp [hx])
      have hlen : a.buf.length + a.segs.flatten.length = b.buf.length + b.segs.flatten.length := by
        have := congrArg List.length hf; simpa using this
      have hlen2 : r1.recvBuffer.length + r1.unread.flatten.length = r2.recvBuffer.length + r2.unread.flatten.length := by
        have := congrArg List.length hr; simpa using this
      left
      simp only [hlen, hlen2]
      split
      · exact ⟨none, ⟨r1.recvBuffer, r1.unread⟩, ⟨r2.recvBuffer, r2.unread⟩, rfl, rfl, by simp [Stream.flat, hr], n1, n2⟩
      · exact ⟨some r1.data, ⟨r1.recvBuffer, r1.unread⟩, ⟨r2.recvBuffer, r2.unread⟩, rfl, by rw [hd], by simp [Stream.flat, hr], n1, n2⟩

/-! ### AUTH exchange and the whole loop -/

theorem same_refl_of (a : Stream) (h : NoEmpty a.segs) : Same a a := ⟨rfl, h, h⟩

theorem challenge_same (ao : AuthOracle) (initial : Option Bytes) (a b : Stream) (h : Same a b) :
    (∃ res evs sa sb, challenge ao initial a = .ok (res, evs, sa) ∧ challenge ao initial b = .ok (res, evs, sb) ∧ Same sa sb) ∨
    (challenge ao initial a = .error .wouldBlock ∧ challenge ao initial b = .error .wouldBlock) := by
  cases initial with
  | some r =>
    left
    simp only [challenge]
    split
    · exact ⟨_, _, a, b, rfl, rfl, h⟩
    · split
      · exact ⟨_, _, a, b, rfl, rfl, h⟩
      · exact ⟨_, _, a, b, rfl, rfl, h⟩
  | none =>
    simp only [challenge]
    rcases recvLine_same a b h with ⟨l, sa, sb, e1, e2, hs⟩ | ⟨e1, e2⟩
    · left
      rw [e1, e2]
      simp only
      split
      · exact ⟨_, _, sa, sb, rfl, rfl, hs⟩
      · split
        · exact ⟨_, _, sa, sb, rfl, rfl, hs⟩
        · exact ⟨_, _, sa, sb, rfl, rfl, hs⟩
    · right
      rw [e1, e2]; exact ⟨rfl, rfl⟩

theorem authExchange_same (v : Verdicts) (ao : AuthOracle) (s : St) (mech : Bytes) (initial : Option Bytes)
    (a b : Stream) (h : Same a b) :
    (∃ s' evs nx sa sb, authExchange v ao s mech initial a = .ok (s', evs, nx, sa) ∧
        authExchange v ao s mech initial b = .ok (s', evs, nx, sb) ∧ Same sa sb) ∨
    (authExchange v ao s mech initial a = .error .wouldBlock ∧ authExchange v ao s mech initial b = .error .wouldBlock) := by
  simp only [authExchange]
  split
  · exact Or.inl ⟨_, _, _, a, b, rfl, rfl, h⟩
  · split
    · exact Or.inl ⟨_, _, _, a, b, rfl, rfl, h⟩
    · split
      · -- PLAIN
        rcases challenge_same ao initial a b h with ⟨res, evs, sa, sb, e1, e2, hs⟩ | ⟨e1, e2⟩
        · rw [e1, e2]
          cases res with
          | error code => exact Or.inl ⟨_, _, _, sa, sb, rfl, rfl, hs⟩
          | ok blob =>
            simp only
            cases ao.plain blob with
            | none => exact Or.inl ⟨_, _, _, sa, sb, rfl, rfl, hs⟩
            | some creds => exact Or.inl ⟨_, _, _, sa, sb, rfl, rfl, hs⟩
        · rw [e1, e2]; exact Or.inr ⟨rfl, rfl⟩
      · -- LOGIN
        rcases challenge_same ao initial a b h with ⟨res, evs, sa, sb, e1, e2, hs⟩ | ⟨e1, e2⟩
        · rw [e1, e2]
          cases res with
          | error code => exact Or.inl ⟨_, _, _, sa, sb, rfl, rfl, hs⟩
          | ok user =>
            simp only
            rcases challenge_same ao none sa sb hs with ⟨res2, evs2, ta, tb, f1, f2, ht⟩ | ⟨f1, f2⟩
            · rw [f1, f2]
              cases res2 with
              | error code => exact Or.inl ⟨_, _, _, ta, tb, rfl, rfl, ht⟩
              | ok pass =>
                simp only
                by_cases hu : (!utf8 user || !utf8 pass) = true
                · simp only [hu, if_true]; exact Or.inl ⟨_, _, _, ta, tb, rfl, rfl, ht⟩
                · simp only [hu, Bool.false_eq_true, if_false]; exact Or.inl ⟨_, _, _, ta, tb, rfl, rfl, ht⟩
            · rw [f1, f2]; exact Or.inr ⟨rfl, rfl⟩
        · rw [e1, e2]; exact Or.inr ⟨rfl, rfl⟩

/-- Two runs that cannot be told apart from outside. -/
def RunEq (r r' : Run) : Prop :=
  r.events = r'.events ∧ r.ending = r'.ending ∧ r.state = r'.state ∧ r.rest.flat = r'.rest.flat

theorem loop_same (v : Verdicts) (ao : AuthOracle) (fuel : Nat) (s : St) (acc : List Event) (a b : Stream)
    (h : Same a b) : RunEq (loop v ao fuel s a acc) (loop v ao fuel s b acc) := by
  induction fuel generalizing s acc a b with
  | zero => exact ⟨rfl, rfl, rfl, h.1⟩
  | succ fuel ih =>
    simp only [loop]
    rcases recvLine_same a b h with ⟨l, sa, sb, e1, e2, hs⟩ | ⟨e1, e2⟩
    · rw [e1, e2]
      simp only
      rcases hstep : step v s (parseCommand l) with ⟨s1, evs, nx⟩
      cases nx with
      | continue_ => exact ih s1 _ sa sb hs
      | closed => exact ⟨rfl, rfl, rfl, hs.1⟩
      | aborted => exact ⟨rfl, rfl, rfl, hs.1⟩
      | tls => exact ⟨rfl, rfl, rfl, hs.1⟩
      | data =>
        simp only
        rcases runLimited_same s1.extSize sa sb hs with ⟨d, ra, rb, f1, f2, hr⟩ | ⟨e, f1, f2⟩
        · rw [f1, f2]
          simp only
          rcases hafter : afterData v s1 d with ⟨s2, evs2, nx2⟩
          cases nx2 <;> first | exact ⟨rfl, rfl, rfl, hr.1⟩ | exact ih s2 _ ra rb hr
        · rw [f1, f2]
          cases e <;> exact ⟨rfl, rfl, rfl, hs.1⟩
      | auth mech initial =>
        simp only
        rcases authExchange_same v ao s1 mech initial sa sb hs with ⟨s2, evs2, nx2, ta, tb, f1, f2, ht⟩ | ⟨f1, f2⟩
        · rw [f1, f2]
          simp only
          cases nx2 <;> first | exact ⟨rfl, rfl, rfl, ht.1⟩ | exact ih s2 _ ta tb ht
        · rw [f1, f2]; exact ⟨rfl, rfl, rfl, hs.1⟩
    · rw [e1, e2]; exact ⟨rfl, rfl, rfl, h.1⟩

end Slimta.Server
