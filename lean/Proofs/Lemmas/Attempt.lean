import Model.Attempt
namespace Slimta.Attempt

def groupRcpts (gs : List (ReplyId × List Rcpt)) : List Rcpt := gs.flatMap (·.2)

@[simp] theorem groupRcpts_nil : groupRcpts [] = [] := rfl
@[simp] theorem groupRcpts_cons (g : ReplyId × List Rcpt) (gs) : groupRcpts (g :: gs) = g.2 ++ groupRcpts gs := by
  simp [groupRcpts]

theorem count_addToGroup (x rc : Rcpt) (rp : ReplyId) (gs : List (ReplyId × List Rcpt)) :
    (groupRcpts (addToGroup rc rp gs)).count x = (groupRcpts gs).count x + ([rc] : List Rcpt).count x := by
  induction gs with
  | nil => simp [addToGroup]
  | cons g rest ih =>
    obtain ⟨k, grp⟩ := g
    simp only [addToGroup]
    split
    · simp only [groupRcpts_cons, List.count_append]; omega
    · simp only [groupRcpts_cons, List.count_append] at ih ⊢; omega

theorem count_splitByReply (x : Rcpt) (ps : List (Rcpt × ReplyId)) (acc : List (ReplyId × List Rcpt)) :
    (groupRcpts (splitByReply ps acc)).count x = (groupRcpts acc).count x + (ps.map Prod.fst).count x := by
  induction ps generalizing acc with
  | nil => simp [splitByReply]
  | cons p rest ih =>
    obtain ⟨rc, rp⟩ := p
    simp only [splitByReply, ih, count_addToGroup, List.map_cons, List.count_cons, List.count_nil]
    omega

/-- keys of the groups -/
def keys (gs : List (ReplyId × List Rcpt)) : List ReplyId := gs.map (·.1)

theorem keys_addToGroup (rc : Rcpt) (rp : ReplyId) (gs : List (ReplyId × List Rcpt)) :
    keys (addToGroup rc rp gs) = if rp ∈ keys gs then keys gs else keys gs ++ [rp] := by
  induction gs with
  | nil => simp [addToGroup, keys]
  | cons g rest ih =>
    obtain ⟨k, grp⟩ := g
    simp only [addToGroup]
    by_cases h : (k == rp) = true
    · simp at h; subst h; simp [keys]
    · simp only [h, Bool.false_eq_true, if_false]
      have hk : k ≠ rp := by simpa using h
      simp only [keys, List.map_cons] at ih ⊢
      rw [ih]
      by_cases hm : rp ∈ List.map (fun x => x.1) rest
      · simp [hm]
      · simp [hm, Ne.symm hk]

theorem nodup_keys_addToGroup (rc : Rcpt) (rp : ReplyId) (gs) (h : (keys gs).Nodup) :
    (keys (addToGroup rc rp gs)).Nodup := by
  rw [keys_addToGroup]
  split
  · exact h
  · rename_i hn
    rw [List.nodup_append]
    exact ⟨h, by simp, by intro a ha b hb; simp at hb; subst hb; intro e; subst e; exact hn ha⟩

theorem nodup_keys_splitByReply (ps : List (Rcpt × ReplyId)) (acc) (h : (keys acc).Nodup) :
    (keys (splitByReply ps acc)).Nodup := by
  induction ps generalizing acc with
  | nil => simpa [splitByReply] using h
  | cons p rest ih =>
    obtain ⟨rc, rp⟩ := p
    exact ih _ (nodup_keys_addToGroup rc rp acc h)

/-- every member of a group failed with the group's reply -/
def Sound (ps : List (Rcpt × ReplyId)) (gs : List (ReplyId × List Rcpt)) : Prop :=
  ∀ g ∈ gs, g.2 ≠ [] ∧ ∀ rc ∈ g.2, (rc, g.1) ∈ ps

theorem sound_addToGroup (ps) (rc : Rcpt) (rp : ReplyId) (gs) (h : Sound ps gs) (hm : (rc, rp) ∈ ps) :
    Sound ps (addToGroup rc rp gs) := by
  induction gs with
  | nil =>
    intro g hg
    simp [addToGroup] at hg
    subst hg
    exact ⟨by simp, by intro x hx; simp at hx; subst hx; exact hm⟩
  | cons g0 rest ih =>
    obtain ⟨k, grp⟩ := g0
    have h0 := h (k, grp) (by simp)
    have hrest : Sound ps rest := fun g hg => h g (by simp [hg])
    intro g hg
    simp only [addToGroup] at hg
    split at hg
    · rename_i hk
      simp at hk; subst hk
      rcases List.mem_cons.mp hg with rfl | hg'
      · refine ⟨by simp, ?_⟩
        intro x hx
        simp at hx
        rcases hx with hx | rfl
        · exact h0.2 x hx
        · exact hm
      · exact hrest g hg'
    · rcases List.mem_cons.mp hg with rfl | hg'
      · exact h0
      · exact ih hrest g hg'

theorem sound_mono {ps qs : List (Rcpt × ReplyId)} (hsub : ∀ x ∈ ps, x ∈ qs) {gs} (h : Sound ps gs) : Sound qs gs :=
  fun g hg => ⟨(h g hg).1, fun rc hrc => hsub _ ((h g hg).2 rc hrc)⟩

theorem sound_splitByReply (all ps : List (Rcpt × ReplyId)) (acc) (hsub : ∀ x ∈ ps, x ∈ all) (h : Sound all acc) :
    Sound all (splitByReply ps acc) := by
  induction ps generalizing acc with
  | nil => simpa [splitByReply] using h
  | cons p rest ih =>
    obtain ⟨rc, rp⟩ := p
    exact ih _ (fun x hx => hsub x (by simp [hx])) (sound_addToGroup all rc rp acc h (hsub _ (by simp)))

/-- every reply that occurs is the key of a group -/
theorem keys_complete (ps : List (Rcpt × ReplyId)) (acc) :
    ∀ p ∈ ps, p.2 ∈ keys (splitByReply ps acc) := by
  have mono : ∀ (ps : List (Rcpt × ReplyId)) acc k, k ∈ keys acc → k ∈ keys (splitByReply ps acc) := by
    intro ps
    induction ps with
    | nil => intro acc k hk; simpa [splitByReply] using hk
    | cons p rest ih =>
      intro acc k hk
      obtain ⟨rc, rp⟩ := p
      apply ih
      rw [keys_addToGroup]
      split
      · exact hk
      · simp [hk]
  induction ps generalizing acc with
  | nil => intro p hp; simp at hp
  | cons q rest ih =>
    obtain ⟨rc, rp⟩ := q
    intro p hp
    rcases List.mem_cons.mp hp with rfl | hp'
    · simp only [splitByReply]
      apply mono
      rw [keys_addToGroup]
      split
      · assumption
      · simp
    · exact ih _ p hp'

end Slimta.Attempt
