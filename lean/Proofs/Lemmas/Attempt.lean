import Model.Attempt
namespace Slimta.Attempt

def groupRcpts (gs : List (ReplyId × List Rcpt)) : List Rcpt := gs.flatMap (·.2)

@[simp] theorem groupRcpts_nil : groupRcpts [] = [] := rfl
@[simp] theorem groupRcpts_cons (g : ReplyId × List Rcpt) (gs) : groupRcpts (g :: gs) = g.2 ++ groupRcpts gs := by
  simp [groupRcpts]

theorem count_addToGroup (x rc : Rcpt) (rp : ReplyId) (gs : List (ReplyId × List Rcpt)) :
    (groupRcpts (addToGroup rc rp gs)).count x = (groupRcpts gs).count x + ([rc] : List Rcpt).count x := by
  induction gs with
  | nil => simp [addToGroup]
  | cons g rest ih =>
    obtain ⟨k, grp⟩ := g
    simp only [addToGroup]
    split
    · simp only [groupRcpts_cons, List.count_append]; omega
    · simp only [groupRcpts_cons, List.count_append] at ih ⊢; omega

theorem count_splitByReply (x : Rcpt) (ps : List (Rcpt × ReplyId)) (acc : List (ReplyId × List Rcpt)) :
    (groupRcpts (splitByReply ps acc)).count x = (groupRcpts acc).count x + (ps.map Prod.fst).count x := by
  induction ps generalizing acc with
  | nil => simp [splitByReply]
  | cons p rest ih =>
    obtain ⟨rc, rp⟩ := p
    simp only [splitByReply, ih, count_addToGroup, List.map_cons, List.count_cons, List.count_nil]
    omega

/-- keys of the groups -/
def keys (gs : List (ReplyId × List Rcpt)) : List ReplyId := gs.map (·.1)

theorem keys_addToGroup (rc : Rcpt) (rp : ReplyId) (gs : List (ReplyId × List Rcpt)) :
    keys (addToGroup rc rp gs) = if rp ∈ keys gs then keys gs else keys gs ++ [rp] := by
  induction gs with
  | nil => simp [addToGroup, keys]
  | cons g rest ih =>
    obtain ⟨k, grp⟩ := g
    simp only [addToGroup]
    by_cases h : (k == rp) = true
    · simp at h; subst h; simp [keys]
    · simp only [h, Bool.false_eq_true, if_false]
      have hk : k ≠ rp := by simpa using h
      simp only [keys, List.map_cons] at ih ⊢
      rw [ih]
      by_cases hm : rp ∈ List.map (fun x => x.1) rest
      · simp [hm]
      · simp [hm, Ne.symm hk]

theorem nodup_keys_addToGroup (rc : Rcpt) (rp : ReplyId) (gs) (h : (keys gs).Nodup) :
    (keys (addToGroup rc rp gs)).Nodup := by
  rw [keys_addToGroup]
  split
  · exact h
  · rename_i hn
    rw [List.nodup_append]
    exact ⟨h, by simp, by intro a ha b hb; simp at hb; subst hb; intro e; subst e; exact hn ha⟩

theorem nodup_keys_splitByReply (ps : List (Rcpt × ReplyId)) (acc) (h : (keys acc).Nodup) :
    (keys (splitByReply ps acc)).Nodup := by
  induction ps generalizing acc with
  | nil => simpa [splitByReply] using h
  | cons p rest ih =>
    obtain ⟨rc, rp⟩ := p
    exact ih _ (nodup_keys_addToGroup rc rp acc h)

/-- every member of a group failed with the group's reply -/
def Sound (ps : List (Rcpt × ReplyId)) (gs : List (ReplyId × List Rcpt)) : Prop :=
  ∀ g ∈ gs, g.2 ≠ [] ∧ ∀ rc ∈ g.2, (rc, g.1) ∈ ps

theorem sound_addToGroup (ps) (rc : Rcpt) (rp : ReplyId) (gs) (h : Sound ps gs) (hm : (rc, rp) ∈ ps) :
    Sound ps (addToGroup rc rp gs) := by
  induction gs with
  | nil =>
    intro g hg
    simp [addToGroup] at hg
    subst hg
    exact ⟨by simp, by intro x hx; simp at hx; subst hx; exact hm⟩
  | cons g0 rest ih =>
    obtain ⟨k, grp⟩ := g0
    have h0 := h (k, grp) (by simp)
    have hrest : Sound ps rest := fun g hg => h g (by simp [hg])
    intro g hg
    simp only [addToGroup] at hg
    split at hg
    · rename_i hk
      simp at hk; subst hk
      rcases List.mem_cons.mp hg with rfl | hg'
      · refine ⟨by simp, ?_⟩
        intro x hx
        simp at hx
        rcases hx with hx | rfl
        · exact h0.2 x hx
        · exact hm
      · exact hrest g hg'
    · rcases List.mem_cons.mp hg with rfl | hg'
      · exact h0
      · exact ih hrest g hg'

theorem sound_mono {ps qs : List (Rcpt × ReplyId)} (hsub : ∀ x ∈ ps, x ∈ qs) {gs} (h : Sound ps gs) : Sound qs gs :=
  fun g hg => ⟨(h g hg).1, fun rc hrc => hsub _ ((h g hg).2 rc hrc)⟩

theorem sound_splitByReply (all ps : List (Rcpt × ReplyId)) (acc) (hsub : ∀ x ∈ ps, x ∈ all) (h : Sound all acc) :
    Sound all (splitByReply ps acc) := by
  induction ps generalizing acc with
  | nil => simpa [splitByReply] using h
  | cons p rest ih =>
    obtain ⟨rc, rp⟩ := p
    exact ih _ (fun x hx => hsub x (by simp [hx])) (sound_addToGroup all rc rp acc h (hsub _ (by simp)))

/-- every reply that occurs is the key of a group -/
theorem keys_complete (ps : List (Rcpt × ReplyId)) (acc) :
    ∀ p ∈ ps, p.2 ∈ keys (splitByReply ps acc) := by
  have mono : ∀ (ps : List (Rcpt × ReplyId)) acc k, k ∈ keys acc → k ∈ keys (splitByReply ps acc) := by
    intro ps
    induction ps with
    | nil => intro acc k hk; simpa [splitByReply] using hk
    | cons p rest ih =>
      intro acc k hk
      obtain ⟨rc, rp⟩ := p
      apply ih
      rw [keys_addToGroup]
      split
      · exact hk
      · simp [hk]
  induction ps generalizing acc with
  | nil => intro p hp; simp at hp
  | cons q rest ih =>
    obtain ⟨rc, rp⟩ := q
    intro p hp
    rcases List.mem_cons.mp hp with rfl | hp'
    · simp only [splitByReply]
      apply mono
      rw [keys_addToGroup]
      split
      · assumption
      · simp
    · exact ih _ p hp'

/-! ### deleting delivered positions -/

theorem idxOf_cons_ne' {y x : Rcpt} (ys : List Rcpt) (h : y ≠ x) : (y :: ys).idxOf x = ys.idxOf x + 1 := by
  rw [List.idxOf_cons]
  have : (y == x) = false := by simp [h]
  simp [this]

theorem delIdxAux_filter (l : List Rcpt) (i : Nat) (idxs : List Nat) (S : List Rcpt) (hn : l.Nodup)
    (h : ∀ x ∈ l, idxs.contains (i + l.idxOf x) = S.contains x) :
    delIdxAux idxs i l = l.filter (fun x => !S.contains x) := by
  induction l generalizing i with
  | nil => rfl
  | cons y ys ih =>
    simp only [List.nodup_cons] at hn
    have hy := h y (by simp)
    simp only [List.idxOf_cons_self, Nat.add_zero] at hy
    have htail : ∀ x ∈ ys, idxs.contains (i + 1 + ys.idxOf x) = S.contains x := by
      intro x hx
      have hne : y ≠ x := by intro e; subst e; exact hn.1 hx
      have := h x (by simp [hx])
      rw [idxOf_cons_ne' _ hne] at this
      rw [← this]; congr 1; omega
    simp only [delIdxAux, List.filter_cons, hy]
    by_cases hs : S.contains y = true
    · simp [hs, ih (i + 1) hn.2 htail]
    · simp [hs, ih (i + 1) hn.2 htail]

theorem idxOf_inj_of_mem {l : List Rcpt} {a b : Rcpt} (ha : a ∈ l) (hb : b ∈ l) (h : l.idxOf a = l.idxOf b) : a = b := by
  induction l with
  | nil => simp at ha
  | cons y ys ih =>
    by_cases hya : y = a
    · subst hya
      by_cases hyb : y = b
      · exact hyb
      · rw [List.idxOf_cons_self, idxOf_cons_ne' _ hyb] at h; omega
    · by_cases hyb : y = b
      · subst hyb
        rw [List.idxOf_cons_self, idxOf_cons_ne' _ hya] at h; omega
      · rw [idxOf_cons_ne' _ hya, idxOf_cons_ne' _ hyb] at h
        have ha' : a ∈ ys := by simpa [Ne.symm hya] using ha
        have hb' : b ∈ ys := by simpa [Ne.symm hyb] using hb
        exact ih ha' hb' (by omega)

/-- With distinct recipients, deleting the positions of the settled recipients leaves exactly the
    others, in order. -/
theorem deleteIdxs_eq_filter (l : List Rcpt) (S : List Rcpt) (hn : l.Nodup) (hS : ∀ x ∈ S, x ∈ l) :
    deleteIdxs (S.map l.idxOf) l = l.filter (fun x => !S.contains x) := by
  apply delIdxAux_filter l 0 _ S hn
  intro x hx
  simp only [Nat.zero_add]
  rw [Bool.eq_iff_iff]
  simp only [List.contains_iff_mem, List.mem_map]
  constructor
  · rintro ⟨s, hs, he⟩
    have := idxOf_inj_of_mem (hS s hs) hx he
    subst this; exact hs
  · intro hs; exact ⟨x, hs, rfl⟩

/-! ### per-recipient results partition the recipients -/

def settledOf (res : List (Rcpt × RRes)) : List Rcpt :=
  res.filterMap fun (rc, v) => match v with | .ok | .perm _ => some rc | .temp _ => none
def oksOf (res : List (Rcpt × RRes)) : List Rcpt :=
  res.filterMap fun (rc, v) => match v with | .ok => some rc | _ => none
def permsOf (res : List (Rcpt × RRes)) : List (Rcpt × ReplyId) :=
  res.filterMap fun (rc, v) => match v with | .perm r => some (rc, r) | _ => none
def tempsOf (res : List (Rcpt × RRes)) : List (Rcpt × ReplyId) :=
  res.filterMap fun (rc, v) => match v with | .temp r => some (rc, r) | _ => none

theorem count_partition (x : Rcpt) (res : List (Rcpt × RRes)) :
    (oksOf res).count x + ((permsOf res).map Prod.fst).count x + ((tempsOf res).map Prod.fst).count x
      = (res.map Prod.fst).count x := by
  induction res with
  | nil => rfl
  | cons p rest ih =>
    obtain ⟨rc, v⟩ := p
    cases v <;> simp [oksOf, permsOf, tempsOf, List.filterMap_cons, List.count_cons] at ih ⊢ <;> omega

theorem count_settled (x : Rcpt) (res : List (Rcpt × RRes)) :
    (settledOf res).count x = (oksOf res).count x + ((permsOf res).map Prod.fst).count x := by
  induction res with
  | nil => rfl
  | cons p rest ih =>
    obtain ⟨rc, v⟩ := p
    cases v <;> simp [settledOf, oksOf, permsOf, List.filterMap_cons, List.count_cons] at ih ⊢ <;> omega

theorem deliveredIdx_eq (m : Msg) (res : List (Rcpt × RRes)) :
    (res.filterMap fun (rc, v) => match v with
      | .ok | .perm _ => some (m.rcpts.idxOf rc)
      | .temp _ => none) = (settledOf res).map m.rcpts.idxOf := by
  induction res with
  | nil => rfl
  | cons p rest ih =>
    obtain ⟨rc, v⟩ := p
    cases v <;> simp [settledOf, List.filterMap_cons] at ih ⊢ <;> exact ih

/-! ### one attempt: conservation -/

/-- The per-recipient result covers exactly the recipients of the message, each once. -/
def Complete (m : Msg) (res : List (Rcpt × RRes)) : Prop :=
  (res.map Prod.fst).Nodup ∧ m.rcpts.Nodup ∧ ∀ x, x ∈ res.map Prod.fst ↔ x ∈ m.rcpts

theorem count_eq_of_nodup {a b : List Rcpt} (ha : a.Nodup) (hb : b.Nodup) (h : ∀ x, x ∈ a ↔ x ∈ b) (x : Rcpt) :
    a.count x = b.count x := by
  rw [ha.count, hb.count]
  by_cases hx : x ∈ a
  · simp [hx, (h x).mp hx]
  · have hb' : x ∉ b := fun hb' => hx ((h x).mpr hb')
    simp [hx, hb']

theorem delIdxAux_subset (idxs : List Nat) (i : Nat) (l : List Rcpt) : ∀ x ∈ delIdxAux idxs i l, x ∈ l := by
  induction l generalizing i with
  | nil => simp [delIdxAux]
  | cons y ys ih =>
    intro x hx
    simp only [delIdxAux] at hx
    split at hx
    · exact List.mem_cons_of_mem _ (ih (i + 1) x hx)
    · rcases List.mem_cons.mp hx with rfl | h
      · simp
      · exact List.mem_cons_of_mem _ (ih (i + 1) x h)

theorem settled_subset {m : Msg} {res : List (Rcpt × RRes)} (hc : Complete m res) : ∀ x ∈ settledOf res, x ∈ m.rcpts := by
  intro x hx
  apply (hc.2.2 x).mp
  simp only [settledOf, List.mem_filterMap] at hx
  obtain ⟨p, hp, he⟩ := hx
  obtain ⟨rc, v⟩ := p
  simp only [List.mem_map]
  refine ⟨(rc, v), hp, ?_⟩
  cases v <;> simp at he <;> exact he

/-- What is left in storage after a partial delivery: exactly the recipients that were not settled. -/
theorem remaining_rcpts (m : Msg) (res : List (Rcpt × RRes)) (hc : Complete m res) :
    deleteIdxs (res.filterMap fun (rc, v) => match v with
        | .ok | .perm _ => some (m.rcpts.idxOf rc)
        | .temp _ => none) m.rcpts
      = m.rcpts.filter (fun x => !(settledOf res).contains x) := by
  rw [deliveredIdx_eq, deleteIdxs_eq_filter m.rcpts (settledOf res) hc.2.1 (settled_subset hc)]

theorem count_remaining (m : Msg) (res : List (Rcpt × RRes)) (hc : Complete m res) (x : Rcpt) :
    (m.rcpts.filter (fun y => !(settledOf res).contains y)).count x = ((tempsOf res).map Prod.fst).count x := by
  have hp := count_partition x res
  have hs := count_settled x res
  have hk := count_eq_of_nodup hc.1 hc.2.1 hc.2.2 x
  by_cases hx : x ∈ settledOf res
  · have : 0 < (settledOf res).count x := List.count_pos_iff.mpr hx
    have hle : (res.map Prod.fst).count x ≤ 1 := List.nodup_iff_count.mp hc.1 x
    have hz : (m.rcpts.filter (fun y => !(settledOf res).contains y)).count x = 0 := by
      apply List.count_eq_zero_of_not_mem
      simp [List.mem_filter, hx]
    omega
  · have h0 : (settledOf res).count x = 0 := List.count_eq_zero_of_not_mem hx
    rw [List.count_filter (by simp [hx])]
    omega

/-- **Conservation in one attempt with per-recipient results**: every recipient of the message is
    exactly one of: reported delivered, failed for good, still stored. -/
theorem handlePartial_conserves (cfg : Cfg) (m : Msg) (res : List (Rcpt × RRes)) (hc : Complete m res) (x : Rcpt) :
    (handlePartial cfg m res).delivered.count x + ((handlePartial cfg m res).failed.map Prod.fst).count x
      + (match (handlePartial cfg m res).msg with | some m' => m'.rcpts.count x | none => 0)
      = m.rcpts.count x := by
  have hp := count_partition x res
  have hk := count_eq_of_nodup hc.1 hc.2.1 hc.2.2 x
  have hr := count_remaining m res hc x
  have hd := remaining_rcpts m res hc
  have hunf : handlePartial cfg m res =
      if (tempsOf res).isEmpty then ⟨none, bouncesFor cfg (permsOf res) false, oksOf res, permsOf res, none⟩
      else retryLater cfg m (tempsOf res) (deleteIdxs (res.filterMap fun (rc, v) => match v with
        | .ok | .perm _ => some (m.rcpts.idxOf rc)
        | .temp _ => none) m.rcpts) (bouncesFor cfg (permsOf res) false) (oksOf res) (permsOf res) := rfl
  rw [hunf]
  by_cases ht : (tempsOf res).isEmpty = true
  · have ht0 : ((tempsOf res).map Prod.fst).count x = 0 := by
      have : tempsOf res = [] := by simpa using ht
      simp [this]
    simp only [ht, if_true]
    show (oksOf res).count x + ((permsOf res).map Prod.fst).count x + 0 = _
    omega
  · simp only [ht, Bool.false_eq_true, if_false, retryLater]
    cases cfg.backoff (m.attempts + 1) with
    | none =>
      show (oksOf res).count x + ((permsOf res ++ tempsOf res).map Prod.fst).count x + 0 = _
      simp only [List.map_append, List.count_append]
      omega
    | some w =>
      show (oksOf res).count x + ((permsOf res).map Prod.fst).count x + (deleteIdxs _ m.rcpts).count x = _
      rw [hd, hr]
      omega

/-! ### every outcome; whole histories -/

/-- Per-recipient results cover the message's recipients (the relay contract); recipients are distinct. -/
def CompleteOutcome (m : Msg) : Outcome → Prop
  | .mapping res => Complete m res
  | .sequence l => Complete m (zipDict m.rcpts l [])
  | _ => m.rcpts.Nodup

def restCount (o : StepOut) (x : Rcpt) : Nat := match o.msg with | some m' => m'.rcpts.count x | none => 0

theorem attempt_conserves (cfg : Cfg) (m : Msg) (o : Outcome) (hc : CompleteOutcome m o) (x : Rcpt) :
    (attempt cfg m o).delivered.count x + ((attempt cfg m o).failed.map Prod.fst).count x
      + restCount (attempt cfg m o) x = m.rcpts.count x := by
  cases o with
  | success => simp [attempt, restCount]
  | permanent r => simp [attempt, restCount, List.map_map, Function.comp_def]
  | transient r =>
    simp only [attempt]
    cases cfg.backoff (m.attempts + 1) <;> simp [restCount, List.map_map, Function.comp_def]
  | other r =>
    simp only [attempt]
    cases cfg.backoff (m.attempts + 1) <;> simp [restCount, List.map_map, Function.comp_def]
  | mapping res => exact handlePartial_conserves cfg m res hc x
  | sequence l => exact handlePartial_conserves cfg m _ hc x

theorem handlePartial_subset (cfg : Cfg) (m m' : Msg) (res : List (Rcpt × RRes))
    (h : (handlePartial cfg m res).msg = some m') : ∀ x ∈ m'.rcpts, x ∈ m.rcpts := by
  have hunf : handlePartial cfg m res =
      if (tempsOf res).isEmpty then ⟨none, bouncesFor cfg (permsOf res) false, oksOf res, permsOf res, none⟩
      else retryLater cfg m (tempsOf res) (deleteIdxs (res.filterMap fun (rc, v) => match v with
        | .ok | .perm _ => some (m.rcpts.idxOf rc)
        | .temp _ => none) m.rcpts) (bouncesFor cfg (permsOf res) false) (oksOf res) (permsOf res) := rfl
  rw [hunf] at h
  split at h
  · simp at h
  · simp only [retryLater] at h
    split at h
    · simp at h
    · simp at h
      subst h
      exact delIdxAux_subset _ 0 _

/-- What stays stored after an attempt is part of what was stored before (never a new or an
    already settled recipient). -/
theorem attempt_subset (cfg : Cfg) (m m' : Msg) (o : Outcome) (h : (attempt cfg m o).msg = some m') :
    ∀ x ∈ m'.rcpts, x ∈ m.rcpts := by
  cases o with
  | success => simp [attempt] at h
  | permanent r => simp [attempt] at h
  | transient r =>
    simp only [attempt] at h
    split at h <;> simp at h
    subst h; intro x hx; exact hx
  | other r =>
    simp only [attempt] at h
    split at h <;> simp at h
    subst h; intro x hx; exact hx
  | mapping res => exact handlePartial_subset cfg m m' res h
  | sequence l => exact handlePartial_subset cfg m m' _ h

theorem attempt_nodup (cfg : Cfg) (m m' : Msg) (o : Outcome) (hc : CompleteOutcome m o)
    (h : (attempt cfg m o).msg = some m') : m'.rcpts.Nodup := by
  have hn : m.rcpts.Nodup := by
    cases o <;> first | exact hc | exact hc.2.1
  rw [List.nodup_iff_count]
  intro x
  have := attempt_conserves cfg m o hc x
  simp only [restCount, h] at this
  have hle := List.nodup_iff_count.mp hn x
  omega

/-- The recipients each later attempt is made for. -/
def pres (cfg : Cfg) : Option Msg → List Outcome → List (List Rcpt)
  | none, _ => []
  | some _, [] => []
  | some m, o :: os => m.rcpts :: pres cfg (attempt cfg m o).msg os

def ValidHistory (cfg : Cfg) : Option Msg → List Outcome → Prop
  | none, _ => True
  | some _, [] => True
  | some m, o :: os => CompleteOutcome m o ∧ ValidHistory cfg (attempt cfg m o).msg os

theorem pres_subset (cfg : Cfg) (os : List Outcome) (m : Msg) :
    ∀ l ∈ pres cfg (some m) os, ∀ x ∈ l, x ∈ m.rcpts := by
  induction os generalizing m with
  | nil => simp [pres]
  | cons o rest ih =>
    intro l hl x hx
    simp only [pres, List.mem_cons] at hl
    rcases hl with rfl | hl
    · exact hx
    · cases hm : (attempt cfg m o).msg with
      | none => rw [hm] at hl; simp [pres] at hl
      | some m' =>
        rw [hm] at hl
        exact attempt_subset cfg m m' o hm x (ih m' l hl x hx)

def finalOf (cfg : Cfg) : Option Msg → List Outcome → Option Msg
  | none, _ => none
  | some m, [] => some m
  | some m, o :: os => finalOf cfg (attempt cfg m o).msg os

theorem zipDict_eq (rs : List Rcpt) (vs : List RRes) (acc : List (Rcpt × RRes)) (hn : rs.Nodup)
    (hd : ∀ r ∈ rs, r ∉ acc.map Prod.fst) : zipDict rs vs acc = acc ++ rs.zip vs := by
  induction rs generalizing vs acc with
  | nil => simp [zipDict]
  | cons r rest ih =>
    cases vs with
    | nil => simp [zipDict]
    | cons v vs' =>
      have hr : r ∉ acc.map Prod.fst := hd r (by simp)
      have hany : acc.any (fun p => p.1 == r) = false := by
        simp only [List.any_eq_false, beq_iff_eq]
        intro p hp he
        exact hr (List.mem_map.mpr ⟨p, hp, he⟩)
      simp only [zipDict, hany, Bool.false_eq_true, if_false]
      have hn' := List.nodup_cons.mp hn
      rw [ih vs' (acc ++ [(r, v)]) hn'.2 ?_]
      · simp
      · intro r' hr' hmem
        simp only [List.map_append, List.map_cons, List.map_nil, List.mem_append, List.mem_cons, List.not_mem_nil, or_false] at hmem
        rcases hmem with hmem | rfl
        · exact hd r' (by simp [hr']) hmem
        · exact hn'.1 hr'

/-- **A sequence result of the right length is complete**: the relay contract for relays that answer with a list (one value per
    recipient, in envelope order) over distinct recipients. -/
theorem sequence_complete (m : Msg) (hn : m.rcpts.Nodup) (l : List RRes) (hl : l.length = m.rcpts.length) :
    CompleteOutcome m (.sequence l) := by
  show Complete m (zipDict m.rcpts l [])
  rw [zipDict_eq m.rcpts l [] hn (by simp)]
  have hk : ((m.rcpts.zip l).map Prod.fst) = m.rcpts := by
    rw [List.map_fst_zip]; omega
  simp only [List.nil_append]
  exact ⟨by rw [hk]; exact hn, hn, fun x => by rw [hk]⟩

end Slimta.Attempt
