import Model.Reply
namespace Slimta.Reply
open Slimta

theorem splitLF_append {a l r : Bytes} (x : Bytes) (h : splitLF a = some (l, r)) :
    splitLF (a ++ x) = some (l, r ++ x) := by
  induction a generalizing l with
  | nil => simp [splitLF] at h
  | cons b rest ih =>
    simp only [List.cons_append, splitLF] at h ⊢
    split
    · rename_i hb; simp [hb] at h; simp [h]
    · rename_i hb
      simp [hb] at h
      split at h
      · simp at h
      · rename_i l' r' heq
        simp at h
        obtain ⟨rfl, rfl⟩ := h
        simp [ih heq]

theorem splitLF_noLF (a x : Bytes) (h : ∀ b ∈ a, b ≠ 10) :
    splitLF (a ++ 10 :: x) = some (a ++ [10], x) := by
  induction a with
  | nil => simp [splitLF]
  | cons b rest ih =>
    have hb : b ≠ 10 := h b (by simp)
    simp only [List.cons_append, splitLF]
    simp [hb, ih (fun c hc => h c (by simp [hc]))]

theorem matchLine_append {a c r : Bytes} (x : Bytes) (h : matchLine a = some (c, r)) :
    matchLine (a ++ x) = some (c, r ++ x) := by
  unfold matchLine at h ⊢
  split at h
  · simp at h
  · rename_i l r' heq
    simp at h
    obtain ⟨rfl, rfl⟩ := h
    simp [splitLF_append x heq]

theorem scan_append (code : Option Bytes) (lines : List Bytes) (buf x : Bytes) :
    scan code lines (buf ++ x) =
      match scan code lines buf with
      | .needMore c l b => scan c l (b ++ x)
      | .done c body r => .done c body (r ++ x)
      | .bad r => .bad (r ++ x) := by
  fun_induction scan code lines buf with
  | case1 code lines buf hm => rfl
  | case2 code lines buf c r hm _ hp =>
    have hm' := matchLine_append x hm
    rw [scan]
    split
    · rename_i h; rw [hm'] at h; simp at h
    · rename_i c2 r2 h
      rw [hm'] at h; simp at h; obtain ⟨rfl, rfl⟩ := h
      simp [hp]
  | case3 code lines buf c r hm _ cd sep text hp hc =>
    have hm' := matchLine_append x hm
    rw [scan]
    split
    · rename_i h; rw [hm'] at h; simp at h
    · rename_i c2 r2 h
      rw [hm'] at h; simp at h; obtain ⟨rfl, rfl⟩ := h
      simp [hp, hc]
  | case4 code lines buf c r hm _ cd sep text hp hc hs body hu =>
    have hm' := matchLine_append x hm
    rw [scan]
    split
    · rename_i h; rw [hm'] at h; simp at h
    · rename_i c2 r2 h
      rw [hm'] at h; simp at h; obtain ⟨rfl, rfl⟩ := h
      simp [hp, hc, hs, body, hu]
  | case5 code lines buf c r hm _ cd sep text hp hc hs body hu =>
    have hm' := matchLine_append x hm
    rw [scan]
    split
    · rename_i h; rw [hm'] at h; simp at h
    · rename_i c2 r2 h
      rw [hm'] at h; simp at h; obtain ⟨rfl, rfl⟩ := h
      simp [hp, hc, hs, body, hu]
  | case6 code lines buf c r hm _ cd sep text hp hc hs ih =>
    have hm' := matchLine_append x hm
    rw [scan]
    split
    · rename_i h; rw [hm'] at h; simp at h
    · rename_i c2 r2 h
      rw [hm'] at h; simp at h; obtain ⟨rfl, rfl⟩ := h
      simp [hp, hc, hs, ih]

/-- What `recvLoop` must produce, given the scan of the whole concatenated stream. -/
def Agrees (whole : Scan) (res : Except (Err × Bytes) Result) : Prop :=
  match whole with
  | .done c body rest => ∃ r, res = .ok r ∧ r.code = c ∧ r.body = body ∧ r.recvBuffer ++ r.unread.flatten = rest
  | .bad _ => ∃ rb, res = .error (.badReply, rb)
  | .needMore _ _ _ => ∃ rb, res = .error (.wouldBlock, rb)

theorem recvLoop_spec (segs : List Bytes) (code : Option Bytes) (lines : List Bytes) (buf : Bytes)
    (hne : ∀ s ∈ segs, s ≠ []) :
    Agrees (scan code lines (buf ++ segs.flatten)) (recvLoop code lines buf segs) := by
  induction segs generalizing code lines buf with
  | nil =>
    simp only [List.flatten_nil, List.append_nil, recvLoop]
    cases h : scan code lines buf <;> simp [Agrees]
  | cons seg rest ih =>
    have hseg : seg ≠ [] := hne seg (by simp)
    have hrest : ∀ s ∈ rest, s ≠ [] := fun s hs => hne s (by simp [hs])
    rw [List.flatten_cons, scan_append]
    simp only [recvLoop]
    cases h : scan code lines buf with
    | done c body r => simp [Agrees]
    | bad r => simp [Agrees]
    | needMore c' l' b =>
      simp only [hseg, List.isEmpty_iff, if_false]
      rw [← List.append_assoc]
      exact ih c' l' (b ++ seg) hrest

/-! ### scanning what `send_reply` wrote -/

def IsCode (c : Bytes) : Prop :=
  ∃ d1 d2 d3, c = [d1, d2, d3] ∧ isDigit d1 = true ∧ isDigit d2 = true ∧ isDigit d3 = true

theorem isDigit_ne_lf {d : Byte} (h : isDigit d = true) : d ≠ 10 := by
  intro hd; subst hd; simp [isDigit] at h

theorem stripCR_snoc_cr (a : Bytes) : stripCR (a ++ [13]) = a := by
  simp [stripCR]

theorem matchLine_encoded (content rest : Bytes) (hc : ∀ b ∈ content, b ≠ 10) :
    matchLine (content ++ CRLF ++ rest) = some (content, rest) := by
  have h := splitLF_noLF (content ++ [13]) rest (by
    intro b hb; simp at hb; rcases hb with hb | hb
    · exact hc b hb
    · subst hb; decide)
  have e : content ++ CRLF ++ rest = (content ++ [13]) ++ 10 :: rest := by simp [CRLF]
  rw [e]
  unfold matchLine
  rw [h]
  simp [stripCR_snoc_cr]

theorem parseReplyLine_ok (c : Bytes) (hc : IsCode c) (sep : Byte)
    (hs : sep = 32 ∨ sep = 9 ∨ sep = 45) (text : Bytes) :
    parseReplyLine (c ++ [sep] ++ text) = some (c, sep, text) := by
  obtain ⟨d1, d2, d3, rfl, h1, h2, h3⟩ := hc
  rcases hs with rfl | rfl | rfl <;> simp [parseReplyLine, h1, h2, h3]

theorem code_noLF (c : Bytes) (hc : IsCode c) : ∀ b ∈ c, b ≠ 10 := by
  obtain ⟨d1, d2, d3, rfl, h1, h2, h3⟩ := hc
  intro b hb
  simp at hb
  rcases hb with rfl | rfl | rfl
  · exact isDigit_ne_lf h1
  · exact isDigit_ne_lf h2
  · exact isDigit_ne_lf h3

/-- One unfolding of `scan` on a buffer that starts with a complete CRLF-terminated line. -/
theorem scan_step (code : Option Bytes) (lines : List Bytes) (line rest : Bytes)
    (hl : ∀ b ∈ line, b ≠ 10) :
    scan code lines (line ++ CRLF ++ rest) =
      match parseReplyLine line with
      | none => .bad rest
      | some (cd, sep, text) =>
        if code.isSome && code != some cd then .bad (line ++ CRLF ++ rest)
        else if sep != 45 then
          (if utf8Ok (joinCRLF (lines ++ [text])) && codeOk cd then .done cd (joinCRLF (lines ++ [text])) rest
           else .bad rest)
        else scan (some cd) (lines ++ [text]) rest := by
  have hm := matchLine_encoded line rest hl
  rw [scan]
  split
  · rename_i h; rw [hm] at h; simp at h
  · rename_i c r h
    rw [hm] at h
    have h1 : line = c := by simpa using congrArg (fun o => o.map Prod.fst) h
    have h2 : rest = r := by simpa using congrArg (fun o => o.map Prod.snd) h
    subst h1 h2
    rfl

theorem scan_encodeLines (c : Bytes) (hc : IsCode c) (hk : codeOk c = true) (L : List Bytes) (hL : L ≠ [])
    (acc : List Bytes) (code? : Option Bytes) (hcode : code? = none ∨ code? = some c)
    (hlf : ∀ l ∈ L, ∀ b ∈ l, b ≠ 10) (hu : utf8Ok (joinCRLF (acc ++ L)) = true) (next : Bytes) :
    scan code? acc (encodeLines c L ++ next) = .done c (joinCRLF (acc ++ L)) next := by
  induction L generalizing acc code? with
  | nil => exact absurd rfl hL
  | cons l rest ih =>
    have hl : ∀ b ∈ l, b ≠ 10 := hlf l (by simp)
    have hcheck : (code?.isSome && code? != some c) = false := by
      rcases hcode with rfl | rfl <;> simp
    cases rest with
    | nil =>
      have hline : ∀ b ∈ c ++ [32] ++ l, b ≠ 10 := by
        intro b hb; simp at hb
        rcases hb with hb | hb | hb
        · exact code_noLF c hc b hb
        · subst hb; decide
        · exact hl b hb
      have hm := matchLine_encoded (c ++ [32] ++ l) next hline
      rw [scan]
      simp only [encodeLines]
      split
      · rename_i h; rw [hm] at h; simp at h
      · rename_i c2 r2 h
        rw [hm] at h; simp at h; obtain ⟨rfl, rfl⟩ := h
        have hp : parseReplyLine (c ++ 32 :: l) = some (c, 32, l) := by
          simpa using parseReplyLine_ok c hc 32 (by simp) l
        simp [hp, hcheck, hu, hk]
    | cons l2 rest2 =>
      have hline : ∀ b ∈ c ++ [45] ++ l, b ≠ 10 := by
        intro b hb; simp at hb
        rcases hb with hb | hb | hb
        · exact code_noLF c hc b hb
        · subst hb; decide
        · exact hl b hb
      have hm := matchLine_encoded (c ++ [45] ++ l) (encodeLines c (l2 :: rest2) ++ next) hline
      have e : encodeLines c (l :: l2 :: rest2) ++ next
          = c ++ [45] ++ l ++ CRLF ++ (encodeLines c (l2 :: rest2) ++ next) := by
        simp [encodeLines]
      rw [scan, e]
      split
      · rename_i h; rw [hm] at h; simp at h
      · rename_i c2 r2 h
        rw [hm] at h; simp at h; obtain ⟨rfl, rfl⟩ := h
        have hp : parseReplyLine (c ++ 45 :: l) = some (c, 45, l) := by
          simpa using parseReplyLine_ok c hc 45 (by simp) l
        simp only [hp, hcheck]
        simp only [bne_self_eq_false, Bool.false_eq_true, if_false]
        have := ih (by simp) (acc ++ [l]) (some c) (Or.inr rfl)
          (fun x hx => hlf x (by simp [hx])) (by simpa using hu)
        simpa using this

/-! ### lines of a message; CRLF normalisation -/

theorem splitLF_some_spec {p l r : Bytes} (h : splitLF p = some (l, r)) :
    ∃ a, l = a ++ [10] ∧ (∀ b ∈ a, b ≠ 10) ∧ p = l ++ r := by
  induction p generalizing l with
  | nil => simp [splitLF] at h
  | cons b rest ih =>
    simp only [splitLF] at h
    split at h
    · rename_i hb; simp at h hb; obtain ⟨rfl, rfl⟩ := h
      exact ⟨[], by simp [hb], by simp, by simp⟩
    · rename_i hb
      split at h
      · simp at h
      · rename_i l' r' heq
        simp at h; obtain ⟨rfl, rfl⟩ := h
        obtain ⟨a, rfl, ha, hp⟩ := ih heq
        refine ⟨b :: a, by simp, ?_, by simp [hp]⟩
        intro x hx; simp at hx hb
        rcases hx with rfl | hx
        · exact hb
        · exact ha x hx

theorem splitLF_none_spec {p : Bytes} (h : splitLF p = none) : ∀ b ∈ p, b ≠ 10 := by
  induction p with
  | nil => simp
  | cons b rest ih =>
    simp only [splitLF] at h
    split at h
    · simp at h
    · rename_i hb
      split at h
      · rename_i hr
        intro x hx; simp at hx hb
        rcases hx with rfl | hx
        · exact hb
        · exact ih hr x hx
      · simp at h

theorem mem_stripCR {x : Bytes} {b : Byte} (h : b ∈ stripCR x) : b ∈ x := by
  unfold stripCR at h
  split at h
  · exact List.dropLast_subset _ h
  · exact h

theorem allLines_noLF (m : Bytes) : ∀ l ∈ allLines m, ∀ b ∈ l, b ≠ 10 := by
  fun_induction allLines m with
  | case1 m h => simp
  | case2 m c r h _ ih =>
    intro l hl
    simp at hl
    rcases hl with rfl | hl
    · unfold matchLine at h
      split at h
      · simp at h
      · rename_i l' r' heq
        simp at h; obtain ⟨rfl, rfl⟩ := h
        obtain ⟨a, rfl, ha, _⟩ := splitLF_some_spec heq
        intro b hb
        have := mem_stripCR hb
        simp at this
        exact ha b this
    · exact ih l hl

theorem allLines_nil : allLines [] = [] := by
  rw [allLines]; split
  · rfl
  · rename_i h; simp [matchLine, splitLF] at h

theorem normGo_noLF (a : Bytes) (ha : ∀ b ∈ a, b ≠ 10) (f : Bool) (x : Bytes) :
    normGo f (a ++ x) = a ++ normGo (if a = [] then f else a.getLast? == some 13) x := by
  induction a generalizing f with
  | nil => simp
  | cons b rest ih =>
    have hb : b ≠ 10 := ha b (by simp)
    simp only [List.cons_append, normGo]
    simp only [show (b == 10) = false by simp [hb], Bool.false_eq_true, if_false]
    rw [ih (fun c hc => ha c (by simp [hc]))]
    cases rest with
    | nil => simp
    | cons r0 rs => simp [List.getLast?_cons_cons]

theorem stripCR_crlf (a : Bytes) :
    stripCR a ++ CRLF = a ++ (if (if a = [] then false else a.getLast? == some 13) = true then [10] else [13, 10]) := by
  unfold stripCR
  cases hl : a.getLast? with
  | none =>
    have : a = [] := by simpa using hl
    subst this; simp [CRLF]
  | some v =>
    have hne : a ≠ [] := by intro h; subst h; simp at hl
    by_cases hv : v = 13
    · subst hv
      obtain ⟨a', rfl⟩ := List.getLast?_eq_some_iff.mp hl
      simp [CRLF]
    · simp [hne, hv, CRLF]

theorem allLines_crlf_ne_nil (r : Bytes) : allLines (r ++ CRLF) ≠ [] := by
  intro hnil
  cases hr : splitLF (r ++ CRLF) with
  | none =>
    have := splitLF_none_spec hr 10 (by simp [CRLF])
    exact this rfl
  | some lr2 =>
    obtain ⟨l2, r3⟩ := lr2
    rw [allLines] at hnil
    split at hnil
    · rename_i h; simp [matchLine, hr] at h
    · simp at hnil

theorem joinCRLF_allLines (m : Bytes) : joinCRLF (allLines (m ++ CRLF)) = normCRLF m := by
  induction hn : m.length using Nat.strongRecOn generalizing m with
  | _ n ih =>
    subst hn
    cases hs : splitLF m with
    | none =>
      have hm := splitLF_none_spec hs
      have h1 : matchLine (m ++ CRLF ++ []) = some (m, []) := matchLine_encoded m [] hm
      simp only [List.append_nil] at h1
      rw [allLines]
      split
      · rename_i h; rw [h1] at h; simp at h
      · rename_i c r h
        rw [h1] at h; simp at h; obtain ⟨rfl, rfl⟩ := h
        rw [allLines_nil]
        have := normGo_noLF m hm false []
        simp [normGo] at this
        simp [joinCRLF, normCRLF, this]
    | some lr =>
      obtain ⟨l, r⟩ := lr
      obtain ⟨a, rfl, ha, hm⟩ := splitLF_some_spec hs
      have hlen : r.length < m.length := splitLF_length hs
      have h1 : matchLine (m ++ CRLF) = some (stripCR a, r ++ CRLF) := by
        unfold matchLine
        rw [splitLF_append CRLF hs]
        simp
      rw [allLines]
      split
      · rename_i h; rw [h1] at h; simp at h
      · rename_i c r2 h
        rw [h1] at h; simp at h; obtain ⟨rfl, rfl⟩ := h
        have ihr := ih r.length hlen r rfl
        -- the tail list is non-empty, so `joinCRLF` puts a CRLF after the first line
        have hne : allLines (r ++ CRLF) ≠ [] := by
          intro hnil
          rw [hnil] at ihr
          cases hr : splitLF (r ++ CRLF) with
          | none =>
            have := splitLF_none_spec hr 10 (by simp [CRLF])
            exact this rfl
          | some lr2 =>
            obtain ⟨l2, r3⟩ := lr2
            rw [allLines] at hnil
            split at hnil
            · rename_i h; simp [matchLine, hr] at h
            · simp at hnil
        obtain ⟨y, ys, hy⟩ := List.exists_cons_of_ne_nil hne
        rw [hy, joinCRLF, ← hy, ihr]
        · subst hm
          unfold normCRLF
          have := normGo_noLF a ha false (10 :: r)
          simp only [List.append_assoc, List.cons_append, List.nil_append] at this ⊢
          rw [this, normGo]
          simp only [beq_self_eq_true, if_true]
          rw [← List.append_assoc, stripCR_crlf a]
          simp
        · intro h; simp at h

end Slimta.Reply
