import Model.Timeouts
/-!
# C14 — no peer can hold a session or delivery attempt beyond its configured timeouts

Theorems over `Model/Timeouts.lean`, for every behaviour of the peer (any gaps between the pieces
a step needs, any number of pieces, pieces that never come): a scoped wait ends within its
limit; a sequence of allScoped waits never hangs, ends within the sum of the limits, and when it is
cut, the time since the last completed step is exactly the limit of the step that was cut; every
blocking step in the code's table has a scope.
-/
namespace Slimta.C14
open Slimta.Timeouts

theorem runWait_scoped (c : Cfg) (w : Wait) (T : Nat) (h : limit c w.scope = some T) :
    (∃ n, runWait c w = .done n ∧ n ≤ T ∧ need w.gaps = some n) ∨ runWait c w = .timedOut T := by
  unfold runWait
  rw [h]
  cases hn : need w.gaps with
  | none => right; rfl
  | some n =>
    by_cases hle : n ≤ T
    · left; exact ⟨n, by simp [hle], hle, rfl⟩
    · right; simp [hle]

/-- **The data timeout is cumulative** (and so is the command timeout over the assembly of one
    line): however many pieces the peer sends and however it spaces them, a wait in a scope lasts at
    most the scope's limit. -/
theorem wait_bounded (c : Cfg) (w : Wait) (T : Nat) (h : limit c w.scope = some T) :
    match runWait c w with
    | .done n => n ≤ T
    | .timedOut n => n = T
    | .hung => False := by
  rcases runWait_scoped c w T h with ⟨n, hr, hle, _⟩ | hr <;> simp [hr]
  exact hle

theorem need_replicate (g k : Nat) : need (List.replicate k (some g)) = some (k * g) := by
  induction k with
  | zero => simp [need]
  | succ n ih => simp [List.replicate_succ, need, ih, Nat.succ_mul, Nat.add_comm]

/-- **Steady is not enough**: a peer that delivers everything the step needs, each piece well within the limit (`g ≤ T`), but
    takes longer than the limit in all (`k * g > T`), is cut at the limit — the step does not complete, however small `g` is. (The
    correspondence runs exactly this: a command / a message in pieces a third / a quarter of the timeout apart, twice the timeout
    in all.) -/
theorem steady_but_slow_is_cut (c : Cfg) (s : Scope) (T g k : Nat) (h : limit c s = some T) (hslow : T < k * g) :
    runWait c { scope := s, gaps := List.replicate k (some g) } = .timedOut T := by
  unfold runWait
  simp only [h, need_replicate]
  simp [Nat.not_le.mpr hslow]

example : runWait { command := 80, data := 200, connect := 80, single := 80 } { scope := .data, gaps := List.replicate 8 (some 50) }
    = .timedOut 200 := by decide

def allScoped (ws : List Wait) : Prop := ∀ w ∈ ws, w.scope ≠ .unscoped

theorem limit_of_scoped (c : Cfg) (s : Scope) (h : s ≠ .unscoped) : ∃ T, limit c s = some T := by
  cases s <;> simp [limit] at h ⊢

def budget (c : Cfg) : List Wait → Nat
  | [] => 0
  | w :: ws => (limit c w.scope).getD 0 + budget c ws

/-- **No hang, bounded total**: a sequence of allScoped waits, against any peer, ends — completed or
    cut by a timeout — within the sum of the limits. -/
theorem session_bounded (c : Cfg) (k : Nat) (ws : List Wait) (h : allScoped ws) :
    (∀ j, (runAll c k ws).2 ≠ .hung j) ∧ (runAll c k ws).1 ≤ budget c ws := by
  induction ws generalizing k with
  | nil => simp [runAll, budget]
  | cons w ws ih =>
    obtain ⟨T, hT⟩ := limit_of_scoped c w.scope (h w (by simp))
    have ih' := ih (k + 1) (fun x hx => h x (by simp [hx]))
    simp only [runAll, budget, hT, Option.getD_some]
    rcases runWait_scoped c w T hT with ⟨n, hr, hle, _⟩ | hr
    · simp only [hr]
      refine ⟨ih'.1, ?_⟩
      have := ih'.2
      omega
    · simp only [hr]
      exact ⟨by simp, by omega⟩

/-- **Cut exactly at the limit of the stalled step**: when the sequence ends by a timeout at
    step `j`, the time since the last completed step is that step's own limit — the command timeout
    after the last completed command, the data timeout for the DATA phase. -/
theorem cut_at_own_limit (c : Cfg) (k : Nat) (ws : List Wait) (j n : Nat) (h : (runAll c k ws).2 = .timedOut j n) :
    k ≤ j ∧ ∃ w, ws[j - k]? = some w ∧ limit c w.scope = some n := by
  induction ws generalizing k with
  | nil => simp [runAll] at h
  | cons w ws ih =>
    simp only [runAll] at h
    cases hr : runWait c w with
    | done m =>
      simp only [hr] at h
      obtain ⟨hk, w', hw', hl⟩ := ih (k + 1) h
      refine ⟨by omega, w', ?_, hl⟩
      have : j - k = (j - (k + 1)) + 1 := by omega
      rw [this, List.getElem?_cons_succ]; exact hw'
    | timedOut m =>
      simp only [hr, Ending.timedOut.injEq] at h
      obtain ⟨rfl, rfl⟩ := h
      refine ⟨Nat.le_refl _, w, by simp, ?_⟩
      unfold runWait at hr
      cases hl : limit c w.scope with
      | none => cases hn : need w.gaps <;> simp [hl, hn] at hr
      | some T =>
        cases hn : need w.gaps with
        | none => simp [hl, hn] at hr; rw [hr]
        | some x =>
          simp only [hl, hn] at hr
          split at hr <;> simp at hr
          rw [hr]
    | hung => simp [hr] at h

/-- The printed table (`timeouts table`, which the source-extracted table is compared with on every run) lists every stage. -/
theorem all_stages_listed : (∀ st : ServerStage, st ∈ allServerStages) ∧ (∀ st : RelayStage, st ∈ allRelayStages) := by
  constructor <;> intro st <;> cases st <;> simp [allServerStages, allRelayStages]

theorem other_every_block_scoped (st : OtherStage) : otherScope st ≠ .unscoped := by
  cases st <;> simp [otherScope]

/-- **Every blocking step of a server session has a scope**: the wait for a command, the DATA
    phase, the wait for an AUTH response, both TLS handshakes, and the closing of the session. -/
theorem server_every_block_scoped (st : ServerStage) : serverScope st ≠ .unscoped := by
  cases st <;> simp [serverScope]

/-- **Every blocking step of a relay attempt has a scope.** -/
theorem relay_every_block_scoped (st : RelayStage) : relayScope st ≠ .unscoped := by
  cases st <;> simp [relayScope]

/-- A server session against any peer: whatever stages it goes through and whatever the peer does
    in each, it never hangs and lasts at most the sum of the limits of its steps. -/
theorem server_session_bounded (c : Cfg) (steps : List (ServerStage × List (Option Nat))) :
    let ws := steps.map fun s => ({ scope := serverScope s.1, gaps := s.2 } : Wait)
    (∀ j, (runAll c 0 ws).2 ≠ .hung j) ∧ (runAll c 0 ws).1 ≤ budget c ws := by
  intro ws
  apply session_bounded
  intro w hw
  obtain ⟨s, _, rfl⟩ := List.mem_map.mp hw
  exact server_every_block_scoped s.1

theorem relay_attempt_bounded (c : Cfg) (steps : List (RelayStage × List (Option Nat))) :
    let ws := steps.map fun s => ({ scope := relayScope s.1, gaps := s.2 } : Wait)
    (∀ j, (runAll c 0 ws).2 ≠ .hung j) ∧ (runAll c 0 ws).1 ≤ budget c ws := by
  intro ws
  apply session_bounded
  intro w hw
  obtain ⟨s, _, rfl⟩ := List.mem_map.mp hw
  exact relay_every_block_scoped s.1

/-- What an unscoped wait means: a peer that never sends hangs it (this is what each of the
    repaired defects was). -/
theorem unscoped_can_hang (c : Cfg) : runWait c { scope := .unscoped, gaps := [none] } = .hung := rfl

/-! Non-vacuity -/
example : runAll { command := 80, data := 200, connect := 80, single := 80 } 0
    [{ scope := .command, gaps := [some 10] }, { scope := .data, gaps := [some 50, some 50, some 50, some 50, none] }] =
    (210, .timedOut 1 200) := by decide

end Slimta.C14
