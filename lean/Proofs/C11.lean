import Model.Relay
import Model.Mx
import Model.RelaySession
/-!
# C11 — a relay reports success only for recipients the next hop accepted

Property theorems over `Model/Relay.lean`: one delivery attempt of the SMTP/LMTP relay client
against *every* downstream script, and the result classification of the pipe and HTTP relays.
"Always a result or a relay error" is built into the result type (`Result`), the theorems show
that the success class never appears where it must not.
-/
namespace Slimta.C11
open Slimta.Relay

/-- The class reported for recipient `i`. -/
def clsOf : Result → Nat → Option Cls
  | .table l, i => l[i]?
  | .raised c, _ => some c

/-- **A whole-message failure keeps every recipient's own class** whenever the failure's class is itself among the classes the
    recipients end up with — i.e. somebody had no reply of his own (and gets the failure's), or the failure IS a recipient's reply
    (every RCPT refused): these are all the failures of a transaction whose MAIL was accepted (`checkReplies_keeps_own` below).
    (When MAIL itself is refused and the pipelined RCPTs are all answered with the other kind, `_fail` raises the MAIL failure for
    everybody: `fail_sender_refused_example`.) -/
theorem fail_keeps_own (own : List (Option Cls)) (e : Cls) (i : Nat) (c : Cls) (h : own[i]? = some (some c))
    (hc : c ≠ .ok) (he : e ≠ .ok) (hmem : e ∈ own.map fun o => o.getD e) :
    clsOf (fail own e) i = some c := by
  have hcm : c ∈ own.map fun o => o.getD e := by
    have : (own.map fun o => o.getD e)[i]? = some c := by simp [List.getElem?_map, h]
    exact List.mem_of_getElem? this
  simp only [fail]
  split
  · rename_i hall
    simp only [clsOf, Option.some.injEq]
    simp only [Bool.or_eq_true, List.all_eq_true] at hall
    rcases hall with hp | hn
    · have h1 := hp c hcm; have h2 := hp e hmem
      simp at h1 h2; rw [h1, h2]
    · have h1 := hn c hcm; have h2 := hn e hmem
      cases c <;> cases e <;> simp_all
  · simp [clsOf, List.getElem?_map, h]

/-- what `_fail` does when the sender was refused and every pipelined RCPT got the other kind of reply -/
theorem fail_sender_refused_example : fail [some .temp] .perm = .raised .perm ∧ fail [some .perm, some .perm] .temp = .raised .temp ∧
    fail [some .temp, some .perm] .perm = .table [.temp, .perm] := by decide

theorem fail_not_ok (own : List (Option Cls)) (e : Cls) (he : e ≠ .ok) (hown : ∀ o ∈ own, o ≠ some .ok) (i : Nat) :
    clsOf (fail own e) i ≠ some .ok := by
  simp only [fail]
  split
  · simp [clsOf, he]
  · simp only [clsOf, List.getElem?_map]
    cases h : own[i]? with
    | none => simp
    | some o =>
      cases o with
      | none => simp [he]
      | some c =>
        have := hown (some c) (List.mem_of_getElem? h)
        simp at this ⊢; exact this

theorem factory_not_ok (c : Nat) : factory c ≠ .ok := by
  simp only [factory]; split <;> simp

theorem ownClasses_not_ok (rcpts : List Nat) : ∀ o ∈ ownClasses rcpts, o ≠ some .ok := by
  intro o ho
  simp only [ownClasses, List.mem_map] at ho
  obtain ⟨c, _, rfl⟩ := ho
  split
  · simp [factory_not_ok]
  · simp

theorem readCode_some {o : Out} {c : Nat} (h : readCode o = some c) : o = .code c := by
  cases o <;> simp [readCode] at h
  subst h; rfl

theorem readCodes_some {outs : List Out} {cs : List Nat} (h : readCodes outs = some cs) :
    outs = cs.map Out.code := by
  induction outs generalizing cs with
  | nil => simp [readCodes] at h; subst h; rfl
  | cons o rest ih =>
    simp only [readCodes] at h
    split at h
    · rename_i c cs' h1 h2
      simp at h; subst h
      simp [readCode_some h1, ih h2]
    · simp at h

theorem checkReplies_inr {mail data : Nat} {rcpts : List Nat} {per : List Cls}
    (h : checkReplies mail rcpts data = .inr per) :
    isError mail = false ∧ isError data = false ∧ per = rcpts.map fun c => if isError c then factory c else .ok := by
  simp only [checkReplies] at h
  split at h
  · simp at h
  · split at h
    · simp at h
    · split at h
      · simp at h
      · rename_i h1 _ h3
        simp at h
        exact ⟨by simpa using h1, by simpa using h3, h.symm⟩

theorem checkReplies_inl_not_ok {mail data : Nat} {rcpts : List Nat} {r : Result}
    (h : checkReplies mail rcpts data = .inl r) (i : Nat) : clsOf r i ≠ some .ok := by
  simp only [checkReplies] at h
  split at h
  · simp at h; subst h; exact fail_not_ok _ _ (factory_not_ok _) (ownClasses_not_ok _) i
  · split at h
    · simp at h; subst h; exact fail_not_ok _ _ (factory_not_ok _) (ownClasses_not_ok _) i
    · split at h
      · simp at h; subst h; exact fail_not_ok _ _ (factory_not_ok _) (ownClasses_not_ok _) i
      · simp at h

/-- **An accepted sender: a refused recipient keeps the class of its own reply** through any failure of the transaction (every
    recipient refused, DATA refused): 4xx stays "try again later", 5xx stays "failed for good". -/
theorem checkReplies_keeps_own {mail data : Nat} {rcpts : List Nat} {r : Result} (hm : isError mail = false)
    (h : checkReplies mail rcpts data = .inl r) (i : Nat) (c : Nat) (hc : rcpts[i]? = some c) (he : isError c = true) :
    clsOf r i = some (factory c) := by
  have hown : (ownClasses rcpts)[i]? = some (some (factory c)) := by simp [ownClasses, List.getElem?_map, hc, he]
  simp only [checkReplies, hm, Bool.false_eq_true, if_false] at h
  split at h
  · rename_i hall
    simp only [Sum.inl.injEq] at h; subst h
    apply fail_keeps_own _ _ i _ hown (factory_not_ok _) (factory_not_ok _)
    -- the failure is the first recipient's own reply
    cases hr : rcpts with
    | nil => simp [hr] at hc
    | cons c0 rest =>
      have h0 : isError c0 = true := by
        have := List.all_eq_true.mp hall c0 (by simp [hr])
        exact this
      simp [ownClasses, h0]
  · rename_i hnall
    split at h
    · simp only [Sum.inl.injEq] at h; subst h
      apply fail_keeps_own _ _ i _ hown (factory_not_ok _) (factory_not_ok _)
      -- somebody was accepted: he gets the failure's class
      have : ∃ x ∈ rcpts, isError x = false := by
        by_cases hx : ∃ x ∈ rcpts, isError x = false
        · exact hx
        · exfalso; apply hnall
          simp only [not_exists, not_and, Bool.not_eq_false] at hx
          exact List.all_eq_true.mpr hx
      obtain ⟨x, hxm, hxe⟩ := this
      exact List.mem_map.mpr ⟨none, by
        simp only [ownClasses, List.mem_map]
        exact ⟨x, hxm, by simp [hxe]⟩, rfl⟩
    · simp at h

theorem readCodes_map_code (cs : List Nat) : readCodes (cs.map Out.code) = some cs := by
  induction cs with
  | nil => rfl
  | cons c rest ih => simp [readCodes, readCode, ih]

/-- **An accepted sender and a next hop that answers everything: a refused recipient ends with the class of its own reply**, whatever
    becomes of the rest of the transaction (every recipient refused, DATA refused, the message refused after the data, or the others
    delivered): RCPT 4xx is "try again later" for that recipient, RCPT 5xx is "failed for good" — SMTP, with and without PIPELINING. -/
theorem deliver_keeps_own_class (cfg : Cfg) (hl : cfg.lmtp = false) (s : Script) (mail data eod : Nat) (rc : List Nat)
    (hm : s.mail = .code mail) (hr : s.rcpts = rc.map .code) (hd : s.data = .code data) (he : s.eod = .code eod)
    (hconv : ((!s.eightBit && cfg.body8bit && !cfg.hasEncoder) || (cfg.utf8Addr && !s.smtputf8)) = false)
    (hmail : isError mail = false) (i : Nat) (c : Nat) (hc : rc[i]? = some c) (hce : isError c = true) :
    clsOf (deliver cfg s) i = some (factory c) := by
  simp only [deliver, hconv, Bool.false_eq_true, if_false, hm, readCode, hmail, Bool.and_false, hr, readCodes_map_code, hd, hl, he]
  cases hcr : checkReplies mail rc data with
  | inl r => exact checkReplies_keeps_own hmail hcr i c hc hce
  | inr per =>
    obtain ⟨_, _, hper⟩ := checkReplies_inr hcr
    simp only
    have hown : (ownClasses rc)[i]? = some (some (factory c)) := by simp [ownClasses, List.getElem?_map, hc, hce]
    split
    · -- the message was refused after the data: `_fail` with somebody who had been accepted
      apply fail_keeps_own _ _ i _ hown (factory_not_ok _) (factory_not_ok _)
      have hnall : ¬ (rc.all isError = true) := by
        intro hall
        simp only [checkReplies, hmail, Bool.false_eq_true, if_false, hall, if_true] at hcr
        simp at hcr
      have : ∃ x ∈ rc, isError x = false := by
        by_cases hx : ∃ x ∈ rc, isError x = false
        · exact hx
        · exfalso; apply hnall
          simp only [not_exists, not_and, Bool.not_eq_false] at hx
          exact List.all_eq_true.mpr hx
      obtain ⟨x, hxm, hxe⟩ := this
      exact List.mem_map.mpr ⟨none, by
        simp only [ownClasses, List.mem_map]
        exact ⟨x, hxm, by simp [hxe]⟩, rfl⟩
    · simp [clsOf, hper, List.getElem?_map, hc, hce]

theorem mergeLmtp_keeps_refused (per : List Cls) (es : List Nat) (i : Nat) (p : Cls) (h : per[i]? = some p) (hp : p ≠ .ok) :
    (mergeLmtp per es)[i]? = some p := by
  induction per generalizing i es with
  | nil => simp at h
  | cons q qs ih =>
    cases i with
    | zero =>
      simp only [List.getElem?_cons_zero, Option.some.injEq] at h; subst h
      cases q with
      | ok => exact absurd rfl hp
      | perm => cases es <;> simp [mergeLmtp]
      | temp => cases es <;> simp [mergeLmtp]
    | succ n =>
      simp only [List.getElem?_cons_succ] at h
      cases q with
      | ok => cases es with
        | nil => simp [mergeLmtp, ih [] n h]
        | cons e rest => simp [mergeLmtp, ih rest n h]
      | perm => cases es <;> simp [mergeLmtp, ih _ n h]
      | temp => cases es <;> simp [mergeLmtp, ih _ n h]

theorem accepted_count (rc : List Nat) :
    ((rc.map fun c => if isError c then factory c else Cls.ok).filter (· == .ok)).length = (rc.filter fun c => !isError c).length := by
  induction rc with
  | nil => rfl
  | cons x xs ih =>
    by_cases hx : isError x = true
    · have hf : (factory x == Cls.ok) = false := by
        have := factory_not_ok x
        cases hfx : factory x <;> simp_all
      simp [List.filter_cons, hx, hf, ih]
    · simp only [Bool.not_eq_true] at hx
      simp [List.filter_cons, hx, ih]

/-- **LMTP: the same** — a recipient refused at RCPT time keeps the class of that reply, whatever the per-recipient end-of-data
    replies of the others are (they are dealt out to the accepted recipients only). -/
theorem deliver_keeps_own_class_lmtp (cfg : Cfg) (hl : cfg.lmtp = true) (s : Script) (mail data : Nat) (rc eods : List Nat)
    (hm : s.mail = .code mail) (hr : s.rcpts = rc.map .code) (hd : s.data = .code data)
    (he : s.eodPer.take ((rc.filter fun c => !isError c).length) = eods.map .code)
    (hconv : ((!s.eightBit && cfg.body8bit && !cfg.hasEncoder) || (cfg.utf8Addr && !s.smtputf8)) = false)
    (hmail : isError mail = false) (i : Nat) (c : Nat) (hc : rc[i]? = some c) (hce : isError c = true) :
    clsOf (deliver cfg s) i = some (factory c) := by
  simp only [deliver, hconv, Bool.false_eq_true, if_false, hm, readCode, hmail, Bool.and_false, hr, readCodes_map_code, hd, hl]
  cases hcr : checkReplies mail rc data with
  | inl r => exact checkReplies_keeps_own hmail hcr i c hc hce
  | inr per =>
    obtain ⟨_, _, hper⟩ := checkReplies_inr hcr
    simp only [if_true]
    have hlen : (per.filter (· == .ok)).length = (rc.filter fun c => !isError c).length := by
      rw [hper]; exact accepted_count rc
    rw [hlen, he, readCodes_map_code]
    simp only [clsOf]
    apply mergeLmtp_keeps_refused _ _ i _ _ (factory_not_ok c)
    simp [hper, List.getElem?_map, hc, hce]

/-- **SMTP: delivered only if accepted.** If recipient `i` is reported delivered, the script gave
    a well-formed, non-error reply to its RCPT, to MAIL, to DATA and to the message data. -/
theorem smtp_delivered_only_if_accepted (cfg : Cfg) (hl : cfg.lmtp = false) (s : Script) (i : Nat)
    (hi : clsOf (deliver cfg s) i = some .ok) :
    (∃ c, s.rcpts[i]? = some (.code c) ∧ isError c = false) ∧ (∃ c, s.eod = .code c ∧ isError c = false) ∧
    (∃ c, s.data = .code c ∧ isError c = false) ∧ (∃ c, s.mail = .code c ∧ isError c = false) := by
  simp only [deliver] at hi
  split at hi
  · simp [clsOf] at hi
  · cases hm : readCode s.mail with
    | none => simp [hm, clsOf] at hi
    | some mail =>
      simp only [hm] at hi
      split at hi
      · simp [clsOf] at hi; exact absurd hi (factory_not_ok _)
      · cases hrc : readCodes s.rcpts with
        | none => simp [hrc, clsOf] at hi
        | some rcpts =>
          simp only [hrc] at hi
          cases hd : readCode s.data with
          | none => simp [hd, clsOf] at hi
          | some data =>
            simp only [hd] at hi
            cases hc : checkReplies mail rcpts data with
            | inl r => simp only [hc] at hi; exact absurd hi (checkReplies_inl_not_ok hc i)
            | inr per =>
              simp only [hc, hl, Bool.false_eq_true, if_false] at hi
              obtain ⟨hmail, hdata, hper⟩ := checkReplies_inr hc
              cases he : readCode s.eod with
              | none => simp [he, clsOf] at hi
              | some e =>
                simp only [he] at hi
                split at hi
                · exact absurd hi (fail_not_ok _ _ (factory_not_ok _) (ownClasses_not_ok _) i)
                · rename_i hne
                  simp only [clsOf] at hi
                  rw [hper, List.getElem?_map] at hi
                  cases hri : rcpts[i]? with
                  | none => simp [hri] at hi
                  | some c =>
                    simp only [hri, Option.map_some, Option.some.injEq] at hi
                    have hce : isError c = false := by
                      cases hx : isError c with
                      | false => rfl
                      | true => simp [hx] at hi; exact absurd hi (factory_not_ok _)
                    refine ⟨⟨c, ?_, hce⟩, ⟨e, readCode_some he, by simpa using hne⟩, ⟨data, readCode_some hd, hdata⟩,
                      ⟨mail, readCode_some hm, hmail⟩⟩
                    rw [readCodes_some hrc, List.getElem?_map, hri]; rfl

/-- A handshake that does not complete ends the attempt with a failure class. -/
theorem mustSucceed_not_ok {o : Out} {r : Result} (h : mustSucceed o = some r) : ∃ c, r = .raised c ∧ c ≠ .ok := by
  simp only [mustSucceed] at h
  split at h
  · simp at h; exact ⟨.temp, h.symm, by simp⟩
  · split at h
    · simp at h; exact ⟨_, h.symm, factory_not_ok _⟩
    · simp at h

theorem handshake_not_ok {cfg : Cfg} {s : Script} {r : Result} (h : handshake cfg s = some r) :
    ∃ c, r = .raised c ∧ c ≠ .ok := by
  simp only [handshake] at h
  split at h
  · rename_i r' hb; simp at h; subst h; exact mustSucceed_not_ok hb
  · split at h
    · rename_i r' hh
      simp at h; subst h
      split at hh
      · exact mustSucceed_not_ok hh
      · split at hh
        · simp at hh; exact ⟨.temp, hh.symm, by simp⟩
        · split at hh
          · rename_i r'' hhello
            simp at hh; subst hh
            split at hhello
            · split at hhello
              · exact mustSucceed_not_ok hhello
              · simp at hhello; exact ⟨_, hhello.symm, factory_not_ok _⟩
            · simp at hhello
          · split at hh
            · split at hh
              · simp at hh; exact ⟨.temp, hh.symm, by simp⟩
              · split at hh
                · simp at hh; exact ⟨_, hh.symm, factory_not_ok _⟩
                · exact mustSucceed_not_ok hh
            · simp at hh
    · split at h
      · exact mustSucceed_not_ok h
      · simp at h

/-- **The whole attempt**: a recipient is reported delivered only if the connection was made, the
    handshake completed, and (SMTP) the next hop accepted MAIL, that RCPT, DATA and the data. -/
theorem attempt_delivered_only_if_accepted (cfg : Cfg) (hl : cfg.lmtp = false) (s : Script) (i : Nat)
    (hi : clsOf (attempt cfg s) i = some .ok) :
    s.connect = .ok ∧ handshake cfg s = none ∧
    (∃ c, s.rcpts[i]? = some (.code c) ∧ isError c = false) ∧ (∃ c, s.eod = .code c ∧ isError c = false) ∧
    (∃ c, s.data = .code c ∧ isError c = false) ∧ (∃ c, s.mail = .code c ∧ isError c = false) := by
  simp only [attempt] at hi
  split at hi
  · simp [clsOf] at hi
  · simp [clsOf] at hi
  · rename_i hc
    split at hi
    · rename_i e he
      obtain ⟨c, rfl, hne⟩ := handshake_not_ok he
      simp [clsOf] at hi; exact absurd hi hne
    · rename_i hn
      exact ⟨hc, hn, smtp_delivered_only_if_accepted cfg hl s i hi⟩

/-- LMTP merge: position `i` is a success only if the recipient was accepted at RCPT time and the
    end-of-data reply that belongs to it — the `k`-th, `k` the number of accepted recipients before
    it — is a non-error reply. -/
theorem mergeLmtp_ok (per : List Cls) (es : List Nat) (i : Nat) (h : (mergeLmtp per es)[i]? = some .ok) :
    per[i]? = some .ok ∧ ∃ e, es[(per.take i).count .ok]? = some e ∧ isError e = false := by
  induction per generalizing es i with
  | nil => simp [mergeLmtp] at h
  | cons p ps ih =>
    cases p with
    | ok =>
      cases es with
      | nil =>
        simp only [mergeLmtp] at h
        cases i with
        | zero => simp at h
        | succ j =>
          simp only [List.getElem?_cons_succ] at h
          have := ih [] j h
          simp at this
      | cons e es' =>
        simp only [mergeLmtp] at h
        cases i with
        | zero =>
          simp only [List.getElem?_cons_zero, Option.some.injEq] at h
          refine ⟨rfl, e, by simp, ?_⟩
          cases hx : isError e with
          | false => rfl
          | true => simp [hx] at h; exact absurd h (factory_not_ok _)
        | succ j =>
          simp only [List.getElem?_cons_succ] at h
          obtain ⟨h1, e', h2, h3⟩ := ih es' j h
          refine ⟨by simpa using h1, e', ?_, h3⟩
          simpa [List.take_succ_cons, List.count_cons] using h2
    | perm =>
      simp only [mergeLmtp] at h
      cases i with
      | zero => simp at h
      | succ j =>
        simp only [List.getElem?_cons_succ] at h
        obtain ⟨h1, e', h2, h3⟩ := ih es j h
        exact ⟨by simpa using h1, e', by simpa [List.take_succ_cons, List.count_cons] using h2, h3⟩
    | temp =>
      simp only [mergeLmtp] at h
      cases i with
      | zero => simp at h
      | succ j =>
        simp only [List.getElem?_cons_succ] at h
        obtain ⟨h1, e', h2, h3⟩ := ih es j h
        exact ⟨by simpa using h1, e', by simpa [List.take_succ_cons, List.count_cons] using h2, h3⟩

/-- **LMTP: delivered only if accepted twice.** A recipient is reported delivered only if its RCPT
    got a non-error reply and so did the end-of-data reply that belongs to it: the `k`-th one,
    `k` = the number of recipients before it whose RCPT was accepted. -/
theorem lmtp_delivered_only_if_accepted (cfg : Cfg) (hl : cfg.lmtp = true) (s : Script) (i : Nat)
    (hi : clsOf (deliver cfg s) i = some .ok) :
    ∃ rcpts : List Nat, s.rcpts = rcpts.map Out.code ∧
      (∃ c, rcpts[i]? = some c ∧ isError c = false) ∧
      (∃ e, s.eodPer[((rcpts.take i).filter (fun c => !isError c)).length]? = some (.code e) ∧ isError e = false) ∧
      (∃ c, s.data = .code c ∧ isError c = false) ∧ (∃ c, s.mail = .code c ∧ isError c = false) := by
  simp only [deliver] at hi
  split at hi
  · simp [clsOf] at hi
  · cases hm : readCode s.mail with
    | none => simp [hm, clsOf] at hi
    | some mail =>
      simp only [hm] at hi
      split at hi
      · simp [clsOf] at hi; exact absurd hi (factory_not_ok _)
      · cases hrc : readCodes s.rcpts with
        | none => simp [hrc, clsOf] at hi
        | some rcpts =>
          simp only [hrc] at hi
          cases hd : readCode s.data with
          | none => simp [hd, clsOf] at hi
          | some data =>
            simp only [hd] at hi
            cases hc : checkReplies mail rcpts data with
            | inl r => simp only [hc] at hi; exact absurd hi (checkReplies_inl_not_ok hc i)
            | inr per =>
              simp only [hc, hl, if_true] at hi
              obtain ⟨hmail, hdata, hper⟩ := checkReplies_inr hc
              cases he : readCodes (s.eodPer.take (per.filter (· == .ok)).length) with
              | none => simp [he, clsOf] at hi
              | some eods =>
                simp only [he, clsOf] at hi
                obtain ⟨h1, e, h2, h3⟩ := mergeLmtp_ok per eods i hi
                have hcount : (per.take i).count .ok = ((rcpts.take i).filter (fun c => !isError c)).length := by
                  rw [hper, ← List.map_take, List.count_eq_length_filter, List.filter_map, List.length_map]
                  congr 1
                  apply List.filter_congr
                  intro c _
                  simp only [Function.comp]
                  cases hx : isError c with
                  | false => simp
                  | true =>
                    have := factory_not_ok c
                    simp only [if_true, Bool.not_true]
                    cases hf : factory c <;> simp_all
                refine ⟨rcpts, readCodes_some hrc, ?_, ⟨e, ?_, h3⟩, ⟨data, readCode_some hd, hdata⟩, ⟨mail, readCode_some hm, hmail⟩⟩
                · rw [hper, List.getElem?_map] at h1
                  cases hri : rcpts[i]? with
                  | none => simp [hri] at h1
                  | some c =>
                    refine ⟨c, rfl, ?_⟩
                    simp only [hri, Option.map_some, Option.some.injEq] at h1
                    cases hx : isError c with
                    | false => rfl
                    | true => simp [hx] at h1; exact absurd h1 (factory_not_ok _)
                · have hm' := readCodes_some he
                  rw [hcount] at h2
                  have : (s.eodPer.take (per.filter (· == .ok)).length)[((rcpts.take i).filter (fun c => !isError c)).length]? = some (Out.code e) := by
                    rw [hm', List.getElem?_map, h2]; rfl
                  rw [List.getElem?_take] at this
                  split at this
                  · exact this
                  · simp at this

/-- **Pipe relay**: per-recipient mode reports a recipient delivered only if its process exited
    with status 0; single mode delivers only if the process did. -/
theorem pipe_delivered_only_on_exit0 (per : Bool) (outs : List PipeOut) (l : List Cls) (i : Nat)
    (h : pipeAttempt per outs = .table l) (hi : l[i]? = some .ok) :
    (per = true → outs[i]? = some .exit0) ∧ (per = false → outs.head? = some .exit0) := by
  constructor
  · intro hp
    subst hp
    simp [pipeAttempt] at h
    subst h
    simp [List.getElem?_map] at hi
    obtain ⟨o, ho, hcls⟩ := hi
    cases o <;> simp [pipeCls] at hcls
    exact ho
  · intro hp
    subst hp
    simp only [pipeAttempt, Bool.false_eq_true, if_false] at h
    split at h
    · rename_i hh; exact hh
    · simp at h
    · rename_i hh
      simp at h; subst h; simp at hi

/-- **HTTP relay**: delivered only on a 2xx status; a refused connection or a timeout is a
    transient failure (never silence). -/
theorem http_delivered_only_on_2xx (n : Nat) (o : HttpOut) (l : List Cls) (h : httpAttempt n o = .table l) :
    ∃ st hdr, o = .response st hdr ∧ st / 100 = 2 := by
  cases o with
  | refused => simp [httpAttempt] at h
  | timeout => simp [httpAttempt] at h
  | response st hdr =>
    simp only [httpAttempt] at h
    split at h
    · rename_i hs; exact ⟨st, hdr, rfl, by simpa using hs⟩
    · split at h
      · simp at h
      · split at h <;> simp at h

theorem http_failure_is_typed (n : Nat) : httpAttempt n .refused = .raised .temp ∧ httpAttempt n .timeout = .raised .temp := by
  simp [httpAttempt]


/-! ## MX relay: which host, and how resolver answers are classified -/

section Mx
open Slimta.Mx

theorem insertRec_perm (r : Nat × Nat) (l : List (Nat × Nat)) : (insertRec r l).Perm (r :: l) := by
  induction l with
  | nil => simp [insertRec]
  | cons x xs ih =>
    simp only [insertRec]
    split
    · exact List.Perm.refl _
    · exact (List.Perm.cons x ih).trans (List.Perm.swap r x xs)

def SortedP (l : List (Nat × Nat)) : Prop := l.Pairwise (fun a b => a.1 ≤ b.1)

theorem insertRec_sorted (r : Nat × Nat) (l : List (Nat × Nat)) (h : SortedP l) : SortedP (insertRec r l) := by
  induction l with
  | nil => simp [insertRec, SortedP]
  | cons x xs ih =>
    have hx : ∀ b ∈ xs, x.1 ≤ b.1 := (List.pairwise_cons.mp h).1
    have hxs : SortedP xs := (List.pairwise_cons.mp h).2
    simp only [insertRec]
    split
    · rename_i hgt
      refine List.pairwise_cons.mpr ⟨?_, h⟩
      intro b hb
      rcases List.mem_cons.mp hb with rfl | hb
      · omega
      · have := hx b hb; omega
    · rename_i hle
      refine List.pairwise_cons.mpr ⟨?_, ih hxs⟩
      intro b hb
      have hb' := (insertRec_perm r xs).mem_iff.mp hb
      rcases List.mem_cons.mp hb' with rfl | hb'
      · omega
      · exact hx b hb'

theorem sortMx_aux (l acc : List (Nat × Nat)) (h : SortedP acc) :
    (l.foldl (fun a r => insertRec r a) acc).Perm (l.reverse ++ acc) ∧ SortedP (l.foldl (fun a r => insertRec r a) acc) := by
  induction l generalizing acc with
  | nil => exact ⟨by simp, h⟩
  | cons x xs ih =>
    simp only [List.foldl_cons]
    obtain ⟨hp, hs⟩ := ih (insertRec x acc) (insertRec_sorted x acc h)
    refine ⟨?_, hs⟩
    refine hp.trans ?_
    simp only [List.reverse_cons, List.append_assoc, List.singleton_append]
    exact List.Perm.append_left _ (insertRec_perm x acc)

/-- The MX records are tried in order of priority: the list the relay keeps is a permutation of the
    resolver's answer, sorted by priority. -/
theorem sortMx_sorted_perm (l : List (Nat × Nat)) : (sortMx l).Perm l ∧ SortedP (sortMx l) := by
  obtain ⟨hp, hs⟩ := sortMx_aux l [] (by simp [SortedP])
  exact ⟨hp.trans (by simpa using List.reverse_perm l), hs⟩

/-- **Unroutable domain = permanent failure**: neither MX nor A records (or an empty MX answer). -/
theorem unroutable_is_permanent (mx : Ans (Nat × Nat)) (a : Ans Nat) (n : Nat)
    (hmx : (match mx with | .noData | .notFound => True | _ => False))
    (ha : (match a with | .noData | .notFound => True | _ => False)) :
    route true mx a n = .permanent := by
  cases mx <;> simp at hmx <;> cases a <;> simp at ha <;> simp [route, resolve]

/-- **Resolver error = transient failure.** -/
theorem resolver_error_is_transient (a : Ans Nat) (n : Nat) : route true .error a n = .transient := by
  simp [route, resolve]

theorem resolver_error_on_fallback_is_transient (mx : Ans (Nat × Nat)) (n : Nat)
    (hmx : (match mx with | .noData | .notFound => True | _ => False)) : route true mx .error n = .transient := by
  cases mx <;> simp at hmx <;> simp [route, resolve]

/-- A recipient without a domain is a permanent failure, whatever the resolver would say. -/
theorem no_domain_is_permanent (mx : Ans (Nat × Nat)) (a : Ans Nat) (n : Nat) : route false mx a n = .permanent := by
  simp [route]

/-- **With MX records the first attempt goes to a host of the best priority, and every host gets
    its turn**: attempt `n` goes to the `(n mod k)`-th record of the sorted list. -/
theorem mx_attempts_cycle (l : List (Nat × Nat)) (hne : l ≠ []) (a : Ans Nat) (n : Nat) :
    ∃ r, (sortMx l)[n % (sortMx l).length]? = some r ∧ route true (.records l) a n = .deliverTo r.2 ∧ r ∈ l := by
  obtain ⟨hp, _⟩ := sortMx_sorted_perm l
  have hlen : (sortMx l).length = l.length := hp.length_eq
  have hpos : 0 < (sortMx l).length := by rw [hlen]; exact List.length_pos_iff.mpr hne
  have hlt : n % (sortMx l).length < (sortMx l).length := Nat.mod_lt _ hpos
  refine ⟨(sortMx l)[n % (sortMx l).length], by simp [hlt], ?_, hp.mem_iff.mp (List.getElem_mem hlt)⟩
  have hne2 : (sortMx l).isEmpty = false := by
    cases hs : sortMx l with
    | nil => rw [hs] at hpos; simp at hpos
    | cons _ _ => rfl
  simp [route, resolve, hne2, chooseMx, hlt]

theorem mx_first_attempt_best (l : List (Nat × Nat)) (hne : l ≠ []) (a : Ans Nat) :
    ∃ r, route true (.records l) a 0 = .deliverTo r.2 ∧ r ∈ l ∧ ∀ x ∈ l, r.1 ≤ x.1 := by
  obtain ⟨r, hget, hroute, hmem⟩ := mx_attempts_cycle l hne a 0
  obtain ⟨hp, hs⟩ := sortMx_sorted_perm l
  refine ⟨r, hroute, hmem, fun x hx => ?_⟩
  have hx' : x ∈ sortMx l := hp.mem_iff.mpr hx
  simp only [Nat.zero_mod] at hget
  cases hsl : sortMx l with
  | nil => rw [hsl] at hx'; simp at hx'
  | cons y ys =>
    rw [hsl] at hget hx' hs
    simp at hget; subst hget
    rcases List.mem_cons.mp hx' with rfl | hx'
    · exact Nat.le_refl _
    · exact (List.pairwise_cons.mp hs).1 x hx'

end Mx

/-! Non-vacuity: scripts that meet the hypotheses, and a mixed outcome. -/
example : clsOf (attempt {} { rcpts := [.code 250, .code 550, .code 250] }) 0 = some .ok := by decide
example : clsOf (attempt {} { rcpts := [.code 250, .code 550, .code 250] }) 1 = some .perm := by decide
example : attempt {} { rcpts := [.code 250, .code 550], eod := .code 451 } = .table [.temp, .perm] := by decide
example : attempt { lmtp := true } { rcpts := [.code 250, .code 550, .code 250], eodPer := [.code 250, .code 452] }
    = .table [.ok, .perm, .temp] := by decide
example : attempt {} { rcpts := [.code 250], eod := .close } = .raised .temp := by decide

/-! ## Every recipient gets an answer (the contract the queue relies on, C01's `CompleteOutcome`) -/

theorem fail_length (own : List (Option Cls)) (e : Cls) (l : List Cls) (h : fail own e = .table l) : l.length = own.length := by
  unfold fail at h
  simp only at h
  split at h
  · simp at h
  · simp only [Result.table.injEq] at h; subst h; simp

theorem mergeLmtp_length (per : List Cls) (es : List Nat) : (mergeLmtp per es).length = per.length := by
  fun_induction mergeLmtp per es <;> simp_all

theorem checkReplies_lengths (mail data : Nat) (rcpts : List Nat) :
    (∀ l, checkReplies mail rcpts data = .inl (.table l) → l.length = rcpts.length) ∧
    (∀ per, checkReplies mail rcpts data = .inr per → per.length = rcpts.length) := by
  unfold checkReplies
  constructor
  · intro l h
    split at h
    · simp only [Sum.inl.injEq] at h; simpa [ownClasses] using fail_length _ _ l h
    · split at h
      · simp only [Sum.inl.injEq] at h; simpa [ownClasses] using fail_length _ _ l h
      · split at h
        · simp only [Sum.inl.injEq] at h; simpa [ownClasses] using fail_length _ _ l h
        · simp at h
  · intro per h
    split at h
    · simp at h
    · split at h
      · simp at h
      · split at h
        · simp at h
        · simp only [Sum.inr.injEq] at h; subst h; simp

/-- **Every recipient gets an answer** (the relay contract the queue relies on): when an SMTP / LMTP attempt returns per-recipient
    results at all, it returns one for each recipient of the envelope, in order — whatever the downstream server did. -/
theorem attempt_answers_everyone (cfg : Cfg) (s : Script) (l : List Cls) (h : attempt cfg s = .table l) :
    l.length = s.rcpts.length := by
  unfold attempt at h
  split at h
  · simp at h
  · simp at h
  · split at h
    · rename_i e he
      obtain ⟨c, rfl, _⟩ := handshake_not_ok he
      simp at h
    · unfold deliver at h
      split at h
      · simp at h
      · split at h
        · simp at h
        · rename_i mail hm
          split at h
          · simp at h
          · split at h
            · simp at h
            · rename_i rc hrc
              have hlen : rc.length = s.rcpts.length := by
                have := readCodes_some hrc; rw [this]; simp
              split at h
              · simp at h
              · rename_i data hd
                have hcl := checkReplies_lengths mail data rc
                split at h
                · rename_i r hr
                  subst h
                  rw [← hlen]; exact hcl.1 l hr
                · rename_i per hper
                  have hpl := hcl.2 per hper
                  split at h
                  · simp only at h
                    split at h
                    · simp at h
                    · simp only [Result.table.injEq] at h; subst h
                      rw [mergeLmtp_length, hpl, hlen]
                  · split at h
                    · simp at h
                    · split at h
                      · have := fail_length _ _ l h
                        simpa [ownClasses, hlen] using this
                      · simp only [Result.table.injEq] at h; subst h; rw [hpl, hlen]

theorem pipe_answers_everyone (per : Bool) (outs : List PipeOut) (l : List Cls) (h : pipeAttempt per outs = .table l) :
    l.length = outs.length := by
  unfold pipeAttempt at h
  split at h
  · simp only [Result.table.injEq] at h; subst h; simp
  · split at h
    · simp only [Result.table.injEq] at h; subst h; simp
    · simp at h
    · rename_i hn
      simp only [Result.table.injEq] at h; subst h
      cases outs <;> simp_all

theorem http_answers_everyone (n : Nat) (o : HttpOut) (l : List Cls) (h : httpAttempt n o = .table l) : l.length = n := by
  unfold httpAttempt at h
  split at h
  · simp at h
  · simp at h
  · split at h
    · simp only [Result.table.injEq] at h; subst h; simp
    · split at h <;> (try split at h) <;> simp at h


/-! ## The result model and the command model (Model/RelaySession.lean) agree -/

/-- The answers the command model reads, for a script of the result model (SMTP): MAIL, each RCPT, DATA, the message data. -/
def toAns : Out → RelaySession.Ans
  | .code c => .code c
  | _ => .broken

def answers (s : Script) : List RelaySession.Ans :=
  toAns s.mail :: (s.rcpts.map toAns ++ [toAns s.data, toAns s.eod])

theorem readN_codes (cs : List Nat) (rest : List RelaySession.Ans) :
    RelaySession.readN cs.length (cs.map RelaySession.Ans.code ++ rest) = some (cs, rest) := by
  induction cs with
  | nil => simp [RelaySession.readN]
  | cons c cs ih => simp [RelaySession.readN, ih]

theorem isError_agree (c : Nat) : RelaySession.isError c = isError c := rfl

theorem ok_reads_rcpts (cfg : Cfg) (s : Script) (i : Nat) (hi : clsOf (deliver cfg s) i = some .ok) :
    ∃ rc, readCodes s.rcpts = some rc := by
  cases h : readCodes s.rcpts with
  | some rc => exact ⟨rc, rfl⟩
  | none =>
    exfalso
    simp only [deliver, h] at hi
    repeat' split at hi
    all_goals (simp [clsOf] at hi)
    all_goals (exact absurd hi (factory_not_ok _))

/-- **The two views of one delivery agree** (SMTP): whenever the result model reports some recipient delivered, the command model —
    fed the same answers — has written the message data after MAIL, the RCPTs and DATA were answered, and has seen it accepted. -/
theorem delivered_means_content_was_sent (cfg : Cfg) (hl : cfg.lmtp = false) (s : Script) (i : Nat)
    (hi : clsOf (deliver cfg s) i = some .ok) :
    (RelaySession.deliver false s.pipelining s.rcpts.length (answers s)).delivered = true ∧
    RelaySession.Cmd.body ∈ (RelaySession.deliver false s.pipelining s.rcpts.length (answers s)).cmds := by
  obtain ⟨⟨ci, hci, hcie⟩, ⟨ce, hce, hcee⟩, ⟨cd, hcd, hcde⟩, ⟨cm, hcm, hcme⟩⟩ := smtp_delivered_only_if_accepted cfg hl s i hi
  obtain ⟨rc, hrc⟩ := ok_reads_rcpts cfg s i hi
  have hout := readCodes_some hrc
  have hlen : rc.length = s.rcpts.length := by rw [hout]; simp
  have hans : answers s = RelaySession.Ans.code cm :: (rc.map RelaySession.Ans.code ++ [.code cd, .code ce]) := by
    simp only [answers, hcm, hcd, hce, toAns, hout, List.map_map]
    congr 2
  have hmem : ci ∈ rc := by
    have : (rc.map Out.code)[i]? = some (Out.code ci) := by rw [← hout]; exact hci
    simp only [List.getElem?_map, Option.map_eq_some_iff, Out.code.injEq] at this
    obtain ⟨a, ha, rfl⟩ := this
    exact List.mem_of_getElem? ha
  have hacc : ((rc.filter fun c => !RelaySession.isError c).length == 0) = false := by
    have : ci ∈ rc.filter fun c => !RelaySession.isError c := by
      simp [List.mem_filter, hmem, isError_agree, hcie]
    cases hf : rc.filter (fun c => !RelaySession.isError c) with
    | nil => rw [hf] at this; simp at this
    | cons a b => simp
  have hne : ¬ ∀ a ∈ rc, isError a = true := fun h => by have := h ci hmem; simp [hcie] at this
  rw [hans, ← hlen]
  cases hp : s.pipelining
  · -- without PIPELINING
    simp only [RelaySession.deliver, Bool.false_eq_true, if_false]
    have r1 : RelaySession.readN 1 (RelaySession.Ans.code cm :: (rc.map RelaySession.Ans.code ++ [.code cd, .code ce]))
        = some ([cm], rc.map RelaySession.Ans.code ++ [.code cd, .code ce]) := readN_codes [cm] _
    simp only [r1, List.headD_cons, isError_agree, hcme, Bool.false_eq_true, if_false]
    have r2 := readN_codes rc [RelaySession.Ans.code cd, .code ce]
    simp only [r2]
    have r3 : RelaySession.readN 1 [RelaySession.Ans.code cd, .code ce] = some ([cd], [.code ce]) := readN_codes [cd] _
    simp only [r3, List.headD_cons]
    simp only [RelaySession.afterEnvelope, isError_agree, hcme, hcde, hacc, Bool.false_eq_true, Bool.or_false, if_false]
    have r4 : RelaySession.readN 1 [RelaySession.Ans.code ce] = some ([ce], []) := readN_codes [ce] _
    simp [r4, isError_agree, hcee, hne]
  · -- with PIPELINING
    simp only [RelaySession.deliver, if_true]
    have r1 : RelaySession.readN (rc.length + 2) (RelaySession.Ans.code cm :: (rc.map RelaySession.Ans.code ++ [.code cd, .code ce]))
        = some (cm :: (rc ++ [cd]), [.code ce]) := by
      have := readN_codes (cm :: (rc ++ [cd])) [RelaySession.Ans.code ce]
      simpa [Nat.add_comm, Nat.add_left_comm, Nat.add_assoc] using this
    simp only [r1]
    have t1 : (rc ++ [cd]).take rc.length = rc := by simp
    have t2 : (rc ++ [cd]).getD rc.length 0 = cd := by simp [List.getD]
    simp only [t1, t2]
    simp only [RelaySession.afterEnvelope, isError_agree, hcme, hcde, hacc, Bool.false_eq_true, Bool.or_false, if_false]
    have r4 : RelaySession.readN 1 [RelaySession.Ans.code ce] = some ([ce], []) := readN_codes [ce] _
    simp [r4, isError_agree, hcee, hne]

section mxcache
open Slimta.Mx

/-! ## The expiring cache of `MxRecord` -/

/-- **A fresh cache entry is served without asking the resolver**, and is left as it is. -/
theorem cache_fresh_no_query (c : Cache) (now : Nat) (q : Query) (h : expired c now = false) :
    (cacheGet c now q).1 = c ∧ (cacheGet c now q).2.1 = false := by
  simp [cacheGet, h]

/-- **An expired entry is never served**: once the clock has reached the expiration (or nothing worth keeping was cached), `get`
    asks the resolver, and what it gives is what a brand-new `MxRecord` would give — the old records play no part. -/
theorem cache_expired_asks_again (c : Cache) (now : Nat) (q : Query) (h : expired c now = true) :
    (cacheGet c now q).2.1 = true ∧ (cacheGet c now q).2.2 = (cacheGet {} now q).2.2 := by
  have h0 : expired ({} : Cache) now = true := by simp [expired]
  simp only [cacheGet, h, h0, if_true]
  cases resolveTtl now q with
  | none => simp
  | some p => simp

theorem expired_mono (c : Cache) (now now' : Nat) (h : expired c now = true) (hle : now ≤ now') : expired c now' = true := by
  simp only [expired, Bool.or_eq_true, beq_iff_eq, decide_eq_true_eq] at h ⊢
  rcases h with h | h
  · exact Or.inl h
  · exact Or.inr (Nat.le_trans h hle)

/-- **A resolver error is not remembered**: the cache is left untouched, so the next attempt — whenever it comes — asks again. -/
theorem resolver_error_not_cached (c : Cache) (now : Nat) (q : Query) (h : expired c now = true) (he : resolveTtl now q = none)
    (now' : Nat) (hle : now ≤ now') :
    (cacheGet c now q).1 = c ∧ (cacheGet c now q).2.2 = .dnsError ∧ expired (cacheGet c now q).1 now' = true := by
  have e : (cacheGet c now q).1 = c := by simp [cacheGet, h, he]
  refine ⟨e, by simp [cacheGet, h, he], ?_⟩
  rw [e]; exact expired_mono c now now' h hle

/-- **"No usable records" is not remembered either** (neither MX nor A, or an empty answer): the entry stays expired for ever. -/
theorem negative_answer_not_cached (c : Cache) (now : Nat) (q : Query) (h : expired c now = true)
    (hn : resolveTtl now q = some (none, 0)) (now' : Nat) :
    (cacheGet c now q).2.2 = .nothing ∧ expired (cacheGet c now q).1 now' = true := by
  have e : cacheGet c now q = (⟨none, 0⟩, true, .nothing) := by
    simp only [cacheGet, h, if_true, hn]
  rw [e]; simp [expired]

/-- **An answer is kept exactly until its time to live is over**: after a successful lookup the entry is fresh strictly before the
    expiration the lookup computed and expired from then on. -/
theorem kept_until_ttl (c : Cache) (now : Nat) (q : Query) (h : expired c now = true) (recs) (e : Nat)
    (hr : resolveTtl now q = some (recs, e)) (he : e ≠ 0) (now' : Nat) :
    expired (cacheGet c now q).1 now' = decide (e ≤ now') := by
  have hc : (cacheGet c now q).1 = ⟨recs, e⟩ := by simp [cacheGet, h, hr]
  rw [hc]
  simp [expired, he]

/-- Error classes with the cache in between: a resolver error is a transient failure, no usable record a permanent one. -/
theorem routeCached_classes (c : Cache) (now : Nat) (q : Query) (n : Nat) :
    ((cacheGet c now q).2.2 = .dnsError → (routeCached c now q n).2.2 = .transient) ∧
    ((cacheGet c now q).2.2 = .nothing → (routeCached c now q n).2.2 = .permanent) := by
  constructor <;> intro h <;> simp [routeCached, h]

/-- non-vacuity: an answer with a time to live of 60 is served from the cache at 59 and asked for again at 60 -/
example : ((cacheGet (cacheGet {} 1000 ⟨.records [(10, 1, 60)], .noData⟩).1 1059 ⟨.error, .error⟩).2,
           (cacheGet (cacheGet {} 1000 ⟨.records [(10, 1, 60)], .noData⟩).1 1060 ⟨.error, .error⟩).2)
    = ((false, .hosts [(10, 1)]), (true, .dnsError)) := by decide

end mxcache

end Slimta.C11
