import Model.Policy
import Proofs.Lemmas.Policy
/-!
# C16 — queue policies conserve recipients and content

Property theorems only. Model: `Model/Policy.lean` (`Queue._run_policies`, the split / forward /
header policies, `Envelope.copy`). The regex results of `Forward` and the domain of an address are
oracle functions in `Cfg`: every theorem holds for all of them.
-/
namespace Slimta.C16
open Slimta.Policy

theorem good_init (e : Env) : Good { results := [e], next := e.eid + 1 } :=
  ⟨by simp, by intro x hx; simp at hx; subst hx; simp⟩

/-- **Recipients are conserved.** For every envelope and every chain of policies (any order, any
    repetition, including a policy that returns its input among its outputs), the envelopes handed
    to storage together carry each recipient position of the original exactly once. -/
theorem recipients_conserved (cfg : Cfg) (ps : List Pol) (e : Env) :
    (slotsOf (runPolicies cfg ps e)).Perm (slots e) := by
  rw [List.perm_iff_count]
  intro k
  obtain ⟨_, _, c, _, _⟩ := recurse_spec cfg ps e _ (good_init e) (by simp)
  simpa [runPolicies] using c k

/-- **Sender and body are conserved** in every output. -/
theorem sender_body_conserved (cfg : Cfg) (ps : List Pol) (e : Env) :
    ∀ o ∈ runPolicies cfg ps e, o.sender = e.sender ∧ o.body = e.body := by
  intro o ho
  obtain ⟨_, _, _, _, h⟩ := recurse_spec cfg ps e _ (good_init e) (by simp)
  rcases h o ho with ⟨hmem, hne⟩ | ⟨hs, hb, _⟩
  · simp at hmem; subst hmem; exact absurd rfl hne
  · exact ⟨hs, hb⟩

/-- **No two outputs are the same object**: every output has its own identity, and with it its
    own recipient list and header object (a deep copy allocates both). -/
theorem outputs_distinct (cfg : Cfg) (ps : List Pol) (e : Env) :
    (eids (runPolicies cfg ps e)).Nodup := by
  obtain ⟨g, _, _, _, _⟩ := recurse_spec cfg ps e _ (good_init e) (by simp)
  exact g.nodup

/-- **A recipient matching no forwarding rule is left unchanged.** -/
theorem forward_unmatched_unchanged (cfg : Cfg) (v : Nat) (rules : List Nat)
    (h : ∀ r ∈ rules, (cfg.subn r v).2.1 = 0) : forwardOne cfg v rules = v := by
  induction rules with
  | nil => rfl
  | cons r rest ih =>
    have h0 := h r (by simp)
    simp only [forwardOne]
    have : ¬ ((cfg.subn r v).2.2 && decide ((cfg.subn r v).2.1 > 0)) = true := by simp [h0]
    simp only [this]
    exact ih (fun x hx => h x (by simp [hx]))

/-- Forwarding rewrites values in place and keeps every recipient position. -/
theorem forward_keeps_slots (cfg : Cfg) (rules : List Nat) (e : Env) (n : Nat) :
    slots (apply cfg (.forward rules) e n).1 = slots e ∧ (apply cfg (.forward rules) e n).2.1 = none := by
  simp [apply, slots, List.map_map, Function.comp_def]

theorem count_pos_of_contains {h : Hdr} {l : List Hdr} : hasHdr h l = true ↔ 0 < l.count h := by
  simp [hasHdr, List.count_pos_iff]

/-- **Date and Message-Id are added only when absent.** -/
theorem date_msgid_once (cfg : Cfg) (e : Env) (n : Nat) :
    (apply cfg .addDate e n).1.hdrs.count .date = max 1 (e.hdrs.count .date) ∧
    (apply cfg .addMsgId e n).1.hdrs.count .msgid = max 1 (e.hdrs.count .msgid) ∧
    (0 < e.hdrs.count .date → (apply cfg .addDate e n).1.hdrs = e.hdrs) ∧
    (0 < e.hdrs.count .msgid → (apply cfg .addMsgId e n).1.hdrs = e.hdrs) := by
  refine ⟨?_, ?_, ?_, ?_⟩
  · simp only [apply]
    by_cases h : hasHdr .date e.hdrs = true
    · have := count_pos_of_contains.mp h; simp [h]; omega
    · have h0 : e.hdrs.count .date = 0 := by
        have := mt count_pos_of_contains.mpr h; omega
      simp [h, List.count_append, h0]
  · simp only [apply]
    by_cases h : hasHdr .msgid e.hdrs = true
    · have := count_pos_of_contains.mp h; simp [h]; omega
    · have h0 : e.hdrs.count .msgid = 0 := by
        have := mt count_pos_of_contains.mpr h; omega
      simp [h, List.count_append, h0]
  · intro h; simp [apply, count_pos_of_contains.mpr h]
  · intro h; simp [apply, count_pos_of_contains.mpr h]

/-- **A new Received header is placed first**, the others follow unchanged. -/
theorem received_first (cfg : Cfg) (e : Env) (n : Nat) :
    (apply cfg .addReceived e n).1.hdrs = .received :: e.hdrs := by
  simp [apply]

/-! ### non-vacuity -/

example :
    let cfg : Cfg := { domKey := fun v => if v < 10 then some (v % 2) else none, subn := fun _ v => (v + 100, 1, true) }
    (runPolicies cfg [.peel, .domainSplit, .forward [0], .split] ⟨0, 1, 2, [(0, 4), (1, 5), (2, 6), (3, 11)], []⟩).map (·.rcpts)
      = [[(0, 104)], [(1, 105)], [(2, 106)], [(3, 111)]] := by decide

end Slimta.C16
