import Model.Client
import Proofs.C17
/-!
# C10 — the pipelining client pairs every reply with the command that caused it

Property theorems. Model: `Model/Client.lean` (reply queue of `Client` / `LmtpClient`), on top of
the reply parser of `Model/Reply.lean` and its round-trip theorem (C17).
-/
namespace Slimta.C10
open Slimta Slimta.Client

/-- A server reply script: the k-th entry is the reply to the k-th command issued (greeting = 0). -/
structure Entry where
  code : Bytes
  msg : Bytes
  isCode : Reply.IsCode code
  codeOk : Reply.codeOk code = true        -- 1xx..5xx: anything else is a bad reply (C17)
  utf8 : Reply.utf8Ok (normCRLF msg) = true

def wire (script : List Entry) : Bytes := script.flatMap fun e => Reply.encode e.code e.msg

theorem wire_cons (e : Entry) (rest : List Entry) : wire (e :: rest) = Reply.encode e.code e.msg ++ wire rest := by
  simp [wire]

def NoEmpty (segs : List Bytes) : Prop := ∀ x ∈ segs, x ≠ []

/-- The parser hands back an unread list that is a suffix of the one it was given. -/
theorem recvLoop_unread_suffix (segs : List Bytes) (code : Option Bytes) (lines : List Bytes) (buf : Bytes)
    (r : Reply.Result) (h : Reply.recvLoop code lines buf segs = .ok r) : ∃ pre, segs = pre ++ r.unread := by
  induction segs generalizing code lines buf with
  | nil =>
    simp only [Reply.recvLoop] at h
    split at h <;> simp at h
    subst h; exact ⟨[], rfl⟩
  | cons seg rest ih =>
    simp only [Reply.recvLoop] at h
    split at h
    · simp at h; subst h; exact ⟨[], rfl⟩
    · simp at h
    · split at h
      · simp at h
      · obtain ⟨pre, hp⟩ := ih _ _ _ h
        exact ⟨seg :: pre, by simp [hp]⟩

/-- All filled slots that the script covers hold the script's reply for that slot. -/
def Correct (script : List Entry) (filled : List (Nat × Bytes × Bytes)) : Prop :=
  ∀ x ∈ filled, ∀ e, script[x.1]? = some e → x.2.1 = e.code ∧ x.2.2 = normCRLF e.msg

/-- The connection still holds exactly the replies from position `j` on (plus anything after). -/
def Aligned (script : List Entry) (extra : Bytes) (j : Nat) (s : St) : Prop :=
  s.buf ++ s.segs.flatten = wire (script.drop j) ++ extra ∧ NoEmpty s.segs

def Inv (script : List Entry) (extra : Bytes) (s : St) : Prop :=
  Correct script s.filled ∧
  (s.failed.isSome = true ∨
   ∃ j, s.queue = List.range' j (s.next - j) ∧ j ≤ s.next ∧ (script.length ≤ j ∨ Aligned script extra j s))

theorem inv_enqueue (script extra) (s : St) (h : Inv script extra s) : Inv script extra (enqueue s).1 := by
  obtain ⟨hc, hq⟩ := h
  refine ⟨hc, ?_⟩
  rcases hq with hf | ⟨j, hq, hj, ha⟩
  · exact Or.inl hf
  · refine Or.inr ⟨j, ?_, by simp [enqueue]; omega, ?_⟩
    · simp only [enqueue, hq]
      have : s.next + 1 - j = (s.next - j) + 1 := by omega
      rw [this, List.range'_1_concat]
      simp; omega
    · rcases ha with ha | ha
      · exact Or.inl ha
      · exact Or.inr ⟨ha.1, ha.2⟩

/-- `Inv` only looks at the reply bookkeeping. -/
theorem inv_congr (script extra) (s t : St) (h : Inv script extra s)
    (h1 : t.filled = s.filled) (h2 : t.failed = s.failed) (h3 : t.queue = s.queue) (h4 : t.next = s.next)
    (h5 : t.buf = s.buf) (h6 : t.segs = s.segs) : Inv script extra t := by
  obtain ⟨hc, hq⟩ := h
  refine ⟨by rw [h1]; exact hc, ?_⟩
  rcases hq with hf | ⟨j, hq, hj, ha⟩
  · exact Or.inl (by rw [h2]; exact hf)
  · refine Or.inr ⟨j, by rw [h3, h4]; exact hq, by rw [h4]; exact hj, ?_⟩
    rcases ha with ha | ha
    · exact Or.inl ha
    · exact Or.inr ⟨by rw [h5, h6]; exact ha.1, by rw [h6]; exact ha.2⟩

theorem getElem?_drop_head (script : List Entry) (j : Nat) (e : Entry) (rest : List Entry)
    (h : script.drop j = e :: rest) : script[j]? = some e ∧ script.drop (j + 1) = rest := by
  have h1 : (script.drop j)[0]? = some e := by rw [h]; rfl
  rw [List.getElem?_drop] at h1
  refine ⟨by simpa using h1, ?_⟩
  have : script.drop (j + 1) = (script.drop j).drop 1 := by rw [List.drop_drop]
  rw [this, h]; rfl

theorem inv_flush (script : List Entry) (extra : Bytes) (fuel : Nat) (s : St) (h : Inv script extra s)
    (hf : s.failed = none) : Inv script extra (flush fuel s) := by
  induction fuel generalizing s with
  | zero => exact h
  | succ fuel ih =>
    simp only [flush]
    cases hq : s.queue with
    | nil => simpa [hq] using h
    | cons slot rest =>
      simp only
      obtain ⟨hc, hdis⟩ := h
      rcases hdis with hfl | ⟨j, hqueue, hj, ha⟩
      · simp [hf] at hfl
      · -- the queue is j, j+1, ...: its head is j
        have hpos : 0 < s.next - j := by
          cases hn : s.next - j with
          | zero => rw [hn] at hqueue; simp [hq] at hqueue
          | succ n => omega
        have hslot : slot = j ∧ rest = List.range' (j + 1) (s.next - (j + 1)) := by
          have : s.next - j = (s.next - (j + 1)) + 1 := by omega
          rw [hq, this, List.range'_succ] at hqueue
          simpa using hqueue
        obtain ⟨rfl, hrest⟩ := hslot
        cases hdrop : script.drop slot with
        | nil =>
          -- past the end of the script: whatever happens concerns no scripted slot
          have hlen : script.length ≤ slot := by simpa using hdrop
          have hnone : script[slot]? = none := by simp [hlen]
          cases hr : Reply.recvRun s.buf s.segs with
          | ok r =>
            simp only
            apply ih
            · refine ⟨?_, Or.inr ⟨slot + 1, by simpa using hrest, by simp; omega, Or.inl (by omega)⟩⟩
              intro x hx e he
              simp only [List.mem_append, List.mem_singleton] at hx
              rcases hx with hx | rfl
              · exact hc x hx e he
              · simp [hnone] at he
            · exact hf
          | error p =>
            obtain ⟨e, rb⟩ := p
            cases e <;> exact ⟨hc, Or.inl rfl⟩
        | cons e tail =>
          obtain ⟨hget, hdrop'⟩ := getElem?_drop_head script slot e tail hdrop
          rcases ha with ha | ha
          · exfalso
            have : script.drop slot = [] := by simpa using ha
            rw [this] at hdrop; simp at hdrop
          · obtain ⟨hal, hne⟩ := ha
            rw [hdrop, wire_cons, List.append_assoc] at hal
            obtain ⟨r, hr, hcode, hbody, hleft⟩ := C17.reply_roundtrip e.code e.isCode e.codeOk e.msg e.utf8
              (wire tail ++ extra) s.buf s.segs hne hal
            rw [hr]
            simp only
            obtain ⟨pre, hpre⟩ := recvLoop_unread_suffix s.segs none [] s.buf r hr
            apply ih
            · refine ⟨?_, Or.inr ⟨slot + 1, by simpa using hrest, by simp; omega, Or.inr ⟨?_, ?_⟩⟩⟩
              · intro x hx e' he'
                simp only [List.mem_append, List.mem_singleton] at hx
                rcases hx with hx | rfl
                · exact hc x hx e' he'
                · simp only [hget, Option.some.injEq] at he'
                  subst he'
                  exact ⟨hcode, hbody⟩
              · simp only [hdrop']; exact hleft
              · intro x hx; exact hne x (by rw [hpre]; simp [hx])
            · exact hf

theorem inv_flushNow (script extra) (s : St) (h : Inv script extra s) (hf : s.failed = none) :
    Inv script extra (flushNow s) := inv_flush script extra _ s h hf

theorem inv_flushUnless (script extra) (s : St) (h : Inv script extra s) (hf : s.failed = none) :
    Inv script extra (flushUnlessPipelining s) := by
  simp only [flushUnlessPipelining]; split
  · exact h
  · exact inv_flushNow script extra s h hf

theorem enqueue_failed (s : St) : (enqueue s).1.failed = s.failed := rfl

theorem inv_call (script : List Entry) (extra : Bytes) (s : St) (m : Method) (h : Inv script extra s) :
    Inv script extra (call s m) := by
  simp only [call]
  split
  · exact h
  · rename_i hnf
    have hf : s.failed = none := by simpa using hnf
    have he := inv_enqueue script extra s h
    have hef : (enqueue s).1.failed = none := hf
    cases m with
    | banner => exact inv_flushNow _ _ _ he hef
    | helo => exact inv_flushNow _ _ _ he hef
    | data => exact inv_flushNow _ _ _ he hef
    | quit => exact inv_flushNow _ _ _ he hef
    | custom => exact inv_flushNow _ _ _ he hef
    | getReply => exact inv_flushNow _ _ _ he hef
    | rset =>
      simp only
      split
      · exact inv_congr _ _ _ _ (inv_flushNow _ _ _ he hef) rfl rfl rfl rfl rfl rfl
      · exact inv_flushNow _ _ _ he hef
    | ehlo =>
      simp only
      split
      · split
        · exact inv_congr _ _ _ _ (inv_flushNow _ _ _ he hef) rfl rfl rfl rfl rfl rfl
        · exact inv_flushNow _ _ _ he hef
      · exact inv_flushNow _ _ _ he hef
    | lhlo =>
      simp only
      split
      · split
        · exact inv_congr _ _ _ _ (inv_flushNow _ _ _ he hef) rfl rfl rfl rfl rfl rfl
        · exact inv_flushNow _ _ _ he hef
      · exact inv_flushNow _ _ _ he hef
    | mail => exact inv_flushUnless _ _ _ he hef
    | rcpt =>
      simp only
      split
      · exact inv_congr _ _ _ _ (inv_flushUnless _ _ _ he hef) rfl rfl rfl rfl rfl rfl
      · exact inv_flushUnless _ _ _ he hef
    | sendData =>
      simp only
      split
      · split
        · exact ⟨h.1, Or.inl rfl⟩
        · -- several slots, one per accepted recipient
          have hfold : ∀ (l : List Nat) (st : St), Inv script extra st → st.failed = none →
              Inv script extra (l.foldl (fun st _ => (enqueue st).1) st) ∧
              (l.foldl (fun st _ => (enqueue st).1) st).failed = none := by
            intro l
            induction l with
            | nil => intro st hi hfn; exact ⟨hi, hfn⟩
            | cons a rest ih => intro st hi hfn; exact ih _ (inv_enqueue _ _ _ hi) hfn
          obtain ⟨hi, hfn⟩ := hfold _ s h hf
          apply inv_flushUnless
          · exact inv_congr _ _ _ _ hi rfl rfl rfl rfl rfl rfl
          · exact hfn
      · exact inv_flushUnless _ _ _ he hef
    | sendEmpty =>
      simp only
      split
      · split
        · exact ⟨h.1, Or.inl rfl⟩
        · have hfold : ∀ (l : List Nat) (st : St), Inv script extra st → st.failed = none →
              Inv script extra (l.foldl (fun st _ => (enqueue st).1) st) ∧
              (l.foldl (fun st _ => (enqueue st).1) st).failed = none := by
            intro l
            induction l with
            | nil => intro st hi hfn; exact ⟨hi, hfn⟩
            | cons a rest ih => intro st hi hfn; exact ih _ (inv_enqueue _ _ _ hi) hfn
          obtain ⟨hi, hfn⟩ := hfold _ s h hf
          apply inv_flushUnless
          · exact inv_congr _ _ _ _ hi rfl rfl rfl rfl rfl rfl
          · exact hfn
      · exact inv_flushUnless _ _ _ he hef

/-- **Pairing.** For every reply script, every sequence of client method calls (SMTP or LMTP, with
    or without PIPELINING, pipelined or not), every surplus of bytes after the script and every
    segmentation of the reply stream: each reply object that has been filled holds the code and
    the (CRLF-normalised) text of the script's reply at its own position — the reply to the command
    that created it — never another's. -/
theorem pairing (script : List Entry) (extra : Bytes) (lmtp : Bool) (buf : Bytes) (segs : List Bytes)
    (hne : NoEmpty segs) (hs : buf ++ segs.flatten = wire script ++ extra) (ms : List Method) :
    Correct script (run { lmtp := lmtp, buf := buf, segs := segs } ms).filled := by
  have h0 : Inv script extra { lmtp := lmtp, buf := buf, segs := segs } := by
    refine ⟨by intro x hx; simp at hx, Or.inr ⟨0, by simp, by simp, Or.inr ⟨by simpa using hs, hne⟩⟩⟩
  have : ∀ (ms : List Method) (s : St), Inv script extra s → Inv script extra (run s ms) := by
    intro ms
    induction ms with
    | nil => intro s h; exact h
    | cons m rest ih => intro s h; exact ih _ (inv_call script extra s m h)
  exact (this ms _ h0).1

/-- **LMTP**: `send_data` creates one data-reply slot per recipient whose RCPT reply is 2xx, in
    RCPT order, numbered consecutively from the next free slot — so by `pairing` they receive the
    next replies of the script in that order. -/
theorem lmtp_data_slots (s : St) (hl : s.lmtp = true) (hf : s.failed = none)
    (hall : ∀ r ∈ s.rcpttos, (lookupFilled r s.filled).isSome = true) :
    (call s .sendData).dataSlots = s.dataSlots ++
      [(List.range (s.rcpttos.filter fun r => match lookupFilled r s.filled with
          | some (c, _) => codeIs2xx c
          | none => false).length).map (· + s.next)] := by
  have hany : (s.rcpttos.any fun r => (lookupFilled r s.filled).isNone) = false := by
    simp only [List.any_eq_false]
    intro r hr
    have := hall r hr
    cases h : lookupFilled r s.filled <;> simp_all
  simp only [call, hf, Option.isSome_none, Bool.false_eq_true, if_false, hl, if_true, hany]
  simp only [flushUnlessPipelining]
  split
  · rfl
  · -- flushing fills slots, it does not touch what send_data returned
    have hflush : ∀ fuel (t : St), (flush fuel t).dataSlots = t.dataSlots := by
      intro fuel
      induction fuel with
      | zero => intro t; rfl
      | succ n ih =>
        intro t
        simp only [flush]
        split
        · rfl
        · split
          · rw [ih]
          · rfl
          · rfl
          · rfl
    simp only [flushNow, hflush]
    rfl

/-! ### non-vacuity -/

example : Reply.IsCode [50, 53, 48] := ⟨50, 53, 48, rfl, by decide, by decide, by decide⟩

end Slimta.C10
