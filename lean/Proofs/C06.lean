import Model.Wire
import Model.HttpHop
import Proofs.Lemmas.Reply
import Proofs.Lemmas.Server
import Proofs.C05
import Proofs.C09
/-!
# C06 — a relay hop preserves sender, recipients and content end to end

Theorems over `Model/Wire.lean` (what the client puts on the wire) composed with the server's parsers of
`Model/Server.lean`: the address in a MAIL / RCPT command line comes back exactly; an EHLO extension
line is parsed back to the extension it was built from; base64 decoding inverts encoding for every
byte string; the recipients of the HTTP transport come back in order. The last section composes the
legs over SMTP into one statement about the receiving server's command loop (`hop_delivers`,
`session_delivers`, `session_delivers_any_segmentation`), using C05's reader theorem for the content
and C09's for the segmentation. Replies are C17's, header block / body splitting is C20's.
-/
namespace Slimta.C06
open Slimta Slimta.Wire

/-! ## addresses -/

theorem splitAddrAux_build (a rest : Bytes) (q e : Bool) (h : quoteEndAux q e a = some (false, false)) :
    Server.splitAddrAux q e (a ++ 62 :: rest) = some (a, rest) := by
  induction a generalizing q e with
  | nil =>
    simp only [quoteEndAux, Option.some.injEq, Prod.mk.injEq] at h
    obtain ⟨rfl, rfl⟩ := h
    simp [Server.splitAddrAux]
  | cons b bs ih =>
    simp only [quoteEndAux] at h
    split at h
    · simp at h
    · rename_i hc
      simp only [List.cons_append, Server.splitAddrAux, hc, Bool.false_eq_true, if_false]
      rw [ih _ _ h]

theorem quoteEndAux_unescaped (q e : Bool) (a : Bytes) (r : Bool × Bool) (hinv : e = true → q = true)
    (h : quoteEndAux q e a = some r) (hr : r.1 = false) : r.2 = false := by
  induction a generalizing q e with
  | nil =>
    simp only [quoteEndAux, Option.some.injEq] at h
    subst h
    cases q <;> cases e <;> simp_all
  | cons b bs ih =>
    simp only [quoteEndAux] at h
    split at h
    · simp at h
    · refine ih _ _ ?_ h
      intro he
      simp only [Bool.and_eq_true, Bool.not_eq_true', beq_iff_eq] at he
      obtain ⟨⟨hq, hne⟩, hb⟩ := he
      simp [hq, hne, hb]

theorem splitAddr_build (a rest : Bytes) (h : quoteEnd false a = some false) :
    Server.splitAddr false (a ++ 62 :: rest) = some (a, rest) := by
  unfold quoteEnd at h
  cases hq : quoteEndAux false false a with
  | none => simp [hq] at h
  | some r =>
    simp only [hq, Option.map_some, Option.some.injEq] at h
    have h2 := quoteEndAux_unescaped false false a r (by simp) hq h
    have : r = (false, false) := by cases r; simp_all
    exact splitAddrAux_build a rest false false (this ▸ hq)

theorem rstripWs_keep (l : Bytes) (x : Byte) (hx : isWs x = false) : Server.rstripWs (l ++ [x]) = l ++ [x] := by
  simp [Server.rstripWs, List.reverse_append, List.dropWhile_cons, hx]

def Digits (d : Bytes) : Prop := d ≠ [] ∧ ∀ b ∈ d, isDigit b = true

theorem digit_not_ws {b : Byte} (h : isDigit b = true) : isWs b = false := by
  simp only [isDigit, Bool.and_eq_true, decide_eq_true_eq] at h
  simp only [isWs, Bool.or_eq_false_iff, beq_eq_false_iff_ne, ne_eq]
  have h1 := h.1; have h2 := h.2
  refine ⟨⟨⟨⟨⟨?_, ?_⟩, ?_⟩, ?_⟩, ?_⟩, ?_⟩ <;> intro he <;> subst he <;> revert h1 h2 <;> decide

/-- The last byte of what follows `MAIL ` is `>` or a digit, never white space. -/
theorem tail_last (a : Bytes) (size : Option Bytes) (hs : ∀ d, size = some d → Digits d) :
    ∃ l x, ([70, 82, 79, 77, 58, 60] ++ a ++ [62] ++ sizePart size : Bytes) = l ++ [x] ∧
      isWs x = false := by
  cases size with
  | none => exact ⟨[70, 82, 79, 77, 58, 60] ++ a, 62, by simp [sizePart], by decide⟩
  | some d =>
    obtain ⟨hne, hd⟩ := hs d rfl
    have hlast : d = d.dropLast ++ [d.getLast hne] := (List.dropLast_concat_getLast hne).symm
    refine ⟨[70, 82, 79, 77, 58, 60] ++ a ++ [62] ++ [32, 83, 73, 90, 69, 61] ++ d.dropLast, d.getLast hne, ?_, ?_⟩
    · simp only [sizePart]
      conv => lhs; rw [hlast]
      simp [List.append_assoc]
    · exact digit_not_ws (hd _ (List.getLast_mem hne))

/-- **MAIL round trip**: the command line the client builds for `addr` (with or without a SIZE
    parameter) is parsed by the server into exactly `addr`, and the parameter text after `>`. -/
theorem mail_roundtrip (a : Bytes) (size : Option Bytes) (hc : CleanAddr a) (hs : ∀ d, size = some d → Digits d) :
    ∃ arg, Server.parseCommand (buildMail a size) = some ([77, 65, 73, 76], some arg) ∧
      ∃ afterLt, Server.matchPrefix Server.kwFROM arg = some afterLt ∧
        Server.splitAddr false afterLt = some (a, sizePart size) := by
  obtain ⟨l, x, hlx, hx⟩ := tail_last a size hs
  refine ⟨[70, 82, 79, 77, 58, 60] ++ a ++ [62] ++ sizePart size, ?_, ?_⟩
  · have hbuild : buildMail a size = [77, 65, 73, 76] ++ (32 :: ([70, 82, 79, 77, 58, 60] ++ a ++ [62] ++
        sizePart size)) := by
      simp [buildMail]
    rw [hbuild, hlx]
    have htake : ([77, 65, 73, 76] ++ (32 :: (l ++ [x])) : Bytes).takeWhile Server.isAlpha = [77, 65, 73, 76] := by
      simp [List.takeWhile, Server.isAlpha]
    have hdrop : ([77, 65, 73, 76] ++ (32 :: (l ++ [x])) : Bytes).dropWhile Server.isAlpha = 32 :: (l ++ [x]) := by
      simp [List.dropWhile, Server.isAlpha]
    have hnotall : (32 :: (l ++ [x]) : Bytes).all isWs = false := by
      simp only [List.all_cons, List.all_append, List.all_nil, Bool.and_true, hx, Bool.and_false]
    have hl0 : ∃ y ys, l ++ [x] = y :: ys ∧ isWs y = false := by
      rw [← hlx]; exact ⟨70, _, rfl, by decide⟩
    obtain ⟨y, ys, hy, hyw⟩ := hl0
    simp only [Server.parseCommand, htake, hdrop, hnotall, List.isEmpty_cons, Bool.false_eq_true, if_false]
    have hws : isWs (32 : Byte) = true := by decide
    simp only [hws, if_true]
    have hdw : (32 :: (l ++ [x]) : Bytes).dropWhile isWs = l ++ [x] := by
      rw [hy]; simp [List.dropWhile_cons, hws, hyw]
    rw [hdw, rstripWs_keep l x hx]
    simp [Server.upper]
  · refine ⟨a ++ [62] ++ sizePart size, ?_, ?_⟩
    · simp [Server.matchPrefix, Server.kwFROM, Server.lower, List.dropWhile, isWs]
    · have := splitAddr_build a (sizePart size) hc.1
      simpa [List.append_assoc] using this

/-- **RCPT round trip.** -/
theorem rcpt_roundtrip (a : Bytes) (hc : CleanAddr a) :
    ∃ arg, Server.parseCommand (buildRcpt a) = some ([82, 67, 80, 84], some arg) ∧
      ∃ afterLt, Server.matchPrefix Server.kwTO arg = some afterLt ∧ Server.splitAddr false afterLt = some (a, []) := by
  refine ⟨[84, 79, 58, 60] ++ a ++ [62], ?_, ?_⟩
  · have hbuild : buildRcpt a = [82, 67, 80, 84] ++ (32 :: (([84, 79, 58, 60] ++ a) ++ [62])) := by simp [buildRcpt]
    rw [hbuild]
    have hx : isWs (62 : Byte) = false := by decide
    have htake : ([82, 67, 80, 84] ++ (32 :: (([84, 79, 58, 60] ++ a) ++ [62])) : Bytes).takeWhile Server.isAlpha = [82, 67, 80, 84] := by
      simp [List.takeWhile, Server.isAlpha]
    have hdrop : ([82, 67, 80, 84] ++ (32 :: (([84, 79, 58, 60] ++ a) ++ [62])) : Bytes).dropWhile Server.isAlpha =
        32 :: (([84, 79, 58, 60] ++ a) ++ [62]) := by
      simp [List.dropWhile, Server.isAlpha]
    have hnotall : (32 :: (([84, 79, 58, 60] ++ a) ++ [62]) : Bytes).all isWs = false := by
      simp only [List.all_cons, List.all_append, List.all_nil, Bool.and_true, hx, Bool.and_false]
    simp only [Server.parseCommand, htake, hdrop, hnotall, List.isEmpty_cons, Bool.false_eq_true, if_false]
    have hws : isWs (32 : Byte) = true := by decide
    simp only [hws, if_true]
    have hdw : (32 :: (([84, 79, 58, 60] ++ a) ++ [62]) : Bytes).dropWhile isWs = ([84, 79, 58, 60] ++ a) ++ [62] := by
      simp [List.dropWhile_cons, hws, isWs]
    rw [hdw, rstripWs_keep _ 62 hx]
    simp [Server.upper]
  · refine ⟨a ++ [62], ?_, ?_⟩
    · simp [Server.matchPrefix, Server.kwTO, Server.lower, List.dropWhile, isWs]
    · have := splitAddr_build a [] hc.1
      simpa using this

/-! ## base64 -/

theorem b64val_char (i : Nat) (h : i < 64) : b64val (b64char i) = some i := by
  unfold b64char b64val
  split
  · rename_i h1; simp; omega
  · split
    · rename_i h1 h2
      have : ¬ (65 ≤ 97 + (i - 26) ∧ 97 + (i - 26) ≤ 90) := by omega
      simp only [this, if_false]
      have : 97 ≤ 97 + (i - 26) ∧ 97 + (i - 26) ≤ 122 := by omega
      simp only [this, and_self, if_true, Option.some.injEq]; omega
    · split
      · rename_i h1 h2 h3
        have a1 : ¬ (65 ≤ 48 + (i - 52) ∧ 48 + (i - 52) ≤ 90) := by omega
        have a2 : ¬ (97 ≤ 48 + (i - 52) ∧ 48 + (i - 52) ≤ 122) := by omega
        have a3 : 48 ≤ 48 + (i - 52) ∧ 48 + (i - 52) ≤ 57 := by omega
        simp only [a1, a2, a3, and_self, if_false, if_true, Option.some.injEq]; omega
      · split
        · rename_i h1 h2 h3 h4; subst h4; simp
        · rename_i h1 h2 h3 h4
          have : i = 63 := by omega
          subst this; simp

theorem b64char_ne_pad (i : Nat) (h : i < 64) : b64char i ≠ 61 := by
  unfold b64char; split <;> (try split) <;> (try split) <;> (try split) <;> omega

/-- **base64 round trip**: decoding the encoding of any byte string gives it back. -/
theorem b64_roundtrip (l : List Nat) (h : ∀ x ∈ l, x < 256) : b64dec (b64enc l) = some l := by
  induction l using b64enc.induct with
  | case1 a b c rest ih =>
    have ha := h a (by simp); have hb := h b (by simp); have hc := h c (by simp)
    have hrest : ∀ x ∈ rest, x < 256 := fun x hx => h x (by simp [hx])
    simp only [b64enc]
    have p3 : b64char (c % 64) ≠ 61 := b64char_ne_pad _ (by omega)
    have e0 := b64val_char (a / 4) (by omega)
    have e1 := b64val_char ((a % 4) * 16 + b / 16) (by omega)
    have e2 := b64val_char ((b % 16) * 4 + c / 64) (by omega)
    have e3 := b64val_char (c % 64) (by omega)
    rw [b64dec]
    · simp only [e0, e1, e2, e3, ih hrest, Option.some.injEq, List.cons.injEq, and_true]
      omega
    · intro h1 h2 _; exact p3 h2
    · intro h1 _; exact p3 h1
  | case2 a b =>
    have ha := h a (by simp); have hb := h b (by simp)
    have e0 := b64val_char (a / 4) (by omega)
    have e1 := b64val_char ((a % 4) * 16 + b / 16) (by omega)
    have e2 := b64val_char ((b % 16) * 4) (by omega)
    have p2 : b64char ((b % 16) * 4) ≠ 61 := b64char_ne_pad _ (by omega)
    simp only [b64enc]
    rw [b64dec]
    · simp only [e0, e1, e2]
      have : (b % 16 * 4) % 4 = 0 := by omega
      simp only [this, if_true, Option.some.injEq, List.cons.injEq, and_true]
      omega
    · intro h1; exact p2 (by simpa using h1)
  | case3 a =>
    have ha := h a (by simp)
    have e0 := b64val_char (a / 4) (by omega)
    have e1 := b64val_char ((a % 4) * 16) (by omega)
    simp only [b64enc, b64dec, e0, e1]
    have : (a % 4 * 16) % 16 = 0 := by omega
    simp only [this, if_true, Option.some.injEq, List.cons.injEq, and_true]
    omega
  | case4 => simp [b64enc, b64dec]


/-! ## EHLO extension lines -/

theorem takeWhile_append_stop {α} (p : α → Bool) (l : List α) (x : α) (r : List α) (hl : ∀ y ∈ l, p y = true) (hx : p x = false) :
    (l ++ x :: r).takeWhile p = l ∧ (l ++ x :: r).dropWhile p = x :: r := by
  induction l with
  | nil => simp [List.takeWhile, List.dropWhile, hx]
  | cons y ys ih =>
    have hy := hl y (by simp)
    have := ih (fun z hz => hl z (by simp [hz]))
    simp [List.takeWhile_cons, List.dropWhile_cons, hy, this]

theorem takeWhile_all {α} (p : α → Bool) (l : List α) (hl : ∀ y ∈ l, p y = true) :
    l.takeWhile p = l ∧ l.dropWhile p = [] := by
  induction l with
  | nil => simp
  | cons y ys ih =>
    have hy := hl y (by simp)
    have := ih (fun z hz => hl z (by simp [hz]))
    simp [List.takeWhile_cons, List.dropWhile_cons, hy, this]

/-- A well-formed extension: a name of letters, digits and hyphens starting with a letter or digit;
    a parameter, if any, that is non-empty and neither starts nor ends with white space. -/
structure ExtOk (name : Bytes) (param : Option Bytes) : Prop where
  nameNe : name ≠ []
  first : ∀ b, name.head? = some b → isExtFirst b = true
  chars : ∀ b ∈ name, isExtChar b = true
  param : ∀ p, param = some p → ∃ x l y, p = x :: l ∧ isWs x = false ∧ (x :: l) = (x :: l).dropLast ++ [y] ∧ isWs y = false

theorem extFirst_not_ws {b : Byte} (h : isExtFirst b = true) : isWs b = false := by
  cases hw : isWs b with
  | false => rfl
  | true =>
    exfalso
    simp only [isWs, Bool.or_eq_true, beq_iff_eq] at hw
    rcases hw with ((((h1 | h1) | h1) | h1) | h1) | h1 <;> subst h1 <;> revert h <;> decide

/-- **Extension round trip**: the line `build_string` writes for an extension is parsed back by
    `parse_string` into the same (upper-cased) name and the same parameter. -/
theorem ext_roundtrip (name : Bytes) (param : Option Bytes) (h : ExtOk name param) :
    parseExtLine (buildExtLine name param) = some (name.map Server.upper, param) := by
  obtain ⟨hne, hfirst, hchars, hparam⟩ := h
  cases hn : name with
  | nil => exact absurd hn hne
  | cons n0 ns =>
    have hf : isExtFirst n0 = true := hfirst n0 (by simp [hn])
    have hnw : isWs n0 = false := extFirst_not_ws hf
    have hchars' : ∀ b ∈ n0 :: ns, isExtChar b = true := hn ▸ hchars
    cases param with
    | none =>
      have htw := takeWhile_all isExtChar (n0 :: ns) hchars'
      simp only [buildExtLine, parseExtLine, lstripWs, List.dropWhile_cons, hnw, Bool.false_eq_true, if_false, hf, if_true]
      rw [← List.dropWhile_cons (p := isExtChar)] at *
      simp only [htw.1, htw.2]
      simp [Server.rstripWs]
    | some p =>
      obtain ⟨x, l, y, hp, hxw, hlast, hyw⟩ := hparam p rfl
      subst hp
      have hsp : isExtChar (32 : Byte) = false := by decide
      have htw := takeWhile_append_stop isExtChar (n0 :: ns) 32 (x :: l) hchars' hsp
      have hline : buildExtLine (n0 :: ns) (some (x :: l)) = (n0 :: ns) ++ 32 :: (x :: l) := by
        simp [buildExtLine]
      rw [hline]
      have hls : lstripWs ((n0 :: ns) ++ 32 :: (x :: l)) = (n0 :: ns) ++ 32 :: (x :: l) := by
        simp [lstripWs, List.dropWhile_cons, hnw]
      simp only [parseExtLine, hls]
      simp only [List.cons_append, hf, if_true]
      have h1 : ((n0 :: (ns ++ 32 :: x :: l)) : Bytes).takeWhile isExtChar = n0 :: ns := by simpa using htw.1
      have h2 : ((n0 :: (ns ++ 32 :: x :: l)) : Bytes).dropWhile isExtChar = 32 :: x :: l := by simpa using htw.2
      rw [h1, h2]
      have hws : isWs (32 : Byte) = true := by decide
      have h3 : lstripWs (32 :: x :: l) = x :: l := by simp [lstripWs, List.dropWhile_cons, hws, hxw]
      rw [h3, hlast, rstripWs_keep _ y hyw, ← hlast]
      simp

/-! ## recipients of the HTTP transport -/

def TokenOk (t : List Nat) : Prop := ∀ c ∈ t, isSep c = false ∧ isWsN c = false

theorem splitRaw_token (acc t : List Nat) (ht : TokenOk t) : splitRaw acc t = [acc.reverse ++ t] := by
  induction t generalizing acc with
  | nil => simp [splitRaw]
  | cons c cs ih =>
    have hc := (ht c (by simp)).1
    simp only [splitRaw, hc, Bool.false_eq_true, if_false]
    rw [ih _ (fun d hd => ht d (by simp [hd]))]
    simp

theorem splitRaw_join (acc t : List Nat) (rest : List Nat) (ht : TokenOk t) :
    splitRaw acc (t ++ 44 :: rest) = (acc.reverse ++ t) :: splitRaw [] rest := by
  induction t generalizing acc with
  | nil => simp [splitRaw, isSep]
  | cons c cs ih =>
    have hc := (ht c (by simp)).1
    simp only [List.cons_append, splitRaw, hc, Bool.false_eq_true, if_false]
    rw [ih _ (fun d hd => ht d (by simp [hd]))]
    simp

theorem splitRaw_joinTokens (ts : List (List Nat)) (hne : ts ≠ []) (h : ∀ t ∈ ts, TokenOk t) :
    splitRaw [] (joinTokens ts) = ts := by
  induction ts with
  | nil => exact absurd rfl hne
  | cons t rest ih =>
    cases rest with
    | nil => simp [joinTokens, splitRaw_token [] t (h t (by simp))]
    | cons t2 rest2 =>
      simp only [joinTokens]
      rw [splitRaw_join [] t _ (h t (by simp))]
      rw [ih (by simp) (fun u hu => h u (by simp [hu]))]
      simp

theorem strip_token (t : List Nat) (ht : TokenOk t) : lstripN t = t ∧ rstripN t = t := by
  constructor
  · cases t with
    | nil => rfl
    | cons c cs => simp [lstripN, List.dropWhile_cons, (ht c (by simp)).2]
  · unfold rstripN
    cases hr : t.reverse with
    | nil => simp [List.reverse_eq_nil_iff.mp hr]
    | cons c cs =>
      have hc : c ∈ t := by
        have : c ∈ t.reverse := by rw [hr]; simp
        simpa using this
      simp only [List.dropWhile_cons, (ht c hc).2, Bool.false_eq_true, if_false]
      rw [← hr]; simp

theorem trimInner_tokens (first : Bool) (ts : List (List Nat)) (h : ∀ t ∈ ts, TokenOk t) : trimInner first ts = ts := by
  induction ts generalizing first with
  | nil => rfl
  | cons t rest ih =>
    have ht := strip_token t (h t (by simp))
    cases rest with
    | nil => cases first <;> simp [trimInner, ht.1]
    | cons t2 rest2 =>
      simp only [trimInner]
      rw [ih false (fun u hu => h u (by simp [hu]))]
      cases first <;> simp [ht.1, ht.2]

/-- **Recipients round trip (HTTP)**: the base64 tokens of the recipients, joined as the WSGI server
    joins repeated headers, are split back into the same tokens in the same order. -/
theorem recipients_roundtrip (ts : List (List Nat)) (hne : ts ≠ []) (h : ∀ t ∈ ts, TokenOk t) :
    splitTokens (joinTokens ts) = ts := by
  unfold splitTokens
  rw [splitRaw_joinTokens ts hne h, trimInner_tokens true ts h]

/-- base64 output is made of alphabet characters and `=`: none is a separator or white space. -/
theorem b64char_token (i : Nat) (h : i < 64) : isSep (b64char i) = false ∧ isWsN (b64char i) = false := by
  unfold b64char
  split
  · simp [isSep, isWsN]; omega
  · split
    · simp [isSep, isWsN]; omega
    · split
      · simp [isSep, isWsN]; omega
      · split <;> simp [isSep, isWsN]

theorem b64enc_token (l : List Nat) (h : ∀ x ∈ l, x < 256) : TokenOk (b64enc l) := by
  induction l using b64enc.induct with
  | case1 a b c rest ih =>
    have ha := h a (by simp); have hb := h b (by simp); have hc := h c (by simp)
    intro x hx
    simp only [b64enc, List.mem_cons] at hx
    rcases hx with rfl | rfl | rfl | rfl | hx
    · exact b64char_token _ (by omega)
    · exact b64char_token _ (by omega)
    · exact b64char_token _ (by omega)
    · exact b64char_token _ (by omega)
    · exact ih (fun y hy => h y (by simp [hy])) x hx
  | case2 a b =>
    have ha := h a (by simp); have hb := h b (by simp)
    intro x hx
    simp only [b64enc, List.mem_cons, List.mem_nil_iff, or_false] at hx
    rcases hx with rfl | rfl | rfl | rfl
    · exact b64char_token _ (by omega)
    · exact b64char_token _ (by omega)
    · exact b64char_token _ (by omega)
    · simp [isSep, isWsN]
  | case3 a =>
    have ha := h a (by simp)
    intro x hx
    simp only [b64enc, List.mem_cons, List.mem_nil_iff, or_false] at hx
    rcases hx with rfl | rfl | rfl | rfl
    · exact b64char_token _ (by omega)
    · exact b64char_token _ (by omega)
    · simp [isSep, isWsN]
    · simp [isSep, isWsN]
  | case4 => intro x hx; simp [b64enc] at hx

/-- **The HTTP transport end to end**: every recipient address (any bytes) comes out of the
    header value as the same bytes, in the same order. -/
theorem http_recipients_preserved (rs : List (List Nat)) (hne : rs ≠ []) (h : ∀ r ∈ rs, ∀ x ∈ r, x < 256) :
    (splitTokens (joinTokens (rs.map b64enc))).mapM b64dec = some rs := by
  rw [recipients_roundtrip (rs.map b64enc) (by simpa using hne)
    (fun t ht => by obtain ⟨r, hr, rfl⟩ := List.mem_map.mp ht; exact b64enc_token r (h r hr))]
  induction rs with
  | nil => exact absurd rfl hne
  | cons r rest ih =>
    cases rest with
    | nil => simp [b64_roundtrip r (h r (by simp))]
    | cons r2 rest2 =>
      have := ih (by simp) (fun r' hr' => h r' (by simp [hr']))
      rw [List.map_cons, List.mapM_cons, b64_roundtrip r (h r (by simp)), this]
      rfl

/-! Non-vacuity -/
example : CleanAddr [34, 97, 62, 98, 32, 99, 34, 64, 120, 46, 121] := by     -- "a>b c"@x.y
  constructor
  · decide
  · decide
example : CleanAddr [34, 101, 92, 34, 62, 120, 34, 64, 121] := by                 -- "e\">x"@y : an escaped quote inside the quoted run
  constructor
  · decide
  · decide
example : b64enc [104, 101, 108, 108, 111] = [97, 71, 86, 115, 98, 71, 56, 61] := by decide


/-! ## the reply code across the HTTP transport -/

/-- **The HTTP edge's reply code reaches the relay**: whatever the reply text and command are (quotes, backslashes, semicolons,
    any characters), the code the relay reads from the `X-Smtp-Reply` header is the code the edge wrote. -/
theorem http_reply_code_preserved (d1 d2 d3 : Nat) (hd : isDigitN d1 = true ∧ isDigitN d2 = true ∧ isDigitN d3 = true)
    (msg : List Nat) (cmd : Option (List Nat)) :
    parseXReplyCode (buildXReply [d1, d2, d3] msg cmd) = some [d1, d2, d3] := by
  obtain ⟨h1, h2, h3⟩ := hd
  have hw : isWsN d1 = false := by
    simp only [isDigitN, Bool.and_eq_true, decide_eq_true_eq] at h1
    simp only [isWsN, Bool.or_eq_false_iff, beq_eq_false_iff_ne, ne_eq]
    omega
  have hstrip : ∀ rest : List Nat, lstripN (d1 :: rest) = d1 :: rest := by
    intro rest; simp [lstripN, List.dropWhile, hw]
  have hsemi : ∀ rest : List Nat, lstripN (59 :: rest) = 59 :: rest := by
    intro rest; simp [lstripN, List.dropWhile, isWsN]
  have hb : buildXReply [d1, d2, d3] msg cmd = d1 :: d2 :: d3 :: 59 :: (32 :: (formatParam [109, 101, 115, 115, 97, 103, 101] msg ++
      (match cmd with
       | some c => [59, 32] ++ formatParam [99, 111, 109, 109, 97, 110, 100] c
       | none => []))) := by
    cases cmd <;> simp [buildXReply]
  rw [hb]
  simp only [parseXReplyCode, hstrip, h1, h2, h3, Bool.and_self, if_true, hsemi]

/-! ## the whole SMTP hop: client bytes into the server's command loop -/
section Hop
open Slimta.Server

def Accepting (v : Verdicts) : Prop := ∀ n, v n = none

theorem kw_EHLO : "EHLO".toUTF8.toList = [69, 72, 76, 79] := by decide +kernel
theorem kw_HELO : "HELO".toUTF8.toList = [72, 69, 76, 79] := by decide +kernel
theorem kw_STARTTLS : "STARTTLS".toUTF8.toList = [83, 84, 65, 82, 84, 84, 76, 83] := by decide +kernel
theorem kw_AUTH : "AUTH".toUTF8.toList = [65, 85, 84, 72] := by decide +kernel
theorem kw_MAIL : "MAIL".toUTF8.toList = [77, 65, 73, 76] := by decide +kernel
theorem kw_RCPT : "RCPT".toUTF8.toList = [82, 67, 80, 84] := by decide +kernel
theorem kw_DATA : "DATA".toUTF8.toList = [68, 65, 84, 65] := by decide +kernel

theorem cmdIs_EHLO (n : Bytes) : cmdIs n "EHLO" = (n == [69, 72, 76, 79]) := by unfold cmdIs; rw [kw_EHLO]
theorem cmdIs_HELO (n : Bytes) : cmdIs n "HELO" = (n == [72, 69, 76, 79]) := by unfold cmdIs; rw [kw_HELO]
theorem cmdIs_STARTTLS (n : Bytes) : cmdIs n "STARTTLS" = (n == [83, 84, 65, 82, 84, 84, 76, 83]) := by unfold cmdIs; rw [kw_STARTTLS]
theorem cmdIs_AUTH (n : Bytes) : cmdIs n "AUTH" = (n == [65, 85, 84, 72]) := by unfold cmdIs; rw [kw_AUTH]
theorem cmdIs_MAIL (n : Bytes) : cmdIs n "MAIL" = (n == [77, 65, 73, 76]) := by unfold cmdIs; rw [kw_MAIL]
theorem cmdIs_RCPT (n : Bytes) : cmdIs n "RCPT" = (n == [82, 67, 80, 84]) := by unfold cmdIs; rw [kw_RCPT]
theorem cmdIs_DATA (n : Bytes) : cmdIs n "DATA" = (n == [68, 65, 84, 65]) := by unfold cmdIs; rw [kw_DATA]

theorem step_MAIL (v : Verdicts) (s : St) (arg : Option Bytes) : step v s (some ([77, 65, 73, 76], arg)) = stepMail v s arg := by
  simp [step, cmdIs_EHLO, cmdIs_HELO, cmdIs_STARTTLS, cmdIs_AUTH, cmdIs_MAIL]
theorem step_RCPT (v : Verdicts) (s : St) (arg : Option Bytes) : step v s (some ([82, 67, 80, 84], arg)) = stepRcpt v s arg := by
  simp [step, cmdIs_EHLO, cmdIs_HELO, cmdIs_STARTTLS, cmdIs_AUTH, cmdIs_MAIL, cmdIs_RCPT]
theorem step_DATA (v : Verdicts) (s : St) (arg : Option Bytes) : step v s (some ([68, 65, 84, 65], arg)) = stepData v s arg := by
  simp [step, cmdIs_EHLO, cmdIs_HELO, cmdIs_STARTTLS, cmdIs_AUTH, cmdIs_MAIL, cmdIs_RCPT, cmdIs_DATA]

def mailSt (s : St) (a : Bytes) : St := { s with ncb := s.ncb + 1, haveMail := .yes, envelope := some (a, []) }
def rcptSt (s : St) (r : Bytes) : St :=
  { s with ncb := s.ncb + 1, haveRcpt := .yes, envelope := s.envelope.map fun (f, l) => (f, l ++ [r]) }
def doneSt (s : St) : St := { s with ncb := s.ncb + 2, haveMail := .unset, haveRcpt := .unset, envelope := none }

theorem mail_step (v : Verdicts) (s : St) (a : Bytes) (hv : Accepting v) (ha : CleanAddr a) (hu : utf8 a = true)
    (he : s.ehloAs.isNone = false) (hm : s.haveMail.truthy = false) :
    step v s (parseCommand (buildMail a none)) = (mailSt s a, [.cb (.mail a []), .reply 250], .continue_) := by
  obtain ⟨arg, hp, afterLt, hmp, hsp⟩ := mail_roundtrip a none ha (by intro d hd; cases hd)
  rw [hp, step_MAIL]
  simp only [stepMail, hmp, hsp, sizePart, hu, he, hm]
  simp [gatherParams, lookupParam, mailAccepted, callback, hv s.ncb, finish, mailSt]

theorem rcpt_step (v : Verdicts) (s : St) (r : Bytes) (hv : Accepting v) (hr : CleanAddr r) (hu : utf8 r = true)
    (hm : s.haveMail.truthy = true) :
    step v s (parseCommand (buildRcpt r)) = (rcptSt s r, [.cb (.rcpt r []), .reply 250], .continue_) := by
  obtain ⟨arg, hp, afterLt, hmp, hsp⟩ := rcpt_roundtrip r hr
  rw [hp, step_RCPT]
  simp only [stepRcpt, hmp, hsp, hu, hm]
  simp [gatherParams, callback, hv s.ncb, finish, rcptSt]

theorem data_step (v : Verdicts) (s : St) (hv : Accepting v) (hm : s.haveMail.truthy = true) (hr : s.haveRcpt.truthy = true) :
    step v s (parseCommand [68, 65, 84, 65]) = ({ s with ncb := s.ncb + 1 }, [.cb .data, .reply 354], .data) := by
  have hp : parseCommand [68, 65, 84, 65] = some ([68, 65, 84, 65], none) := by decide
  rw [hp, step_DATA]
  simp [stepData, hm, hr, callback, hv s.ncb]

/-- One command line whose step continues: the loop goes on with the bytes after its CRLF. -/
theorem loop_line (v : Verdicts) (ao : AuthOracle) (fuel : Nat) (s s1 : St) (line rest : Bytes) (acc evs : List Event)
    (hl : ∀ b ∈ line, b ≠ 10) (hstep : step v s (parseCommand line) = (s1, evs, .continue_)) :
    loop v ao (fuel + 1) s ⟨line ++ CRLF ++ rest, []⟩ acc = loop v ao fuel s1 ⟨rest, []⟩ (acc ++ evs) := by
  rw [loop]
  simp only [recvLine, Reply.matchLine_encoded line rest hl, hstep]

theorem buildMail_noLF (a : Bytes) (h : ∀ b ∈ a, b ≠ 10) : ∀ b ∈ buildMail a none, b ≠ 10 := by
  intro b hb
  simp [buildMail, sizePart] at hb
  rcases hb with hb | hb | hb | hb | hb | hb | hb | hb | hb | hb | hb | hb | hb <;> first | (subst hb; decide) | exact h b hb

theorem buildRcpt_noLF (a : Bytes) (h : ∀ b ∈ a, b ≠ 10) : ∀ b ∈ buildRcpt a, b ≠ 10 := by
  intro b hb
  simp [buildRcpt] at hb
  rcases hb with hb | hb | hb | hb | hb | hb | hb | hb | hb | hb | hb <;> first | (subst hb; decide) | exact h b hb

def rcptEvents (rs : List Bytes) : List Event := (rs.map fun r => [Event.cb (.rcpt r []), Event.reply 250]).flatten
/-- What the receiving server's handlers see for it. -/
def hopEvents (a : Bytes) (rs : List Bytes) (content : Bytes) : List Event :=
  [.cb (.mail a []), .reply 250] ++ rcptEvents rs ++ [.cb .data, .reply 354, .cb (.haveData (some content)), .reply 250]

def OkAddr (a : Bytes) : Prop := CleanAddr a ∧ utf8 a = true

theorem rcpts_loop (v : Verdicts) (ao : AuthOracle) (fuel : Nat) (rs : List Bytes) (s : St) (rest : Bytes) (acc : List Event)
    (hv : Accepting v) (hrs : ∀ r ∈ rs, OkAddr r) (hm : s.haveMail.truthy = true) :
    loop v ao (fuel + rs.length) s ⟨rcptBytes rs ++ rest, []⟩ acc
      = loop v ao fuel (rs.foldl rcptSt s) ⟨rest, []⟩ (acc ++ rcptEvents rs) := by
  induction rs generalizing s acc with
  | nil => simp [rcptBytes, rcptEvents]
  | cons r rs ih =>
    have hr := hrs r (by simp)
    have hb : rcptBytes (r :: rs) ++ rest = buildRcpt r ++ CRLF ++ (rcptBytes rs ++ rest) := by
      simp [rcptBytes, List.append_assoc]
    have hf : fuel + (r :: rs).length = (fuel + rs.length) + 1 := by simp; omega
    rw [hb, hf, loop_line v ao _ s (rcptSt s r) _ _ acc _ (buildRcpt_noLF r hr.1.2) (rcpt_step v s r hv hr.1 hr.2 hm)]
    rw [ih (rcptSt s r) _ (fun x hx => hrs x (by simp [hx])) (by simpa [rcptSt] using hm)]
    simp [rcptEvents, List.append_assoc]

theorem foldl_rcptSt_fields (rs : List Bytes) (s : St) :
    (rs.foldl rcptSt s).haveMail = s.haveMail ∧ (rs.foldl rcptSt s).extSize = s.extSize ∧
    (rs.foldl rcptSt s).ehloAs = s.ehloAs ∧
    (rs.foldl rcptSt s).envelope = s.envelope.map (fun (f, l) => (f, l ++ rs)) ∧
    (rs ≠ [] → (rs.foldl rcptSt s).haveRcpt = .yes) := by
  induction rs generalizing s with
  | nil => simp
  | cons r rs ih =>
    obtain ⟨h1, h2, h3, h4, h5⟩ := ih (rcptSt s r)
    simp only [List.foldl_cons]
    refine ⟨by rw [h1]; rfl, by rw [h2]; rfl, by rw [h3]; rfl, ?_, ?_⟩
    · rw [h4]; cases he : s.envelope <;> simp [rcptSt, he]
    · intro _
      by_cases hrs : rs = []
      · subst hrs; rfl
      · exact h5 hrs

theorem run_nosegs (buf : Bytes) (r : Data.Result) (h : Data.run buf [] = .ok r) : r.unread = [] := by
  unfold Data.run Data.recvLoop at h
  split at h
  · cases h; rfl
  · cases h

/-- The DATA command and the message: the reader returns the normalised message, the loop goes on
    with exactly the bytes after the end-of-data line. -/
theorem data_loop (v : Verdicts) (ao : AuthOracle) (fuel : Nat) (s : St) (parts : List Bytes) (trail : Bytes) (acc : List Event)
    (hv : Accepting v) (hm : s.haveMail.truthy = true) (hr : s.haveRcpt.truthy = true)
    (hb : C05.LineBoundarySplit true parts) (hsz : Data.tooBig s.extSize (Data.send parts).length = false) :
    loop v ao (fuel + 1) s ⟨[68, 65, 84, 65] ++ CRLF ++ (Data.send parts ++ trail), []⟩ acc
      = loop v ao fuel (doneSt s) ⟨trail, []⟩
          (acc ++ [.cb .data, .reply 354, .cb (.haveData (some (C05.normalize parts.flatten))), .reply 250]) := by
  obtain ⟨r, hrun, hdata, hrest⟩ := C05.data_roundtrip parts hb trail (Data.send parts ++ trail) [] (by simp) (by simp)
  have hun := run_nosegs _ r hrun
  rw [hun] at hrest
  simp only [List.flatten_nil, List.append_nil] at hrest
  rw [loop]
  have hline : ∀ b ∈ ([68, 65, 84, 65] : Bytes), b ≠ 10 := by decide
  simp only [recvLine, Reply.matchLine_encoded _ _ hline, data_step v s hv hm hr]
  have hlim : Data.runLimited s.extSize (Data.send parts ++ trail) [] = .ok ⟨some r.data, r.recvBuffer, r.unread⟩ := by
    simp only [Data.runLimited, hrun, hun, hrest]
    simp [hsz]
  simp only [hlim, hdata, hrest, hun]
  simp [afterData, callback, hv (s.ncb + 1), finish, doneSt, List.append_assoc]

/-- A session between two transactions: greeted with EHLO/HELO, nothing open. -/
structure Ready (s : St) : Prop where
  ehlo : s.ehloAs.isNone = false
  mail : s.haveMail = .unset
  rcpt : s.haveRcpt = .unset
  env : s.envelope = none

def afterHop (s : St) (a : Bytes) (rs : List Bytes) : St := doneSt (rs.foldl rcptSt (mailSt s a))

theorem afterHop_ready (s : St) (a : Bytes) (rs : List Bytes) (h : Ready s) :
    Ready (afterHop s a rs) ∧ (afterHop s a rs).extSize = s.extSize := by
  obtain ⟨_, h2, h3, _, _⟩ := foldl_rcptSt_fields rs (mailSt s a)
  exact ⟨⟨by simp only [afterHop, doneSt]; rw [h3]; exact h.ehlo, rfl, rfl, rfl⟩, by simp only [afterHop, doneSt]; rw [h2]; rfl⟩

/-- **One hop, end to end.** A receiving server between two transactions, with validators that
    accept; the bytes a relay client sends for one message — MAIL with any clean sender, RCPT for each
    of any non-empty list of clean recipients, DATA, the message cut into any parts at line
    boundaries — followed by any further bytes. The server's handlers see exactly that sender, exactly
    those recipients in order, and exactly the (CRLF-terminated) message; each command is answered
    250 / 354; nothing of the message is taken for a command and nothing after it is consumed: the
    session goes on, again between two transactions, with exactly the bytes that followed. -/
theorem hop_delivers (v : Verdicts) (ao : AuthOracle) (fuel : Nat) (s : St) (a : Bytes) (rs parts : List Bytes)
    (trail : Bytes) (acc : List Event)
    (hv : Accepting v) (hs : Ready s) (ha : OkAddr a) (hrs : ∀ r ∈ rs, OkAddr r) (hne : rs ≠ [])
    (hb : C05.LineBoundarySplit true parts) (hsz : Data.tooBig s.extSize (Data.send parts).length = false) :
    loop v ao (fuel + rs.length + 2) s ⟨hopBytes a rs parts ++ trail, []⟩ acc
      = loop v ao fuel (afterHop s a rs) ⟨trail, []⟩ (acc ++ hopEvents a rs (C05.normalize parts.flatten)) := by
  have hbytes : hopBytes a rs parts ++ trail
      = buildMail a none ++ CRLF ++ (rcptBytes rs ++ ([68, 65, 84, 65] ++ CRLF ++ (Data.send parts ++ trail))) := by
    simp [hopBytes, List.append_assoc]
  have hf : fuel + rs.length + 2 = ((fuel + 1) + rs.length) + 1 := by omega
  have hm0 : s.haveMail.truthy = false := by rw [hs.mail]; rfl
  rw [hbytes, hf, loop_line v ao _ s (mailSt s a) _ _ acc _ (buildMail_noLF a ha.1.2) (mail_step v s a hv ha.1 ha.2 hs.ehlo hm0)]
  have hm1 : (mailSt s a).haveMail.truthy = true := rfl
  rw [rcpts_loop v ao (fuel + 1) rs (mailSt s a) _ _ hv hrs hm1]
  obtain ⟨h1, h2, _, _, h5⟩ := foldl_rcptSt_fields rs (mailSt s a)
  rw [data_loop v ao fuel _ parts trail _ hv (by rw [h1]; rfl) (by rw [h5 hne]; rfl) hb (by rw [h2]; exact hsz)]
  simp [afterHop, hopEvents, List.append_assoc]

/-- The envelope the session has collected when the message-received callback is made: the sender and
    the recipients, in order. -/
theorem hop_envelope (s : St) (a : Bytes) (rs : List Bytes) :
    (rs.foldl rcptSt (mailSt s a)).envelope = some (a, rs) := by
  obtain ⟨_, _, _, h4, _⟩ := foldl_rcptSt_fields rs (mailSt s a)
  rw [h4]; simp [mailSt]

/-- Several messages over one connection: the events are those of each message in turn. -/
structure Msg where
  sender : Bytes
  rcpts : List Bytes
  parts : List Bytes

def Msg.Ok (maxSize : Option Nat) (m : Msg) : Prop :=
  OkAddr m.sender ∧ (∀ r ∈ m.rcpts, OkAddr r) ∧ m.rcpts ≠ [] ∧ C05.LineBoundarySplit true m.parts ∧
  Data.tooBig maxSize (Data.send m.parts).length = false

def sessionBytes (ms : List Msg) : Bytes := (ms.map fun m => hopBytes m.sender m.rcpts m.parts).flatten
def sessionEvents (ms : List Msg) : List Event :=
  (ms.map fun m => hopEvents m.sender m.rcpts (C05.normalize m.parts.flatten)).flatten
def sessionFuel (ms : List Msg) : Nat := (ms.map fun m => m.rcpts.length + 2).sum

theorem session_delivers (v : Verdicts) (ao : AuthOracle) (ms : List Msg) (fuel : Nat) (s : St) (trail : Bytes) (acc : List Event)
    (hv : Accepting v) (hs : Ready s) (hms : ∀ m ∈ ms, m.Ok s.extSize) :
    ∃ s', Ready s' ∧ loop v ao (fuel + sessionFuel ms) s ⟨sessionBytes ms ++ trail, []⟩ acc
      = loop v ao fuel s' ⟨trail, []⟩ (acc ++ sessionEvents ms) := by
  induction ms generalizing s acc with
  | nil => exact ⟨s, hs, by simp [sessionFuel, sessionBytes, sessionEvents]⟩
  | cons m ms ih =>
    obtain ⟨ha, hrs, hne, hb, hsz⟩ := hms m (by simp)
    obtain ⟨hready, hext⟩ := afterHop_ready s m.sender m.rcpts hs
    obtain ⟨s', hs', heq⟩ := ih (afterHop s m.sender m.rcpts) (acc ++ hopEvents m.sender m.rcpts (C05.normalize m.parts.flatten))
      hready (fun x hx => by rw [hext]; exact hms x (by simp [hx]))
    refine ⟨s', hs', ?_⟩
    have hf : fuel + sessionFuel (m :: ms) = (fuel + sessionFuel ms) + m.rcpts.length + 2 := by
      simp [sessionFuel]; omega
    have hbytes : sessionBytes (m :: ms) ++ trail = hopBytes m.sender m.rcpts m.parts ++ (sessionBytes ms ++ trail) := by
      simp [sessionBytes, List.append_assoc]
    rw [hf, hbytes, hop_delivers v ao _ s m.sender m.rcpts m.parts _ acc hv hs ha hrs hne hb hsz, heq]
    simp [sessionEvents, List.append_assoc]

/-- … and under every segmentation of those bytes (C09). -/
theorem session_delivers_any_segmentation (v : Verdicts) (ao : AuthOracle) (ms : List Msg) (fuel : Nat) (s : St) (trail : Bytes)
    (acc : List Event) (st : Stream) (hv : Accepting v) (hs : Ready s) (hms : ∀ m ∈ ms, m.Ok s.extSize)
    (hst : st.flat = sessionBytes ms ++ trail) (hne : NoEmpty st.segs) :
    ∃ s', Ready s' ∧ RunEq (loop v ao (fuel + sessionFuel ms) s st acc)
      (loop v ao fuel s' ⟨trail, []⟩ (acc ++ sessionEvents ms)) := by
  obtain ⟨s', hs', heq⟩ := session_delivers v ao ms fuel s trail acc hv hs hms
  refine ⟨s', hs', ?_⟩
  rw [← heq]
  exact loop_same v ao _ s acc st ⟨sessionBytes ms ++ trail, []⟩ ⟨by simpa [Stream.flat] using hst, hne, by intro x hx; cases hx⟩

/-- The hypotheses are satisfiable: a greeted session, one message with a quoted sender and two recipients. -/
example : Ready { extTls := false, extAuth := false, extSize := some 100, bannered := true, ehloAs := some [97] } ∧
    Msg.Ok (some 100) ⟨[34, 97, 62, 98, 34, 64, 120], [[99, 64, 100], [101, 64, 102]], [[104, 105, 13, 10], [46, 120]]⟩ := by
  refine ⟨⟨rfl, rfl, rfl, rfl⟩, ⟨⟨?_, ?_⟩, ?_⟩, ?_, ?_, ?_, ?_⟩
  · decide
  · intro b hb; simp at hb; rcases hb with h | h | h | h | h | h | h <;> subst h <;> decide
  · decide
  · intro r hr; simp at hr; rcases hr with h | h <;> subst h <;> exact ⟨⟨by decide, by decide⟩, by decide⟩
  · simp
  · simp [C05.LineBoundarySplit]
  · decide

end Hop

/-! ## The HTTP transport end to end (Model/HttpHop.lean) -/
section httphop
open Slimta.HttpHop

theorem decimal_fold (n : Nat) : ∀ acc : Nat,
    (decimal n).foldl (fun acc c => acc.bind fun a => if isDigitN c then some (a * 10 + (c - 48)) else none) (some acc)
      = some (acc * 10 ^ (decimal n).length + n) := by
  fun_induction decimal n with
  | case1 n h =>
    intro acc
    have : isDigitN (48 + n) = true := by simp [isDigitN]; omega
    simp [this]
  | case2 n h ih =>
    intro acc
    have hd : isDigitN (48 + n % 10) = true := by simp [isDigitN]; omega
    rw [List.foldl_append, ih acc]
    simp only [List.foldl_cons, List.foldl_nil, Option.bind_some, hd, if_true, List.length_append, List.length_cons, List.length_nil]
    congr 1
    have := Nat.div_add_mod n 10
    rw [Nat.pow_succ]
    have e : 48 + n % 10 - 48 = n % 10 := by omega
    rw [e]
    calc (acc * 10 ^ (decimal (n / 10)).length + n / 10) * 10 + n % 10
        = acc * (10 ^ (decimal (n / 10)).length * 10) + (10 * (n / 10) + n % 10) := by
          rw [Nat.add_mul, Nat.mul_assoc, Nat.mul_comm (n / 10) 10, Nat.add_assoc]
      _ = acc * (10 ^ (decimal (n / 10)).length * 10) + n := by rw [this]

theorem decimal_ne_nil (n : Nat) : decimal n ≠ [] := by
  unfold decimal; split <;> simp

/-- `int(str(n)) = n` -/
theorem parse_decimal (n : Nat) : parseDecimal (decimal n) = some n := by
  unfold parseDecimal
  have hne := decimal_ne_nil n
  have : (decimal n).isEmpty = false := by simpa using hne
  simp only [this, Bool.false_eq_true, if_false]
  rw [decimal_fold n 0]; simp

theorem filter_rcpts_ne (rs : List (List Nat)) (n : HName) (h : n ≠ .rcpt) :
    ((rs.map fun r => (HName.rcpt, b64enc r)).filter (·.1 == n)) = [] := by
  induction rs with
  | nil => rfl
  | cons r rest ih =>
    have : (HName.rcpt == n) = false := by
      cases n <;> first | rfl | exact absurd rfl h
    simp [List.filter_cons, this, ih]

theorem filter_rcpts_eq (rs : List (List Nat)) :
    ((rs.map fun r => (HName.rcpt, b64enc r)).filter (·.1 == HName.rcpt)) = rs.map fun r => (HName.rcpt, b64enc r) := by
  induction rs with
  | nil => rfl
  | cons r rest ih => simp [List.filter_cons, ih]

theorem b64enc_ne_nil (r : List Nat) (h : r ≠ []) : b64enc r ≠ [] := by
  match r, h with
  | [a], _ => simp [b64enc]
  | [a, b], _ => simp [b64enc]
  | a :: b :: c :: rest, _ => simp [b64enc]

theorem joinTokens_ne_nil (ts : List (List Nat)) (hne : ts ≠ []) (h : ∀ t ∈ ts, t ≠ []) : joinTokens ts ≠ [] := by
  match ts, hne with
  | [t], _ => simpa [joinTokens] using h t (by simp)
  | t :: t2 :: rest, _ =>
    simp only [joinTokens]
    have := h t (by simp)
    intro he
    exact this (List.append_eq_nil_iff.mp he).1

/-- **The HTTP hop end to end.** Whatever the EHLO string, the sender (any bytes, the null sender included), the recipients
    (any number, any non-empty byte strings) and the message data are: the request the relay client writes — Content-Length,
    Content-Type, X-Ehlo, X-Envelope-Sender and one X-Envelope-Recipient per recipient, all base64 —, presented to the WSGI
    application the way the server presents header lists (equally named headers joined with a comma), is read by the edge as
    exactly that EHLO string, that sender, those recipients in that order, and exactly the message data (the body cut at the
    announced length). -/
theorem http_hop_delivers (e : Env) (dflt : List Nat)
    (hs : ∀ x ∈ e.sender, x < 256) (hr : ∀ r ∈ e.rcpts, r ≠ [] ∧ ∀ x ∈ r, x < 256) :
    edgeEnvelope dflt (buildRequest e) = some e := by
  have gS : environGet (buildRequest e) .sender = some (b64enc e.sender) := by
    simp [environGet, buildRequest, List.filter_cons, filter_rcpts_ne e.rcpts .sender (by decide), joinTokens]
  have gE : environGet (buildRequest e) .ehlo = some e.ehlo := by
    simp [environGet, buildRequest, List.filter_cons, filter_rcpts_ne e.rcpts .ehlo (by decide), joinTokens]
  have gC : environGet (buildRequest e) .contentLength = some (decimal e.data.length) := by
    simp [environGet, buildRequest, List.filter_cons, filter_rcpts_ne e.rcpts .contentLength (by decide), joinTokens]
  have gR : environGet (buildRequest e) .rcpt =
      if e.rcpts = [] then none else some (joinTokens (e.rcpts.map b64enc)) := by
    simp only [environGet, buildRequest, List.filter_append, filter_rcpts_eq]
    cases hrs : e.rcpts with
    | nil => simp [List.filter_cons]
    | cons r rest => simp [List.filter_cons, List.map_map, Function.comp_def]
  simp only [edgeEnvelope, gS, gE, gC, gR, Option.getD_some]
  rw [b64_roundtrip e.sender hs, parse_decimal]
  simp only [Option.bind_eq_bind, Option.bind_some, List.take_length]
  by_cases hrs : e.rcpts = []
  · have hb : (buildRequest e).body = e.data := rfl
    simp only [hrs, if_true, hb, List.take_length]
    cases e; simp_all
  · have hraw : (joinTokens (e.rcpts.map b64enc)).isEmpty = false := by
      have := joinTokens_ne_nil (e.rcpts.map b64enc) (by simpa using hrs)
        (fun t ht => by obtain ⟨r, hr', rfl⟩ := List.mem_map.mp ht; exact b64enc_ne_nil r (hr r hr').1)
      simpa using this
    simp only [hrs, if_false, hraw, Bool.false_eq_true]
    rw [http_recipients_preserved e.rcpts hrs (fun r hr' => (hr r hr').2)]
    have hb : (buildRequest e).body = e.data := rfl
    simp [hb]


/-- non-vacuity: a null sender, two recipients, one of them with a comma and a space in it -/
example : edgeEnvelope [] (buildRequest ⟨[120], [], [[97, 44, 32, 98], [99]], [72, 58, 32, 49, 13, 10, 13, 10, 255]⟩)
    = some ⟨[120], [], [[97, 44, 32, 98], [99]], [72, 58, 32, 49, 13, 10, 13, 10, 255]⟩ :=
  http_hop_delivers _ _ (by decide) (by decide)

end httphop

end Slimta.C06
