import Model.Reply
import Proofs.Lemmas.Esc
import Proofs.Lemmas.Reply
/-!
# C17 — replies survive the wire: encode/parse round trip, exact consumption, bad replies

Property theorems only. Model: `Model/Reply.lean` (`IO.send_reply`, `IO.recv_reply`, `Reply`).
-/
namespace Slimta.C17
open Slimta Slimta.Reply

/-- **Round trip and exact consumption (wire level).** Any reply code (three digits, the first in 1..5) and any message bytes
    (valid UTF-8 after CRLF normalisation, i.e. any encoded text), written by `send_reply`, followed
    by any pipelined bytes, delivered as any `recv_buffer` prefix plus any non-empty `recv()`
    results: `recv_reply` returns that code and the CRLF-normalised text, and what is left
    (`recv_buffer` plus unread data) is exactly the pipelined successor. -/
theorem reply_roundtrip (c : Bytes) (hc : IsCode c) (hk : codeOk c = true) (m : Bytes) (hu : utf8Ok (normCRLF m) = true)
    (next buf0 : Bytes) (segs : List Bytes) (hne : ∀ s ∈ segs, s ≠ [])
    (hs : buf0 ++ segs.flatten = encode c m ++ next) :
    ∃ r, recvRun buf0 segs = .ok r ∧ r.code = c ∧ r.body = normCRLF m ∧
      r.recvBuffer ++ r.unread.flatten = next := by
  have hscan : scan none [] (buf0 ++ segs.flatten) = .done c (normCRLF m) next := by
    rw [hs]
    have := scan_encodeLines c hc hk (allLines (m ++ CRLF)) (allLines_crlf_ne_nil m) [] none (Or.inl rfl)
      (allLines_noLF _) (by simpa [joinCRLF_allLines] using hu) next
    simpa [encode, joinCRLF_allLines] using this
  have := recvLoop_spec segs none [] buf0 hne
  rw [hscan] at this
  exact this

/-- What the caller of `recv_reply` can observe. -/
def observable : Except (Err × Bytes) Result → Except Err (Bytes × Bytes × Bytes)
  | .ok r => .ok (r.code, r.body, r.recvBuffer ++ r.unread.flatten)
  | .error (e, _) => .error e

/-- **Segmentation independence**, for every byte stream (well-formed or not): the code, the text,
    the bytes left over, or the kind of failure do not depend on how the stream was cut. -/
theorem reply_segmentation_independent (buf0 buf0' : Bytes) (segs segs' : List Bytes)
    (hne : ∀ s ∈ segs, s ≠ []) (hne' : ∀ s ∈ segs', s ≠ [])
    (h : buf0 ++ segs.flatten = buf0' ++ segs'.flatten) :
    observable (recvRun buf0 segs) = observable (recvRun buf0' segs') := by
  have s1 := recvLoop_spec segs none [] buf0 hne
  have s2 := recvLoop_spec segs' none [] buf0' hne'
  rw [← h] at s2
  unfold recvRun
  cases hw : scan none [] (buf0 ++ segs.flatten) with
  | done c body rest =>
    rw [hw] at s1 s2
    obtain ⟨r1, e1, a1, b1, c1⟩ := s1
    obtain ⟨r2, e2, a2, b2, c2⟩ := s2
    simp [e1, e2, observable, a1, a2, b1, b2, c1, c2]
  | bad rest =>
    rw [hw] at s1 s2
    obtain ⟨rb1, e1⟩ := s1
    obtain ⟨rb2, e2⟩ := s2
    simp [e1, e2, observable]
  | needMore c l b =>
    rw [hw] at s1 s2
    obtain ⟨rb1, e1⟩ := s1
    obtain ⟨rb2, e2⟩ := s2
    simp [e1, e2, observable]

/-- **Malformed: not a reply line** (non-numeric code, missing separator, …). As soon as the first
    complete line of the stream is not `ddd[ \t-]text`, every delivery raises `BadReply`. -/
theorem bad_reply_non_reply_line (stream line rest : Bytes) (hm : matchLine stream = some (line, rest))
    (hp : parseReplyLine line = none) (buf0 : Bytes) (segs : List Bytes) (hne : ∀ s ∈ segs, s ≠ [])
    (hs : buf0 ++ segs.flatten = stream) :
    ∃ rb, recvRun buf0 segs = .error (.badReply, rb) := by
  have hscan : scan none [] (buf0 ++ segs.flatten) = .bad rest := by
    rw [hs, scan]
    split
    · rename_i h; rw [hm] at h; simp at h
    · rename_i c2 r2 h
      rw [hm] at h; simp at h; obtain ⟨rfl, rfl⟩ := h
      simp [hp]
  have := recvLoop_spec segs none [] buf0 hne
  rw [hscan] at this
  exact this

/-- **Malformed: different codes within one multi-line reply.** -/
theorem bad_reply_mixed_codes (c1 c2 : Bytes) (h1 : IsCode c1) (h2 : IsCode c2) (hd : c1 ≠ c2)
    (t1 t2 : Bytes) (ht1 : ∀ b ∈ t1, b ≠ 10) (ht2 : ∀ b ∈ t2, b ≠ 10) (sep : Byte)
    (hsep : sep = 32 ∨ sep = 9 ∨ sep = 45) (rest buf0 : Bytes) (segs : List Bytes)
    (hne : ∀ s ∈ segs, s ≠ [])
    (hs : buf0 ++ segs.flatten = c1 ++ [45] ++ t1 ++ CRLF ++ (c2 ++ [sep] ++ t2 ++ CRLF ++ rest)) :
    ∃ rb, recvRun buf0 segs = .error (.badReply, rb) := by
  have hsepLF : sep ≠ 10 := by rcases hsep with rfl | rfl | rfl <;> decide
  have hl1 : ∀ b ∈ c1 ++ [45] ++ t1, b ≠ 10 := by
    intro b hb; simp at hb
    rcases hb with hb | hb | hb
    · exact code_noLF c1 h1 b hb
    · subst hb; decide
    · exact ht1 b hb
  have hl2 : ∀ b ∈ c2 ++ [sep] ++ t2, b ≠ 10 := by
    intro b hb; simp at hb
    rcases hb with hb | hb | hb
    · exact code_noLF c2 h2 b hb
    · subst hb; exact hsepLF
    · exact ht2 b hb
  have p1 : parseReplyLine (c1 ++ [45] ++ t1) = some (c1, 45, t1) := parseReplyLine_ok c1 h1 45 (by simp) t1
  have p2 : parseReplyLine (c2 ++ [sep] ++ t2) = some (c2, sep, t2) := parseReplyLine_ok c2 h2 sep hsep t2
  have hscan : ∃ rb, scan none [] (buf0 ++ segs.flatten) = .bad rb := by
    rw [hs, scan_step none [] _ _ hl1, p1]
    simp only [Option.isSome_none, Bool.false_and, Bool.false_eq_true, if_false, bne_self_eq_false]
    rw [scan_step (some c1) _ _ _ hl2, p2]
    have : (some c1 != some c2) = true := by simp [hd]
    simp [this]
  obtain ⟨rb, hscan⟩ := hscan
  have := recvLoop_spec segs none [] buf0 hne
  rw [hscan] at this
  exact this

/-- **Malformed: invalid UTF-8.** A syntactically complete reply whose text is not valid UTF-8
    raises `BadReply`. -/
theorem bad_reply_invalid_utf8 (c : Bytes) (hc : IsCode c) (t : Bytes) (ht : ∀ b ∈ t, b ≠ 10)
    (hu : utf8Ok t = false) (rest buf0 : Bytes) (segs : List Bytes) (hne : ∀ s ∈ segs, s ≠ [])
    (hs : buf0 ++ segs.flatten = c ++ [32] ++ t ++ CRLF ++ rest) :
    ∃ rb, recvRun buf0 segs = .error (.badReply, rb) := by
  have hl : ∀ b ∈ c ++ [32] ++ t, b ≠ 10 := by
    intro b hb; simp at hb
    rcases hb with hb | hb | hb
    · exact code_noLF c hc b hb
    · subst hb; decide
    · exact ht b hb
  have p1 : parseReplyLine (c ++ [32] ++ t) = some (c, 32, t) := parseReplyLine_ok c hc 32 (by simp) t
  have hscan : scan none [] (buf0 ++ segs.flatten) = .bad rest := by
    rw [hs, scan_step none [] _ _ hl, p1]
    simp [joinCRLF, hu]
  have := recvLoop_spec segs none [] buf0 hne
  rw [hscan] at this
  exact this

/-- **Malformed: a code outside 100..599.** A syntactically complete reply whose three digits do not
    start with 1..5 raises `BadReply` under every delivery (it is consumed whole). -/
theorem bad_reply_code_out_of_range (c : Bytes) (hc : IsCode c) (hk : codeOk c = false) (t : Bytes) (ht : ∀ b ∈ t, b ≠ 10)
    (rest buf0 : Bytes) (segs : List Bytes) (hne : ∀ s ∈ segs, s ≠ [])
    (hs : buf0 ++ segs.flatten = c ++ [32] ++ t ++ CRLF ++ rest) :
    ∃ rb, recvRun buf0 segs = .error (.badReply, rb) := by
  have hl : ∀ b ∈ c ++ [32] ++ t, b ≠ 10 := by
    intro b hb; simp at hb
    rcases hb with hb | hb | hb
    · exact code_noLF c hc b hb
    · subst hb; decide
    · exact ht b hb
  have p1 : parseReplyLine (c ++ [32] ++ t) = some (c, 32, t) := parseReplyLine_ok c hc 32 (by simp) t
  have hscan : scan none [] (buf0 ++ segs.flatten) = .bad rest := by
    rw [hs, scan_step none [] _ _ hl, p1]
    simp [hk]
  have := recvLoop_spec segs none [] buf0 hne
  rw [hscan] at this
  exact this

/-- **Never a partial reply.** While the concatenated stream does not yet hold a complete reply
    (and nothing malformed), the parser asks for more input: it neither returns nor fails. -/
theorem incomplete_waits (buf0 : Bytes) (segs : List Bytes) (hne : ∀ s ∈ segs, s ≠ [])
    (c : Option Bytes) (l : List Bytes) (b : Bytes)
    (h : scan none [] (buf0 ++ segs.flatten) = .needMore c l b) :
    ∃ rb, recvRun buf0 segs = .error (.wouldBlock, rb) := by
  have := recvLoop_spec segs none [] buf0 hne
  rw [h] at this
  exact this

/-- **Enhanced-status class = reply-code class**, for every `Reply` state and every character
    classification. -/
theorem esc_class_eq_code_class (r : R) (e : Text) (h : getEsc r = some e) :
    ∃ c0 rest, r.code = some (c0 :: rest) ∧ e.head? = some c0 := by
  unfold getEsc at h
  split at h
  · rename_i c0 rest hcode
    refine ⟨c0, rest, hcode, ?_⟩
    split at h
    · split at h <;> simp at h <;> subst h <;> rfl
    · simp at h
  · simp at h


def cls245 (c : Char) : Bool := c == '2' || c == '4' || c == '5'

theorem getMessage_groups (c0 : Char) (cr : Text) (h245 : cls245 c0 = true) (c : Char) (subj det rest : Text) :
    getMessage { code := some (c0 :: cr), msg := some rest, esc := .groups c subj det } =
      if rest.isEmpty then some rest else some ((c0 :: '.' :: (subj ++ '.' :: det)) ++ ' ' :: rest) := by
  simp only [cls245] at h245
  simp [getMessage, getEsc, h245]

theorem getMessage_default (c0 : Char) (cr : Text) (h245 : cls245 c0 = true) (v : Text) :
    getMessage { code := some (c0 :: cr), msg := some v, esc := .none } =
      if v.isEmpty then some v else some ([c0, '.', '0', '.', '0'] ++ ' ' :: v) := by
  simp only [cls245] at h245
  simp [getMessage, getEsc, h245]

theorem getMessage_noclass (c0 : Char) (cr : Text) (h245 : cls245 c0 = false) (v : Text) (e : Esc) :
    getMessage { code := some (c0 :: cr), msg := some v, esc := e } = some v := by
  simp only [cls245] at h245
  simp [getMessage, getEsc, h245]

/-- **The text of a reply is a fixed point of the library's own reading of it.** Build `Reply(code, v)`
    for any (non-empty) code and any text that does not begin with white space; what its `message`
    property shows — enhanced status code included — is what the wire carries. A `Reply` given that
    text again, as the receiving side does, shows the same `message`. -/
theorem reply_text_fixed_point (k : Classes) (hk : ClassesOk k) (c0 : Char) (cr v : Text)
    (hv : ∀ x, v.head? = some x → k.isS x = false) (t : Text) (h1 : getMessage (mk k (c0 :: cr) v) = some t) :
    getMessage (mk k (c0 :: cr) t) = some t := by
  cases h245 : cls245 c0 with
  | false =>
    -- 1xx / 3xx: no enhanced status code is looked for or shown
    have hna : escAllowed { code := some (c0 :: cr), msg := none, esc := .none } = false := by
      simp only [cls245] at h245; simp [escAllowed, h245]
    have hmk : ∀ w, mk k (c0 :: cr) w = { code := some (c0 :: cr), msg := some w, esc := .none } := by
      intro w; simp [mk, setMessage, hna]
    rw [hmk, getMessage_noclass c0 cr h245] at h1
    simp only [Option.some.injEq] at h1; subst h1
    rw [hmk, getMessage_noclass c0 cr h245]
  | true =>
    have hal : escAllowed { code := some (c0 :: cr), msg := none, esc := .none } = true := by
      simp only [cls245] at h245; simp [escAllowed, h245]
    have hc0 : c0 = '2' ∨ c0 = '4' ∨ c0 = '5' := by
      simp only [cls245, Bool.or_eq_true, beq_iff_eq] at h245
      rcases h245 with (h | h) | h <;> simp [h]
    by_cases hve : v.isEmpty = true
    · have hv0 : v = [] := by simpa using hve
      subst hv0
      have hmk : mk k (c0 :: cr) [] = { code := some (c0 :: cr), msg := some [], esc := .none } := by simp [mk, setMessage]
      rw [hmk, getMessage_default c0 cr h245] at h1
      simp at h1; subst h1
      rw [hmk, getMessage_default c0 cr h245]; simp
    · have hvne : v.isEmpty = false := by simpa using hve
      cases hm : matchEscPrefix k v with
      | none =>
        have hmk : mk k (c0 :: cr) v = { code := some (c0 :: cr), msg := some v, esc := .none } := by
          simp [mk, setMessage, hvne, hal, hm]
        rw [hmk, getMessage_default c0 cr h245, hvne] at h1
        simp only [Bool.false_eq_true, if_false, Option.some.injEq] at h1
        subst h1
        -- the receiver finds `c0.0.0`, then the same text
        have hd0 : Digits3 k ['0'] := ⟨by simp, by simp, by intro x hx; simp at hx; subst hx; exact hk.zeroDigit⟩
        have hm2 := matchEscPrefix_of hk hc0 hd0 hd0 hv
        have hne2 : ([c0, '.', '0', '.', '0'] ++ ' ' :: v).isEmpty = false := by simp
        have hmk2 : mk k (c0 :: cr) ([c0, '.', '0', '.', '0'] ++ ' ' :: v) =
            { code := some (c0 :: cr), msg := some v, esc := .groups c0 ['0'] ['0'] } := by
          have : ([c0, '.', '0', '.', '0'] ++ ' ' :: v) = c0 :: '.' :: (['0'] ++ '.' :: (['0'] ++ ' ' :: v)) := by simp
          simp only [mk, setMessage, hne2, hal, Bool.not_true, Bool.or_false, Bool.false_eq_true, if_false]
          rw [this, hm2]
        rw [hmk2, getMessage_groups c0 cr h245, hvne]
        simp
      | some q =>
        obtain ⟨c, subj, det, rest⟩ := q
        obtain ⟨_, hs, hd, hrest⟩ := matchEscPrefix_spec hm
        have hmk : mk k (c0 :: cr) v = { code := some (c0 :: cr), msg := some rest, esc := .groups c subj det } := by
          simp [mk, setMessage, hvne, hal, hm]
        rw [hmk, getMessage_groups c0 cr h245] at h1
        by_cases hre : rest.isEmpty = true
        · simp only [hre, if_true, Option.some.injEq] at h1
          subst h1
          have hr0 : rest = [] := by simpa using hre
          subst hr0
          have hmk0 : mk k (c0 :: cr) [] = { code := some (c0 :: cr), msg := some [], esc := .none } := by simp [mk, setMessage]
          rw [hmk0, getMessage_default c0 cr h245]; simp
        · have hrne : rest.isEmpty = false := by simpa using hre
          simp only [hrne, Bool.false_eq_true, if_false, Option.some.injEq] at h1
          subst h1
          have hm2 := matchEscPrefix_of hk hc0 hs hd hrest
          have hne2 : ((c0 :: '.' :: (subj ++ '.' :: det)) ++ ' ' :: rest).isEmpty = false := by simp
          have hmk2 : mk k (c0 :: cr) ((c0 :: '.' :: (subj ++ '.' :: det)) ++ ' ' :: rest) =
              { code := some (c0 :: cr), msg := some rest, esc := .groups c0 subj det } := by
            have : ((c0 :: '.' :: (subj ++ '.' :: det)) ++ ' ' :: rest) = c0 :: '.' :: (subj ++ '.' :: (det ++ ' ' :: rest)) := by
              simp [List.append_assoc]
            simp only [mk, setMessage, hne2, hal, Bool.not_true, Bool.or_false, Bool.false_eq_true, if_false]
            rw [this, hm2]
          rw [hmk2, getMessage_groups c0 cr h245, hrne]
          simp

/-- Python's `\d` / `\s` on the characters that matter here satisfy the class assumptions. -/
example : ClassesOk ⟨Char.isDigit, Char.isWhitespace⟩ :=
  ⟨by decide, by decide, by
    intro c hc
    simp only [Char.isDigit, Bool.and_eq_true, decide_eq_true_eq] at hc
    simp only [Char.isWhitespace, Bool.or_eq_false_iff, beq_eq_false_iff_ne, ne_eq]
    refine ⟨⟨⟨?_, ?_⟩, ?_⟩, ?_⟩ <;> (simp only [decide_eq_false_iff_not]; intro he; subst he; revert hc; decide), by decide⟩

/-! ### non-vacuity -/

example : IsCode [50, 53, 48] := ⟨50, 53, 48, rfl, by decide, by decide, by decide⟩

example : encode [50, 53, 48] [97, 10, 98] ++ [50]
    = [50, 53, 48, 45] ++ [[97, 13, 10, 50], [53, 48, 32, 98, 13], [10, 50]].flatten := by
  simp [encode, allLines, matchLine, splitLF, stripCR, encodeLines, CRLF]

example : getEsc (mk ⟨Char.isDigit, Char.isWhitespace⟩ ['5', '5', '0'] ['2', '.', '1', '.', '7', ' ', 'x'])
    = some ['5', '.', '1', '.', '7'] := by decide

end Slimta.C17
