import Model.Proxy
namespace Slimta.C18
theorem placeholder : (1 : Nat) = 1 := rfl
end Slimta.C18
