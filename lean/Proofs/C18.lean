import Model.Proxy
import Proofs.Lemmas.Proxy
/-!
# C18 — PROXY protocol headers are parsed exactly and never over-read

Property theorems only. Model: `Model/Proxy.lean` (`slimta/util/proxyproto.py`).
A socket is any byte stream plus any pattern of short reads of `recv_into`.
-/
namespace Slimta.C18
open Slimta Slimta.Proxy

/-- A v1 header line as the reader needs it: `PROXY ` + a non-empty body without LF + CRLF, at most
    107 bytes (every line of the PROXY v1 grammar has this shape). -/
structure LineV1 (l body : Bytes) : Prop where
  eq : l = proxyPrefix ++ body ++ CRLF
  noLF : ∀ b ∈ body, b ≠ 10
  nonempty : body ≠ []
  len : l.length ≤ 107

theorem endsCRLF_append_crlf (x : Bytes) : endsCRLF (x ++ CRLF) = true := by
  simp [endsCRLF, endsWith, List.isSuffixOf_iff_suffix]

/-- No prefix longer than 8 bytes of such a line ends in CRLF, except the line itself. -/
theorem LineV1.noEarly {l body : Bytes} (w : LineV1 l body) (pre suf : Bytes) (h : l = pre ++ suf)
    (hp : 8 < pre.length) (hs : suf ≠ []) : endsCRLF pre = false := by
  cases hc : endsCRLF pre with
  | false => rfl
  | true =>
    exfalso
    obtain ⟨t, rfl⟩ := endsCRLF_last hc
    -- the LF of `pre` lies inside `proxyPrefix ++ body`
    have e : proxyPrefix ++ body ++ CRLF = (t ++ [13, 10]) ++ suf := by rw [← w.eq, h]
    have hlen : (t ++ [13, 10]).length ≤ (proxyPrefix ++ body).length + 1 := by
      have := congrArg List.length e
      have hs' : 0 < suf.length := by cases suf <;> simp_all
      simp [CRLF] at this ⊢; omega
    -- so byte number |t|+1 of the line is LF and sits in prefix/body or is the CR of the final CRLF
    have hget : (proxyPrefix ++ body ++ CRLF)[t.length + 1]? = some 10 := by
      rw [e]; simp
    by_cases hin : t.length + 1 < (proxyPrefix ++ body).length
    · rw [List.getElem?_append_left hin] at hget
      by_cases hpp : t.length + 1 < proxyPrefix.length
      · rw [List.getElem?_append_left hpp] at hget
        simp [proxyPrefix] at hpp
        have : t.length + 1 ≤ 5 := by omega
        simp at hp
        omega
      · rw [List.getElem?_append_right (by omega)] at hget
        have := List.mem_of_getElem? hget
        exact w.noLF 10 this rfl
    · have hidx : t.length + 1 = (proxyPrefix ++ body).length := by simp at hlen hin ⊢; omega
      rw [List.getElem?_append_right (by omega)] at hget
      simp [hidx, CRLF] at hget

/-- **v1: exact parse, exact consumption.** A well-formed line followed by any payload, under any
    short-read pattern: the outcome is the parse of exactly that line and the payload is left
    unread. -/
theorem v1_exact (ipo : IpOracle) (l body : Bytes) (w : LineV1 l body) (payload : Bytes) (short : List Nat) :
    ∃ sh, processV1 ipo [] ⟨l ++ payload, short⟩ =
      ((match parseV1 ipo l with | some (src, _) => Outcome.proceed src | none => .proceed .none),
        ⟨payload, sh⟩) := by
  have hl9 : 9 ≤ l.length := by
    have := congrArg List.length w.eq
    have hb : 0 < body.length := by
      have := w.nonempty
      cases body <;> simp_all
    simp [proxyPrefix, CRLF] at this; omega
  obtain ⟨sh1, h1⟩ := readN_enough (target := 8) (read := []) (s := ⟨l ++ payload, short⟩)
    (by simp; omega)
  simp only [List.length_nil, Nat.sub_zero, List.nil_append] at h1
  have htake : (l ++ payload).take 8 = l.take 8 := by
    rw [List.take_append_of_le_length (by omega)]
  have hdrop : (l ++ payload).drop 8 = l.drop 8 ++ payload := by
    rw [List.drop_append_of_le_length (by omega)]
  rw [htake, hdrop] at h1
  obtain ⟨sh2, h2⟩ := readLineLoop_exact l payload
    (by rw [w.eq]; exact endsCRLF_append_crlf _) w.len (l.take 8) ⟨l.drop 8 ++ payload, sh1⟩ (l.drop 8)
    (by simp) (by intro h; have := congrArg List.length h; simp at this; omega) rfl
    (fun pre suf h hp hs => w.noEarly pre suf h (by simp at hp; omega) hs)
  refine ⟨sh2, ?_⟩
  simp only [processV1, readV1Line, h1, h2]
  cases parseV1 ipo l with
  | none => rfl
  | some p => rfl

/-- **v1: bounded consumption.** Whatever arrives, at most 107 bytes are taken from the stream. -/
theorem v1_bounded (ipo : IpOracle) (s : Sock) :
    s.stream.length - (processV1 ipo [] s).2.stream.length ≤ 107 ∧
    ∃ got, s.stream = got ++ (processV1 ipo [] s).2.stream := by
  unfold processV1 readV1Line
  cases h1 : readN 8 [] s with
  | none =>
    have := readN_none h1
    simp at this ⊢; omega
  | some p =>
    obtain ⟨r1, s1⟩ := p
    obtain ⟨g1, hr1, hs1, hl1⟩ := readN_some h1
    simp at hr1 hl1
    subst hr1
    simp only
    cases h2 : readLineLoop r1 s1 with
    | none =>
      have hn := readLineLoop_none _ _ h2
      simp only
      refine ⟨?_, s.stream, by simp⟩
      rw [hs1]; simp; omega
    | some q =>
      obtain ⟨r2, s2⟩ := q
      obtain ⟨hb, g2, rfl, hs2⟩ := readLineLoop_bound _ _ _ _ (by omega) h2
      simp only
      have key : s.stream.length - s2.stream.length ≤ 107 ∧ ∃ got, s.stream = got ++ s2.stream := by
        refine ⟨?_, r1 ++ g2, by rw [hs1, hs2]; simp⟩
        rw [hs1, hs2]
        simp at hb ⊢
        omega
      cases parseV1 ipo (r1 ++ g2) with
      | none => exact key
      | some p => exact key

/-! ### v2 -/

/-- What a v2 header with command nibble `cmd`, family/protocol byte `fp` and address block `ad`
    (including any TLV tail) stands for. -/
def decodeV2 (ntop6 : Bytes → Bytes) (cmd fp : Byte) (ad : Bytes) : Outcome :=
  let fam := fp &&& 0xf0
  let res : Option Addr :=
    if fam == 0x10 then
      if ad.length < 12 then none
      else some (.ip (dotted (ad.take 4)) (be16 (ad.getD 8 0) (ad.getD 9 0)))
    else if fam == 0x20 then
      if ad.length < 36 then none
      else some (.ip (ntop6 (ad.take 16)) (be16 (ad.getD 32 0) (ad.getD 33 0)))
    else if fam == 0x30 then
      if ad.length < 216 then none
      else some (.unix (rstripNul (ad.take 108)))
    else some .none
  match res with
  | none => .proceed .none
  | some a => if cmd == 0 then .drop else .proceed a

/-- **v2: exact parse, exact consumption.** Signature, version 2, command LOCAL or PROXY, a
    declared length and exactly that many bytes of address block (with TLVs), then any payload,
    under any short-read pattern: 16 + length bytes are consumed, the payload is left unread, LOCAL
    drops the connection, PROXY yields the encoded source address. -/
theorem v2_exact (ntop6 : Bytes → Bytes) (vc fp hi lo : Byte) (ad payload : Bytes) (short : List Nat)
    (hver : vc &&& 0xf0 = 0x20) (hcmd : vc &&& 0x0f = 0 ∨ vc &&& 0x0f = 1)
    (hlen : ad.length = be16 hi lo) :
    ∃ sh, processV2 ntop6 [] ⟨sigV2 ++ [vc, fp, hi, lo] ++ ad ++ payload, short⟩ =
      (decodeV2 ntop6 (vc &&& 0x0f) fp ad, ⟨payload, sh⟩) := by
  obtain ⟨sh1, h1⟩ := readN_enough (target := 16) (read := [])
    (s := ⟨sigV2 ++ [vc, fp, hi, lo] ++ ad ++ payload, short⟩) (by simp [sigV2])
  have e1 : (sigV2 ++ [vc, fp, hi, lo] ++ ad ++ payload).take 16 = sigV2 ++ [vc, fp, hi, lo] := by
    simp [sigV2]
  have e2 : (sigV2 ++ [vc, fp, hi, lo] ++ ad ++ payload).drop 16 = ad ++ payload := by
    simp [sigV2]
  simp only [List.length_nil, Nat.sub_zero, List.nil_append, e1, e2] at h1
  obtain ⟨sh2, h2⟩ := readN_enough (target := be16 hi lo) (read := []) (s := ⟨ad ++ payload, sh1⟩)
    (by simp; omega)
  simp only [List.length_nil, Nat.sub_zero, List.nil_append, ← hlen, List.take_left', List.drop_left'] at h2
  have h2' : readN ad.length [] ⟨ad ++ payload, sh1⟩ = some (ad, ⟨payload, sh2⟩) := by
    simpa using h2
  refine ⟨sh2, ?_⟩
  have hc2 : ¬ ((vc &&& 0x0f != 0 && vc &&& 0x0f != 1) = true) := by
    rcases hcmd with h | h <;> simp [h]
  unfold processV2
  simp only [h1]
  have t12 : (sigV2 ++ [vc, fp, hi, lo]).take 12 = sigV2 := by simp [sigV2]
  have g12 : (sigV2 ++ [vc, fp, hi, lo]).getD 12 0 = vc := by simp [sigV2]
  have g13 : (sigV2 ++ [vc, fp, hi, lo]).getD 13 0 = fp := by simp [sigV2]
  have g14 : (sigV2 ++ [vc, fp, hi, lo]).getD 14 0 = hi := by simp [sigV2]
  have g15 : (sigV2 ++ [vc, fp, hi, lo]).getD 15 0 = lo := by simp [sigV2]
  simp only [t12, g12, g13, g14, g15, bne_self_eq_false, Bool.false_eq_true, if_false, hver, hc2,
    ← hlen, h2']
  unfold decodeV2
  simp only
  split
  · rename_i heq; rw [heq]
  · rename_i a heq; rw [heq]; simp only; split <;> rfl

/-- **v2: bounded consumption.** Whatever arrives, at most 16 bytes plus the declared length are
    taken from the stream (all of it only when it ends before that). -/
theorem v2_bounded (ntop6 : Bytes → Bytes) (s : Sock) :
    s.stream.length - (processV2 ntop6 [] s).2.stream.length
        ≤ 16 + be16 (s.stream.getD 14 0) (s.stream.getD 15 0) ∧
    ∃ got, s.stream = got ++ (processV2 ntop6 [] s).2.stream := by
  unfold processV2
  cases h1 : readN 16 [] s with
  | none =>
    have := readN_none h1
    simp at this ⊢; omega
  | some p =>
    obtain ⟨hdr, s1⟩ := p
    obtain ⟨g1, hr1, hs1, hl1⟩ := readN_some h1
    simp at hr1 hl1
    subst hr1
    have hP1 : s.stream.length - s1.stream.length ≤ 16 + be16 (s.stream.getD 14 0) (s.stream.getD 15 0) ∧
        ∃ got, s.stream = got ++ s1.stream := by
      refine ⟨?_, hdr, hs1⟩
      rw [hs1]; simp; omega
    have hd14 : s.stream.getD 14 0 = hdr.getD 14 0 := by
      rw [hs1]; simp [List.getD, List.getElem?_append_left (show 14 < hdr.length by omega)]
    have hd15 : s.stream.getD 15 0 = hdr.getD 15 0 := by
      rw [hs1]; simp [List.getD, List.getElem?_append_left (show 15 < hdr.length by omega)]
    simp only
    split
    · exact hP1
    · split
      · exact hP1
      · split
        · exact hP1
        · cases h2 : readN (be16 (hdr.getD 14 0) (hdr.getD 15 0)) [] s1 with
          | none =>
            have := readN_none h2
            simp only
            refine ⟨?_, s.stream, by simp⟩
            rw [hd14, hd15, hs1]
            simp at this ⊢; omega
          | some q =>
            obtain ⟨ad, s2⟩ := q
            obtain ⟨g2, hr2, hs2, hl2⟩ := readN_some h2
            simp at hr2 hl2
            subst hr2
            have hP2 : s.stream.length - s2.stream.length ≤ 16 + be16 (s.stream.getD 14 0) (s.stream.getD 15 0) ∧
                ∃ got, s.stream = got ++ s2.stream := by
              refine ⟨?_, hdr ++ ad, by rw [hs1, hs2]; simp⟩
              rw [hd14, hd15, hs1, hs2]; simp; omega
            simp only
            split
            · exact hP2
            · split <;> exact hP2

/-- The v2 parser as a function of the byte stream alone. -/
def specV2 (ntop6 : Bytes → Bytes) (all : Bytes) : Outcome × Bytes :=
  if all.length < 16 then (.proceed .none, [])
  else
    let hdr := all.take 16
    let rest := all.drop 16
    if hdr.take 12 != sigV2 then (.proceed .none, rest)
    else if hdr.getD 12 0 &&& 0xf0 != 0x20 then (.proceed .none, rest)
    else if hdr.getD 12 0 &&& 0x0f != 0 && hdr.getD 12 0 &&& 0x0f != 1 then (.proceed .none, rest)
    else
      let alen := be16 (hdr.getD 14 0) (hdr.getD 15 0)
      if rest.length < alen then (.proceed .none, [])
      else (decodeV2 ntop6 (hdr.getD 12 0 &&& 0x0f) (hdr.getD 13 0) (rest.take alen), rest.drop alen)

/-- **v2: the result does not depend on how `recv_into` cuts the stream** (nor on how many bytes
    the version detector had already peeked): outcome and unread bytes are a function of the byte
    stream. -/
theorem v2_short_read_independent (ntop6 : Bytes → Bytes) (init : Bytes) (s : Sock)
    (hinit : init.length ≤ 16) :
    ((processV2 ntop6 init s).1, (processV2 ntop6 init s).2.stream) = specV2 ntop6 (init ++ s.stream) := by
  unfold processV2 specV2
  cases h1 : readN 16 init s with
  | none =>
    have := readN_none h1
    have hlt : (init ++ s.stream).length < 16 := by simp; omega
    rw [if_pos hlt]
  | some p =>
    obtain ⟨hdr, s1⟩ := p
    obtain ⟨g1, hr1, hs1, hl1⟩ := readN_some h1
    have hlen : hdr.length = 16 := by rw [hr1]; simp; omega
    have hall : init ++ s.stream = hdr ++ s1.stream := by rw [hs1, hr1]; simp
    have hnl : ¬ (init ++ s.stream).length < 16 := by rw [hall]; simp; omega
    have ht : (init ++ s.stream).take 16 = hdr := by rw [hall, ← hlen]; simp
    have hd : (init ++ s.stream).drop 16 = s1.stream := by rw [hall, ← hlen]; simp
    simp only [hnl, if_false, ht, hd]
    split
    · rfl
    · split
      · rfl
      · split
        · rfl
        · cases h2 : readN (be16 (hdr.getD 14 0) (hdr.getD 15 0)) [] s1 with
          | none =>
            have := readN_none h2
            simp only [List.length_nil, Nat.sub_zero] at this
            rw [if_pos this]
          | some q =>
            obtain ⟨ad, s2⟩ := q
            obtain ⟨g2, hr2, hs2, hl2⟩ := readN_some h2
            simp only [List.nil_append, List.length_nil, Nat.sub_zero] at hr2 hl2
            subst hr2
            have hnl2 : ¬ s1.stream.length < be16 (hdr.getD 14 0) (hdr.getD 15 0) := by
              rw [hs2, List.length_append, hl2]; omega
            have ht2 : s1.stream.take (be16 (hdr.getD 14 0) (hdr.getD 15 0)) = ad := by
              rw [hs2, ← hl2]; simp
            have hd2 : s1.stream.drop (be16 (hdr.getD 14 0) (hdr.getD 15 0)) = s2.stream := by
              rw [hs2, ← hl2]; simp
            simp only [hnl2, if_false, ht2, hd2]
            unfold decodeV2
            simp only
            split
            · rename_i heq; rw [heq]
            · rename_i a heq; rw [heq]; simp only; split <;> rfl

/-- **Version auto-detection, v1.** When the first 8 bytes begin with `PROXY ` the dispatcher
    behaves exactly like the v1 handler on the same socket. -/
theorem autodetect_v1 (ipo : IpOracle) (ntop6 : Bytes → Bytes) (s : Sock) (i8 : Bytes) (s1 : Sock)
    (hread : readN 8 [] s = some (i8, s1)) (hpre : proxyPrefix.isPrefixOf i8 = true) :
    handle ipo ntop6 s = handleV1 ipo s := by
  obtain ⟨g, hg, hs, hl⟩ := readN_some hread
  simp at hg hl
  subst hg
  have h8 : readN 8 i8 s1 = some (i8, s1) := by
    rw [readN]; simp [hl]
  simp only [handle, handleV1, hread, hpre, if_true, processV1, readV1Line, h8]

/-- **Version auto-detection, v2.** When the first 8 bytes are the start of the v2 signature the
    dispatcher gives the outcome and leaves the bytes that the v2 handler would. -/
theorem autodetect_v2 (ipo : IpOracle) (ntop6 : Bytes → Bytes) (s : Sock) (i8 : Bytes) (s1 : Sock)
    (hread : readN 8 [] s = some (i8, s1)) (hsig : i8 = sigV2.take 8) :
    (handle ipo ntop6 s).1 = (handleV2 ntop6 s).1 ∧
    (handle ipo ntop6 s).2.stream = (handleV2 ntop6 s).2.stream := by
  obtain ⟨g, hg, hs, hl⟩ := readN_some hread
  simp at hg hl
  subst hg
  subst hsig
  have hnp : proxyPrefix.isPrefixOf (sigV2.take 8) = false := by decide
  have hh : handle ipo ntop6 s = processV2 ntop6 (sigV2.take 8) s1 := by
    simp only [handle, hread, hnp]
    simp
  have e1 := v2_short_read_independent ntop6 (sigV2.take 8) s1 (by decide)
  have e2 := v2_short_read_independent ntop6 [] s (by simp)
  rw [← hs] at e1
  simp only [List.nil_append] at e2
  rw [hh, handleV2]
  have := e1.trans e2.symm
  simp only [Prod.mk.injEq] at this
  exact this

/-- **Neither signature**: the connection proceeds with the invalid address and only the 8
    peeked bytes are consumed. -/
theorem autodetect_neither (ipo : IpOracle) (ntop6 : Bytes → Bytes) (s : Sock) (i8 : Bytes) (s1 : Sock)
    (hread : readN 8 [] s = some (i8, s1)) (hpre : proxyPrefix.isPrefixOf i8 = false)
    (hsig : i8 ≠ sigV2.take 8) :
    handle ipo ntop6 s = (.proceed .none, s1) := by
  simp [handle, hread, hpre, hsig]

/-! ### the v1 grammar -/

def kw : Family → Bytes
  | .inet => kwTCP4
  | .inet6 => kwTCP6

theorem body_of_line (body : Bytes) :
    ((proxyPrefix ++ body ++ CRLF).drop 6).take ((proxyPrefix ++ body ++ CRLF).length - 8) = body := by
  simp [proxyPrefix, CRLF]

/-- **v1 completeness: the encoded addresses are returned.** A `TCP4`/`TCP6` line whose four
    fields contain no space parses to exactly the addresses the resolver gives for the two IP
    texts and the decimal values of the two port fields (and is refused if any of them is not
    acceptable). -/
theorem parse_tcp (ipo : IpOracle) (fam : Family) (a1 a2 p1 p2 : Bytes)
    (h1 : ∀ b ∈ a1, b ≠ 32) (h2 : ∀ b ∈ a2, b ≠ 32) (h3 : ∀ b ∈ p1, b ≠ 32) (h4 : ∀ b ∈ p2, b ≠ 32) :
    parseV1 ipo (proxyPrefix ++ (kw fam ++ 32 :: (a1 ++ 32 :: (a2 ++ 32 :: (p1 ++ 32 :: p2)))) ++ CRLF) =
      match ipo fam a1, parsePort p1, ipo fam a2, parsePort p2 with
      | some s, some sp, some d, some dp => some (.ip s sp, .ip d dp)
      | _, _, _, _ => none := by
  have hk : ∀ b ∈ kw fam, b ≠ 32 := by cases fam <;> simp [kw, kwTCP4, kwTCP6]
  unfold parseV1
  rw [body_of_line]
  have hpre : proxyPrefix.isPrefixOf (proxyPrefix ++ (kw fam ++ 32 :: (a1 ++ 32 :: (a2 ++ 32 :: (p1 ++ 32 :: p2)))) ++ CRLF) = true := by
    simp [List.isPrefixOf_iff_prefix, List.append_assoc]
  rw [hpre, endsCRLF_append_crlf]
  simp only [Bool.and_self, if_true]
  rw [splitSP_field _ _ hk, splitSP_field _ _ h1, splitSP_field _ _ h2, splitSP_field _ _ h3,
    splitSP_noSP _ h4]
  cases fam <;> simp [kw, kwTCP4, kwTCP6, kwUNKNOWN] <;> rfl

/-- `UNKNOWN` lines (with anything after the keyword) give the unknown address. -/
theorem parse_unknown (ipo : IpOracle) (rest : Bytes) :
    parseV1 ipo (proxyPrefix ++ (kwUNKNOWN ++ 32 :: rest) ++ CRLF) = some (.none, .none) ∧
    parseV1 ipo (proxyPrefix ++ kwUNKNOWN ++ CRLF) = some (.none, .none) := by
  have hk : ∀ b ∈ kwUNKNOWN, b ≠ 32 := by simp [kwUNKNOWN]
  constructor
  · unfold parseV1
    rw [body_of_line]
    have hpre : proxyPrefix.isPrefixOf (proxyPrefix ++ (kwUNKNOWN ++ 32 :: rest) ++ CRLF) = true := by
      simp [List.isPrefixOf_iff_prefix, List.append_assoc]
    rw [hpre, endsCRLF_append_crlf]
    simp only [Bool.and_self, if_true]
    rw [splitSP_field _ _ hk]
    simp
  · unfold parseV1
    rw [body_of_line]
    have hpre : proxyPrefix.isPrefixOf (proxyPrefix ++ kwUNKNOWN ++ CRLF) = true := by
      simp [List.isPrefixOf_iff_prefix, List.append_assoc]
    rw [hpre, endsCRLF_append_crlf]
    simp only [Bool.and_self, if_true]
    rw [splitSP_noSP _ hk]
    simp

/-- **v1 soundness: nothing malformed is accepted.** If the parser returns an IP source address
    then the line starts with `PROXY `, ends in CRLF, and its body is exactly five fields separated
    by single spaces: a family keyword, two addresses the resolver accepts for that family, and two
    ports made of ASCII digits only with value at most 65535. Every other line gives the invalid
    address. -/
theorem parse_sound (ipo : IpOracle) (line : Bytes) (s : Bytes) (sp : Nat) (d : Addr)
    (h : parseV1 ipo line = some (.ip s sp, d)) :
    proxyPrefix.isPrefixOf line = true ∧ endsCRLF line = true ∧
    ∃ fam a1 a2 p1 p2 ds dp,
      (line.drop 6).take (line.length - 8) = kw fam ++ 32 :: (a1 ++ 32 :: (a2 ++ 32 :: (p1 ++ 32 :: p2))) ∧
      d = .ip ds dp ∧ ipo fam a1 = some s ∧ ipo fam a2 = some ds ∧
      (p1 ≠ [] ∧ p1.all isDigit = true ∧ sp = decVal p1 ∧ sp ≤ 65535) ∧
      (p2 ≠ [] ∧ p2.all isDigit = true ∧ dp = decVal p2 ∧ dp ≤ 65535) := by
  unfold parseV1 at h
  split at h
  · rename_i hc
    simp only [Bool.and_eq_true] at hc
    refine ⟨hc.1, hc.2, ?_⟩
    have hj := joinSP_splitSP ((line.drop 6).take (line.length - 8))
    simp only at h
    split at h
    · simp at h
    · rename_i p0 ps hsplit
      rw [hsplit] at hj
      split at h
      · simp at h
      · rename_i hnu
        split at h
        · rename_i fam a1 a2 p1 p2 hfam
          split at h
          · rename_i s' sp' d' dp' e1 e2 e3 e4
            simp at h
            obtain ⟨⟨rfl, rfl⟩, rfl⟩ := h
            have hp0 : p0 = kw fam := by
              simp at hfam
              split at hfam
              · rename_i h4; simp at hfam; subst hfam; simpa [kw] using h4
              · split at hfam
                · rename_i h6; simp at hfam; subst hfam; simpa [kw] using h6
                · simp at hfam
            refine ⟨fam, a1, a2, p1, p2, d', dp', ?_, rfl, e1, e3, parsePort_some e2, parsePort_some e4⟩
            rw [← hj, hp0]
            simp [joinSP]
          · simp at h
        · simp at h
  · simp at h

/-! ### non-vacuity -/

example : LineV1 (proxyPrefix ++ (kwTCP4 ++ 32 :: ([49, 46, 50, 46, 51, 46, 52] ++ 32 ::
    ([53, 46, 54, 46, 55, 46, 56] ++ 32 :: ([50, 53] ++ 32 :: [53, 56, 55])))) ++ CRLF)
    (kwTCP4 ++ 32 :: ([49, 46, 50, 46, 51, 46, 52] ++ 32 :: ([53, 46, 54, 46, 55, 46, 56] ++ 32 :: ([50, 53] ++ 32 :: [53, 56, 55])))) :=
  ⟨rfl, by decide, by decide, by decide⟩

example : parsePort [50, 53] = some 25 ∧ parsePort [43, 50, 53] = none ∧ parsePort [54, 53, 53, 51, 54] = none := by
  decide

example : decodeV2 (fun _ => []) 1 0x11 [1, 2, 3, 4, 5, 6, 7, 8, 0, 25, 2, 75]
    = .proceed (.ip [49, 46, 50, 46, 51, 46, 52] 25) := by decide

example : decodeV2 (fun _ => []) 0 0x11 [1, 2, 3, 4, 5, 6, 7, 8, 0, 25, 2, 75] = .drop := by decide

end Slimta.C18
