import Model.Server
namespace Slimta.C07
theorem placeholder : (1 : Nat) = 1 := rfl
end Slimta.C07
