import Model.Server
/-!
# C07 — the SMTP server enforces command order and resets transaction state

Property theorems about `Server.step` (one received command line), `afterData`, `afterTls` and
`banner` of `Model/Server.lean`, for every validator behaviour (`Verdicts`), every state and every
command line.
-/
namespace Slimta.C07
open Slimta Slimta.Server

/-- When the server may make a callback: the protocol order. -/
def Allowed (s : St) : Cb → Prop
  | .mail _ _ => s.ehloAs.isSome = true ∧ s.haveMail.truthy = false
  | .rcpt _ _ => s.haveMail.truthy = true
  | .data => s.haveMail.truthy = true ∧ s.haveRcpt.truthy = true
  | .ehlo _ | .helo _ => s.bannered = true
  | .starttls => s.extTls = true ∧ s.ehloAs.isSome = true
  | .rset | .noop | .quit => True
  | .custom name _ => name ∈ s.custom          -- a command the application defined: any time
  | _ => False

macro "allowed_tac" : tactic => `(tactic| (simp_all [Allowed, Option.isSome_iff_ne_none, Option.isNone_iff_eq_none] <;> try (split <;> simp_all)))

/-- What one command may put on the wire / call (`ok`: which callbacks are admissible). -/
inductive Shape (ok : Cb → Prop) : List Event → Next → Prop
  | rejected (code : Nat) (nx : Next) : code ∈ [500, 501, 503, 504, 552] → (nx = .continue_ ∨ nx = .aborted) →
      Shape ok [.reply code] nx
  | authPending (m : Bytes) (i : Option Bytes) : Shape ok [] (.auth m i)
  | called (c : Cb) (code : Nat) (nx : Next) : ok c → code ≠ 221 → code ≠ 421 → (nx = .continue_ ∨ nx = .data ∨ nx = .tls) →
      Shape ok [.cb c, .reply code] nx
  | calledClose (c : Cb) (code : Nat) : ok c → (code = 221 ∨ code = 421) → Shape ok [.cb c, .reply code, .cb .close] .closed

theorem finish_shape (ok : Cb → Prop) (s : St) (c : Cb) (code : Nat) (hok : ok c) :
    Shape ok (finish s [.cb c] code).2.1 (finish s [.cb c] code).2.2 := by
  simp only [finish]
  split
  · rename_i h; simp at h
    exact Shape.calledClose c code hok h
  · rename_i h; simp at h
    exact Shape.called c code .continue_ hok h.1 h.2 (Or.inl rfl)

theorem rej (ok : Cb → Prop) (s : St) (code : Nat) (h : code ∈ [500, 501, 503, 504, 552]) :
    Shape ok ((s, [Event.reply code], Next.continue_) : St × List Event × Next).2.1
          ((s, [Event.reply code], Next.continue_) : St × List Event × Next).2.2 :=
  Shape.rejected code .continue_ h (Or.inl rfl)

theorem stepHello_shape (v : Verdicts) (s : St) (isE : Bool) (arg : Option Bytes) :
    Shape (Allowed s) (stepHello v s isE arg).2.1 (stepHello v s isE arg).2.2 := by
  simp only [stepHello]
  split
  · exact rej _ s 503 (by simp)
  · split
    · exact rej _ s 501 (by simp)
    · split
      · exact rej _ s 501 (by simp)
      · split
        · exact Shape.rejected 501 .aborted (by simp) (Or.inr rfl)
        · simp only [callback]; exact finish_shape _ _ _ _ (by cases isE <;> simp_all [Allowed])

theorem stepStartTls_shape (v : Verdicts) (s : St) (arg : Option Bytes) :
    Shape (Allowed s) (stepStartTls v s arg).2.1 (stepStartTls v s arg).2.2 := by
  simp only [stepStartTls]
  split
  · exact rej _ s 500 (by simp)
  · split
    · exact rej _ s 501 (by simp)
    · split
      · exact rej _ s 503 (by simp)
      · simp only [callback, List.singleton_append]
        by_cases h : ((v s.ncb).getD 220 == 221 || (v s.ncb).getD 220 == 421) = true
        · simp only [h, if_true]
          simp at h; exact Shape.calledClose _ _ (by allowed_tac) h
        · simp only [h]
          simp at h
          by_cases h2 : ((v s.ncb).getD 220 == 220) = true
          · simp only [h2, if_true]
            exact Shape.called _ 220 .tls (by allowed_tac) (by decide) (by decide) (Or.inr (Or.inr rfl))
          · simp only [h2]
            exact Shape.called _ _ .continue_ (by allowed_tac) h.1 h.2 (Or.inl rfl)

theorem stepAuth_shape (s : St) (arg : Option Bytes) : Shape (Allowed s) (stepAuth s arg).2.1 (stepAuth s arg).2.2 := by
  simp only [stepAuth]
  split
  · exact rej _ s 500 (by simp)
  · split
    · exact rej _ s 503 (by simp)
    · split
      · exact rej _ s 501 (by simp)
      · split
        · exact rej _ s 504 (by simp)
        · split
          · exact Shape.authPending _ _
          · split
            · split
              · exact Shape.authPending _ _
              · exact rej _ s 504 (by simp)
            · exact rej _ s 504 (by simp)

theorem mailAccepted_shape (v : Verdicts) (s : St) (addr : Bytes) (ps) (hok : Allowed s (.mail addr ps)) :
    Shape (Allowed s) (mailAccepted v s addr ps).2.1 (mailAccepted v s addr ps).2.2 := by
  simp only [mailAccepted, callback]; exact finish_shape _ _ _ _ hok

theorem stepMail_shape (v : Verdicts) (s : St) (arg : Option Bytes) :
    Shape (Allowed s) (stepMail v s arg).2.1 (stepMail v s arg).2.2 := by
  simp only [stepMail]
  split
  · exact rej _ s 501 (by simp)
  · split
    · exact rej _ s 501 (by simp)
    · split
      · exact rej _ s 501 (by simp)
      · split
        · exact Shape.rejected 501 .aborted (by simp) (Or.inr rfl)
        · split
          · exact rej _ s 503 (by simp)
          · split
            · exact rej _ s 503 (by simp)
            · split
              · exact mailAccepted_shape _ _ _ _ (by allowed_tac)
              · split
                · exact rej _ s 501 (by simp)
                · split
                  · exact rej _ s 504 (by simp)
                  · split
                    · exact rej _ s 552 (by simp)
                    · exact mailAccepted_shape _ _ _ _ (by allowed_tac)

theorem stepRcpt_shape (v : Verdicts) (s : St) (arg : Option Bytes) :
    Shape (Allowed s) (stepRcpt v s arg).2.1 (stepRcpt v s arg).2.2 := by
  simp only [stepRcpt]
  split
  · exact rej _ s 501 (by simp)
  · split
    · exact rej _ s 501 (by simp)
    · split
      · exact rej _ s 501 (by simp)
      · split
        · exact Shape.rejected 501 .aborted (by simp) (Or.inr rfl)
        · split
          · exact rej _ s 503 (by simp)
          · simp only [callback]; exact finish_shape _ _ _ _ (by allowed_tac)

theorem stepData_shape (v : Verdicts) (s : St) (arg : Option Bytes) :
    Shape (Allowed s) (stepData v s arg).2.1 (stepData v s arg).2.2 := by
  simp only [stepData]
  split
  · exact rej _ s 501 (by simp)
  · split
    · exact rej _ s 503 (by simp)
    · simp only [callback, List.singleton_append]
      by_cases h : ((v s.ncb).getD 354 == 221 || (v s.ncb).getD 354 == 421) = true
      · simp only [h, if_true]
        simp at h; exact Shape.calledClose _ _ (by allowed_tac) h
      · simp only [h]
        simp at h
        by_cases h2 : ((v s.ncb).getD 354 == 354) = true
        · simp only [h2, if_true]
          exact Shape.called _ 354 .data (by allowed_tac) (by decide) (by decide) (Or.inr (Or.inl rfl))
        · simp only [h2]
          exact Shape.called _ _ .continue_ (by allowed_tac) h.1 h.2 (Or.inl rfl)

theorem stepRset_shape (v : Verdicts) (s : St) (arg : Option Bytes) :
    Shape (Allowed s) (stepRset v s arg).2.1 (stepRset v s arg).2.2 := by
  simp only [stepRset]
  split
  · exact rej _ s 501 (by simp)
  · simp only [callback]; exact finish_shape _ _ _ _ (by allowed_tac)

theorem stepQuit_shape (v : Verdicts) (s : St) (arg : Option Bytes) :
    Shape (Allowed s) (stepQuit v s arg).2.1 (stepQuit v s arg).2.2 := by
  simp only [stepQuit]
  split
  · exact rej _ s 501 (by simp)
  · simp only [callback]; exact finish_shape _ _ _ _ (by allowed_tac)

/-- **Every command line gets exactly one final reply** (`354`/`220`-before-handshake count as the
    reply of that line; an AUTH exchange that still has to run has sent nothing yet), **an error reply
    produced by the server itself comes with no callback**, and **a 221/421 reply ends the session**
    with the CLOSE callback and nothing after it. -/
theorem step_shape (v : Verdicts) (s : St) (cmd : Option (Bytes × Option Bytes)) :
    Shape (Allowed s) (step v s cmd).2.1 (step v s cmd).2.2 := by
  simp only [step]
  split
  · exact rej _ s 500 (by simp)
  · split
    · exact stepHello_shape _ _ _ _
    · split
      · exact stepHello_shape _ _ _ _
      · split
        · exact stepStartTls_shape _ _ _
        · split
          · exact stepAuth_shape _ _
          · split
            · exact stepMail_shape _ _ _
            · split
              · exact stepRcpt_shape _ _ _
              · split
                · exact stepData_shape _ _ _
                · split
                  · exact stepRset_shape _ _ _
                  · split
                    · simp only [stepNoop, callback]; exact finish_shape _ _ _ _ (by simp [Allowed])
                    · split
                      · exact stepQuit_shape _ _ _
                      · split
                        · rename_i hcu
                          simp only [stepCustom, callback]
                          exact finish_shape _ _ _ _ (by simpa [Allowed] using hcu)
                        · exact rej _ s 500 (by simp)

def replies (evs : List Event) : List Nat := evs.filterMap fun e => match e with | .reply c => some c | _ => none
def callbacks (evs : List Event) : List Cb := evs.filterMap fun e => match e with | .cb c => some c | _ => none

/-- Corollary: one reply per command line (none yet while an AUTH exchange is pending). -/
theorem one_final_reply (v : Verdicts) (s : St) (cmd : Option (Bytes × Option Bytes)) :
    (replies (step v s cmd).2.1).length = 1 ∨ (∃ m i, (step v s cmd).2.2 = .auth m i ∧ (step v s cmd).2.1 = []) := by
  have hs := step_shape v s cmd
  generalize (step v s cmd).2.1 = evs at hs ⊢
  generalize (step v s cmd).2.2 = nx at hs ⊢
  cases hs with
  | rejected code nx _ _ => left; rfl
  | authPending m i => right; exact ⟨m, i, rfl, rfl⟩
  | called c code nx _ _ _ _ => left; rfl
  | calledClose c code _ _ => left; rfl

/-- Corollary: a 221/421 reply closes; the CLOSE callback is the last event. -/
theorem close_code_closes (v : Verdicts) (s : St) (cmd : Option (Bytes × Option Bytes)) (code : Nat)
    (hc : code = 221 ∨ code = 421) (h : code ∈ replies (step v s cmd).2.1) :
    (step v s cmd).2.2 = .closed ∧ (step v s cmd).2.1.getLast? = some (.cb .close) := by
  have hs := step_shape v s cmd
  generalize (step v s cmd).2.1 = evs at hs h ⊢
  generalize (step v s cmd).2.2 = nx at hs ⊢
  cases hs with
  | rejected c nx hm _ =>
    simp [replies] at h; subst h
    rcases hc with rfl | rfl <;> simp at hm
  | authPending m i => simp [replies] at h
  | called c cd nx _ h1 h2 _ =>
    simp [replies] at h; subst h
    rcases hc with rfl | rfl
    · exact absurd rfl h1
    · exact absurd rfl h2
  | calledClose c cd _ _ => simp

/-- Corollary: a reply not preceded by a callback is one of the server's own error replies. -/
theorem rejected_without_callback (v : Verdicts) (s : St) (cmd : Option (Bytes × Option Bytes))
    (h : callbacks (step v s cmd).2.1 = []) :
    (∃ code, code ∈ [500, 501, 503, 504, 552] ∧ (step v s cmd).2.1 = [.reply code]) ∨
    (∃ m i, (step v s cmd).2.2 = .auth m i) := by
  have hs := step_shape v s cmd
  generalize (step v s cmd).2.1 = evs at hs h ⊢
  generalize (step v s cmd).2.2 = nx at hs ⊢
  cases hs with
  | rejected code nx hm _ => exact Or.inl ⟨code, hm, rfl⟩
  | authPending m i => exact Or.inr ⟨m, i, rfl⟩
  | called c code nx _ _ _ _ => simp [callbacks] at h
  | calledClose c code _ _ => simp [callbacks] at h

/-- **Callbacks are made only in protocol order**: whatever callback a command line causes is
    admissible in the state the server was in (MAIL: EHLO/HELO accepted and no sender open; RCPT:
    a sender accepted; DATA: sender and recipient accepted; EHLO/HELO: greeting accepted). -/
theorem callbacks_in_order (v : Verdicts) (s : St) (cmd : Option (Bytes × Option Bytes)) (c : Cb)
    (h : .cb c ∈ (step v s cmd).2.1) : c = .close ∨ Allowed s c := by
  have hs := step_shape v s cmd
  generalize (step v s cmd).2.1 = evs at hs h
  generalize (step v s cmd).2.2 = nx at hs
  cases hs with
  | rejected code nx _ _ => simp at h
  | authPending m i => simp at h
  | called c' code nx hok _ _ _ => simp at h; subst h; exact Or.inr hok
  | calledClose c' code hok _ =>
    simp at h
    rcases h with rfl | rfl
    · exact Or.inr hok
    · exact Or.inl rfl

theorem finish_state (s : St) (evs : List Event) (code : Nat) : (finish s evs code).1 = s := by
  simp only [finish]; split <;> rfl

/-! ### the transaction is forgotten -/

/-- After every message (accepted, rejected or too big) sender and recipients are forgotten. -/
theorem reset_after_message (v : Verdicts) (s : St) (content : Option Bytes) :
    (afterData v s content).1.haveMail = .unset ∧ (afterData v s content).1.haveRcpt = .unset ∧
    (afterData v s content).1.envelope = none := by
  simp [afterData, callback, finish_state]

/-- After a TLS handshake the server is back in its just-greeted state. -/
theorem reset_after_tls (s : St) :
    (afterTls s).1.ehloAs = none ∧ (afterTls s).1.haveMail = .unset ∧ (afterTls s).1.haveRcpt = .unset ∧
    (afterTls s).1.envelope = none ∧ (afterTls s).1.extTls = false := by
  simp [afterTls]

/-- An accepted RSET forgets sender and recipients (and the session's envelope in any case). -/
theorem reset_after_rset (v : Verdicts) (s : St) (h : (v s.ncb).getD 250 = 250) :
    (stepRset v s none).1.haveMail = .unset ∧ (stepRset v s none).1.haveRcpt = .unset ∧
    (stepRset v s none).1.envelope = none := by
  simp [stepRset, callback, finish_state, h]

/-- An accepted EHLO/HELO forgets sender and recipients. -/
theorem reset_after_hello (v : Verdicts) (s : St) (isE : Bool) (a : Bytes) (hb : s.bannered = true)
    (ha : a ≠ []) (hu : utf8 a = true) (h : (v s.ncb).getD 250 = 250) :
    (stepHello v s isE (some a)).1.haveMail = .unset ∧ (stepHello v s isE (some a)).1.haveRcpt = .unset ∧
    (stepHello v s isE (some a)).1.envelope = none := by
  simp [stepHello, callback, finish_state, h, hb, ha, hu]

/-! ### flags are raised only by accepted commands -/

/-- A command other than MAIL never raises the sender flag: it leaves it or clears it. -/
def KeepsMail (s s' : St) : Prop := s'.haveMail = s.haveMail ∨ s'.haveMail = .unset
def KeepsRcpt (s s' : St) : Prop := s'.haveRcpt = s.haveRcpt ∨ s'.haveRcpt = .unset

theorem hello_keeps (v s isE arg) : KeepsMail s (stepHello v s isE arg).1 ∧ KeepsRcpt s (stepHello v s isE arg).1 := by
  simp only [stepHello, callback]
  repeat' split
  all_goals (simp [KeepsMail, KeepsRcpt, finish_state] <;> try (repeat' split) <;> simp_all)

theorem starttls_keeps (v s arg) : KeepsMail s (stepStartTls v s arg).1 ∧ KeepsRcpt s (stepStartTls v s arg).1 := by
  simp only [stepStartTls, callback]
  repeat' split
  all_goals (simp [KeepsMail, KeepsRcpt] <;> try (repeat' split) <;> simp_all)

theorem auth_keeps (s arg) : (stepAuth s arg).1 = s := by
  simp only [stepAuth]
  repeat' split
  all_goals rfl

theorem rcpt_keeps_mail (v s arg) : KeepsMail s (stepRcpt v s arg).1 := by
  simp only [stepRcpt, callback]
  repeat' split
  all_goals (simp [KeepsMail, finish_state] <;> try (repeat' split) <;> simp_all)

theorem mail_keeps_rcpt (v s arg) : KeepsRcpt s (stepMail v s arg).1 := by
  simp only [stepMail, mailAccepted, callback]
  repeat' split
  all_goals (simp [KeepsRcpt, finish_state] <;> try (repeat' split) <;> simp_all)

theorem data_keeps (v s arg) : KeepsMail s (stepData v s arg).1 ∧ KeepsRcpt s (stepData v s arg).1 := by
  simp only [stepData, callback]
  repeat' split
  all_goals (simp [KeepsMail, KeepsRcpt] <;> try (repeat' split) <;> simp_all)

theorem rset_keeps (v s arg) : KeepsMail s (stepRset v s arg).1 ∧ KeepsRcpt s (stepRset v s arg).1 := by
  simp only [stepRset, callback]
  repeat' split
  all_goals (simp [KeepsMail, KeepsRcpt, finish_state] <;> try (repeat' split) <;> simp_all)

theorem noop_keeps (v s) : (stepNoop v s).1.haveMail = s.haveMail ∧ (stepNoop v s).1.haveRcpt = s.haveRcpt := by
  simp [stepNoop, callback, finish_state]

theorem quit_keeps (v s arg) : (stepQuit v s arg).1.haveMail = s.haveMail ∧ (stepQuit v s arg).1.haveRcpt = s.haveRcpt := by
  simp only [stepQuit, callback]
  split <;> simp [finish_state]

theorem custom_keeps (v : Verdicts) (s : St) (name : Bytes) (arg : Option Bytes) :
    (stepCustom v s name arg).1.haveMail = s.haveMail ∧ (stepCustom v s name arg).1.haveRcpt = s.haveRcpt := by
  simp [stepCustom, callback, finish_state]

/-- **No command other than MAIL raises the sender flag, none other than RCPT the recipient flag**
    (they leave the flag alone or clear it), for every command line. -/
theorem flags_raised_only_by_their_command (v : Verdicts) (s : St) (name : Bytes) (arg : Option Bytes) :
    (¬ cmdIs name "MAIL" = true → KeepsMail s (step v s (some (name, arg))).1) ∧
    (¬ cmdIs name "RCPT" = true → KeepsRcpt s (step v s (some (name, arg))).1) := by
  have km : ∀ s' : St, s'.haveMail = s.haveMail → KeepsMail s s' := fun _ h => Or.inl h
  have kr : ∀ s' : St, s'.haveRcpt = s.haveRcpt → KeepsRcpt s s' := fun _ h => Or.inl h
  constructor
  · intro hn
    simp only [step]
    repeat' split
    all_goals first
      | (exfalso; exact hn (by assumption))
      | with_reducible exact (hello_keeps _ _ _ _).1
      | with_reducible exact (starttls_keeps _ _ _).1
      | (rw [auth_keeps]; exact Or.inl rfl)
      | with_reducible exact rcpt_keeps_mail _ _ _
      | with_reducible exact (data_keeps _ _ _).1
      | with_reducible exact (rset_keeps _ _ _).1
      | (with_reducible apply km; with_reducible exact (noop_keeps _ _).1)
      | (with_reducible apply km; with_reducible exact (quit_keeps _ _ _).1)
      | (with_reducible apply km; with_reducible exact (custom_keeps _ _ _ _).1)
      | exact Or.inl rfl
  · intro hn
    simp only [step]
    repeat' split
    all_goals first
      | (exfalso; exact hn (by assumption))
      | with_reducible exact (hello_keeps _ _ _ _).2
      | with_reducible exact (starttls_keeps _ _ _).2
      | (rw [auth_keeps]; exact Or.inl rfl)
      | with_reducible exact mail_keeps_rcpt _ _ _
      | with_reducible exact (data_keeps _ _ _).2
      | with_reducible exact (rset_keeps _ _ _).2
      | (with_reducible apply kr; with_reducible exact (noop_keeps _ _).2)
      | (with_reducible apply kr; with_reducible exact (quit_keeps _ _ _).2)
      | (with_reducible apply kr; with_reducible exact (custom_keeps _ _ _ _).2)
      | exact Or.inl rfl

/-! ### non-vacuity -/

-- "FROM:<a>" accepted after EHLO; refused (503, no callback) before it
example : (stepMail (fun _ => none) { bannered := true, ehloAs := some [97], extTls := false, extAuth := false, extSize := none }
    (some [70, 82, 79, 77, 58, 60, 97, 62])).2.1 = [.cb (.mail [97] []), .reply 250] := by decide

example : (stepMail (fun _ => none) { bannered := true, extTls := false, extAuth := false, extSize := none }
    (some [70, 82, 79, 77, 58, 60, 97, 62])).2.1 = [.reply 503] := by decide

end Slimta.C07
