import Model.Server
/-!
# C07 — the SMTP server enforces command order and resets transaction state

Property theorems about `Server.step` (one received command line), `afterData`, `afterTls` and
`banner` of `Model/Server.lean`, for every validator behaviour (`Verdicts`), every state and every
command line.
-/
namespace Slimta.C07
open Slimta Slimta.Server

/-- When the server may make a callback: the protocol order. -/
def Allowed (s : St) : Cb → Prop
  | .mail _ _ => s.ehloAs.isSome = true ∧ s.haveMail.truthy = false
  | .rcpt _ _ => s.haveMail.truthy = true
  | .data => s.haveMail.truthy = true ∧ s.haveRcpt.truthy = true
  | .ehlo _ | .helo _ => s.bannered = true
  | .starttls => s.extTls = true ∧ s.ehloAs.isSome = true
  | .rset | .noop | .quit => True
  | .custom name _ => name ∈ s.custom          -- a command the application defined: any time
  | _ => False

macro "allowed_tac" : tactic => `(tactic| (simp_all [Allowed, Option.isSome_iff_ne_none, Option.isNone_iff_eq_none] <;> try (split <;> simp_all)))

/-- What one command may put on the wire / call (`ok`: which callbacks are admissible). -/
inductive Shape (ok : Cb → Prop) : List Event → Next → Prop
  | rejected (code : Nat) (nx : Next) : code ∈ [500, 501, 503, 504, 552] → (nx = .continue_ ∨ nx = .aborted) →
      Shape ok [.reply code] nx
  | authPending (m : Bytes) (i : Option Bytes) : Shape ok [] (.auth m i)
  | called (c : Cb) (code : Nat) (nx : Next) : ok c → code ≠ 221 → code ≠ 421 → (nx = .continue_ ∨ nx = .data ∨ nx = .tls) →
      Shape ok [.cb c, .reply code] nx
  | calledClose (c : Cb) (code : Nat) : ok c → (code = 221 ∨ code = 421) → Shape ok [.cb c, .reply code, .cb .close] .closed

theorem finish_shape (ok : Cb → Prop) (s : St) (c : Cb) (code : Nat) (hok : ok c) :
    Shape ok (finish s [.cb c] code).2.1 (finish s [.cb c] code).2.2 := by
  simp only [finish]
  split
  · rename_i h; simp at h
    exact Shape.calledClose c code hok h
  · rename_i h; simp at h
    exact Shape.called c code .continue_ hok h.1 h.2 (Or.inl rfl)

theorem rej (ok : Cb → Prop) (s : St) (code : Nat) (h : code ∈ [500, 501, 503, 504, 552]) :
    Shape ok ((s, [Event.reply code], Next.continue_) : St × List Event × Next).2.1
          ((s, [Event.reply code], Next.continue_) : St × List Event × Next).2.2 :=
  Shape.rejected code .continue_ h (Or.inl rfl)

theorem stepHello_shape (v : Verdicts) (s : St) (isE : Bool) (arg : Option Bytes) :
    Shape (Allowed s) (stepHello v s isE arg).2.1 (stepHello v s isE arg).2.2 := by
  simp only [stepHello]
  split
  · exact rej _ s 503 (by simp)
  · split
    · exact rej _ s 501 (by simp)
    · split
      · exact rej _ s 501 (by simp)
      · split
        · exact Shape.rejected 501 .aborted (by simp) (Or.inr rfl)
        · simp only [callback]; exact finish_shape _ _ _ _ (by cases isE <;> simp_all [Allowed])

theorem stepStartTls_shape (v : Verdicts) (s : St) (arg : Option Bytes) :
    Shape (Allowed s) (stepStartTls v s arg).2.1 (stepStartTls v s arg).2.2 := by
  simp only [stepStartTls]
  split
  · exact rej _ s 500 (by simp)
  · split
    · exact rej _ s 501 (by simp)
    · split
      · exact rej _ s 503 (by simp)
      · simp only [callback, List.singleton_append]
        by_cases h : ((v s.ncb).getD 220 == 221 || (v s.ncb).getD 220 == 421) = true
        · simp only [h, if_true]
          simp at h; exact Shape.calledClose _ _ (by allowed_tac) h
        · simp only [h]
          simp at h
          by_cases h2 : ((v s.ncb).getD 220 == 220) = true
          · simp only [h2, if_true]
            exact Shape.called _ 220 .tls (by allowed_tac) (by decide) (by decide) (Or.inr (Or.inr rfl))
          · simp only [h2]
            exact Shape.called _ _ .continue_ (by allowed_tac) h.1 h.2 (Or.inl rfl)

theorem stepAuth_shape (s : St) (arg : Option Bytes) : Shape (Allowed s) (stepAuth s arg).2.1 (stepAuth s arg).2.2 := by
  simp only [stepAuth]
  split
  · exact rej _ s 500 (by simp)
  · split
    · exact rej _ s 503 (by simp)
    · split
      · exact rej _ s 501 (by simp)
      · split
        · exact rej _ s 504 (by simp)
        · split
          · exact Shape.authPending _ _
          · split
            · split
              · exact Shape.authPending _ _
              · exact rej _ s 504 (by simp)
            · exact rej _ s 504 (by simp)

theorem mailAccepted_shape (v : Verdicts) (s : St) (addr : Bytes) (ps) (hok : Allowed s (.mail addr ps)) :
    Shape (Allowed s) (mailAccepted v s addr ps).2.1 (mailAccepted v s addr ps).2.2 := by
  simp only [mailAccepted, callback]; exact finish_shape _ _ _ _ hok

theorem stepMail_shape (v : Verdicts) (s : St) (arg : Option Bytes) :
    Shape (Allowed s) (stepMail v s arg).2.1 (stepMail v s arg).2.2 := by
  simp only [stepMail]
  split
  · exact rej _ s 501 (by simp)
  · split
    · exact rej _ s 501 (by simp)
    · split
      · exact rej _ s 501 (by simp)
      · split
        · exact Shape.rejected 501 .aborted (by simp) (Or.inr rfl)
        · split
          · exact rej _ s 503 (by simp)
          · split
            · exact rej _ s 503 (by simp)
            · split
              · exact mailAccepted_shape _ _ _ _ (by allowed_tac)
              · split
                · exact rej _ s 501 (by simp)
                · split
                  · exact rej _ s 504 (by simp)
                  · split
                    · exact rej _ s 552 (by simp)
                    · exact mailAccepted_shape _ _ _ _ (by allowed_tac)

theorem stepRcpt_shape (v : Verdicts) (s : St) (arg : Option Bytes) :
    Shape (Allowed s) (stepRcpt v s arg).2.1 (stepRcpt v s arg).2.2 := by
  simp only [stepRcpt]
  split
  · exact rej _ s 501 (by simp)
  · split
    · exact rej _ s 501 (by simp)
    · split
      · exact rej _ s 501 (by simp)
      · split
        · exact Shape.rejected 501 .aborted (by simp) (Or.inr rfl)
        · split
          · exact rej _ s 503 (by simp)
          · simp only [callback]; exact finish_shape _ _ _ _ (by allowed_tac)

theorem stepData_shape (v : Verdicts) (s : St) (arg : Option Bytes) :
    Shape (Allowed s) (stepData v s arg).2.1 (stepData v s arg).2.2 := by
  simp only [stepData]
  split
  · exact rej _ s 501 (by simp)
  · split
    · exact rej _ s 503 (by simp)
    · simp only [callback, List.singleton_append]
      by_cases h : ((v s.ncb).getD 354 == 221 || (v s.ncb).getD 354 == 421) = true
      · simp only [h, if_true]
        simp at h; exact Shape.calledClose _ _ (by allowed_tac) h
      · simp only [h]
        simp at h
        by_cases h2 : ((v s.ncb).getD 354 == 354) = true
        · simp only [h2, if_true]
          exact Shape.called _ 354 .data (by allowed_tac) (by decide) (by decide) (Or.inr (Or.inl rfl))
        · simp only [h2]
          exact Shape.called _ _ .continue_ (by allowed_tac) h.1 h.2 (Or.inl rfl)

theorem stepRset_shape (v : Verdicts) (s : St) (arg : Option Bytes) :
    Shape (Allowed s) (stepRset v s arg).2.1 (stepRset v s arg).2.2 := by
  simp only [stepRset]
  split
  · exact rej _ s 501 (by simp)
  · by_cases hp : s.session = true
    · simp only [hp, if_true]; exact finish_shape _ _ _ _ (by allowed_tac)
    · simp only [hp, Bool.false_eq_true, if_false, callback]; exact finish_shape _ _ _ _ (by allowed_tac)

theorem stepQuit_shape (v : Verdicts) (s : St) (arg : Option Bytes) :
    Shape (Allowed s) (stepQuit v s arg).2.1 (stepQuit v s arg).2.2 := by
  simp only [stepQuit]
  split
  · exact rej _ s 501 (by simp)
  · by_cases hp : s.session = true
    · simp only [hp, if_true]; exact finish_shape _ _ _ _ (by allowed_tac)
    · simp only [hp, Bool.false_eq_true, if_false, callback]; exact finish_shape _ _ _ _ (by allowed_tac)

/-- **Every command line gets exactly one final reply** (`354`/`220`-before-handshake count as the
    reply of that line; an AUTH exchange that still has to run has sent nothing yet), **an error reply
    produced by the server itself comes with no callback**, and **a 221/421 reply ends the session**
    with the CLOSE callback and nothing after it. -/
theorem step_shape (v : Verdicts) (s : St) (cmd : Option (Bytes × Option Bytes)) :
    Shape (Allowed s) (step v s cmd).2.1 (step v s cmd).2.2 := by
  simp only [step]
  split
  · exact rej _ s 500 (by simp)
  · split
    · exact stepHello_shape _ _ _ _
    · split
      · exact stepHello_shape _ _ _ _
      · split
        · exact stepStartTls_shape _ _ _
        · split
          · exact stepAuth_shape _ _
          · split
            · exact stepMail_shape _ _ _
            · split
              · exact stepRcpt_shape _ _ _
              · split
                · exact stepData_shape _ _ _
                · split
                  · exact stepRset_shape _ _ _
                  · split
                    · by_cases hp : s.session = true
                      · simp only [stepNoop, hp, if_true]; exact finish_shape _ _ _ _ (by simp [Allowed])
                      · simp only [stepNoop, hp, Bool.false_eq_true, if_false, callback]; exact finish_shape _ _ _ _ (by simp [Allowed])
                    · split
                      · exact stepQuit_shape _ _ _
                      · split
                        · rename_i hcu
                          simp only [stepCustom, callback]
                          exact finish_shape _ _ _ _ (by simpa [Allowed] using hcu)
                        · exact rej _ s 500 (by simp)

def replies (evs : List Event) : List Nat := evs.filterMap fun e => match e with | .reply c => some c | _ => none
def callbacks (evs : List Event) : List Cb := evs.filterMap fun e => match e with | .cb c => some c | _ => none

/-- Corollary: one reply per command line (none yet while an AUTH exchange is pending). -/
theorem one_final_reply (v : Verdicts) (s : St) (cmd : Option (Bytes × Option Bytes)) :
    (replies (step v s cmd).2.1).length = 1 ∨ (∃ m i, (step v s cmd).2.2 = .auth m i ∧ (step v s cmd).2.1 = []) := by
  have hs := step_shape v s cmd
  generalize (step v s cmd).2.1 = evs at hs ⊢
  generalize (step v s cmd).2.2 = nx at hs ⊢
  cases hs with
  | rejected code nx _ _ => left; rfl
  | authPending m i => right; exact ⟨m, i, rfl, rfl⟩
  | called c code nx _ _ _ _ => left; rfl
  | calledClose c code _ _ => left; rfl

/-- Corollary: a 221/421 reply closes; the CLOSE callback is the last event. -/
theorem close_code_closes (v : Verdicts) (s : St) (cmd : Option (Bytes × Option Bytes)) (code : Nat)
    (hc : code = 221 ∨ code = 421) (h : code ∈ replies (step v s cmd).2.1) :
    (step v s cmd).2.2 = .closed ∧ (step v s cmd).2.1.getLast? = some (.cb .close) := by
  have hs := step_shape v s cmd
  generalize (step v s cmd).2.1 = evs at hs h ⊢
  generalize (step v s cmd).2.2 = nx at hs ⊢
  cases hs with
  | rejected c nx hm _ =>
    simp [replies] at h; subst h
    rcases hc with rfl | rfl <;> simp at hm
  | authPending m i => simp [replies] at h
  | called c cd nx _ h1 h2 _ =>
    simp [replies] at h; subst h
    rcases hc with rfl | rfl
    · exact absurd rfl h1
    · exact absurd rfl h2
  | calledClose c cd _ _ => simp

/-- Corollary: a reply not preceded by a callback is one of the server's own error replies. -/
theorem rejected_without_callback (v : Verdicts) (s : St) (cmd : Option (Bytes × Option Bytes))
    (h : callbacks (step v s cmd).2.1 = []) :
    (∃ code, code ∈ [500, 501, 503, 504, 552] ∧ (step v s cmd).2.1 = [.reply code]) ∨
    (∃ m i, (step v s cmd).2.2 = .auth m i) := by
  have hs := step_shape v s cmd
  generalize (step v s cmd).2.1 = evs at hs h ⊢
  generalize (step v s cmd).2.2 = nx at hs ⊢
  cases hs with
  | rejected code nx hm _ => exact Or.inl ⟨code, hm, rfl⟩
  | authPending m i => exact Or.inr ⟨m, i, rfl⟩
  | called c code nx _ _ _ _ => simp [callbacks] at h
  | calledClose c code _ _ => simp [callbacks] at h

/-- **Callbacks are made only in protocol order**: whatever callback a command line causes is
    admissible in the state the server was in (MAIL: EHLO/HELO accepted and no sender open; RCPT:
    a sender accepted; DATA: sender and recipient accepted; EHLO/HELO: greeting accepted). -/
theorem callbacks_in_order (v : Verdicts) (s : St) (cmd : Option (Bytes × Option Bytes)) (c : Cb)
    (h : .cb c ∈ (step v s cmd).2.1) : c = .close ∨ Allowed s c := by
  have hs := step_shape v s cmd
  generalize (step v s cmd).2.1 = evs at hs h
  generalize (step v s cmd).2.2 = nx at hs
  cases hs with
  | rejected code nx _ _ => simp at h
  | authPending m i => simp at h
  | called c' code nx hok _ _ _ => simp at h; subst h; exact Or.inr hok
  | calledClose c' code hok _ =>
    simp at h
    rcases h with rfl | rfl
    · exact Or.inr hok
    · exact Or.inl rfl

theorem finish_state (s : St) (evs : List Event) (code : Nat) : (finish s evs code).1 = s := by
  simp only [finish]; split <;> rfl

/-! ### the transaction is forgotten -/

/-- After every message (accepted, rejected or too big) sender and recipients are forgotten. -/
theorem reset_after_message (v : Verdicts) (s : St) (content : Option Bytes) :
    (afterData v s content).1.haveMail = .unset ∧ (afterData v s content).1.haveRcpt = .unset ∧
    (afterData v s content).1.envelope = none := by
  simp [afterData, callback, finish_state]

/-- After a TLS handshake the server is back in its just-greeted state. -/
theorem reset_after_tls (s : St) :
    (afterTls s).1.ehloAs = none ∧ (afterTls s).1.haveMail = .unset ∧ (afterTls s).1.haveRcpt = .unset ∧
    (afterTls s).1.envelope = none ∧ (afterTls s).1.extTls = false := by
  simp [afterTls]

/-- An accepted RSET forgets sender and recipients (and the session's envelope in any case). -/
theorem reset_after_rset (v : Verdicts) (s : St) (h : (v s.ncb).getD 250 = 250) :
    (stepRset v s none).1.haveMail = .unset ∧ (stepRset v s none).1.haveRcpt = .unset ∧
    (stepRset v s none).1.envelope = none := by
  by_cases hp : s.session = true <;> simp [stepRset, callback, finish_state, h, hp]

/-- An accepted EHLO/HELO forgets sender and recipients. -/
theorem reset_after_hello (v : Verdicts) (s : St) (isE : Bool) (a : Bytes) (hb : s.bannered = true)
    (ha : a ≠ []) (hu : utf8 a = true) (h : (v s.ncb).getD 250 = 250) :
    (stepHello v s isE (some a)).1.haveMail = .unset ∧ (stepHello v s isE (some a)).1.haveRcpt = .unset ∧
    (stepHello v s isE (some a)).1.envelope = none := by
  simp [stepHello, callback, finish_state, h, hb, ha, hu]

/-! ### flags are raised only by accepted commands -/

/-- A command other than MAIL never raises the sender flag: it leaves it or clears it. -/
def KeepsMail (s s' : St) : Prop := s'.haveMail = s.haveMail ∨ s'.haveMail = .unset
def KeepsRcpt (s s' : St) : Prop := s'.haveRcpt = s.haveRcpt ∨ s'.haveRcpt = .unset

theorem hello_keeps (v s isE arg) : KeepsMail s (stepHello v s isE arg).1 ∧ KeepsRcpt s (stepHello v s isE arg).1 := by
  simp only [stepHello, callback]
  repeat' split
  all_goals (simp [KeepsMail, KeepsRcpt, finish_state] <;> try (repeat' split) <;> simp_all)

theorem starttls_keeps (v s arg) : KeepsMail s (stepStartTls v s arg).1 ∧ KeepsRcpt s (stepStartTls v s arg).1 := by
  simp only [stepStartTls, callback]
  repeat' split
  all_goals (simp [KeepsMail, KeepsRcpt] <;> try (repeat' split) <;> simp_all)

theorem auth_keeps (s arg) : (stepAuth s arg).1 = s := by
  simp only [stepAuth]
  repeat' split
  all_goals rfl

theorem rcpt_keeps_mail (v s arg) : KeepsMail s (stepRcpt v s arg).1 := by
  simp only [stepRcpt, callback]
  repeat' split
  all_goals (simp [KeepsMail, finish_state] <;> try (repeat' split) <;> simp_all)

theorem mail_keeps_rcpt (v s arg) : KeepsRcpt s (stepMail v s arg).1 := by
  simp only [stepMail, mailAccepted, callback]
  repeat' split
  all_goals (simp [KeepsRcpt, finish_state] <;> try (repeat' split) <;> simp_all)

theorem data_keeps (v s arg) : KeepsMail s (stepData v s arg).1 ∧ KeepsRcpt s (stepData v s arg).1 := by
  simp only [stepData, callback]
  repeat' split
  all_goals (simp [KeepsMail, KeepsRcpt] <;> try (repeat' split) <;> simp_all)

theorem rset_keeps (v s arg) : KeepsMail s (stepRset v s arg).1 ∧ KeepsRcpt s (stepRset v s arg).1 := by
  simp only [stepRset, callback]
  repeat' split
  all_goals (simp [KeepsMail, KeepsRcpt, finish_state] <;> try (repeat' split) <;> simp_all)

theorem noop_keeps (v s) : (stepNoop v s).1.haveMail = s.haveMail ∧ (stepNoop v s).1.haveRcpt = s.haveRcpt := by
  by_cases hp : s.session = true <;> simp [stepNoop, callback, finish_state, hp]

theorem quit_keeps (v s arg) : (stepQuit v s arg).1.haveMail = s.haveMail ∧ (stepQuit v s arg).1.haveRcpt = s.haveRcpt := by
  simp only [stepQuit, callback]
  split
  · simp
  · by_cases hp : s.session = true <;> simp [finish_state, hp]

theorem custom_keeps (v : Verdicts) (s : St) (name : Bytes) (arg : Option Bytes) :
    (stepCustom v s name arg).1.haveMail = s.haveMail ∧ (stepCustom v s name arg).1.haveRcpt = s.haveRcpt := by
  simp [stepCustom, callback, finish_state]

/-- **No command other than MAIL raises the sender flag, none other than RCPT the recipient flag**
    (they leave the flag alone or clear it), for every command line. -/
theorem flags_raised_only_by_their_command (v : Verdicts) (s : St) (name : Bytes) (arg : Option Bytes) :
    (¬ cmdIs name "MAIL" = true → KeepsMail s (step v s (some (name, arg))).1) ∧
    (¬ cmdIs name "RCPT" = true → KeepsRcpt s (step v s (some (name, arg))).1) := by
  have km : ∀ s' : St, s'.haveMail = s.haveMail → KeepsMail s s' := fun _ h => Or.inl h
  have kr : ∀ s' : St, s'.haveRcpt = s.haveRcpt → KeepsRcpt s s' := fun _ h => Or.inl h
  constructor
  · intro hn
    simp only [step]
    repeat' split
    all_goals first
      | (exfalso; exact hn (by assumption))
      | with_reducible exact (hello_keeps _ _ _ _).1
      | with_reducible exact (starttls_keeps _ _ _).1
      | (rw [auth_keeps]; exact Or.inl rfl)
      | with_reducible exact rcpt_keeps_mail _ _ _
      | with_reducible exact (data_keeps _ _ _).1
      | with_reducible exact (rset_keeps _ _ _).1
      | (with_reducible apply km; with_reducible exact (noop_keeps _ _).1)
      | (with_reducible apply km; with_reducible exact (quit_keeps _ _ _).1)
      | (with_reducible apply km; with_reducible exact (custom_keeps _ _ _ _).1)
      | exact Or.inl rfl
  · intro hn
    simp only [step]
    repeat' split
    all_goals first
      | (exfalso; exact hn (by assumption))
      | with_reducible exact (hello_keeps _ _ _ _).2
      | with_reducible exact (starttls_keeps _ _ _).2
      | (rw [auth_keeps]; exact Or.inl rfl)
      | with_reducible exact mail_keeps_rcpt _ _ _
      | with_reducible exact (data_keeps _ _ _).2
      | with_reducible exact (rset_keeps _ _ _).2
      | (with_reducible apply kr; with_reducible exact (noop_keeps _ _).2)
      | (with_reducible apply kr; with_reducible exact (quit_keeps _ _ _).2)
      | (with_reducible apply kr; with_reducible exact (custom_keeps _ _ _ _).2)
      | exact Or.inl rfl

/-! ### non-vacuity -/

-- "FROM:<a>" accepted after EHLO; refused (503, no callback) before it
example : (stepMail (fun _ => none) { bannered := true, ehloAs := some [97], extTls := false, extAuth := false, extSize := none }
    (some [70, 82, 79, 77, 58, 60, 97, 62])).2.1 = [.cb (.mail [97] []), .reply 250] := by decide

example : (stepMail (fun _ => none) { bannered := true, extTls := false, extAuth := false, extSize := none }
    (some [70, 82, 79, 77, 58, 60, 97, 62])).2.1 = [.reply 503] := by decide

/-! ## SmtpSession's own copy of the transaction (edge/smtp.py)

`SmtpSession` keeps the envelope under construction next to the server's `have_mailfrom` / `have_rcptto` flags and relies on the
server's command gating: `RCPT` and `HAVE_DATA` `assert self.envelope is not None`, `HAVE_DATA` hands `self.envelope` to the queue,
and the envelope is NOT cleared when a message is refused at the end of DATA. The theorems below show that this is sound for a
handler whose RSET leaves the reply alone (`session`: SmtpSession.RSET consults no validator): while the server holds an accepted
sender the session holds an envelope, while it holds an accepted recipient the envelope has one, through every command, message,
handshake and AUTH exchange of a session; so the asserts never fire and no message is handed to the queue without a recipient. -/

/-- While the server holds an accepted sender the session holds an envelope; while it holds an accepted recipient the
    envelope has one (and a sender is held). -/
def EnvInv (s : St) : Prop :=
  (s.haveMail = .yes → s.envelope.isSome) ∧ (s.haveRcpt = .yes → ∃ f rs, s.envelope = some (f, rs) ∧ rs ≠ []) ∧
  (s.haveRcpt = .yes → s.haveMail = .yes)

theorem envInv_unset {s : St} (h1 : s.haveMail = .unset) (h2 : s.haveRcpt = .unset) : EnvInv s := by
  refine ⟨fun h => ?_, fun h => ?_, fun h => ?_⟩
  · rw [h1] at h; cases h
  · rw [h2] at h; cases h
  · rw [h2] at h; cases h


theorem envInv_hello (v : Verdicts) (s : St) (isE : Bool) (arg : Option Bytes) (h : EnvInv s) : EnvInv (stepHello v s isE arg).1 := by
  unfold stepHello
  split
  · exact h
  · split
    · exact h
    · split
      · exact h
      · split
        · exact h
        · simp only [callback, finish_state]
          by_cases hc : ((v s.ncb).getD 250 == 250) = true
          · simp only [hc, if_true]; exact envInv_unset rfl rfl
          · simp only [hc, Bool.false_eq_true, if_false]; exact h

theorem truthy_iff (t : Tri) : t.truthy = true ↔ t = .yes := by cases t <;> simp [Tri.truthy]

theorem envInv_mailAccepted (v : Verdicts) (s : St) (addr : Bytes) (ps) (h : EnvInv s) (hm : s.haveMail.truthy = false) :
    EnvInv (mailAccepted v s addr ps).1 := by
  have hny : s.haveMail ≠ .yes := fun he => by rw [he] at hm; simp [Tri.truthy] at hm
  have hnr : s.haveRcpt ≠ .yes := fun he => hny (h.2.2 he)
  simp only [mailAccepted, callback, finish_state, hm, Bool.false_or]
  refine ⟨fun hy => ?_, fun hy => absurd hy hnr, fun hy => absurd hy hnr⟩
  simp only at hy
  by_cases h1 : ((v s.ncb).getD 250 == 221 || (v s.ncb).getD 250 == 421) = true
  · simp only [h1, if_true] at hy; exact absurd hy hny
  · simp only [h1, Bool.false_eq_true, if_false] at hy
    by_cases h2 : ((v s.ncb).getD 250 == 250) = true
    · simp [h2]
    · simp [h2] at hy

theorem stepMail_cases (v : Verdicts) (s : St) (arg : Option Bytes) :
    (stepMail v s arg).1 = s ∨ (s.haveMail.truthy = false ∧ ∃ addr ps, (stepMail v s arg).1 = (mailAccepted v s addr ps).1) := by
  unfold stepMail
  split
  · exact Or.inl rfl
  · split
    · exact Or.inl rfl
    · split
      · exact Or.inl rfl
      · split
        · exact Or.inl rfl
        · split
          · exact Or.inl rfl
          · split
            · exact Or.inl rfl
            · rename_i hm
              have hm' : s.haveMail.truthy = false := by simpa using hm
              dsimp only
              split
              · exact Or.inr ⟨hm', _, _, rfl⟩
              · split
                · exact Or.inl rfl
                · split
                  · exact Or.inl rfl
                  · split
                    · exact Or.inl rfl
                    · exact Or.inr ⟨hm', _, _, rfl⟩

theorem envInv_mail (v : Verdicts) (s : St) (arg : Option Bytes) (h : EnvInv s) : EnvInv (stepMail v s arg).1 := by
  rcases stepMail_cases v s arg with he | ⟨hm, addr, ps, he⟩
  · rw [he]; exact h
  · rw [he]; exact envInv_mailAccepted v s addr ps h hm

theorem envInv_rcpt (v : Verdicts) (s : St) (arg : Option Bytes) (h : EnvInv s) : EnvInv (stepRcpt v s arg).1 := by
  unfold stepRcpt
  repeat' split
  all_goals first
    | exact h
    | skip
  all_goals
    rename_i hm
    have hy : s.haveMail = .yes := by
      have : s.haveMail.truthy = true := by simpa using hm
      exact (truthy_iff _).mp this
    obtain ⟨fr, hfr⟩ := Option.isSome_iff_exists.mp (h.1 hy)
    obtain ⟨f, r0⟩ := fr
    simp only [callback, finish_state]
    refine ⟨fun _ => ?_, fun hr => ?_, fun _ => hy⟩
    · by_cases h2 : ((v s.ncb).getD 250 == 250) = true <;> simp [h2, hfr]
    · simp only at hr
      have close1 : ∀ (f' : Bytes) (rs : List Bytes) (x : Bytes), ∃ f rs1, (f' = f ∧ rs ++ [x] = rs1) ∧ ¬ rs1 = [] :=
        fun f' rs x => ⟨_, _, ⟨rfl, rfl⟩, by simp⟩
      by_cases h2 : ((v s.ncb).getD 250 == 250) = true
      · simp only [h2, if_true, hfr, Option.map_some, Option.some.injEq, Prod.mk.injEq]
        exact close1 _ _ _
      · simp only [h2, Bool.false_eq_true, if_false, Bool.or_false] at hr ⊢
        have hyr : s.haveRcpt = .yes := by
          by_cases h1 : ((v s.ncb).getD 250 == 221 || (v s.ncb).getD 250 == 421) = true
          · simpa [h1] using hr
          · simp only [h1, Bool.false_eq_true, if_false] at hr
            by_cases h3 : s.haveRcpt.truthy = true
            · exact (truthy_iff _).mp h3
            · simp [h3] at hr
        exact h.2.1 hyr


theorem envInv_congr {s s' : St} (h : EnvInv s) (h1 : s'.haveMail = s.haveMail) (h2 : s'.haveRcpt = s.haveRcpt)
    (h3 : s'.envelope = s.envelope) : EnvInv s' := by
  unfold EnvInv at *
  rw [h1, h2, h3]; exact h

theorem stepStartTls_state (v : Verdicts) (s : St) (arg : Option Bytes) :
    (stepStartTls v s arg).1 = s ∨ (stepStartTls v s arg).1 = { s with ncb := s.ncb + 1 } := by
  simp only [stepStartTls, callback]
  split
  · exact Or.inl rfl
  · split
    · exact Or.inl rfl
    · split
      · exact Or.inl rfl
      · refine Or.inr ?_
        by_cases h1 : ((v s.ncb).getD 220 == 221 || (v s.ncb).getD 220 == 421) = true
        · simp only [h1, if_true]
        · simp only [h1, Bool.false_eq_true, if_false]
          by_cases h2 : ((v s.ncb).getD 220 == 220) = true
          · simp only [h2, if_true]
          · simp only [h2, Bool.false_eq_true, if_false]

theorem envInv_starttls (v : Verdicts) (s : St) (arg : Option Bytes) (h : EnvInv s) : EnvInv (stepStartTls v s arg).1 := by
  rcases stepStartTls_state v s arg with he | he <;> rw [he]
  · exact h
  · exact envInv_congr h rfl rfl rfl

theorem envInv_auth (s : St) (arg : Option Bytes) (h : EnvInv s) : EnvInv (stepAuth s arg).1 := by
  rw [auth_keeps]; exact h

theorem stepData_state (v : Verdicts) (s : St) (arg : Option Bytes) :
    (stepData v s arg).1 = s ∨ (stepData v s arg).1 = { s with ncb := s.ncb + 1 } := by
  simp only [stepData, callback]
  split
  · exact Or.inl rfl
  · split
    · exact Or.inl rfl
    · refine Or.inr ?_
      by_cases h1 : ((v s.ncb).getD 354 == 221 || (v s.ncb).getD 354 == 421) = true
      · simp only [h1, if_true]
      · simp only [h1, Bool.false_eq_true, if_false]
        by_cases h2 : ((v s.ncb).getD 354 == 354) = true
        · simp only [h2, if_true]
        · simp only [h2, Bool.false_eq_true, if_false]

theorem envInv_data (v : Verdicts) (s : St) (arg : Option Bytes) (h : EnvInv s) : EnvInv (stepData v s arg).1 := by
  rcases stepData_state v s arg with he | he <;> rw [he]
  · exact h
  · exact envInv_congr h rfl rfl rfl

theorem envInv_rset (v : Verdicts) (s : St) (arg : Option Bytes) (h : EnvInv s) (hr : s.session = true) : EnvInv (stepRset v s arg).1 := by
  unfold stepRset
  split
  · exact h
  · simp only [hr, if_true, finish_state, beq_self_eq_true]
    exact envInv_unset rfl rfl

theorem envInv_noop (v : Verdicts) (s : St) (h : EnvInv s) : EnvInv (stepNoop v s).1 := by
  by_cases hp : s.session = true
  · simp only [stepNoop, hp, if_true, finish_state]; exact h
  · simp only [stepNoop, hp, Bool.false_eq_true, if_false, callback, finish_state]; exact envInv_congr h rfl rfl rfl

theorem envInv_quit (v : Verdicts) (s : St) (arg : Option Bytes) (h : EnvInv s) : EnvInv (stepQuit v s arg).1 := by
  unfold stepQuit
  split
  · exact h
  · by_cases hp : s.session = true
    · simp only [hp, if_true, finish_state]; exact h
    · simp only [hp, Bool.false_eq_true, if_false, callback, finish_state]; exact envInv_congr h rfl rfl rfl

theorem envInv_custom (v : Verdicts) (s : St) (name : Bytes) (arg : Option Bytes) (h : EnvInv s) : EnvInv (stepCustom v s name arg).1 := by
  simp only [stepCustom, callback, finish_state]; exact envInv_congr h rfl rfl rfl

/-- **One command keeps the session's envelope in step with the server's transaction flags.** -/
theorem envInv_step (v : Verdicts) (s : St) (cmd : Option (Bytes × Option Bytes)) (h : EnvInv s) (hr : s.session = true) :
    EnvInv (step v s cmd).1 := by
  unfold step
  repeat' split
  all_goals first
    | exact h
    | exact envInv_hello v s _ _ h
    | exact envInv_starttls v s _ h
    | exact envInv_auth s _ h
    | exact envInv_mail v s _ h
    | exact envInv_rcpt v s _ h
    | exact envInv_data v s _ h
    | exact envInv_rset v s _ h hr
    | exact envInv_noop v s h
    | exact envInv_quit v s _ h
    | exact envInv_custom v s _ _ h

theorem envInv_afterData (v : Verdicts) (s : St) (content : Option Bytes) : EnvInv (afterData v s content).1 := by
  simp only [afterData, callback, finish_state]; exact envInv_unset rfl rfl

theorem envInv_afterTls (s : St) : EnvInv (afterTls s).1 := envInv_unset rfl rfl

/-- **`assert self.envelope is not None` in `SmtpSession.RCPT` never fires**: whenever the server makes the RCPT callback (it
    does so only with an accepted sender), the session holds an envelope. -/
theorem rcpt_callback_has_envelope (v : Verdicts) (s : St) (arg : Option Bytes) (h : EnvInv s) (addr : Bytes) (ps)
    (hcb : Event.cb (.rcpt addr ps) ∈ (stepRcpt v s arg).2.1) : s.envelope.isSome := by
  by_cases hy : s.haveMail = .yes
  · exact h.1 hy
  · exfalso
    have ht : s.haveMail.truthy = false := by cases hm : s.haveMail <;> simp_all [Tri.truthy]
    unfold stepRcpt at hcb
    repeat' split at hcb
    all_goals first
      | (simp at hcb; done)
      | (rename_i hx; simp [ht] at hx)

/-- **`assert self.envelope is not None` in `SmtpSession.HAVE_DATA` never fires, and the envelope it hands to the queue has a
    recipient**: when DATA is answered 354 (the message is read next and HAVE_DATA follows in the same state), the session holds
    an envelope with at least one recipient. -/
theorem data_accepted_has_envelope (v : Verdicts) (s : St) (arg : Option Bytes) (h : EnvInv s)
    (hd : (stepData v s arg).2.2 = .data) :
    ∃ f rs, (stepData v s arg).1.envelope = some (f, rs) ∧ rs ≠ [] := by
  have hr : s.haveRcpt = .yes := by
    by_cases hf : (!s.haveMail.truthy || !s.haveRcpt.truthy) = true
    · exfalso
      simp only [stepData] at hd
      by_cases ha : arg.isSome = true <;> simp [ha, hf] at hd
    · simp only [Bool.or_eq_true, Bool.not_eq_true', not_or, Bool.not_eq_false] at hf
      exact (truthy_iff _).mp hf.2
  have he : (stepData v s arg).1.envelope = s.envelope := by
    rcases stepData_state v s arg with e | e <;> rw [e]
  rw [he]; exact h.2.1 hr


/-! ### the whole command loop -/

theorem keep_hello (v : Verdicts) (s : St) (isE : Bool) (arg : Option Bytes) : (stepHello v s isE arg).1.session = s.session := by
  simp only [stepHello, callback]
  repeat' split
  all_goals first
    | rfl
    | (rw [finish_state]; by_cases hc : ((v s.ncb).getD 250 == 250) = true <;> simp [hc])

theorem keep_starttls (v : Verdicts) (s : St) (arg : Option Bytes) : (stepStartTls v s arg).1.session = s.session := by
  rcases stepStartTls_state v s arg with e | e <;> rw [e]

theorem keep_mail (v : Verdicts) (s : St) (arg : Option Bytes) : (stepMail v s arg).1.session = s.session := by
  rcases stepMail_cases v s arg with he | ⟨_, addr, ps, he⟩ <;> rw [he]
  simp only [mailAccepted, callback, finish_state]

theorem keep_data (v : Verdicts) (s : St) (arg : Option Bytes) : (stepData v s arg).1.session = s.session := by
  rcases stepData_state v s arg with e | e <;> rw [e]

theorem keep_rcpt (v : Verdicts) (s : St) (arg : Option Bytes) : (stepRcpt v s arg).1.session = s.session := by
  unfold stepRcpt
  repeat' split
  all_goals first
    | rfl
    | (simp only [callback, finish_state])

theorem keep_rset (v : Verdicts) (s : St) (arg : Option Bytes) : (stepRset v s arg).1.session = s.session := by
  unfold stepRset
  split
  · rfl
  · by_cases hp : s.session = true
    · simp only [hp, if_true, finish_state, beq_self_eq_true]
    · simp only [hp, Bool.false_eq_true, if_false, callback, finish_state]
      split <;> simp [hp]

theorem keep_noop (v : Verdicts) (s : St) : (stepNoop v s).1.session = s.session := by
  by_cases hp : s.session = true <;> simp [stepNoop, callback, finish_state, hp]

theorem keep_quit (v : Verdicts) (s : St) (arg : Option Bytes) : (stepQuit v s arg).1.session = s.session := by
  unfold stepQuit
  split
  · rfl
  · by_cases hp : s.session = true <;> simp [callback, finish_state, hp]

theorem keep_step (v : Verdicts) (s : St) (cmd : Option (Bytes × Option Bytes)) : (step v s cmd).1.session = s.session := by
  unfold step
  repeat' split
  all_goals first
    | rfl
    | exact keep_hello v s _ _
    | exact keep_starttls v s _
    | (rw [auth_keeps])
    | exact keep_mail v s _
    | exact keep_rcpt v s _
    | exact keep_data v s _
    | exact keep_rset v s _
    | exact keep_noop v s
    | exact keep_quit v s _
    | (simp only [stepCustom, callback, finish_state])

theorem keep_afterData (v : Verdicts) (s : St) (c : Option Bytes) : (afterData v s c).1.session = s.session := by
  by_cases hc : (s.session && c.isNone) = true <;> simp [afterData, callback, finish_state, hc]

theorem authExchange_state (v : Verdicts) (ao : AuthOracle) (s : St) (mech : Bytes) (initial : Option Bytes) (st : Stream)
    (s2 : St) (evs : List Event) (nx : Next) (st2 : Stream) (h : authExchange v ao s mech initial st = .ok (s2, evs, nx, st2)) :
    s2.haveMail = s.haveMail ∧ s2.haveRcpt = s.haveRcpt ∧ s2.envelope = s.envelope ∧ s2.session = s.session := by
  unfold authExchange at h
  repeat' split at h
  all_goals first
    | (simp only [Except.ok.injEq, Prod.mk.injEq] at h; obtain ⟨rfl, _⟩ := h; exact ⟨rfl, rfl, rfl, rfl⟩)
    | (simp only [callback, finish_state, Except.ok.injEq, Prod.mk.injEq] at h; obtain ⟨rfl, _⟩ := h; exact ⟨rfl, rfl, rfl, rfl⟩)
    | (simp at h; done)

/-- **Through a whole session loop** (any number of commands, messages and AUTH exchanges, any verdicts of the validators, any
    segmentation): the session's envelope stays in step with the server's transaction flags. -/
theorem envInv_loop (v : Verdicts) (ao : AuthOracle) (fuel : Nat) (s : St) (st : Stream) (acc : List Event)
    (hp : s.session = true) (h : EnvInv s) :
    EnvInv (loop v ao fuel s st acc).state ∧ (loop v ao fuel s st acc).state.session = true := by
  induction fuel generalizing s st acc with
  | zero => exact ⟨h, hp⟩
  | succ fuel ih =>
    unfold loop
    split
    · exact ⟨h, hp⟩
    · exact ⟨h, hp⟩
    · rename_i line st1 _
      have h1 := envInv_step v s (parseCommand line) h hp
      have hp1 : (step v s (parseCommand line)).1.session = true := by rw [keep_step]; exact hp
      split
      · rename_i s1 evs nx heq
        have e1 : s1 = (step v s (parseCommand line)).1 := by rw [heq]
        subst e1
        split
        · exact ih _ _ _ hp1 h1
        · exact ⟨h1, hp1⟩
        · exact ⟨h1, hp1⟩
        · exact ⟨h1, hp1⟩
        · split
          · exact ⟨h1, hp1⟩
          · exact ⟨h1, hp1⟩
          · rename_i r _
            split
            · rename_i s2 evs2 nx2 heq2
              have e2 : s2 = (afterData v (step v s (parseCommand line)).1 r.data).1 := by rw [heq2]
              have h2 : EnvInv s2 := by rw [e2]; exact envInv_afterData v _ _
              have hp2 : s2.session = true := by rw [e2, keep_afterData]; exact hp1
              split
              · exact ⟨h2, hp2⟩
              · exact ih _ _ _ hp2 h2
        · split
          · exact ⟨h1, hp1⟩
          · exact ⟨h1, hp1⟩
          · rename_i s2 evs2 nx2 st2 heq2
            obtain ⟨a1, a2, a3, a4⟩ := authExchange_state v ao _ _ _ _ s2 evs2 nx2 st2 heq2
            have h2 : EnvInv s2 := envInv_congr h1 a1 a2 a3
            have hp2 : s2.session = true := by rw [a4]; exact hp1
            split
            · exact ⟨h2, hp2⟩
            · exact ih _ _ _ hp2 h2


theorem envInv_serve_go (v : Verdicts) (ao : AuthOracle) (fuel : Nat) (k : Nat) (s : St) (st : Stream) (tls : List (List Bytes))
    (acc : List Event) (hp : s.session = true) (h : EnvInv s) :
    EnvInv (serve.go v ao fuel k s st tls acc).state := by
  induction k generalizing s st tls acc with
  | zero => exact h
  | succ k ih =>
    unfold serve.go
    have hl := envInv_loop v ao fuel s st acc hp h
    simp only
    split
    · split
      · exact hl.1
      · rename_i t ts
        exact ih _ _ _ _ (by simp [afterTls, hl.2]) (envInv_afterTls _)
    · exact hl.1

/-- **A whole edge session** — banner, any commands, messages, AUTH exchanges and STARTTLS handshakes, any verdicts of the
    validators, any segmentation of the client's bytes: at the end (and, by the same induction, at every command boundary) the
    envelope `SmtpSession` holds is in step with the server's transaction flags. -/
theorem envInv_serve (cfg : Cfg) (hc : cfg.session = true) (v : Verdicts) (ao : AuthOracle) (st : Stream) (tlsStreams : List (List Bytes)) :
    EnvInv (serve cfg v ao st tlsStreams).state := by
  have h0 : EnvInv (banner v (initSt cfg)).1 := by
    simp only [banner, callback, finish_state]
    exact envInv_unset rfl rfl
  have hp0 : (banner v (initSt cfg)).1.session = true := by
    simp only [banner, callback, finish_state, initSt]; exact hc
  unfold serve
  simp only
  split
  · exact h0
  · exact envInv_serve_go v ao _ _ _ _ _ _ hp0 h0

/-- non-vacuity: a refused message leaves the envelope behind (`HAVE_DATA` returns early), and the invariant still holds -/
example : EnvInv { (initSt ⟨false, false, none, false, [], true⟩) with envelope := some ([97], [[98]]) } := envInv_unset rfl rfl

end Slimta.C07
