import Proofs.Lemmas.QueueM
import Model.Attempt
import Proofs.Lemmas.Attempt
/-!
# C13 — failed mail yields exactly one bounce per distinct failure reply; bounces never loop

Property theorems only. Model: `Model/Attempt.lean` (`Queue._attempt`, `_handle_partial_relay`,
`_retry_later`, `_perm_fail`, `_split_by_reply`). Byte-level content of a bounce (quoting, embedding
the original unchanged) rests on C20's `boundary_exact` (`Bounce` parses its own text with
`Envelope.parse`) and is checked on the real `Bounce` by the campaign.
-/
namespace Slimta.C13
open Slimta.Attempt

/-- **One bounce per distinct reply, naming exactly the recipients that failed with it.** For every
    list of (recipient, reply) failures: the bounces have pairwise different replies; every reply
    that occurs has its bounce; a bounce names only recipients that failed with its reply, and at
    least one; together the bounces name every failed recipient exactly as often as it failed. -/
theorem one_bounce_per_reply (cfg : Cfg) (hs : cfg.senderNonEmpty = true) (hf : cfg.factoryBounces = true)
    (pairs : List (Rcpt × ReplyId)) (tm : Bool) :
    ((bouncesFor cfg pairs tm).map (·.reply)).Nodup ∧
    (∀ p ∈ pairs, p.2 ∈ (bouncesFor cfg pairs tm).map (·.reply)) ∧
    (∀ b ∈ bouncesFor cfg pairs tm, b.rcpts ≠ [] ∧ b.tooMany = tm ∧ ∀ rc ∈ b.rcpts, (rc, b.reply) ∈ pairs) ∧
    (∀ x, ((bouncesFor cfg pairs tm).flatMap (·.rcpts)).count x = (pairs.map Prod.fst).count x) := by
  have hb : bouncesFor cfg pairs tm = (splitByReply pairs []).map fun (rp, g) => ⟨rp, g, tm⟩ := by
    simp [bouncesFor, hs, hf]
  have hk : (bouncesFor cfg pairs tm).map (·.reply) = keys (splitByReply pairs []) := by
    rw [hb]; simp [keys, List.map_map, Function.comp_def]
  have hr : (bouncesFor cfg pairs tm).flatMap (·.rcpts) = groupRcpts (splitByReply pairs []) := by
    rw [hb]; simp [groupRcpts, List.flatMap_map]
  refine ⟨?_, ?_, ?_, ?_⟩
  · rw [hk]; exact nodup_keys_splitByReply pairs [] (by simp [keys])
  · rw [hk]; exact keys_complete pairs []
  · intro b hbm
    rw [hb] at hbm
    simp only [List.mem_map] at hbm
    obtain ⟨g, hg, rfl⟩ := hbm
    have := sound_splitByReply pairs pairs [] (fun x hx => hx) (by intro g hg; simp at hg) g hg
    exact ⟨this.1, rfl, this.2⟩
  · intro x
    rw [hr, count_splitByReply]
    simp

/-- **No bounce for a message with an empty sender** — whatever the attempt's outcome. A bounce
    itself has the empty sender, so a bounce that fails is dropped, never bounced again. -/
theorem null_sender_never_bounces (cfg : Cfg) (hs : cfg.senderNonEmpty = false) (m : Msg) (o : Outcome) :
    (attempt cfg m o).bounces = [] := by
  have hb : ∀ ps tm, bouncesFor cfg ps tm = [] := by intro ps tm; simp [bouncesFor, hs]
  cases o with
  | success => rfl
  | permanent r => simp [attempt, hs]
  | transient r => simp only [attempt]; split <;> simp [hs]
  | other r => simp only [attempt]; split <;> simp [hs]
  | mapping res =>
    simp only [attempt, handlePartial, hb]
    split
    · rfl
    · simp only [retryLater, hb]; split <;> simp
  | sequence l =>
    simp only [attempt, handlePartial, hb]
    split
    · rfl
    · simp only [retryLater, hb]; split <;> simp

/-- **Every finally-failed recipient is named in the bounces of that attempt exactly once, and
    nobody else is** (delivered and still-outstanding recipients are never named), for every
    outcome of an attempt. -/
theorem bounces_name_exactly_the_failed (cfg : Cfg) (hs : cfg.senderNonEmpty = true)
    (hf : cfg.factoryBounces = true) (m : Msg) (o : Outcome) (x : Rcpt) :
    ((attempt cfg m o).bounces.flatMap (·.rcpts)).count x = ((attempt cfg m o).failed.map Prod.fst).count x := by
  have hb : ∀ ps tm, ((bouncesFor cfg ps tm).flatMap (·.rcpts)).count x = (ps.map Prod.fst).count x :=
    fun ps tm => (one_bounce_per_reply cfg hs hf ps tm).2.2.2 x
  have hp : ∀ (res : List (Rcpt × RRes)),
      ((handlePartial cfg m res).bounces.flatMap (·.rcpts)).count x
        = ((handlePartial cfg m res).failed.map Prod.fst).count x := by
    intro res
    simp only [handlePartial]
    split
    · exact hb _ _
    · simp only [retryLater]
      split
      · simp only [List.flatMap_append, List.count_append, List.map_append, hb]
      · exact hb _ _
  cases o with
  | success => rfl
  | permanent r => simp [attempt, hs, hf, List.map_map, Function.comp_def]
  | transient r => simp only [attempt]; split <;> simp [hs, hf, List.map_map, Function.comp_def]
  | other r => simp only [attempt]; split <;> simp [hs, hf, List.map_map, Function.comp_def]
  | mapping res => exact hp res
  | sequence l => exact hp _

/-- A custom bounce factory returning `None` produces nothing. -/
theorem factory_none_no_bounce (cfg : Cfg) (hf : cfg.factoryBounces = false) (pairs) (tm : Bool) :
    bouncesFor cfg pairs tm = [] := by simp [bouncesFor, hf]

/-! ### non-vacuity -/

example : (attempt ⟨fun _ => none, true, true⟩ ⟨[10, 11, 12, 13], 0⟩
    (.mapping [(10, .perm 5), (11, .temp 7), (12, .perm 5), (13, .temp 8)])).bounces
    = [⟨5, [10, 12], false⟩, ⟨7, [11], true⟩, ⟨8, [13], true⟩] := by decide

/-! ## Over the composed machine (Model/QueueM.lean): bounces under every interleaving -/
section composed
open Slimta.QM
variable {fb : Bool} {pre : List (Nat × Nat)} {rc : Nat → List Rcpt} {nn : Nat → Bool}

/-- **No bounce for a null sender, ever**: in every reachable state of the composed machine the list of bounces asked for a
    message with an empty sender is empty — so a bounce that itself fails is dropped. -/
theorem null_sender_no_bounce_interleaved (hpre : (pre.map (·.1)).Nodup) (hrc : ∀ id ∈ pre.map (·.1), (rc id).Nodup) {q : State}
    (hr : Reach fb (start pre rc nn) q) (id : Nat) (hn : q.nonNull id = false) : q.bounces id = [] :=
  (reach_inv hpre hrc hr).led.quiet id (by simp [hn])

/-- **Whoever failed for good is named in a bounce quoting the reply it failed with**, under every interleaving. -/
theorem failed_are_bounced_interleaved (hpre : (pre.map (·.1)).Nodup) (hrc : ∀ id ∈ pre.map (·.1), (rc id).Nodup) {q : QM.State}
    (hr : QM.Reach fb (QM.start pre rc nn) q) (id : Nat) (x : Rcpt) (r : ReplyId) (hx : (x, r) ∈ q.failed id)
    (hb : (fb && q.nonNull id) = true) : ∃ b ∈ q.bounces id, b.reply = r ∧ x ∈ b.rcpts :=
  (QM.reach_inv hpre hrc hr).led.bounced id x r hx hb

end composed

end Slimta.C13
