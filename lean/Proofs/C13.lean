import Proofs.Lemmas.QueueM
import Model.Bounce
import Proofs.C20
import Model.Attempt
import Proofs.Lemmas.Attempt
/-!
# C13 — failed mail yields exactly one bounce per distinct failure reply; bounces never loop

Property theorems only. Model: `Model/Attempt.lean` (`Queue._attempt`, `_handle_partial_relay`,
`_retry_later`, `_perm_fail`, `_split_by_reply`). Byte-level content of a bounce (quoting, embedding
the original unchanged) rests on C20's `boundary_exact` (`Bounce` parses its own text with
`Envelope.parse`) and is checked on the real `Bounce` by the campaign.
-/
namespace Slimta.C13
open Slimta.Attempt

/-- **One bounce per distinct reply, naming exactly the recipients that failed with it.** For every
    list of (recipient, reply) failures: the bounces have pairwise different replies; every reply
    that occurs has its bounce; a bounce names only recipients that failed with its reply, and at
    least one; together the bounces name every failed recipient exactly as often as it failed. -/
theorem one_bounce_per_reply (cfg : Cfg) (hs : cfg.senderNonEmpty = true) (hf : cfg.factoryBounces = true)
    (pairs : List (Rcpt × ReplyId)) (tm : Bool) :
    ((bouncesFor cfg pairs tm).map (·.reply)).Nodup ∧
    (∀ p ∈ pairs, p.2 ∈ (bouncesFor cfg pairs tm).map (·.reply)) ∧
    (∀ b ∈ bouncesFor cfg pairs tm, b.rcpts ≠ [] ∧ b.tooMany = tm ∧ ∀ rc ∈ b.rcpts, (rc, b.reply) ∈ pairs) ∧
    (∀ x, ((bouncesFor cfg pairs tm).flatMap (·.rcpts)).count x = (pairs.map Prod.fst).count x) := by
  have hb : bouncesFor cfg pairs tm = (splitByReply pairs []).map fun (rp, g) => ⟨rp, g, tm⟩ := by
    simp [bouncesFor, hs, hf]
  have hk : (bouncesFor cfg pairs tm).map (·.reply) = keys (splitByReply pairs []) := by
    rw [hb]; simp [keys, List.map_map, Function.comp_def]
  have hr : (bouncesFor cfg pairs tm).flatMap (·.rcpts) = groupRcpts (splitByReply pairs []) := by
    rw [hb]; simp [groupRcpts, List.flatMap_map]
  refine ⟨?_, ?_, ?_, ?_⟩
  · rw [hk]; exact nodup_keys_splitByReply pairs [] (by simp [keys])
  · rw [hk]; exact keys_complete pairs []
  · intro b hbm
    rw [hb] at hbm
    simp only [List.mem_map] at hbm
    obtain ⟨g, hg, rfl⟩ := hbm
    have := sound_splitByReply pairs pairs [] (fun x hx => hx) (by intro g hg; simp at hg) g hg
    exact ⟨this.1, rfl, this.2⟩
  · intro x
    rw [hr, count_splitByReply]
    simp

/-- **No bounce for a message with an empty sender** — whatever the attempt's outcome. A bounce
    itself has the empty sender, so a bounce that fails is dropped, never bounced again. -/
theorem null_sender_never_bounces (cfg : Cfg) (hs : cfg.senderNonEmpty = false) (m : Msg) (o : Outcome) :
    (attempt cfg m o).bounces = [] := by
  have hb : ∀ ps tm, bouncesFor cfg ps tm = [] := by intro ps tm; simp [bouncesFor, hs]
  cases o with
  | success => rfl
  | permanent r => simp [attempt, hs]
  | transient r => simp only [attempt]; split <;> simp [hs]
  | other r => simp only [attempt]; split <;> simp [hs]
  | mapping res =>
    simp only [attempt, handlePartial, hb]
    split
    · rfl
    · simp only [retryLater, hb]; split <;> simp
  | sequence l =>
    simp only [attempt, handlePartial, hb]
    split
    · rfl
    · simp only [retryLater, hb]; split <;> simp

/-- **Every finally-failed recipient is named in the bounces of that attempt exactly once, and
    nobody else is** (delivered and still-outstanding recipients are never named), for every
    outcome of an attempt. -/
theorem bounces_name_exactly_the_failed (cfg : Cfg) (hs : cfg.senderNonEmpty = true)
    (hf : cfg.factoryBounces = true) (m : Msg) (o : Outcome) (x : Rcpt) :
    ((attempt cfg m o).bounces.flatMap (·.rcpts)).count x = ((attempt cfg m o).failed.map Prod.fst).count x := by
  have hb : ∀ ps tm, ((bouncesFor cfg ps tm).flatMap (·.rcpts)).count x = (ps.map Prod.fst).count x :=
    fun ps tm => (one_bounce_per_reply cfg hs hf ps tm).2.2.2 x
  have hp : ∀ (res : List (Rcpt × RRes)),
      ((handlePartial cfg m res).bounces.flatMap (·.rcpts)).count x
        = ((handlePartial cfg m res).failed.map Prod.fst).count x := by
    intro res
    simp only [handlePartial]
    split
    · exact hb _ _
    · simp only [retryLater]
      split
      · simp only [List.flatMap_append, List.count_append, List.map_append, hb]
      · exact hb _ _
  cases o with
  | success => rfl
  | permanent r => simp [attempt, hs, hf, List.map_map, Function.comp_def]
  | transient r => simp only [attempt]; split <;> simp [hs, hf, List.map_map, Function.comp_def]
  | other r => simp only [attempt]; split <;> simp [hs, hf, List.map_map, Function.comp_def]
  | mapping res => exact hp res
  | sequence l => exact hp _

/-- A custom bounce factory returning `None` produces nothing. -/
theorem factory_none_no_bounce (cfg : Cfg) (hf : cfg.factoryBounces = false) (pairs) (tm : Bool) :
    bouncesFor cfg pairs tm = [] := by simp [bouncesFor, hf]

/-! ### non-vacuity -/

example : (attempt ⟨fun _ => none, true, true⟩ ⟨[10, 11, 12, 13], 0⟩
    (.mapping [(10, .perm 5), (11, .temp 7), (12, .perm 5), (13, .temp 8)])).bounces
    = [⟨5, [10, 12], false⟩, ⟨7, [11], true⟩, ⟨8, [13], true⟩] := by decide

/-! ## Over the composed machine (Model/QueueM.lean): bounces under every interleaving -/
section composed
open Slimta.QM
variable {fb : Bool} {pre : List (Nat × Nat)} {rc : Nat → List Rcpt} {nn : Nat → Bool} {att : Nat → Nat}

/-- **No bounce for a null sender, ever**: in every reachable state of the composed machine the list of bounces asked for a
    message with an empty sender is empty — so a bounce that itself fails is dropped. -/
theorem null_sender_no_bounce_interleaved (hpre : (pre.map (·.1)).Nodup) (hrc : ∀ id ∈ pre.map (·.1), (rc id).Nodup) {q : State}
    (hr : Reach fb (startAt pre rc nn att) q) (id : Nat) (hn : q.nonNull id = false) : q.bounces id = [] :=
  (reach_inv hpre hrc hr).led.quiet id (by simp [hn])

/-- **No recipient is bounced twice, and nobody who did not fail is bounced**, under every interleaving (when bounces are
    produced): over all the bounces asked for a message, a recipient that failed for good is named exactly once, every other
    accepted recipient never. -/
theorem each_failed_recipient_bounced_once (hpre : (pre.map (·.1)).Nodup) (hrc : ∀ id ∈ pre.map (·.1), (rc id).Nodup) {q : QM.State}
    (hr : QM.Reach fb (QM.startAt pre rc nn att) q) (id : Nat) (r : List Rcpt) (ho : q.orig id = some r) (x : Rcpt) (hx : x ∈ r)
    (hb : (fb && q.nonNull id) = true) :
    ((q.bounces id).flatMap (·.rcpts)).count x = if x ∈ (q.failed id).map Prod.fst then 1 else 0 := by
  have h := QM.reach_inv hpre hrc hr
  have h1 := h.led.bcount id x hb
  have h2 := h.led.ledger id r ho x
  have h3 : r.count x = 1 := by
    have hle := List.nodup_iff_count.mp (h.led.nodup id r ho) x
    have := List.count_pos_iff.mpr hx
    omega
  rw [h1]
  by_cases hf : x ∈ (q.failed id).map Prod.fst
  · have := List.count_pos_iff.mpr hf
    simp only [hf, if_true]; omega
  · simp only [hf, if_false]; exact List.count_eq_zero_of_not_mem hf

/-- **Whoever failed for good is named in a bounce quoting the reply it failed with**, under every interleaving. -/
theorem failed_are_bounced_interleaved (hpre : (pre.map (·.1)).Nodup) (hrc : ∀ id ∈ pre.map (·.1), (rc id).Nodup) {q : QM.State}
    (hr : QM.Reach fb (QM.startAt pre rc nn att) q) (id : Nat) (x : Rcpt) (r : ReplyId) (hx : (x, r) ∈ q.failed id)
    (hb : (fb && q.nonNull id) = true) : ∃ b ∈ q.bounces id, b.reply = r ∧ x ∈ b.rcpts :=
  (QM.reach_inv hpre hrc hr).led.bounced id x r hx hb

end composed

/-! ## The bytes of a bounce (Model/Bounce.lean: BytesFormat, Bounce._build_message, then Envelope.parse / flatten)

"quoting the reply, and embedding the original header block (and body unless headers-only) unchanged" as theorems about the
message the bounce envelope flattens to, for any templates (`bounce_embeds_original`) and spelled out for the default
templates of slimta/bounce (`default_bounce`, `default_bounce_quotes_reply`, `default_bounce_embeds`). The default template text
in the model is compared with the module-level templates of the source on every run (`bounce default`). -/
section content
open Slimta.Bounce Slimta.C20 Slimta.Envelope

/-- **The original message is embedded unchanged** (any templates): if the formatted header template begins with a well-formed
    header block and a blank line, the bounce flattens to that block (CRLF line ends) and a body that is the rest of the
    formatted template, then the original header data, then the original message data (unless headers-only), then the footer. -/
theorem bounce_embeds_original (hdr ftr : List Part) (x : Input) (ls : List Line) (hne : ls ≠ []) (hwf : ∀ l ∈ ls, l.WF)
    (nl rest : Bytes) (hn : nl = [10] ∨ nl = [13, 10])
    (hfmt : format true (table x) hdr = block ls ++ (nl ++ rest)) :
    build hdr ftr x = (block (crlfLines ls) ++ [13, 10],
      rest ++ (x.origHeader ++ ((if x.headersOnly then [] else x.origBody) ++ format true (table x) ftr))) := by
  unfold build payload
  rw [hfmt]
  have := parse_flatten ls hne hwf nl (rest ++ (x.origHeader ++ ((if x.headersOnly then [] else x.origBody) ++ format true (table x) ftr))) hn
  simpa [List.append_assoc] using this

def NoEol (b : Bytes) : Prop := ∀ c ∈ b, c ≠ 10 ∧ c ≠ 13

theorem defaultHdr_parts : defaultHdr =
    [.lit (str "From: MAILER-DAEMON\r\nTo: "), .key (str "sender"),
     .lit (str "\r\nSubject: Undelivered Mail Returned to Sender\r\nAuto-Submitted: auto-replied\r\nMIME-Version: 1.0\r\nContent-Type: multipart/report; report-type=delivery-status;\r\n    boundary=\""),
     .key (str "boundary"),
     .lit (str "\"\r\nContent-Transfer-Encoding: 7bit\r\n\r\nThis is a multi-part message in MIME format.\r\n\r\n--"), .key (str "boundary"),
     .lit (str "\r\nContent-Type: text/plain\r\n\r\nDelivery failed for:\r\n- "), .key (str "recipients"),
     .lit (str "\r\n\r\nDestination host responded:\r\n"), .key (str "code"), .lit (str " "), .key (str "message"),
     .lit (str "\r\n\r\n--"), .key (str "boundary"), .lit (str "\r\nContent-Type: message/delivery-status\r\n\r\n"), .key (str "delivery_info"),
     .lit (str "\r\n\r\n--"), .key (str "boundary"), .lit (str "\r\nContent-Type: "), .key (str "content_type"), .lit (str "\r\n\r\n")] := by
  decide +kernel

theorem defaultFtr_parts : defaultFtr = [.lit (str "\r\n--"), .key (str "boundary"), .lit (str "--\r\n")] := by
  decide +kernel


/-! ### the default templates -/

theorem tbl_sender (x : Input) : table x (str "sender") = some x.sender := by
  have h1 : (str "sender" == str "boundary") = false := by decide +kernel
  simp [table, h1]
theorem tbl_boundary (x : Input) : table x (str "boundary") = some x.boundary := by simp [table]
theorem tbl_recipients (x : Input) : table x (str "recipients") = some x.rcpts := by
  have h1 : (str "recipients" == str "boundary") = false := by decide +kernel
  have h2 : (str "recipients" == str "sender") = false := by decide +kernel
  simp [table, h1, h2]
theorem tbl_delivery (x : Input) : table x (str "delivery_info") = some (deliveryInfo x.info) := by
  have h1 : (str "delivery_info" == str "boundary") = false := by decide +kernel
  have h2 : (str "delivery_info" == str "sender") = false := by decide +kernel
  have h3 : (str "delivery_info" == str "recipients") = false := by decide +kernel
  simp [table, h1, h2, h3]
theorem tbl_ctype (x : Input) : table x (str "content_type") =
    some (if x.headersOnly then str "text/rfc822-headers" else str "message/rfc822") := by
  have h1 : (str "content_type" == str "boundary") = false := by decide +kernel
  have h2 : (str "content_type" == str "sender") = false := by decide +kernel
  have h3 : (str "content_type" == str "recipients") = false := by decide +kernel
  have h4 : (str "content_type" == str "delivery_info") = false := by decide +kernel
  have h5 : (str "content_type" == str "client_name") = false := by decide +kernel
  have h6 : (str "content_type" == str "client_ip") = false := by decide +kernel
  have h7 : (str "content_type" == str "protocol") = false := by decide +kernel
  simp [table, h1, h2, h3, h4, h5, h6, h7]
theorem tbl_code (x : Input) : table x (str "code") = some x.info.code := by
  have h1 : (str "code" == str "boundary") = false := by decide +kernel
  have h2 : (str "code" == str "sender") = false := by decide +kernel
  have h3 : (str "code" == str "recipients") = false := by decide +kernel
  have h4 : (str "code" == str "delivery_info") = false := by decide +kernel
  have h5 : (str "code" == str "client_name") = false := by decide +kernel
  have h6 : (str "code" == str "client_ip") = false := by decide +kernel
  have h7 : (str "code" == str "protocol") = false := by decide +kernel
  have h8 : (str "code" == str "content_type") = false := by decide +kernel
  simp [table, h1, h2, h3, h4, h5, h6, h7, h8]
theorem tbl_message (x : Input) : table x (str "message") = some x.info.message := by
  have h1 : (str "message" == str "boundary") = false := by decide +kernel
  have h2 : (str "message" == str "sender") = false := by decide +kernel
  have h3 : (str "message" == str "recipients") = false := by decide +kernel
  have h4 : (str "message" == str "delivery_info") = false := by decide +kernel
  have h5 : (str "message" == str "client_name") = false := by decide +kernel
  have h6 : (str "message" == str "client_ip") = false := by decide +kernel
  have h7 : (str "message" == str "protocol") = false := by decide +kernel
  have h8 : (str "message" == str "content_type") = false := by decide +kernel
  have h9 : (str "message" == str "code") = false := by decide +kernel
  simp [table, h1, h2, h3, h4, h5, h6, h7, h8, h9]

/-- The header block of a bounce built from the default template. -/
def defaultLines (x : Input) : List Line :=
  [⟨str "From: MAILER-DAEMON", CRLF⟩, ⟨str "To: " ++ x.sender, CRLF⟩,
   ⟨str "Subject: Undelivered Mail Returned to Sender", CRLF⟩, ⟨str "Auto-Submitted: auto-replied", CRLF⟩,
   ⟨str "MIME-Version: 1.0", CRLF⟩, ⟨str "Content-Type: multipart/report; report-type=delivery-status;", CRLF⟩,
   ⟨str "    boundary=\"" ++ (x.boundary ++ str "\""), CRLF⟩, ⟨str "Content-Transfer-Encoding: 7bit", CRLF⟩]

/-- The text parts of the default template before the original message. -/
def defaultPreamble (x : Input) : Bytes :=
  str "This is a multi-part message in MIME format.\r\n\r\n--" ++ (x.boundary ++ (str "\r\nContent-Type: text/plain\r\n\r\nDelivery failed for:\r\n- " ++
  (x.rcpts ++ (str "\r\n\r\nDestination host responded:\r\n" ++ (x.info.code ++ (str " " ++ (x.info.message ++ (str "\r\n\r\n--" ++ (x.boundary ++
  (str "\r\nContent-Type: message/delivery-status\r\n\r\n" ++ (deliveryInfo x.info ++ (str "\r\n\r\n--" ++ (x.boundary ++ (str "\r\nContent-Type: " ++
  ((if x.headersOnly then str "text/rfc822-headers" else str "message/rfc822") ++ str "\r\n\r\n")))))))))))))))

theorem default_format (x : Input) :
    format true (table x) defaultHdr = block (defaultLines x) ++ (CRLF ++ defaultPreamble x) := by
  rw [defaultHdr_parts]
  simp only [format, tbl_sender, tbl_boundary, tbl_recipients, tbl_delivery, tbl_ctype, tbl_code, tbl_message]
  have e1 : str "From: MAILER-DAEMON\r\nTo: " = str "From: MAILER-DAEMON" ++ (CRLF ++ str "To: ") := by decide +kernel
  have e2 : str "\r\nSubject: Undelivered Mail Returned to Sender\r\nAuto-Submitted: auto-replied\r\nMIME-Version: 1.0\r\nContent-Type: multipart/report; report-type=delivery-status;\r\n    boundary=\""
      = CRLF ++ (str "Subject: Undelivered Mail Returned to Sender" ++ (CRLF ++ (str "Auto-Submitted: auto-replied" ++ (CRLF ++ (str "MIME-Version: 1.0" ++ (CRLF ++
        (str "Content-Type: multipart/report; report-type=delivery-status;" ++ (CRLF ++ str "    boundary=\"")))))))) := by decide +kernel
  have e3 : str "\"\r\nContent-Transfer-Encoding: 7bit\r\n\r\nThis is a multi-part message in MIME format.\r\n\r\n--"
      = str "\"" ++ (CRLF ++ (str "Content-Transfer-Encoding: 7bit" ++ (CRLF ++ (CRLF ++ str "This is a multi-part message in MIME format.\r\n\r\n--")))) := by
    decide +kernel
  rw [e1, e2, e3]
  simp [block, defaultLines, defaultPreamble, List.append_assoc]

theorem default_footer (x : Input) : format true (table x) defaultFtr = str "\r\n--" ++ (x.boundary ++ str "--\r\n") := by
  rw [defaultFtr_parts]
  simp [format, tbl_boundary]

theorem defaultLines_wf (x : Input) (hs : NoEol x.sender) (hb : NoEol x.boundary) : ∀ l ∈ defaultLines x, l.WF := by
  have lit : ∀ s : Bytes, (∀ b ∈ s, b ≠ 10 ∧ b ≠ 13) → (∃ b ∈ s, isWs b = false) → Line.WF ⟨s, CRLF⟩ :=
    fun s h1 h2 => ⟨h1, h2, Or.inr rfl⟩
  intro l hl
  simp only [defaultLines, List.mem_cons, List.mem_nil_iff, or_false] at hl
  rcases hl with rfl | rfl | rfl | rfl | rfl | rfl | rfl | rfl
  · exact lit _ (by decide +kernel) (by decide +kernel)
  · refine ⟨?_, ?_, Or.inr rfl⟩
    · intro b hb'
      rcases List.mem_append.mp hb' with h | h
      · exact (by decide +kernel : ∀ b ∈ str "To: ", b ≠ 10 ∧ b ≠ 13) b h
      · exact hs b h
    · exact ⟨84, by simp [show str "To: " = [84, 111, 58, 32] by decide +kernel], by decide +kernel⟩
  · exact lit _ (by decide +kernel) (by decide +kernel)
  · exact lit _ (by decide +kernel) (by decide +kernel)
  · exact lit _ (by decide +kernel) (by decide +kernel)
  · exact lit _ (by decide +kernel) (by decide +kernel)
  · refine ⟨?_, ?_, Or.inr rfl⟩
    · intro b hb'
      rcases List.mem_append.mp hb' with h | h
      · exact (by decide +kernel : ∀ b ∈ str "    boundary=\"", b ≠ 10 ∧ b ≠ 13) b h
      · rcases List.mem_append.mp h with h | h
        · exact hb b h
        · exact (by decide +kernel : ∀ b ∈ str "\"", b ≠ 10 ∧ b ≠ 13) b h
    · refine ⟨98, ?_, by decide +kernel⟩
      apply List.mem_append_left
      exact (by decide +kernel : (98 : UInt8) ∈ str "    boundary=\"")
  · exact lit _ (by decide +kernel) (by decide +kernel)

/-- **A bounce built from the default templates**, for every original sender and boundary string without a line break, every
    recipient list, reply, client information, original header data and original message data: its header block is the eight
    lines of the template (addressed `To:` the original sender), and its body is the template's text parts — naming the
    recipients and quoting `code message` —, then the ORIGINAL HEADER DATA AND MESSAGE DATA, BYTE FOR BYTE (header data only
    when headers-only), then the closing boundary. -/
theorem default_bounce (x : Input) (hs : NoEol x.sender) (hb : NoEol x.boundary) :
    build defaultHdr defaultFtr x = (block (crlfLines (defaultLines x)) ++ [13, 10],
      defaultPreamble x ++ (x.origHeader ++ ((if x.headersOnly then [] else x.origBody) ++ (str "\r\n--" ++ (x.boundary ++ str "--\r\n"))))) := by
  have h := bounce_embeds_original defaultHdr defaultFtr x (defaultLines x) (by simp [defaultLines]) (defaultLines_wf x hs hb)
    CRLF (defaultPreamble x) (Or.inr rfl) (default_format x)
  rw [h, default_footer]

/-- The reply is quoted: `code message` stands in the bounce body. -/
theorem default_bounce_quotes_reply (x : Input) (hs : NoEol x.sender) (hb : NoEol x.boundary) :
    (x.info.code ++ (str " " ++ x.info.message)) <:+: (build defaultHdr defaultFtr x).2 := by
  rw [default_bounce x hs hb]
  simp only [defaultPreamble]
  refine ⟨str "This is a multi-part message in MIME format.\r\n\r\n--" ++ (x.boundary ++ (str "\r\nContent-Type: text/plain\r\n\r\nDelivery failed for:\r\n- " ++
    (x.rcpts ++ str "\r\n\r\nDestination host responded:\r\n"))),
    str "\r\n\r\n--" ++ (x.boundary ++
      (str "\r\nContent-Type: message/delivery-status\r\n\r\n" ++ (deliveryInfo x.info ++ (str "\r\n\r\n--" ++ (x.boundary ++ (str "\r\nContent-Type: " ++
      ((if x.headersOnly then str "text/rfc822-headers" else str "message/rfc822") ++ (str "\r\n\r\n" ++
      (x.origHeader ++ ((if x.headersOnly then [] else x.origBody) ++ (str "\r\n--" ++ (x.boundary ++ str "--\r\n")))))))))))), ?_⟩
  simp only [List.append_assoc]

/-- The original is embedded: header data followed by message data stand in the bounce body. -/
theorem default_bounce_embeds (x : Input) (hs : NoEol x.sender) (hb : NoEol x.boundary) (hh : x.headersOnly = false) :
    (x.origHeader ++ x.origBody) <:+: (build defaultHdr defaultFtr x).2 := by
  rw [default_bounce x hs hb]
  refine ⟨defaultPreamble x, str "\r\n--" ++ (x.boundary ++ str "--\r\n"), ?_⟩
  simp [hh, List.append_assoc]


/-- non-vacuity: the template scanner on stray braces -/
example : parseTemplate (str "a{b}c{{d}{}e{f_1}") =
    [.lit (str "a"), .key (str "b"), .lit (str "c{"), .key (str "d"), .lit (str "{}e"), .key (str "f_1")] := by decide +kernel

end content

end Slimta.C13
