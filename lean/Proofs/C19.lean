import Model.Pool
import Proofs.Lemmas.Pool
/-!
# C19 — relay connection pools stay within bounds and strand no request

Theorems over `Model/Pool.lean`: the `BlockingDeque` (semaphore = length for every operation
sequence) and the pool transition system (every interleaving of attempts, polls, wake-ups, idle
expiries, completions, failures, re-queues and link callbacks).
-/
namespace Slimta.C19
open Slimta.Pool

/-! ## BlockingDeque -/

def DInv (d : BDeque) : Prop := d.sema = d.items.length

theorem deque_step_inv (d : BDeque) (op : DOp) (h : DInv d) : DInv (d.step op).1 := by
  unfold DInv at *
  cases op with
  | append x => simp [BDeque.step, h]
  | appendleft x => simp [BDeque.step, h]
  | extend xs => simp [BDeque.step, h]
  | extendleft xs => simp [BDeque.step, h]; omega
  | pop =>
    simp only [BDeque.step]
    split
    · exact h
    · rename_i hs
      cases hl : d.items.getLast? with
      | none =>
        have : d.items = [] := by simpa using hl
        simp [this] at h; omega
      | some x => simp [h]
  | popleft =>
    simp only [BDeque.step]
    split
    · exact h
    · rename_i hs
      cases hi : d.items with
      | nil => simp [hi] at h; omega
      | cons x rest => simp [hi] at h ⊢; omega
  | remove x =>
    simp only [BDeque.step]
    split
    · rename_i hx
      have hpos : 0 < d.items.length := List.length_pos_of_mem hx
      split
      · omega
      · simp [List.length_erase_of_mem hx, h]
    · exact h
  | clear => simp [BDeque.step]

/-- **The semaphore counts the items**, after every sequence of operations. -/
theorem deque_sema_eq_length (ops : List DOp) : DInv (BDeque.run {} ops) := by
  suffices ∀ d, DInv d → DInv (BDeque.run d ops) from this {} rfl
  induction ops with
  | nil => intro d h; exact h
  | cons op ops ih => intro d h; exact ih _ (deque_step_inv d op h)

/-- A pop never finds the deque empty behind the semaphore, and blocks exactly when it is empty. -/
theorem deque_pop_sound (ops : List DOp) (op : DOp) (hop : op = .pop ∨ op = .popleft) :
    let d := BDeque.run {} ops
    ((d.step op).2 ≠ .indexError) ∧ ((d.step op).2 = .wouldBlock ↔ d.items = []) := by
  intro d
  have h : DInv d := deque_sema_eq_length ops
  unfold DInv at h
  rcases hop with rfl | rfl
  · simp only [BDeque.step]
    split
    · rename_i hs
      refine ⟨by simp, by simp; exact List.length_eq_zero_iff.mp (by omega)⟩
    · rename_i hs
      cases hl : d.items.getLast? with
      | none => have : d.items = [] := by simpa using hl
                simp [this] at h; omega
      | some x =>
        refine ⟨by simp, by simp; intro h0; simp [h0] at hl⟩
  · simp only [BDeque.step]
    split
    · rename_i hs
      refine ⟨by simp, by simp; exact List.length_eq_zero_iff.mp (by omega)⟩
    · rename_i hs
      cases hi : d.items with
      | nil => simp [hi] at h; omega
      | cons x rest => simp

/-! ## The pool -/

structure Inv (s : State) : Prop where
  /-- never more clients than `pool_size` -/
  bound : s.size ≠ 0 → s.clients.length ≤ s.size
  /-- every request is in exactly one place: waiting, held by one client, or answered -/
  cons : ∀ r, s.attempted.count r = s.queue.count r + held r s.clients + s.resulted.count r
  nodup : s.attempted.Nodup
  /-- a waiting request always has a client in the pool -/
  served : s.queue ≠ [] → s.clients ≠ []

theorem inv_init (size : Nat) (reuse pers : Bool) : Inv (init size reuse pers) :=
  ⟨by simp [init], by simp [init, held], by simp [init], by simp [init]⟩

theorem inv_step (rf : Bool) (s s' : State) (l : Label) (h : Inv s) (hs : step rf s l = some s') : Inv s' := by
  obtain ⟨hb, hc, hn, hv⟩ := h
  cases l with
  | attempt r =>
    simp only [step] at hs
    split at hs
    · simp at hs
    · rename_i hr
      simp at hs; subst hs
      rcases checkIdle_cases s with he | ⟨he, hlt⟩
      · rw [he]
        refine ⟨hb, ?_, ?_, ?_⟩
        · intro r'
          have := hc r'
          simp only [List.count_cons, List.count_append, List.count_singleton]
          by_cases hrr : r = r' <;> simp [hrr] <;> omega
        · exact List.nodup_cons.mpr ⟨hr, hn⟩
        · intro _
          by_cases hq : s.queue = []
          · -- the queue was empty: either a client is idle, or one was added, or the pool is full (non-empty)
            intro hcl'
            have hcl : s.clients = [] := hcl'
            have h2 := congrArg (fun t => t.clients.length) he
            simp only [checkIdle, hcl, List.any_nil] at h2
            by_cases hz : s.size = 0
            · simp [hz, addClient, hcl] at h2
            · have : 0 < s.size := by omega
              simp [this, addClient, hcl] at h2
          · exact hv hq
      · rw [he]
        refine ⟨?_, ?_, ?_, ?_⟩
        · intro hsz
          simp only [addClient, List.length_append, List.length_singleton]
          rcases hlt with h0 | hlt
          · exact absurd h0 hsz
          · omega
        · intro r'
          have := hc r'
          simp only [addClient, held_append_ready, List.count_cons, List.count_append, List.count_singleton]
          by_cases hrr : r = r' <;> simp [hrr] <;> omega
        · exact List.nodup_cons.mpr ⟨hr, hn⟩
        · intro _; simp [addClient]
  | poll c =>
    simp only [step] at hs
    split at hs
    · rename_i ru hget
      have hlt := lt_of_getElem? hget
      split at hs
      · rename_i r q hq
        simp at hs; subst hs
        refine ⟨by simpa [setSt] using hb, ?_, hn, ?_⟩
        · intro r'
          have h1 := hc r'
          have h2 := held_set (r := r') (st := .busy r ru) hget
          simp only [setSt, hq, List.count_cons] at h1 ⊢
          simp only [CSt.holds] at h2
          by_cases hrr : r = r' <;> simp [hrr] at h1 h2 ⊢ <;> omega
        · intro _ hcl
          simp [setSt] at hcl
          simp [hcl] at hlt
      · rename_i hq
        simp at hs; subst hs
        refine ⟨by simpa [setSt] using hb, ?_, hn, ?_⟩
        · intro r'
          have h1 := hc r'
          have h2 := held_set (r := r') (st := .idle ru) hget
          simp only [setSt] at h1 ⊢
          simp only [CSt.holds] at h2
          simp at h2; omega
        · intro hq'; simp [setSt, hq] at hq'
    · simp at hs
  | wake c =>
    simp only [step] at hs
    split at hs
    · rename_i ru r q hget hq
      have hlt := lt_of_getElem? hget
      simp at hs; subst hs
      refine ⟨by simpa [setSt] using hb, ?_, hn, ?_⟩
      · intro r'
        have h1 := hc r'
        have h2 := held_set (r := r') (st := .busy r ru) hget
        simp only [setSt, hq, List.count_cons] at h1 ⊢
        simp only [CSt.holds] at h2
        by_cases hrr : r = r' <;> simp [hrr] at h1 h2 ⊢ <;> omega
      · intro _ hcl
        simp [setSt] at hcl
        simp [hcl] at hlt
    · simp at hs
  | expire c =>
    simp only [step] at hs
    split at hs
    · rename_i ru hget
      have hlt := lt_of_getElem? hget
      split at hs
      · simp at hs; subst hs
        refine ⟨by simpa [setSt] using hb, ?_, hn, ?_⟩
        · intro r'
          have h1 := hc r'
          have h2 := held_set (r := r') (st := if s.persistent then .ready false else .exiting) hget
          have h3 : (if s.persistent then CSt.ready false else CSt.exiting).holds r' = false := by
            split <;> simp [CSt.holds]
          rw [h3] at h2
          simp only [setSt] at h1 ⊢
          simp [CSt.holds] at h2; omega
        · intro _ hcl
          simp [setSt] at hcl
          simp [hcl] at hlt
      · simp at hs
    · simp at hs
  | finish c =>
    simp only [step] at hs
    split at hs
    · rename_i r ru hget
      have hlt := lt_of_getElem? hget
      simp at hs; subst hs
      refine ⟨by simpa [setSt] using hb, ?_, hn, ?_⟩
      · intro r'
        have h1 := hc r'
        have h2 := held_set (r := r') (st := if s.reuse then .ready true else .exiting) hget
        simp only [setSt, List.count_cons] at h1 ⊢
        have h3 : (if s.reuse then CSt.ready true else CSt.exiting).holds r' = false := by
          split <;> simp [CSt.holds]
        rw [h3] at h2
        simp only [CSt.holds] at h2
        by_cases hrr : r = r' <;> simp [hrr] at h1 h2 ⊢ <;> omega
      · intro _ hcl
        simp [setSt] at hcl
        simp [hcl] at hlt
    · simp at hs
  | fail c =>
    simp only [step] at hs
    split at hs
    · rename_i r ru hget
      have hlt := lt_of_getElem? hget
      simp at hs; subst hs
      refine ⟨by simpa [setSt] using hb, ?_, hn, ?_⟩
      · intro r'
        have h1 := hc r'
        have h2 := held_set (r := r') (st := .exiting) hget
        simp only [setSt, List.count_cons] at h1 ⊢
        simp only [CSt.holds] at h2
        by_cases hrr : r = r' <;> simp [hrr] at h1 h2 ⊢ <;> omega
      · intro _ hcl
        simp [setSt] at hcl
        simp [hcl] at hlt
    · simp at hs
  | requeue c =>
    simp only [step] at hs
    split at hs
    · rename_i r ru hget
      have hlt := lt_of_getElem? hget
      split at hs
      · simp at hs; subst hs
        refine ⟨by simpa [setSt] using hb, ?_, hn, ?_⟩
        · intro r'
          have h1 := hc r'
          have h2 := held_set (r := r') (st := .exiting) hget
          simp only [setSt, List.count_cons] at h1 ⊢
          simp only [CSt.holds] at h2
          by_cases hrr : r = r' <;> simp [hrr] at h1 h2 ⊢ <;> omega
        · intro _ hcl
          simp [setSt] at hcl
          simp [hcl] at hlt
      · simp at hs
    · simp at hs
  | drop c =>
    simp only [step] at hs
    split at hs
    · rename_i ru hget
      have hlt := lt_of_getElem? hget
      simp at hs; subst hs
      refine ⟨by simpa [setSt] using hb, ?_, hn, ?_⟩
      · intro r'
        have h1 := hc r'
        have h2 := held_set (r := r') (st := .exiting) hget
        simp only [setSt] at h1 ⊢
        simp [CSt.holds] at h2; omega
      · intro _ hcl
        simp [setSt] at hcl
        simp [hcl] at hlt
    · simp at hs
  | unlink c =>
    simp only [step] at hs
    split at hs
    · rename_i hget
      have hlt := lt_of_getElem? hget
      simp only [Option.some.injEq] at hs
      subst hs
      split
      · -- respawn: the pool is empty and a request waits
        rename_i hre
        simp only [Bool.and_eq_true, Bool.not_eq_true', List.isEmpty_iff] at hre
        refine ⟨?_, ?_, hn, ?_⟩
        · intro hsz
          have he : s.clients.eraseIdx c = [] := hre.2
          simp only [addClient, he, List.nil_append, List.length_singleton] at hsz ⊢
          omega
        · intro r'
          have h1 := hc r'
          simp only [addClient, held_append_ready, held_eraseIdx_exiting hget]
          exact h1
        · intro _; simp [addClient]
      · rename_i hre
        refine ⟨?_, ?_, hn, ?_⟩
        · intro hsz
          have := hb hsz
          simp only [List.length_eraseIdx]
          split <;> omega
        · intro r'
          have h1 := hc r'
          simp only [held_eraseIdx_exiting hget]
          exact h1
        · intro hq hcl
          apply hre
          simp only [Bool.and_eq_true, Bool.not_eq_true', List.isEmpty_iff]
          refine ⟨?_, hcl⟩
          cases hqq : s.queue with
          | nil => exact absurd hqq hq
          | cons _ _ => rfl
    · simp at hs

/-- Every state reachable by any trace from the empty pool satisfies the invariant. -/
theorem inv_run (rf : Bool) (s s' : State) (ls : List Label) (h : Inv s) (hr : run rf s ls = some s') : Inv s' := by
  induction ls generalizing s with
  | nil => simp [run] at hr; subst hr; exact h
  | cons l ls ih =>
    simp only [run] at hr
    split at hr
    · rename_i s1 hs1; exact ih s1 (inv_step rf s s1 l h hs1) hr
    · simp at hr

theorem reachable_inv (rf : Bool) (size : Nat) (reuse pers : Bool) (ls : List Label) (s : State)
    (hr : run rf (init size reuse pers) ls = some s) : Inv s :=
  inv_run rf _ _ ls (inv_init size reuse pers) hr

/-- **Bound**: a pool of size `n ≥ 1` never holds more than `n` clients, whatever happens. -/
theorem pool_bounded (rf : Bool) (size : Nat) (reuse pers : Bool) (ls : List Label) (s : State) (hsz : size ≠ 0)
    (hr : run rf (init size reuse pers) ls = some s) : s.clients.length ≤ size := by
  have hi := reachable_inv rf size reuse pers ls s hr
  have hsize : s.size = size := by
    -- the size never changes
    suffices ∀ (s0 s1 : State), run rf s0 ls = some s1 → s1.size = s0.size from this _ _ hr
    clear hr hi
    induction ls with
    | nil => intro s0 s1 h; simp [run] at h; subst h; rfl
    | cons l ls ih =>
      intro s0 s1 h
      simp only [run] at h
      split at h
      · rename_i s2 hs2
        rw [ih s2 s1 h]
        cases l <;> simp only [step] at hs2 <;> (repeat' split at hs2) <;> simp at hs2 <;> subst hs2 <;>
          simp [setSt, checkIdle, addClient] <;> (repeat' split) <;> rfl
      · simp at h
  exact hsize ▸ hi.bound (hsize ▸ hsz)

/-- **Nothing lost, nothing duplicated**: every request ever attempted is, in every reachable
    state, in exactly one place — waiting in the queue once, held by exactly one client, or
    answered once. -/
theorem request_in_one_place (rf : Bool) (size : Nat) (reuse pers : Bool) (ls : List Label) (s : State)
    (hr : run rf (init size reuse pers) ls = some s) (r : Nat) (ha : r ∈ s.attempted) :
    s.queue.count r + held r s.clients + s.resulted.count r = 1 := by
  have hi := reachable_inv rf size reuse pers ls s hr
  have := hi.cons r
  rw [← this]
  rw [hi.nodup.count]; simp [ha]

/-- A request that was never attempted is nowhere. -/
theorem no_phantom_request (rf : Bool) (size : Nat) (reuse pers : Bool) (ls : List Label) (s : State)
    (hr : run rf (init size reuse pers) ls = some s) (r : Nat) (ha : r ∉ s.attempted) :
    r ∉ s.queue ∧ held r s.clients = 0 ∧ r ∉ s.resulted := by
  have hi := reachable_inv rf size reuse pers ls s hr
  have := hi.cons r
  rw [List.count_eq_zero_of_not_mem ha] at this
  refine ⟨?_, by omega, ?_⟩
  · intro hq; have := List.count_pos_iff.mpr hq; omega
  · intro hq; have := List.count_pos_iff.mpr hq; omega

/-- The labels that need nobody outside the pool: no new attempt, no timer, no connection fault. -/
def Label.internal : Label → Bool
  | .poll _ | .wake _ | .finish _ | .unlink _ => true
  | _ => false

/-- **No stranding**: in every reachable state in which a request waits, some client exists and
    a step of the pool itself is enabled (a client polls, wakes up, completes, or is unlinked —
    which respawns a client if it was the last): the pool is never stuck with work in the queue. -/
theorem no_stranding (rf : Bool) (size : Nat) (reuse pers : Bool) (ls : List Label) (s : State)
    (hr : run rf (init size reuse pers) ls = some s) (hq : s.queue ≠ []) :
    ∃ l, Label.internal l = true ∧ (step rf s l).isSome = true := by
  have hi := reachable_inv rf size reuse pers ls s hr
  have hcl := hi.served hq
  cases hc : s.clients with
  | nil => exact absurd hc hcl
  | cons c0 rest =>
    cases hq' : s.queue with
    | nil => exact absurd hq' hq
    | cons r q =>
      cases c0 with
      | ready ru => exact ⟨.poll 0, rfl, by simp [step, hc, hq']⟩
      | idle ru => exact ⟨.wake 0, rfl, by simp [step, hc, hq']⟩
      | busy r' ru => exact ⟨.finish 0, rfl, by simp [step, hc]⟩
      | exiting => exact ⟨.unlink 0, rfl, by simp [step, hc]⟩

/-- A client that holds a request can always complete it. -/
theorem busy_can_finish (rf : Bool) (s : State) (c r : Nat) (ru : Bool) (h : s.clients[c]? = some (.busy r ru)) :
    ∃ s', step rf s (.finish c) = some s' ∧ r ∈ s'.resulted := by
  simp [step, h, setSt]

/-! Non-vacuity: a run that exercises bound, respawn and re-queue. -/
example : (run true (init 1 true) [.attempt 1, .attempt 2, .poll 0, .finish 0, .poll 0, .requeue 0, .unlink 0]).map
    (fun s => (s.clients, s.queue, s.resulted)) = some ([.ready false], [2], [1]) := by decide

end Slimta.C19
