import Model.Pool
import Proofs.Lemmas.Pool
import Proofs.Lemmas.RelaySession
/-!
# C19 — relay connection pools stay within bounds and strand no request

Theorems over `Model/Pool.lean`: the `BlockingDeque` (semaphore = length for every operation
sequence) and the pool transition system (every interleaving of attempts, polls, wake-ups, idle
expiries, completions, failures, re-queues and link callbacks). Last section, over
`Model/RelaySession.lean` (the commands a relay client writes for one delivery and for several
deliveries over one connection, for every behaviour of the peer): a reused connection carries one
message at a time and a failed transaction is reset before the next message uses it.
-/
namespace Slimta.C19
open Slimta.Pool

/-! ## BlockingDeque -/

def DInv (d : BDeque) : Prop := d.sema = d.items.length

theorem deque_step_inv (d : BDeque) (op : DOp) (h : DInv d) : DInv (d.step op).1 := by
  unfold DInv at *
  cases op with
  | append x => simp [BDeque.step, h]
  | appendleft x => simp [BDeque.step, h]
  | extend xs => simp [BDeque.step, h]
  | extendleft xs => simp [BDeque.step, h]; omega
  | pop =>
    simp only [BDeque.step]
    split
    · exact h
    · rename_i hs
      cases hl : d.items.getLast? with
      | none =>
        have : d.items = [] := by simpa using hl
        simp [this] at h; omega
      | some x => simp [h]
  | popleft =>
    simp only [BDeque.step]
    split
    · exact h
    · rename_i hs
      cases hi : d.items with
      | nil => simp [hi] at h; omega
      | cons x rest => simp [hi] at h ⊢; omega
  | remove x =>
    simp only [BDeque.step]
    split
    · rename_i hx
      have hpos : 0 < d.items.length := List.length_pos_of_mem hx
      split
      · omega
      · simp [List.length_erase_of_mem hx, h]
    · exact h
  | clear => simp [BDeque.step]

/-- **The semaphore counts the items**, after every sequence of operations. -/
theorem deque_sema_eq_length (ops : List DOp) : DInv (BDeque.run {} ops) := by
  suffices ∀ d, DInv d → DInv (BDeque.run d ops) from this {} rfl
  induction ops with
  | nil => intro d h; exact h
  | cons op ops ih => intro d h; exact ih _ (deque_step_inv d op h)

/-- A pop never finds the deque empty behind the semaphore, and blocks exactly when it is empty. -/
theorem deque_pop_sound (ops : List DOp) (op : DOp) (hop : op = .pop ∨ op = .popleft) :
    let d := BDeque.run {} ops
    ((d.step op).2 ≠ .indexError) ∧ ((d.step op).2 = .wouldBlock ↔ d.items = []) := by
  intro d
  have h : DInv d := deque_sema_eq_length ops
  unfold DInv at h
  rcases hop with rfl | rfl
  · simp only [BDeque.step]
    split
    · rename_i hs
      refine ⟨by simp, by simp; exact List.length_eq_zero_iff.mp (by omega)⟩
    · rename_i hs
      cases hl : d.items.getLast? with
      | none => have : d.items = [] := by simpa using hl
                simp [this] at h; omega
      | some x =>
        refine ⟨by simp, by simp; intro h0; simp [h0] at hl⟩
  · simp only [BDeque.step]
    split
    · rename_i hs
      refine ⟨by simp, by simp; exact List.length_eq_zero_iff.mp (by omega)⟩
    · rename_i hs
      cases hi : d.items with
      | nil => simp [hi] at h; omega
      | cons x rest => simp

/-! ## The pool -/

structure Inv (s : State) : Prop where
  /-- never more clients than `pool_size` -/
  bound : s.size ≠ 0 → s.clients.length ≤ s.size
  /-- every request is in exactly one place: waiting, held by one client, or answered -/
  cons : ∀ r, s.attempted.count r = s.queue.count r + held r s.clients + s.resulted.count r
  nodup : s.attempted.Nodup
  /-- a waiting request always has a client in the pool -/
  served : s.queue ≠ [] → s.clients ≠ []

theorem inv_init (size : Nat) (reuse pers : Bool) : Inv (init size reuse pers) :=
  ⟨by simp [init], by simp [init, held], by simp [init], by simp [init]⟩

theorem inv_step (rf : Bool) (s s' : State) (l : Label) (h : Inv s) (hs : step rf s l = some s') : Inv s' := by
  obtain ⟨hb, hc, hn, hv⟩ := h
  cases l with
  | attempt r =>
    simp only [step] at hs
    split at hs
    · simp at hs
    · rename_i hr
      simp at hs; subst hs
      rcases checkIdle_cases s with he | ⟨he, hlt⟩
      · rw [he]
        refine ⟨hb, ?_, ?_, ?_⟩
        · intro r'
          have := hc r'
          simp only [List.count_cons, List.count_append, List.count_singleton]
          by_cases hrr : r = r' <;> simp [hrr] <;> omega
        · exact List.nodup_cons.mpr ⟨hr, hn⟩
        · intro _
          by_cases hq : s.queue = []
          · -- the queue was empty: either a client is idle, or one was added, or the pool is full (non-empty)
            intro hcl'
            have hcl : s.clients = [] := hcl'
            have h2 := congrArg (fun t => t.clients.length) he
            simp only [checkIdle, hcl, List.any_nil] at h2
            by_cases hz : s.size = 0
            · simp [hz, addClient, hcl] at h2
            · have : 0 < s.size := by omega
              simp [this, addClient, hcl] at h2
          · exact hv hq
      · rw [he]
        refine ⟨?_, ?_, ?_, ?_⟩
        · intro hsz
          simp only [addClient, List.length_append, List.length_singleton]
          rcases hlt with h0 | hlt
          · exact absurd h0 hsz
          · omega
        · intro r'
          have := hc r'
          simp only [addClient, held_append_ready, List.count_cons, List.count_append, List.count_singleton]
          by_cases hrr : r = r' <;> simp [hrr] <;> omega
        · exact List.nodup_cons.mpr ⟨hr, hn⟩
        · intro _; simp [addClient]
  | poll c =>
    simp only [step] at hs
    split at hs
    · rename_i ru hget
      have hlt := lt_of_getElem? hget
      split at hs
      · rename_i r q hq
        simp at hs; subst hs
        refine ⟨by simpa [setSt] using hb, ?_, hn, ?_⟩
        · intro r'
          have h1 := hc r'
          have h2 := held_set (r := r') (st := .busy r ru) hget
          simp only [setSt, hq, List.count_cons] at h1 ⊢
          simp only [CSt.holds] at h2
          by_cases hrr : r = r' <;> simp [hrr] at h1 h2 ⊢ <;> omega
        · intro _ hcl
          simp [setSt] at hcl
          simp [hcl] at hlt
      · rename_i hq
        simp at hs; subst hs
        refine ⟨by simpa [setSt] using hb, ?_, hn, ?_⟩
        · intro r'
          have h1 := hc r'
          have h2 := held_set (r := r') (st := .idle ru) hget
          simp only [setSt] at h1 ⊢
          simp only [CSt.holds] at h2
          simp at h2; omega
        · intro hq'; simp [setSt, hq] at hq'
    · simp at hs
  | wake c =>
    simp only [step] at hs
    split at hs
    · rename_i ru r q hget hq
      have hlt := lt_of_getElem? hget
      simp at hs; subst hs
      refine ⟨by simpa [setSt] using hb, ?_, hn, ?_⟩
      · intro r'
        have h1 := hc r'
        have h2 := held_set (r := r') (st := .busy r ru) hget
        simp only [setSt, hq, List.count_cons] at h1 ⊢
        simp only [CSt.holds] at h2
        by_cases hrr : r = r' <;> simp [hrr] at h1 h2 ⊢ <;> omega
      · intro _ hcl
        simp [setSt] at hcl
        simp [hcl] at hlt
    · simp at hs
  | expire c =>
    simp only [step] at hs
    split at hs
    · rename_i ru hget
      have hlt := lt_of_getElem? hget
      split at hs
      · simp at hs; subst hs
        refine ⟨by simpa [setSt] using hb, ?_, hn, ?_⟩
        · intro r'
          have h1 := hc r'
          have h2 := held_set (r := r') (st := if s.persistent then .ready false else .exiting) hget
          have h3 : (if s.persistent then CSt.ready false else CSt.exiting).holds r' = false := by
            split <;> simp [CSt.holds]
          rw [h3] at h2
          simp only [setSt] at h1 ⊢
          simp [CSt.holds] at h2; omega
        · intro _ hcl
          simp [setSt] at hcl
          simp [hcl] at hlt
      · simp at hs
    · simp at hs
  | finish c =>
    simp only [step] at hs
    split at hs
    · rename_i r ru hget
      have hlt := lt_of_getElem? hget
      simp at hs; subst hs
      refine ⟨by simpa [setSt] using hb, ?_, hn, ?_⟩
      · intro r'
        have h1 := hc r'
        have h2 := held_set (r := r') (st := if s.reuse then .ready true else .exiting) hget
        simp only [setSt, List.count_cons] at h1 ⊢
        have h3 : (if s.reuse then CSt.ready true else CSt.exiting).holds r' = false := by
          split <;> simp [CSt.holds]
        rw [h3] at h2
        simp only [CSt.holds] at h2
        by_cases hrr : r = r' <;> simp [hrr] at h1 h2 ⊢ <;> omega
      · intro _ hcl
        simp [setSt] at hcl
        simp [hcl] at hlt
    · simp at hs
  | fail c =>
    simp only [step] at hs
    split at hs
    · rename_i r ru hget
      have hlt := lt_of_getElem? hget
      simp at hs; subst hs
      refine ⟨by simpa [setSt] using hb, ?_, hn, ?_⟩
      · intro r'
        have h1 := hc r'
        have h2 := held_set (r := r') (st := .exiting) hget
        simp only [setSt, List.count_cons] at h1 ⊢
        simp only [CSt.holds] at h2
        by_cases hrr : r = r' <;> simp [hrr] at h1 h2 ⊢ <;> omega
      · intro _ hcl
        simp [setSt] at hcl
        simp [hcl] at hlt
    · simp at hs
  | requeue c =>
    simp only [step] at hs
    split at hs
    · rename_i r ru hget
      have hlt := lt_of_getElem? hget
      split at hs
      · simp at hs; subst hs
        refine ⟨by simpa [setSt] using hb, ?_, hn, ?_⟩
        · intro r'
          have h1 := hc r'
          have h2 := held_set (r := r') (st := .exiting) hget
          simp only [setSt, List.count_cons] at h1 ⊢
          simp only [CSt.holds] at h2
          by_cases hrr : r = r' <;> simp [hrr] at h1 h2 ⊢ <;> omega
        · intro _ hcl
          simp [setSt] at hcl
          simp [hcl] at hlt
      · simp at hs
    · simp at hs
  | drop c =>
    simp only [step] at hs
    split at hs
    · rename_i ru hget
      have hlt := lt_of_getElem? hget
      simp at hs; subst hs
      refine ⟨by simpa [setSt] using hb, ?_, hn, ?_⟩
      · intro r'
        have h1 := hc r'
        have h2 := held_set (r := r') (st := .exiting) hget
        simp only [setSt] at h1 ⊢
        simp [CSt.holds] at h2; omega
      · intro _ hcl
        simp [setSt] at hcl
        simp [hcl] at hlt
    · simp at hs
  | unlink c =>
    simp only [step] at hs
    split at hs
    · rename_i hget
      have hlt := lt_of_getElem? hget
      simp only [Option.some.injEq] at hs
      subst hs
      split
      · -- respawn: the pool is empty and a request waits
        rename_i hre
        simp only [Bool.and_eq_true, Bool.not_eq_true', List.isEmpty_iff] at hre
        refine ⟨?_, ?_, hn, ?_⟩
        · intro hsz
          have he : s.clients.eraseIdx c = [] := hre.2
          simp only [addClient, he, List.nil_append, List.length_singleton] at hsz ⊢
          omega
        · intro r'
          have h1 := hc r'
          simp only [addClient, held_append_ready, held_eraseIdx_exiting hget]
          exact h1
        · intro _; simp [addClient]
      · rename_i hre
        refine ⟨?_, ?_, hn, ?_⟩
        · intro hsz
          have := hb hsz
          simp only [List.length_eraseIdx]
          split <;> omega
        · intro r'
          have h1 := hc r'
          simp only [held_eraseIdx_exiting hget]
          exact h1
        · intro hq hcl
          apply hre
          simp only [Bool.and_eq_true, Bool.not_eq_true', List.isEmpty_iff]
          refine ⟨?_, hcl⟩
          cases hqq : s.queue with
          | nil => exact absurd hqq hq
          | cons _ _ => rfl
    · simp at hs

/-- Every state reachable by any trace from the empty pool satisfies the invariant. -/
theorem inv_run (rf : Bool) (s s' : State) (ls : List Label) (h : Inv s) (hr : run rf s ls = some s') : Inv s' := by
  induction ls generalizing s with
  | nil => simp [run] at hr; subst hr; exact h
  | cons l ls ih =>
    simp only [run] at hr
    split at hr
    · rename_i s1 hs1; exact ih s1 (inv_step rf s s1 l h hs1) hr
    · simp at hr

theorem reachable_inv (rf : Bool) (size : Nat) (reuse pers : Bool) (ls : List Label) (s : State)
    (hr : run rf (init size reuse pers) ls = some s) : Inv s :=
  inv_run rf _ _ ls (inv_init size reuse pers) hr

/-- **Bound**: a pool of size `n ≥ 1` never holds more than `n` clients, whatever happens. -/
theorem pool_bounded (rf : Bool) (size : Nat) (reuse pers : Bool) (ls : List Label) (s : State) (hsz : size ≠ 0)
    (hr : run rf (init size reuse pers) ls = some s) : s.clients.length ≤ size := by
  have hi := reachable_inv rf size reuse pers ls s hr
  have hsize : s.size = size := by
    -- the size never changes
    suffices ∀ (s0 s1 : State), run rf s0 ls = some s1 → s1.size = s0.size from this _ _ hr
    clear hr hi
    induction ls with
    | nil => intro s0 s1 h; simp [run] at h; subst h; rfl
    | cons l ls ih =>
      intro s0 s1 h
      simp only [run] at h
      split at h
      · rename_i s2 hs2
        rw [ih s2 s1 h]
        cases l <;> simp only [step] at hs2 <;> (repeat' split at hs2) <;> simp at hs2 <;> subst hs2 <;>
          simp [setSt, checkIdle, addClient] <;> (repeat' split) <;> rfl
      · simp at h
  exact hsize ▸ hi.bound (hsize ▸ hsz)

/-- **Nothing lost, nothing duplicated**: every request ever attempted is, in every reachable
    state, in exactly one place — waiting in the queue once, held by exactly one client, or
    answered once. -/
theorem request_in_one_place (rf : Bool) (size : Nat) (reuse pers : Bool) (ls : List Label) (s : State)
    (hr : run rf (init size reuse pers) ls = some s) (r : Nat) (ha : r ∈ s.attempted) :
    s.queue.count r + held r s.clients + s.resulted.count r = 1 := by
  have hi := reachable_inv rf size reuse pers ls s hr
  have := hi.cons r
  rw [← this]
  rw [hi.nodup.count]; simp [ha]

/-- A request that was never attempted is nowhere. -/
theorem no_phantom_request (rf : Bool) (size : Nat) (reuse pers : Bool) (ls : List Label) (s : State)
    (hr : run rf (init size reuse pers) ls = some s) (r : Nat) (ha : r ∉ s.attempted) :
    r ∉ s.queue ∧ held r s.clients = 0 ∧ r ∉ s.resulted := by
  have hi := reachable_inv rf size reuse pers ls s hr
  have := hi.cons r
  rw [List.count_eq_zero_of_not_mem ha] at this
  refine ⟨?_, by omega, ?_⟩
  · intro hq; have := List.count_pos_iff.mpr hq; omega
  · intro hq; have := List.count_pos_iff.mpr hq; omega

/-- The labels that need nobody outside the pool: no new attempt, no timer, no connection fault. -/
def Label.internal : Label → Bool
  | .poll _ | .wake _ | .finish _ | .unlink _ => true
  | _ => false

/-- **No stranding**: in every reachable state in which a request waits, some client exists and
    a step of the pool itself is enabled (a client polls, wakes up, completes, or is unlinked —
    which respawns a client if it was the last): the pool is never stuck with work in the queue. -/
theorem no_stranding (rf : Bool) (size : Nat) (reuse pers : Bool) (ls : List Label) (s : State)
    (hr : run rf (init size reuse pers) ls = some s) (hq : s.queue ≠ []) :
    ∃ l, Label.internal l = true ∧ (step rf s l).isSome = true := by
  have hi := reachable_inv rf size reuse pers ls s hr
  have hcl := hi.served hq
  cases hc : s.clients with
  | nil => exact absurd hc hcl
  | cons c0 rest =>
    cases hq' : s.queue with
    | nil => exact absurd hq' hq
    | cons r q =>
      cases c0 with
      | ready ru => exact ⟨.poll 0, rfl, by simp [step, hc, hq']⟩
      | idle ru => exact ⟨.wake 0, rfl, by simp [step, hc, hq']⟩
      | busy r' ru => exact ⟨.finish 0, rfl, by simp [step, hc]⟩
      | exiting => exact ⟨.unlink 0, rfl, by simp [step, hc]⟩

/-- A client that holds a request can always complete it. -/
theorem busy_can_finish (rf : Bool) (s : State) (c r : Nat) (ru : Bool) (h : s.clients[c]? = some (.busy r ru)) :
    ∃ s', step rf s (.finish c) = some s' ∧ r ∈ s'.resulted := by
  simp [step, h, setSt]


/-! ## Termination: every request is answered after finitely many steps of the pool -/

/-- weights of the termination measure (a busy client also carries its unanswered request) -/
def wt : CSt → Nat
  | .ready false => 3
  | .ready true => 7
  | .idle false => 2
  | .idle true => 6
  | .busy _ false => 25
  | .busy _ true => 35
  | .exiting => 1

/-- the last client is on its way out while a request waits: the link callback will respawn one -/
def respawnDue (s : State) : Bool := !s.queue.isEmpty && !s.clients.isEmpty && s.clients.all CSt.isExiting

def mu (s : State) : Nat := 30 * s.queue.length + sumW wt s.clients + (if respawnDue s then 3 else 0)

/-- the steps the pool takes by itself or that answer / give back a request: no new attempt, no idle
    timer, no connection fault between two messages -/
def Label.progress : Label → Bool
  | .poll _ | .wake _ | .finish _ | .fail _ | .requeue _ | .unlink _ => true
  | _ => false

theorem respawnDue_le (s : State) : (if respawnDue s then 3 else 0) ≤ 3 := by split <;> omega

theorem respawnDue_false_of_client {s : State} {c : Nat} {st : CSt} (h : s.clients[c]? = some st) (hst : st.isExiting = false) :
    respawnDue s = false := by
  simp [respawnDue, all_false_of_getElem h hst]

theorem mu_eq_of_flag_false {s : State} (h : respawnDue s = false) : mu s = 30 * s.queue.length + sumW wt s.clients := by
  simp [mu, h]

theorem mu_le (s : State) : mu s ≤ 30 * s.queue.length + sumW wt s.clients + 3 := by
  unfold mu; split <;> omega

theorem mu_ge (s : State) : 30 * s.queue.length + sumW wt s.clients ≤ mu s := by
  unfold mu; omega

theorem mu_set_nonexiting (s : State) (q res : List Nat) (c : Nat) (st : CSt) (hc : c < s.clients.length)
    (hst : st.isExiting = false) :
    mu (setSt { s with queue := q, resulted := res } c st) = 30 * q.length + sumW wt (s.clients.set c st) := by
  have : respawnDue (setSt { s with queue := q, resulted := res } c st) = false := by
    simp [respawnDue, setSt, all_set_false hc hst]
  rw [mu_eq_of_flag_false this]; rfl

theorem mu_set_le (s : State) (q res : List Nat) (c : Nat) (st : CSt) :
    mu (setSt { s with queue := q, resulted := res } c st) ≤ 30 * q.length + sumW wt (s.clients.set c st) + 3 :=
  mu_le _

/-- **Every progress step strictly decreases the measure** (a fresh connection never puts its
    request back: `requeueFresh = false`, the repaired code). -/
theorem measure_decreases (s s' : State) (l : Label) (hl : Label.progress l = true) (hs : step false s l = some s') :
    mu s' < mu s := by
  cases l with
  | attempt r => simp [Label.progress] at hl
  | expire c => simp [Label.progress] at hl
  | drop c => simp [Label.progress] at hl
  | poll c =>
    simp only [step] at hs
    split at hs
    · rename_i ru hget
      have hlt := lt_of_getElem? hget
      have hb := mu_eq_of_flag_false (respawnDue_false_of_client hget (st := .ready ru) rfl)
      split at hs
      · rename_i r q hq
        simp only [Option.some.injEq] at hs; subst hs
        have hw := sumW_set wt (st := .busy r ru) hget
        have ha := mu_set_nonexiting s q s.resulted c (.busy r ru) hlt rfl
        have ha' : mu (setSt { s with queue := q } c (.busy r ru)) = 30 * q.length + sumW wt (s.clients.set c (.busy r ru)) := ha
        rw [ha', hb, hq]
        simp only [List.length_cons]
        cases ru <;> simp [wt] at hw ⊢ <;> omega
      · rename_i hq
        simp only [Option.some.injEq] at hs; subst hs
        have hw := sumW_set wt (st := .idle ru) hget
        have ha := mu_set_nonexiting s s.queue s.resulted c (.idle ru) hlt rfl
        have ha' : mu (setSt s c (.idle ru)) = 30 * s.queue.length + sumW wt (s.clients.set c (.idle ru)) := ha
        rw [ha', hb]
        cases ru <;> simp [wt] at hw ⊢ <;> omega
    · simp at hs
  | wake c =>
    simp only [step] at hs
    split at hs
    · rename_i ru r q hget hq
      have hlt := lt_of_getElem? hget
      have hb := mu_eq_of_flag_false (respawnDue_false_of_client hget (st := .idle ru) rfl)
      simp only [Option.some.injEq] at hs; subst hs
      have hw := sumW_set wt (st := .busy r ru) hget
      have ha := mu_set_nonexiting s q s.resulted c (.busy r ru) hlt rfl
      have ha' : mu (setSt { s with queue := q } c (.busy r ru)) = 30 * q.length + sumW wt (s.clients.set c (.busy r ru)) := ha
      rw [ha', hb, hq]
      simp only [List.length_cons]
      cases ru <;> simp [wt] at hw ⊢ <;> omega
    · simp at hs
  | finish c =>
    simp only [step] at hs
    split at hs
    · rename_i r ru hget
      have hb := mu_eq_of_flag_false (respawnDue_false_of_client hget (st := .busy r ru) rfl)
      simp only [Option.some.injEq] at hs; subst hs
      have hw := sumW_set wt (st := if s.reuse then .ready true else .exiting) hget
      have hle := mu_set_le s s.queue (r :: s.resulted) c (if s.reuse then .ready true else .exiting)
      have hle' : mu (setSt { s with resulted := r :: s.resulted } c (if s.reuse then .ready true else .exiting)) ≤
          30 * s.queue.length + sumW wt (s.clients.set c (if s.reuse then .ready true else .exiting)) + 3 := hle
      rw [hb]
      cases ru <;> cases hr : s.reuse <;> simp [wt, hr] at hw hle' ⊢ <;> omega
    · simp at hs
  | fail c =>
    simp only [step] at hs
    split at hs
    · rename_i r ru hget
      have hb := mu_eq_of_flag_false (respawnDue_false_of_client hget (st := .busy r ru) rfl)
      simp only [Option.some.injEq] at hs; subst hs
      have hw := sumW_set wt (st := .exiting) hget
      have hle := mu_set_le s s.queue (r :: s.resulted) c .exiting
      have hle' : mu (setSt { s with resulted := r :: s.resulted } c .exiting) ≤
          30 * s.queue.length + sumW wt (s.clients.set c .exiting) + 3 := hle
      rw [hb]
      cases ru <;> simp [wt] at hw hle' ⊢ <;> omega
    · simp at hs
  | requeue c =>
    simp only [step] at hs
    split at hs
    · rename_i r ru hget
      have hb := mu_eq_of_flag_false (respawnDue_false_of_client hget (st := .busy r ru) rfl)
      split at hs
      · rename_i hru
        simp only [Bool.or_false] at hru
        subst hru
        simp only [Option.some.injEq] at hs; subst hs
        have hw := sumW_set wt (st := .exiting) hget
        have hle := mu_set_le s (r :: s.queue) s.resulted c .exiting
        have hle' : mu (setSt { s with queue := r :: s.queue } c .exiting) ≤
            30 * (r :: s.queue).length + sumW wt (s.clients.set c .exiting) + 3 := hle
        rw [hb]
        simp only [List.length_cons] at hle'
        simp [wt] at hw hle' ⊢
        omega
      · simp at hs
    · simp at hs
  | unlink c =>
    simp only [step] at hs
    split at hs
    · rename_i hget
      have hlt := lt_of_getElem? hget
      have hw := sumW_eraseIdx wt hget
      have hx : wt CSt.exiting = 1 := rfl
      simp only [Option.some.injEq] at hs
      subst hs
      split
      · -- respawn: it was the last client and a request waits
        rename_i hre
        simp only [Bool.and_eq_true, Bool.not_eq_true', List.isEmpty_iff] at hre
        obtain ⟨hq, he⟩ := hre
        have he' : s.clients.eraseIdx c = [] := he
        have hone : s.clients = [.exiting] := by
          cases hcl : s.clients with
          | nil => simp [hcl] at hlt
          | cons y ys =>
            rw [hcl] at he' hget
            cases c with
            | zero =>
              simp at he' hget; subst he' hget; rfl
            | succ j => simp at he'
        have hqne : s.queue.isEmpty = false := by
          cases hqq : s.queue with
          | nil => simp [hqq] at hq
          | cons _ _ => rfl
        have hbefore : mu s = 30 * s.queue.length + 1 + 3 := by
          simp [mu, respawnDue, hone, CSt.isExiting, hqne, sumW, wt]
        have hafter : mu (addClient { s with clients := s.clients.eraseIdx c }) = 30 * s.queue.length + 3 := by
          simp [mu, respawnDue, addClient, he', CSt.isExiting, sumW, wt]
        rw [hbefore, hafter]; omega
      · rename_i hre
        -- no respawn: the flag is unchanged or off
        have hflag : respawnDue { s with clients := s.clients.eraseIdx c } = respawnDue s ∨
            (respawnDue { s with clients := s.clients.eraseIdx c } = false) := by
          by_cases hq : s.queue.isEmpty = true
          · right; simp [respawnDue, hq]
          · by_cases he : (s.clients.eraseIdx c).isEmpty = true
            · exfalso; apply hre
              simp only [Bool.and_eq_true, Bool.not_eq_true']
              exact ⟨by simpa using hq, he⟩
            · left
              have hne : s.clients.isEmpty = false := by
                cases hcl : s.clients with
                | nil => simp [hcl] at hlt
                | cons _ _ => rfl
              have hall : ∀ (cl : List CSt) (c : Nat), cl[c]? = some CSt.exiting →
                  (cl.eraseIdx c).all CSt.isExiting = cl.all CSt.isExiting := by
                intro cl
                induction cl with
                | nil => intro c h; simp at h
                | cons y ys ih =>
                  intro c h
                  cases c with
                  | zero => simp at h; subst h; simp [CSt.isExiting]
                  | succ j =>
                    simp at h
                    simp only [List.eraseIdx_cons_succ, List.all_cons, ih j h]
              have he2 : (s.clients.eraseIdx c).isEmpty = false := by simpa using he
              simp only [respawnDue, hall s.clients c hget, hne, he2]
        have hmu1 : mu { s with clients := s.clients.eraseIdx c } =
            30 * s.queue.length + sumW wt (s.clients.eraseIdx c) + (if respawnDue { s with clients := s.clients.eraseIdx c } then 3 else 0) := rfl
        rw [hmu1]
        rcases hflag with hf | hf
        · rw [hf]; unfold mu; omega
        · rw [hf]
          have := mu_ge s
          simp only [Bool.false_eq_true, if_false]
          omega
    · simp at hs

/-- A run of progress steps from `s`. -/
def runProgress (s : State) : List Label → Option State
  | [] => some s
  | l :: ls => if Label.progress l then
      match step false s l with
      | some s' => runProgress s' ls
      | none => none
    else none

/-- **Termination**: without new attempts, idle timers and connection faults, the pool takes at
    most `mu s` steps — every schedule of the pool's own steps is finite. -/
theorem progress_runs_are_bounded (s s' : State) (ls : List Label) (h : runProgress s ls = some s') :
    ls.length + mu s' ≤ mu s := by
  induction ls generalizing s with
  | nil => simp [runProgress] at h; subst h; simp
  | cons l ls ih =>
    simp only [runProgress] at h
    split at h
    · rename_i hl
      split at h
      · rename_i s1 hs1
        have := ih s1 h
        have hd := measure_decreases s s1 l hl hs1
        simp only [List.length_cons]; omega
      · simp at h
    · simp at h

/-- **… and when it stops, everything is answered**: in a reachable state in which none of the pool's
    own steps is enabled, no request waits and no client holds one — by `request_in_one_place` every
    request ever attempted has its result. -/
theorem stuck_means_all_answered (size : Nat) (reuse pers : Bool) (ls : List Label) (s : State)
    (hr : run false (init size reuse pers) ls = some s)
    (hstuck : ∀ l, Label.internal l = true → step false s l = none) :
    s.queue = [] ∧ (∀ r, held r s.clients = 0) ∧ ∀ r ∈ s.attempted, r ∈ s.resulted := by
  have hq : s.queue = [] := by
    cases hqq : s.queue with
    | nil => rfl
    | cons a b =>
      obtain ⟨l, hl, hen⟩ := no_stranding false size reuse pers ls s hr (by rw [hqq]; simp)
      rw [hstuck l hl] at hen; simp at hen
  have hb : ∀ r, held r s.clients = 0 := by
    intro r
    cases hh : held r s.clients with
    | zero => rfl
    | succ n =>
      exfalso
      have hpos : 0 < s.clients.countP (CSt.holds r) := by unfold held at hh; omega
      obtain ⟨st, hm, hst⟩ := List.countP_pos_iff.mp hpos
      obtain ⟨c, hc, hget⟩ := List.mem_iff_getElem.mp hm
      cases st with
      | busy r' ru =>
        have hg : s.clients[c]? = some (.busy r' ru) := by rw [List.getElem?_eq_getElem hc, hget]
        obtain ⟨s2, hs2, _⟩ := busy_can_finish false s c r' ru hg
        rw [hstuck (.finish c) rfl] at hs2; simp at hs2
      | ready _ => simp [CSt.holds] at hst
      | idle _ => simp [CSt.holds] at hst
      | exiting => simp [CSt.holds] at hst
  refine ⟨hq, hb, fun r hr' => ?_⟩
  have h1 := request_in_one_place false size reuse pers ls s hr r hr'
  rw [hq, hb r] at h1
  simp at h1
  exact List.count_pos_iff.mp (by omega)

/-! ## what is on a reused connection -/
section Reuse
open Slimta.RelaySession

/-- **Message content goes out only when the peer accepted the sender, a recipient and DATA**
    (whatever the other answers are, with and without PIPELINING, SMTP and LMTP). -/
theorem content_only_after_acceptance (lmtp p : Bool) (cmds : List Cmd) (m : Nat) (rs : List Nat) (d : Nat) (as : List Ans)
    (hb : .body ∈ (afterEnvelope lmtp p cmds m rs d as).cmds) (hn : .body ∉ cmds) :
    isError m = false ∧ (∃ r ∈ rs, isError r = false) ∧ isError d = false :=
  afterEnvelope_body lmtp p cmds m rs d as hb hn

/-- **A failed transaction is reset before the connection is used again.** For every number of
    recipients and every behaviour of the peer: when a delivery leaves the connection alive, the last
    command written is RSET, or it is the message data and that was accepted (for LMTP: for every
    accepted recipient). -/
theorem failed_transaction_is_reset (lmtp p : Bool) (n : Nat) (as : List Ans) (h : (deliver lmtp p n as).alive = true) :
    ((deliver lmtp p n as).delivered = false ∧ (deliver lmtp p n as).cmds.getLast? = some .rset) ∨
    ((deliver lmtp p n as).delivered = true ∧ (deliver lmtp p n as).cmds.getLast? = some .body) :=
  deliver_clean lmtp p n as h

/-- **One message at a time on a reused connection**: over any number of messages and any peer
    behaviour, the commands of the messages do not interleave — each delivery's commands begin with
    its MAIL and hold no other — and every MAIL but the first comes directly after a RSET or after
    message data. -/
theorem one_message_at_a_time (lmtp p : Bool) (ns : List Nat) (as : List Ans) :
    MailAfterClean (session lmtp p ns as) ∧ ∀ n as', Shape (deliver lmtp p n as').cmds :=
  ⟨session_clean lmtp p ns as, fun n as' => deliver_shape lmtp p n as'⟩

end Reuse

/-! Non-vacuity: a run that exercises bound, respawn and re-queue. -/
example : (run true (init 1 true) [.attempt 1, .attempt 2, .poll 0, .finish 0, .poll 0, .requeue 0, .unlink 0]).map
    (fun s => (s.clients, s.queue, s.resulted)) = some ([.ready false], [2], [1]) := by decide

end Slimta.C19
