import Model.Sched
import Proofs.Lemmas.Sched
/-!
# C12 — a queued message is attempted when due, never early, and never forgotten; flush

Theorems over `Model/Sched.lean`, for every interleaving of its labels (enqueue's write and
hand-off, storage announcements, clock ticks, scheduler turns — asked for or spurious —, `_dequeue`
tasks, relay outcomes, `_retry_later` with any backoff answer, removals, `flush`).

`Calm`: the environment assumption under which the invariant is proved — the storage does not
announce a message while this queue's `enqueue` is between the write and the hand-off of that same
message, nor while a `_dequeue` task for it is pending. Without it the property is false of the
model *and* of the code (`never_early_needs_calm` below; known finding of C12).
-/
namespace Slimta.C12
open Slimta.Sched

def calm (s : State) : Label → Prop
  | .announce id _ => id ∉ s.written ∧ id ∉ dIds s
  | _ => True

/-- States reachable from `s0` by calm steps. -/
inductive Reach (s0 : State) : State → Prop
  | init : Reach s0 s0
  | step {s s' : State} {l : Label} : Reach s0 s → calm s l → step s l = some s' → Reach s0 s'

/-- The invariant; `ex` names a message that is momentarily in no list (inside an atomic section). -/
structure InvX (ex : Option Nat) (s : State) : Prop where
  sNodup : (sIds s).Nodup
  known : ∀ id, (id ∈ qIds s ∨ id ∈ dIds s ∨ id ∈ s.active ∨ id ∈ s.written) → id ∈ s.known
  written : ∀ id ∈ s.written, id ∉ s.active ∧ id ∉ qIds s ∧ id ∉ dIds s ∧ ∃ ts, (id, ts) ∈ s.stored ∧ ts ≤ s.now
  act : ∀ id, id ∈ s.active ↔ (id ∈ s.inflight ∨ id ∈ s.retry ∨ id ∈ s.retrying ∨ id ∈ s.rem)
  excl : ∀ id, (id ∈ s.inflight → id ∉ s.retry ∧ id ∉ s.retrying ∧ id ∉ s.rem) ∧ (id ∈ s.retry → id ∉ s.retrying ∧ id ∉ s.rem) ∧
    (id ∈ s.retrying → id ∉ s.rem)
  actFree : ∀ id ∈ s.active, id ∉ qIds s ∧ id ∉ dIds s
  actStored : ∀ id ∈ s.active, id ∈ sIds s
  nodup : (qIds s ++ dIds s).Nodup
  qids : ∀ id, id ∈ s.queuedIds ↔ id ∈ qIds s
  entryTs : ∀ e ∈ s.queued, (e.2, e.1) ∈ s.stored
  deqStored : ∀ d ∈ s.deq, ∃ ts, (d.1, ts) ∈ s.stored ∧ (d.2 ≠ .flush → ts ≤ s.now)
  sorted : Sorted s.queued
  timer : ∀ tm, s.asleep = some tm → s.wake = true ∨ s.poked = true ∨ ∀ e ∈ s.queued, ∃ u, tm = some u ∧ u ≤ e.1
  tracked : ∀ id ∈ s.known, id ∈ sIds s → ex = some id ∨ id ∈ s.written ∨ id ∈ s.active ∨ id ∈ dIds s ∨ id ∈ qIds s
  early : ∀ x ∈ s.log, x.2.2.2 ≠ .flush → x.2.2.1 ≤ x.2.1
  oneFlight : s.inflight.Nodup

abbrev Inv := InvX none

/-- A queue that starts on a storage already holding messages (distinct ids). -/
def start (pre : List (Nat × Nat)) : State := { stored := pre }

theorem inv_start (pre : List (Nat × Nat)) (h : (pre.map (·.1)).Nodup) : Inv (start pre) where
  sNodup := h
  known := by simp [start, qIds, dIds]
  written := by simp [start]
  act := by simp [start]
  excl := by simp [start]
  actFree := by simp [start]
  actStored := by simp [start]
  nodup := by simp [start, qIds, dIds]
  qids := by simp [start, qIds]
  entryTs := by simp [start]
  deqStored := by simp [start]
  sorted := by simp [start, Sorted]
  timer := by simp [start]
  tracked := by simp [start]
  early := by simp [start]
  oneFlight := by simp [start]

theorem inv_tick {ex : Option Nat} (s : State) (dt : Nat) (h : InvX ex s) : InvX ex { s with now := s.now + dt } where
  sNodup := h.sNodup
  known := h.known
  written := fun id hid => by
    obtain ⟨a, b, c, ts, d, e⟩ := h.written id hid
    exact ⟨a, b, c, ts, d, Nat.le_trans e (Nat.le_add_right _ _)⟩
  act := h.act
  excl := h.excl
  actFree := h.actFree
  actStored := h.actStored
  nodup := h.nodup
  qids := h.qids
  entryTs := h.entryTs
  deqStored := fun d hd => by
    obtain ⟨ts, a, b⟩ := h.deqStored d hd
    exact ⟨ts, a, fun hc => Nat.le_trans (b hc) (Nat.le_add_right _ _)⟩
  sorted := h.sorted
  timer := h.timer
  tracked := h.tracked
  early := h.early
  oneFlight := h.oneFlight


theorem inv_done {ex : Option Nat} (s : State) (id : Nat) (ok : Bool) (h : InvX ex s) (hin : id ∈ s.inflight) :
    InvX ex (if ok then { s with inflight := without s.inflight id, rem := id :: s.rem }
         else { s with inflight := without s.inflight id, retry := id :: s.retry }) := by
  have hex := (h.excl id).1 hin
  cases ok with
  | true =>
    simp only [if_true]
    exact {
      sNodup := h.sNodup, known := h.known, written := h.written
      act := fun x => by
        have := h.act x
        simp only [mem_without, List.mem_cons]
        grind
      excl := fun x => by
        have := h.excl x
        simp only [mem_without, List.mem_cons]
        grind
      actFree := h.actFree, actStored := h.actStored, nodup := h.nodup, qids := h.qids, entryTs := h.entryTs, deqStored := h.deqStored
      sorted := h.sorted, timer := h.timer, tracked := h.tracked, early := h.early
      oneFlight := List.Nodup.sublist List.filter_sublist h.oneFlight }
  | false =>
    simp only [Bool.false_eq_true, if_false]
    exact {
      sNodup := h.sNodup, known := h.known, written := h.written
      act := fun x => by
        have := h.act x
        simp only [mem_without, List.mem_cons]
        grind
      excl := fun x => by
        have := h.excl x
        simp only [mem_without, List.mem_cons]
        grind
      actFree := h.actFree, actStored := h.actStored, nodup := h.nodup, qids := h.qids, entryTs := h.entryTs, deqStored := h.deqStored
      sorted := h.sorted, timer := h.timer, tracked := h.tracked, early := h.early
      oneFlight := List.Nodup.sublist List.filter_sublist h.oneFlight }

theorem inv_write {ex : Option Nat} (s : State) (id ts : Nat) (h : InvX ex s) (hk : id ∉ s.known) (hs : id ∉ sIds s) (hts : ts ≤ s.now) :
    InvX ex { s with stored := (id, ts) :: s.stored, written := id :: s.written, known := id :: s.known } := by
  have hfresh : id ∉ qIds s ∧ id ∉ dIds s ∧ id ∉ s.active ∧ id ∉ s.written := by
    refine ⟨?_, ?_, ?_, ?_⟩ <;> intro hc <;> apply hk <;> apply h.known id <;> simp [hc]
  exact {
    sNodup := by
      show ((id, ts) :: s.stored |>.map (·.1)).Nodup
      simp only [List.map_cons, List.nodup_cons]
      exact ⟨hs, h.sNodup⟩
    known := fun x hx => by
      simp only [List.mem_cons] at hx ⊢
      rcases hx with hx | hx | hx | hx | hx
      · exact Or.inr (h.known x (Or.inl hx))
      · exact Or.inr (h.known x (Or.inr (Or.inl hx)))
      · exact Or.inr (h.known x (Or.inr (Or.inr (Or.inl hx))))
      · exact Or.inl hx
      · exact Or.inr (h.known x (Or.inr (Or.inr (Or.inr hx))))
    written := fun x hx => by
      rcases List.mem_cons.mp hx with rfl | hx
      · exact ⟨hfresh.2.2.1, hfresh.1, hfresh.2.1, ts, by simp, hts⟩
      · obtain ⟨a, b, c, t, d, e⟩ := h.written x hx
        exact ⟨a, b, c, t, List.mem_cons_of_mem _ d, e⟩
    act := h.act, excl := h.excl, actFree := h.actFree
    actStored := fun x hx => List.mem_cons_of_mem _ (h.actStored x hx)
    nodup := h.nodup, qids := h.qids
    entryTs := fun e he => List.mem_cons_of_mem _ (h.entryTs e he)
    deqStored := fun d hd => by
      obtain ⟨t, a, b⟩ := h.deqStored d hd
      exact ⟨t, List.mem_cons_of_mem _ a, b⟩
    sorted := h.sorted, timer := h.timer
    tracked := fun x hx hxs => by
      have hx' : x = id ∨ x ∈ s.known := List.mem_cons.mp hx
      rcases hx' with rfl | hx2
      · exact Or.inr (Or.inl (by simp))
      · have hxs' : x ∈ sIds s := by
          simp only [sIds, List.map_cons, List.mem_cons] at hxs
          rcases hxs with hxe | hxs
          · exact absurd (hxe ▸ hx2) hk
          · exact hxs
        rcases h.tracked x hx2 hxs' with t | t | t | t | t
        · exact Or.inl t
        · exact Or.inr (Or.inl (List.mem_cons_of_mem _ t))
        · exact Or.inr (Or.inr (Or.inl t))
        · exact Or.inr (Or.inr (Or.inr (Or.inl t)))
        · exact Or.inr (Or.inr (Or.inr (Or.inr t)))
    early := h.early, oneFlight := h.oneFlight }


/-- Handing a message to the relay: it was in no list (the exception of `InvX`), now it is active. -/
theorem inv_handOff (s : State) (id : Nat) (c : Cause) (h : InvX (some id) s)
    (hna : id ∉ s.active) (hq : id ∉ qIds s) (hd : id ∉ dIds s) (hw : id ∉ s.written) (hk : id ∈ s.known)
    (hts : ∃ ts, (id, ts) ∈ s.stored ∧ (c ≠ .flush → ts ≤ s.now)) : Inv (handOff s id c) := by
  have hnr : id ∉ s.inflight ∧ id ∉ s.retry ∧ id ∉ s.retrying ∧ id ∉ s.rem := by
    have := h.act id
    refine ⟨?_, ?_, ?_, ?_⟩ <;> intro hc <;> apply hna <;> rw [this] <;> simp [hc]
  exact {
    sNodup := h.sNodup
    known := fun x hx => by
      simp only [handOff, List.mem_cons] at hx
      rcases hx with hx | hx | hx | hx
      · exact h.known x (Or.inl hx)
      · exact h.known x (Or.inr (Or.inl hx))
      · rcases hx with rfl | hx
        · exact hk
        · exact h.known x (Or.inr (Or.inr (Or.inl hx)))
      · exact h.known x (Or.inr (Or.inr (Or.inr hx)))
    written := fun x hx => by
      obtain ⟨a, b, c', d⟩ := h.written x hx
      refine ⟨?_, b, c', d⟩
      simp only [handOff, List.mem_cons, not_or]
      exact ⟨fun he => hw (he ▸ hx), a⟩
    act := fun x => by
      have := h.act x
      simp only [handOff, List.mem_cons]
      by_cases hx : x = id
      · simp [hx]
      · simp [hx, this]
    excl := fun x => by
      have := h.excl x
      simp only [handOff, List.mem_cons]
      grind
    actFree := fun x hx => by
      simp only [handOff, List.mem_cons] at hx
      rcases hx with rfl | hx
      · exact ⟨hq, hd⟩
      · exact h.actFree x hx
    actStored := fun x hx => by
      simp only [handOff, List.mem_cons] at hx
      rcases hx with rfl | hx
      · obtain ⟨ts, hm, _⟩ := hts
        exact List.mem_map.mpr ⟨(x, ts), hm, rfl⟩
      · exact h.actStored x hx
    nodup := h.nodup, qids := h.qids, entryTs := h.entryTs, deqStored := h.deqStored, sorted := h.sorted, timer := h.timer
    tracked := fun x hx hxs => by
      rcases h.tracked x hx hxs with t | t | t | t | t
      · simp only [Option.some.injEq] at t
        exact Or.inr (Or.inr (Or.inl (by simp [handOff, t])))
      · exact Or.inr (Or.inl t)
      · exact Or.inr (Or.inr (Or.inl (by simp [handOff, t])))
      · exact Or.inr (Or.inr (Or.inr (Or.inl t)))
      · exact Or.inr (Or.inr (Or.inr (Or.inr t)))
    early := fun x hx hc => by
      simp only [handOff, List.mem_cons] at hx
      rcases hx with rfl | hx
      · obtain ⟨ts, hm, hle⟩ := hts
        simp only [tsOf_some h.sNodup hm, Option.getD_some]
        exact hle hc
      · exact h.early x hx hc
    oneFlight := List.nodup_cons.mpr ⟨hnr.1, h.oneFlight⟩ }


theorem inv_activate (s : State) (id : Nat) (h : Inv s) (hw : id ∈ s.written) :
    Inv (handOff { s with written := without s.written id } id .enqueue) := by
  obtain ⟨hna, hq, hd, ts, hst, hle⟩ := h.written id hw
  have hx : InvX (some id) { s with written := without s.written id } := {
    sNodup := h.sNodup
    known := fun x hx => by
      rcases hx with hx | hx | hx | hx
      · exact h.known x (Or.inl hx)
      · exact h.known x (Or.inr (Or.inl hx))
      · exact h.known x (Or.inr (Or.inr (Or.inl hx)))
      · exact h.known x (Or.inr (Or.inr (Or.inr (mem_without.mp hx).1)))
    written := fun x hx => h.written x (mem_without.mp hx).1
    act := h.act, excl := h.excl, actFree := h.actFree, actStored := h.actStored, nodup := h.nodup, qids := h.qids, entryTs := h.entryTs
    deqStored := h.deqStored, sorted := h.sorted, timer := h.timer
    tracked := fun x hx hxs => by
      rcases h.tracked x hx hxs with t | t | t | t | t
      · simp at t
      · by_cases hxi : x = id
        · exact Or.inl (by simp [hxi])
        · exact Or.inr (Or.inl (mem_without.mpr ⟨t, hxi⟩))
      · exact Or.inr (Or.inr (Or.inl t))
      · exact Or.inr (Or.inr (Or.inr (Or.inl t)))
      · exact Or.inr (Or.inr (Or.inr (Or.inr t)))
    early := h.early, oneFlight := h.oneFlight }
  exact inv_handOff _ id .enqueue hx hna hq hd (fun hc => (mem_without.mp hc).2 rfl)
    (h.known id (Or.inr (Or.inr (Or.inr hw)))) ⟨ts, hst, fun _ => hle⟩


theorem mem_map_snd_insort {e : Nat × Nat} {l : List (Nat × Nat)} {x : Nat} :
    x ∈ (insort e l).map (·.2) ↔ x = e.2 ∨ x ∈ l.map (·.2) := by
  simp only [List.mem_map, mem_insort]
  constructor
  · rintro ⟨a, ha | ha, rfl⟩
    · exact Or.inl (by rw [ha])
    · exact Or.inr ⟨a, ha, rfl⟩
  · rintro (h | ⟨a, ha, rfl⟩)
    · exact ⟨e, Or.inl rfl, h.symm⟩
    · exact ⟨a, Or.inr ha, rfl⟩

/-- `_add_queued` lets an entry in: the message is tracked through the timetable from now on. -/
theorem inv_insert {ex : Option Nat} (s : State) (ts id : Nat) (h : InvX ex s) (hex : ex = none ∨ ex = some id)
    (hq : id ∉ s.queuedIds) (ha : id ∉ s.active) (hd : id ∉ dIds s) (hw : id ∉ s.written) (hk : id ∈ s.known)
    (hst : (id, ts) ∈ s.stored) :
    Inv { s with queued := insort (ts, id) s.queued, queuedIds := id :: s.queuedIds, wake := true } := by
  have hqi : id ∉ qIds s := fun hc => hq ((h.qids id).mpr hc)
  exact {
    sNodup := h.sNodup
    known := fun x hx => by
      rcases hx with hx | hx | hx | hx
      · rcases (mem_map_snd_insort (e := (ts, id))).mp hx with rfl | hx
        · exact hk
        · exact h.known x (Or.inl hx)
      · exact h.known x (Or.inr (Or.inl hx))
      · exact h.known x (Or.inr (Or.inr (Or.inl hx)))
      · exact h.known x (Or.inr (Or.inr (Or.inr hx)))
    written := fun x hx => by
      obtain ⟨a, b, c, d⟩ := h.written x hx
      refine ⟨a, ?_, c, d⟩
      intro hc
      rcases (mem_map_snd_insort (e := (ts, id))).mp hc with rfl | hc
      · exact hw hx
      · exact b hc
    act := h.act, excl := h.excl
    actFree := fun x hx => by
      obtain ⟨a, b⟩ := h.actFree x hx
      refine ⟨?_, b⟩
      intro hc
      rcases (mem_map_snd_insort (e := (ts, id))).mp hc with rfl | hc
      · exact ha hx
      · exact a hc
    actStored := h.actStored
    nodup := by
      have hp : ((insort (ts, id) s.queued).map (·.2) ++ dIds s).Perm (id :: (qIds s ++ dIds s)) := by
        have := (insort_perm (ts, id) s.queued).map (·.2)
        exact (this.append_right _)
      show ((insort (ts, id) s.queued).map (·.2) ++ dIds s).Nodup
      rw [hp.nodup_iff, List.nodup_cons]
      exact ⟨by simp [hqi, hd], h.nodup⟩
    qids := fun x => by
      show x ∈ id :: s.queuedIds ↔ x ∈ (insort (ts, id) s.queued).map (·.2)
      rw [mem_map_snd_insort, List.mem_cons, h.qids x]; rfl
    entryTs := fun e he => by
      rcases mem_insort.mp he with rfl | he
      · exact hst
      · exact h.entryTs e he
    deqStored := h.deqStored
    sorted := insort_sorted h.sorted
    timer := fun tm _ => Or.inl rfl
    tracked := fun x hx hxs => by
      have hmono : x ∈ qIds s → x ∈ (insort (ts, id) s.queued).map (·.2) := fun t => mem_map_snd_insort.mpr (Or.inr t)
      rcases h.tracked x hx hxs with t | t | t | t | t
      · rcases hex with he | he
        · rw [he] at t; simp at t
        · rw [he] at t; simp only [Option.some.injEq] at t
          exact Or.inr (Or.inr (Or.inr (Or.inr (mem_map_snd_insort.mpr (Or.inl t.symm)))))
      · exact Or.inr (Or.inl t)
      · exact Or.inr (Or.inr (Or.inl t))
      · exact Or.inr (Or.inr (Or.inr (Or.inl t)))
      · exact Or.inr (Or.inr (Or.inr (Or.inr (hmono t))))
    early := h.early, oneFlight := h.oneFlight }


theorem inv_announce (s : State) (id ts : Nat) (h : Inv s)
    (hst : (id, ts) ∈ s.stored ∨ (id ∈ s.known ∧ id ∈ sIds s))
    (hw : id ∉ s.written) (hd : id ∉ dIds s) :
    Inv (addQueued { s with known := if s.known.contains id then s.known else id :: s.known } ts id) := by
  have hsid : id ∈ sIds s := by
    rcases hst with hst | hst
    · exact List.mem_map.mpr ⟨(id, ts), hst, rfl⟩
    · exact hst.2
  by_cases hk : id ∈ s.known
  · have hc : s.known.contains id = true := by simpa using hk
    simp only [hc, if_true]
    rcases addQueued_cases s ts id with ⟨he, _⟩ | ⟨he, hq, ha⟩
    · rw [he]; exact h
    · -- a known stored message is tracked somewhere: the entry cannot be let in (whatever timestamp it carries)
      exfalso
      rcases h.tracked id hk hsid with t | t | t | t | t
      · simp at t
      · exact hw t
      · exact ha t
      · exact hd t
      · exact hq ((h.qids id).mpr t)
  · have hc : s.known.contains id = false := by simpa using hk
    simp only [hc, Bool.false_eq_true, if_false]
    have hst : (id, ts) ∈ s.stored := by
      rcases hst with hst | hst
      · exact hst
      · exact absurd hst.1 hk
    have hfresh : id ∉ qIds s ∧ id ∉ s.active := by
      constructor <;> intro hx <;> apply hk <;> apply h.known id <;> simp [hx]
    have h0 : InvX (some id) { s with known := id :: s.known } := {
      sNodup := h.sNodup
      known := fun x hx => List.mem_cons_of_mem _ (h.known x hx)
      written := h.written, act := h.act, excl := h.excl, actFree := h.actFree, actStored := h.actStored, nodup := h.nodup, qids := h.qids
      entryTs := h.entryTs, deqStored := h.deqStored, sorted := h.sorted, timer := h.timer
      tracked := fun x hx hxs => by
        have hx' : x = id ∨ x ∈ s.known := List.mem_cons.mp hx
        rcases hx' with rfl | hx2
        · exact Or.inl rfl
        · rcases h.tracked x hx2 hxs with t | t | t | t | t
          · simp at t
          · exact Or.inr (Or.inl t)
          · exact Or.inr (Or.inr (Or.inl t))
          · exact Or.inr (Or.inr (Or.inr (Or.inl t)))
          · exact Or.inr (Or.inr (Or.inr (Or.inr t)))
      early := h.early, oneFlight := h.oneFlight }
    rcases addQueued_cases { s with known := id :: s.known } ts id with ⟨_, hr⟩ | ⟨he, hq, ha⟩
    · exfalso
      rcases hr with hr | hr
      · exact hfresh.1 ((h.qids id).mp hr)
      · exact hfresh.2 hr
    · rw [he]
      exact inv_insert _ ts id h0 (Or.inr rfl) hq ha hd hw (by simp) hst


theorem mem_setTs_of_ne {l : List (Nat × Nat)} {id w a b : Nat} (h : (a, b) ∈ l) (hne : a ≠ id) :
    (a, b) ∈ l.map (fun e => if e.1 == id then (id, w) else e) := by
  refine List.mem_map.mpr ⟨(a, b), h, ?_⟩
  have : ((a, b).1 == id) = false := by simpa using hne
  simp [this]

theorem setTs_ids (l : List (Nat × Nat)) (id w : Nat) :
    (l.map (fun e => if e.1 == id then (id, w) else e)).map (·.1) = l.map (·.1) := by
  induction l with
  | nil => rfl
  | cons y ys ih =>
    simp only [List.map_cons, ih]
    congr 1
    by_cases hy : y.1 = id
    · simp [hy]
    · have : (y.1 == id) = false := by simpa using hy
      simp [this]

theorem mem_setTs_self {l : List (Nat × Nat)} {id w : Nat} (h : id ∈ l.map (·.1)) :
    (id, w) ∈ l.map (fun e => if e.1 == id then (id, w) else e) := by
  obtain ⟨e, he, hid⟩ := List.mem_map.mp h
  refine List.mem_map.mpr ⟨e, he, ?_⟩
  simp [hid]

theorem inv_retry_none (s : State) (id : Nat) (h : Inv s) (hin : id ∈ s.retry) :
    Inv { s with retry := without s.retry id, rem := id :: s.rem } := by
  have hex := h.excl id
  exact {
    sNodup := h.sNodup, known := h.known, written := h.written
    act := fun x => by
      have := h.act x
      simp only [mem_without, List.mem_cons]
      grind
    excl := fun x => by
      have := h.excl x
      simp only [mem_without, List.mem_cons]
      grind
    actFree := h.actFree, actStored := h.actStored, nodup := h.nodup, qids := h.qids, entryTs := h.entryTs, deqStored := h.deqStored
    sorted := h.sorted, timer := h.timer, tracked := h.tracked, early := h.early, oneFlight := h.oneFlight }

/-- `_retry_later` up to `store.set_timestamp`: the due time is in storage, the message still active. -/
def stamped (s : State) (id wh : Nat) : State :=
  { s with retry := without s.retry id, stored := s.stored.map (fun e => if e.1 == id then (id, wh) else e),
           retrying := id :: s.retrying }

theorem inv_retry_some (s : State) (id w : Nat) (h : Inv s) (hin : id ∈ s.retry) : Inv (stamped s id w) := by
  have hact : id ∈ s.active := (h.act id).mpr (Or.inr (Or.inl hin))
  have hex := h.excl id
  obtain ⟨hq, hd⟩ := h.actFree id hact
  have hw : id ∉ s.written := fun hc => (h.written id hc).1 hact
  exact {
    sNodup := by
      simp only [sIds, stamped, setTs_ids]; exact h.sNodup
    known := h.known
    written := fun x hx => by
      obtain ⟨a, b, c, ts, d, e⟩ := h.written x hx
      have hne : x ≠ id := fun he => hw (he ▸ hx)
      exact ⟨a, b, c, ts, mem_setTs_of_ne d hne, e⟩
    act := fun x => by
      have := h.act x
      simp only [stamped, mem_without, List.mem_cons]
      grind
    excl := fun x => by
      have := h.excl x
      simp only [stamped, mem_without, List.mem_cons]
      grind
    actFree := h.actFree
    actStored := fun x hx => by
      simp only [sIds, stamped, setTs_ids]
      exact h.actStored x hx
    nodup := h.nodup, qids := h.qids
    entryTs := fun e he => by
      have hne : e.2 ≠ id := fun hc => hq (hc ▸ List.mem_map.mpr ⟨e, he, rfl⟩)
      exact mem_setTs_of_ne (h.entryTs e he) hne
    deqStored := fun d hdm => by
      obtain ⟨ts, a, b⟩ := h.deqStored d hdm
      have hne : d.1 ≠ id := fun hc => hd (hc ▸ List.mem_map.mpr ⟨d, hdm, rfl⟩)
      exact ⟨ts, mem_setTs_of_ne a hne, b⟩
    sorted := h.sorted, timer := h.timer
    tracked := fun x hx hxs => by
      have hxs' : x ∈ sIds s := by
        simpa only [sIds, stamped, setTs_ids] using hxs
      exact h.tracked x hx hxs'
    early := h.early, oneFlight := h.oneFlight }

/-- the end of `_retry_later`: the message is released and its entry goes into the timetable -/
def released (s : State) (id : Nat) : State :=
  { s with retrying := without s.retrying id, active := without s.active id }

theorem inv_requeue (s : State) (id ts : Nat) (h : Inv s) (hin : id ∈ s.retrying) (hts : (id, ts) ∈ s.stored) :
    Inv (addQueued (released s id) ts id) := by
  have hact : id ∈ s.active := (h.act id).mpr (Or.inr (Or.inr (Or.inl hin)))
  have hex := h.excl id
  have hni : id ∉ s.inflight := fun hc => ((hex.1 hc).2.1) hin
  have hnr : id ∉ s.retry := fun hc => ((hex.2.1 hc).1) hin
  have hnm : id ∉ s.rem := hex.2.2 hin
  obtain ⟨hq, hd⟩ := h.actFree id hact
  have hw : id ∉ s.written := fun hc => (h.written id hc).1 hact
  have h2 : InvX (some id) (released s id) := {
    sNodup := h.sNodup
    known := fun x hx => by
      rcases hx with hx | hx | hx | hx
      · exact h.known x (Or.inl hx)
      · exact h.known x (Or.inr (Or.inl hx))
      · exact h.known x (Or.inr (Or.inr (Or.inl (mem_without.mp (by simpa [released] using hx)).1)))
      · exact h.known x (Or.inr (Or.inr (Or.inr hx)))
    written := fun x hx => by
      obtain ⟨a, b, c, d⟩ := h.written x hx
      exact ⟨fun hc => a (mem_without.mp (by simpa [released] using hc)).1, b, c, d⟩
    act := fun x => by
      have := h.act x
      simp only [released, mem_without]
      grind
    excl := fun x => by
      have := h.excl x
      simp only [released, mem_without]
      grind
    actFree := fun x hx => h.actFree x (mem_without.mp (by simpa [released] using hx)).1
    actStored := fun x hx => h.actStored x (mem_without.mp (by simpa [released] using hx)).1
    nodup := h.nodup, qids := h.qids, entryTs := h.entryTs, deqStored := h.deqStored
    sorted := h.sorted, timer := h.timer
    tracked := fun x hx hxs => by
      rcases h.tracked x hx hxs with t | t | t | t | t
      · simp at t
      · exact Or.inr (Or.inl t)
      · by_cases hxi : x = id
        · exact Or.inl (by simp [hxi])
        · exact Or.inr (Or.inr (Or.inl (by simpa [released] using mem_without.mpr ⟨t, hxi⟩)))
      · exact Or.inr (Or.inr (Or.inr (Or.inl t)))
      · exact Or.inr (Or.inr (Or.inr (Or.inr t)))
    early := h.early, oneFlight := h.oneFlight }
  rcases addQueued_cases (released s id) ts id with ⟨_, hr⟩ | ⟨he, hq', ha'⟩
  · exfalso
    rcases hr with hr | hr
    · exact hq ((h.qids id).mp hr)
    · exact (mem_without.mp (by simpa [released] using hr)).2 rfl
  · rw [he]
    exact inv_insert _ ts id h2 (Or.inr rfl) hq' ha' hd hw (h.known id (Or.inr (Or.inr (Or.inl hact)))) hts

theorem mem_filter_ne {l : List (Nat × Nat)} {id a b : Nat} (h : (a, b) ∈ l) (hne : a ≠ id) :
    (a, b) ∈ l.filter (fun e => e.1 != id) := by
  simp [List.mem_filter, h, hne]

theorem mem_ids_filter {l : List (Nat × Nat)} {id x : Nat} :
    x ∈ (l.filter (fun e => e.1 != id)).map (·.1) ↔ x ∈ l.map (·.1) ∧ x ≠ id := by
  simp only [List.mem_map, List.mem_filter]
  constructor
  · rintro ⟨e, ⟨he, hne⟩, rfl⟩
    exact ⟨⟨e, he, rfl⟩, by simpa using hne⟩
  · rintro ⟨⟨e, he, rfl⟩, hne⟩
    exact ⟨e, ⟨he, by simpa using hne⟩, rfl⟩

/-- `_remove_stored` -/
def removed (s : State) (id : Nat) : State :=
  { s with rem := without s.rem id, stored := s.stored.filter (fun e => e.1 != id),
           queuedIds := without s.queuedIds id, active := without s.active id }

theorem inv_remove (s : State) (id : Nat) (h : Inv s) (hin : id ∈ s.rem) : Inv (removed s id) := by
  have hact : id ∈ s.active := (h.act id).mpr (Or.inr (Or.inr (Or.inr hin)))
  have hex := h.excl id
  obtain ⟨hq, hd⟩ := h.actFree id hact
  have hw : id ∉ s.written := fun hc => (h.written id hc).1 hact
  exact {
    sNodup := by
      have : ((s.stored.filter (fun e => e.1 != id)).map (·.1)).Sublist (s.stored.map (·.1)) :=
        (List.filter_sublist).map _
      exact List.Nodup.sublist this h.sNodup
    known := fun x hx => by
      rcases hx with hx | hx | hx | hx
      · exact h.known x (Or.inl hx)
      · exact h.known x (Or.inr (Or.inl hx))
      · exact h.known x (Or.inr (Or.inr (Or.inl (mem_without.mp (by simpa [removed] using hx)).1)))
      · exact h.known x (Or.inr (Or.inr (Or.inr hx)))
    written := fun x hx => by
      obtain ⟨a, b, c, ts, d, e⟩ := h.written x hx
      have hne : x ≠ id := fun he => hw (he ▸ hx)
      exact ⟨fun hc => a (mem_without.mp (by simpa [removed] using hc)).1, b, c, ts, mem_filter_ne d hne, e⟩
    act := fun x => by
      have := h.act x
      simp only [removed, mem_without]
      grind
    excl := fun x => by
      have := h.excl x
      simp only [removed, mem_without]
      grind
    actFree := fun x hx => h.actFree x (mem_without.mp (by simpa [removed] using hx)).1
    actStored := fun x hx => by
      have hx' := mem_without.mp (show x ∈ without s.active id by simpa [removed] using hx)
      exact mem_ids_filter.mpr ⟨h.actStored x hx'.1, hx'.2⟩
    nodup := h.nodup
    qids := fun x => by
      have := h.qids x
      show x ∈ without s.queuedIds id ↔ x ∈ qIds s
      rw [mem_without, this]
      constructor
      · exact fun hh => hh.1
      · exact fun hh => ⟨hh, fun he => hq (he ▸ hh)⟩
    entryTs := fun e he => by
      have hne : e.2 ≠ id := fun hc => hq (hc ▸ List.mem_map.mpr ⟨e, he, rfl⟩)
      exact mem_filter_ne (h.entryTs e he) hne
    deqStored := fun d hdm => by
      obtain ⟨ts, a, b⟩ := h.deqStored d hdm
      have hne : d.1 ≠ id := fun hc => hd (hc ▸ List.mem_map.mpr ⟨d, hdm, rfl⟩)
      exact ⟨ts, mem_filter_ne a hne, b⟩
    sorted := h.sorted, timer := h.timer
    tracked := fun x hx hxs => by
      have hxs' := mem_ids_filter.mp (show x ∈ (s.stored.filter (fun e => e.1 != id)).map (·.1) from hxs)
      rcases h.tracked x hx hxs'.1 with t | t | t | t | t
      · simp at t
      · exact Or.inr (Or.inl t)
      · exact Or.inr (Or.inr (Or.inl (by simpa [removed] using mem_without.mpr ⟨t, hxs'.2⟩)))
      · exact Or.inr (Or.inr (Or.inr (Or.inl t)))
      · exact Or.inr (Or.inr (Or.inr (Or.inr t)))
    early := h.early, oneFlight := h.oneFlight }


theorem dIds_append (s : State) (l : List (Nat × Nat)) (c : Cause) :
    (s.deq ++ l.map (fun e => (e.2, c))).map (·.1) = dIds s ++ l.map (·.2) := by
  simp [dIds, List.map_append, List.map_map, Function.comp_def]

theorem inv_flush (s : State) (h : Inv s) :
    Inv { s with deq := s.deq ++ s.queued.map (fun e => (e.2, Cause.flush)), queued := [], queuedIds := [] } := by
  have hd : ∀ x, x ∈ (s.deq ++ s.queued.map (fun e => (e.2, Cause.flush))).map (·.1) ↔ x ∈ dIds s ∨ x ∈ qIds s := by
    intro x; rw [dIds_append, List.mem_append]; rfl
  exact {
    sNodup := h.sNodup
    known := fun x hx => by
      rcases hx with hx | hx | hx | hx
      · simp [qIds] at hx
      · rcases (hd x).mp hx with t | t
        · exact h.known x (Or.inr (Or.inl t))
        · exact h.known x (Or.inl t)
      · exact h.known x (Or.inr (Or.inr (Or.inl hx)))
      · exact h.known x (Or.inr (Or.inr (Or.inr hx)))
    written := fun x hx => by
      obtain ⟨a, b, c, d⟩ := h.written x hx
      refine ⟨a, by simp [qIds], ?_, d⟩
      intro hc; rcases (hd x).mp hc with t | t
      · exact c t
      · exact b t
    act := h.act, excl := h.excl
    actFree := fun x hx => by
      obtain ⟨a, b⟩ := h.actFree x hx
      refine ⟨by simp [qIds], ?_⟩
      intro hc; rcases (hd x).mp hc with t | t
      · exact b t
      · exact a t
    actStored := h.actStored
    nodup := by
      show (([] : List (Nat × Nat)).map (·.2) ++ (s.deq ++ s.queued.map (fun e => (e.2, Cause.flush))).map (·.1)).Nodup
      rw [dIds_append]
      simp only [List.map_nil, List.nil_append]
      exact (List.perm_append_comm.nodup_iff).mp h.nodup
    qids := fun x => by simp [qIds]
    entryTs := fun e he => by simp at he
    deqStored := fun d hdm => by
      rcases List.mem_append.mp hdm with t | t
      · exact h.deqStored d t
      · obtain ⟨e, he, rfl⟩ := List.mem_map.mp t
        exact ⟨e.1, h.entryTs e he, fun hc => absurd rfl hc⟩
    sorted := by simp [Sorted]
    timer := fun tm _ => Or.inr (Or.inr (fun e he => by simp at he))
    tracked := fun x hx hxs => by
      rcases h.tracked x hx hxs with t | t | t | t | t
      · simp at t
      · exact Or.inr (Or.inl t)
      · exact Or.inr (Or.inr (Or.inl t))
      · exact Or.inr (Or.inr (Or.inr (Or.inl ((hd x).mpr (Or.inl t)))))
      · exact Or.inr (Or.inr (Or.inr (Or.inl ((hd x).mpr (Or.inr t)))))
    early := h.early, oneFlight := h.oneFlight }

def turned (s : State) (due rest : List (Nat × Nat)) (Q : List Nat) : State :=
  { s with queued := rest, queuedIds := Q, deq := s.deq ++ due.map (fun e => (e.2, Cause.sched)),
           asleep := none, turn := true, wake := if s.asleep.isSome then false else s.wake, poked := false }

/-- The scheduler loop's `_check_ready`, stated for any split of the timetable into a due prefix and the rest. -/
theorem inv_turn (s : State) (due rest : List (Nat × Nat)) (Q : List Nat) (h : Inv s)
    (hsplit : s.queued = due ++ rest) (hdue : ∀ e ∈ due, e.1 ≤ s.now) (hQ : ∀ x, x ∈ Q ↔ x ∈ rest.map (·.2)) :
    Inv (turned s due rest Q) := by
  have hq : ∀ x, x ∈ qIds s ↔ x ∈ due.map (·.2) ∨ x ∈ rest.map (·.2) := by
    intro x; simp only [qIds, hsplit, List.map_append, List.mem_append]
  have hd : ∀ x, x ∈ (s.deq ++ due.map (fun e => (e.2, Cause.sched))).map (·.1) ↔ x ∈ dIds s ∨ x ∈ due.map (·.2) := by
    intro x; rw [dIds_append, List.mem_append]
  have hsorted : Sorted rest := by
    have : Sorted (due ++ rest) := hsplit ▸ h.sorted
    exact List.Pairwise.sublist (List.sublist_append_right _ _) this
  exact {
    sNodup := h.sNodup
    known := fun x hx => by
      rcases hx with hx | hx | hx | hx
      · exact h.known x (Or.inl ((hq x).mpr (Or.inr hx)))
      · rcases (hd x).mp hx with t | t
        · exact h.known x (Or.inr (Or.inl t))
        · exact h.known x (Or.inl ((hq x).mpr (Or.inl t)))
      · exact h.known x (Or.inr (Or.inr (Or.inl hx)))
      · exact h.known x (Or.inr (Or.inr (Or.inr hx)))
    written := fun x hx => by
      obtain ⟨a, b, c, d⟩ := h.written x hx
      refine ⟨a, fun hc => b ((hq x).mpr (Or.inr hc)), ?_, d⟩
      intro hc; rcases (hd x).mp hc with t | t
      · exact c t
      · exact b ((hq x).mpr (Or.inl t))
    act := h.act, excl := h.excl
    actFree := fun x hx => by
      obtain ⟨a, b⟩ := h.actFree x hx
      refine ⟨fun hc => a ((hq x).mpr (Or.inr hc)), ?_⟩
      intro hc; rcases (hd x).mp hc with t | t
      · exact b t
      · exact a ((hq x).mpr (Or.inl t))
    actStored := h.actStored
    nodup := by
      show (rest.map (·.2) ++ (s.deq ++ due.map (fun e => (e.2, Cause.sched))).map (·.1)).Nodup
      rw [dIds_append]
      have h0 : ((due.map (·.2) ++ rest.map (·.2)) ++ dIds s).Nodup := by
        have := h.nodup
        simp only [qIds, hsplit, List.map_append] at this
        exact this
      have hp : ((due.map (·.2) ++ rest.map (·.2)) ++ dIds s).Perm (rest.map (·.2) ++ (dIds s ++ due.map (·.2))) := by
        rw [List.append_assoc]
        exact List.perm_append_comm.trans (by rw [List.append_assoc])
      exact hp.nodup_iff.mp h0
    qids := hQ
    entryTs := fun e he => h.entryTs e (by rw [hsplit]; exact List.mem_append_right _ he)
    deqStored := fun d hdm => by
      rcases List.mem_append.mp hdm with t | t
      · exact h.deqStored d t
      · obtain ⟨e, he, rfl⟩ := List.mem_map.mp t
        exact ⟨e.1, h.entryTs e (by rw [hsplit]; exact List.mem_append_left _ he), fun _ => hdue e he⟩
    sorted := hsorted
    timer := fun tm htm => by
      have htm : (none : Option (Option Nat)) = some tm := htm
      cases htm
    tracked := fun x hx hxs => by
      rcases h.tracked x hx hxs with t | t | t | t | t
      · simp at t
      · exact Or.inr (Or.inl t)
      · exact Or.inr (Or.inr (Or.inl t))
      · exact Or.inr (Or.inr (Or.inr (Or.inl ((hd x).mpr (Or.inl t)))))
      · rcases (hq x).mp t with t | t
        · exact Or.inr (Or.inr (Or.inr (Or.inl ((hd x).mpr (Or.inr t)))))
        · exact Or.inr (Or.inr (Or.inr (Or.inr t)))
    early := h.early, oneFlight := h.oneFlight }


theorem mem_ids_erase {l : List (Nat × Cause)} {id : Nat} {c : Cause} (hn : (l.map (·.1)).Nodup) (hm : (id, c) ∈ l) (x : Nat) :
    x ∈ (l.erase (id, c)).map (·.1) ↔ x ∈ l.map (·.1) ∧ x ≠ id := by
  induction l with
  | nil => simp at hm
  | cons y ys ih =>
    simp only [List.map_cons, List.nodup_cons] at hn
    by_cases hy : y = (id, c)
    · subst hy
      simp only [List.erase_cons_head, List.map_cons, List.mem_cons]
      constructor
      · intro hx; exact ⟨Or.inr hx, fun he => hn.1 (he ▸ hx)⟩
      · rintro ⟨hx | hx, hne⟩
        · exact absurd hx hne
        · exact hx
    · have hm' : (id, c) ∈ ys := by
        rcases List.mem_cons.mp hm with h | h
        · exact absurd h.symm hy
        · exact h
      have hne : y.1 ≠ id := by
        intro he; apply hn.1; rw [he]; exact List.mem_map.mpr ⟨(id, c), hm', rfl⟩
      have hbeq : (y == (id, c)) = false := by simpa using hy
      simp only [List.erase_cons, hbeq, Bool.false_eq_true, if_false, List.map_cons, List.mem_cons, ih hn.2 hm']
      constructor
      · rintro (hx | hx)
        · exact ⟨Or.inl hx, hx ▸ hne⟩
        · exact ⟨Or.inr hx.1, hx.2⟩
      · rintro ⟨hx | hx, hx2⟩
        · exact Or.inl hx
        · exact Or.inr ⟨hx, hx2⟩

theorem inv_dequeue (s : State) (id : Nat) (c : Cause) (h : Inv s) (hm : (id, c) ∈ s.deq) :
    Inv (handOff { s with deq := s.deq.erase (id, c) } id c) ∧ (tsOf s id).isSome = true ∧ id ∉ s.active := by
  have hdn : (dIds s).Nodup := (List.nodup_append.mp h.nodup).2.1
  have hidd : id ∈ dIds s := List.mem_map.mpr ⟨(id, c), hm, rfl⟩
  have hnq : id ∉ qIds s := fun hc => (List.nodup_append.mp h.nodup).2.2 id hc id hidd rfl
  have hna : id ∉ s.active := fun hc => (h.actFree id hc).2 hidd
  have hw : id ∉ s.written := fun hc => (h.written id hc).2.2.1 hidd
  have hk : id ∈ s.known := h.known id (Or.inr (Or.inl hidd))
  obtain ⟨ts, hst, hle⟩ := h.deqStored (id, c) hm
  have hd := mem_ids_erase hdn hm
  have h1 : InvX (some id) { s with deq := s.deq.erase (id, c) } := {
    sNodup := h.sNodup
    known := fun x hx => by
      rcases hx with hx | hx | hx | hx
      · exact h.known x (Or.inl hx)
      · exact h.known x (Or.inr (Or.inl ((hd x).mp hx).1))
      · exact h.known x (Or.inr (Or.inr (Or.inl hx)))
      · exact h.known x (Or.inr (Or.inr (Or.inr hx)))
    written := fun x hx => by
      obtain ⟨a, b, c', d⟩ := h.written x hx
      exact ⟨a, b, fun hc => c' ((hd x).mp hc).1, d⟩
    act := h.act, excl := h.excl
    actFree := fun x hx => ⟨(h.actFree x hx).1, fun hc => (h.actFree x hx).2 ((hd x).mp hc).1⟩
    actStored := h.actStored
    nodup := by
      have hsub : (qIds s ++ (s.deq.erase (id, c)).map (·.1)).Sublist (qIds s ++ dIds s) :=
        List.Sublist.append (List.Sublist.refl _) ((List.erase_sublist).map _)
      exact List.Nodup.sublist hsub h.nodup
    qids := h.qids, entryTs := h.entryTs
    deqStored := fun d hdm => h.deqStored d (List.mem_of_mem_erase hdm)
    sorted := h.sorted, timer := h.timer
    tracked := fun x hx hxs => by
      rcases h.tracked x hx hxs with t | t | t | t | t
      · simp at t
      · exact Or.inr (Or.inl t)
      · exact Or.inr (Or.inr (Or.inl t))
      · by_cases hxi : x = id
        · exact Or.inl (by simp [hxi])
        · exact Or.inr (Or.inr (Or.inr (Or.inl ((hd x).mpr ⟨t, hxi⟩))))
      · exact Or.inr (Or.inr (Or.inr (Or.inr t)))
    early := h.early, oneFlight := h.oneFlight }
  refine ⟨inv_handOff _ id c h1 hna hnq (fun hc => ((hd id).mp hc).2 rfl) hw hk ⟨ts, hst, hle⟩, ?_, hna⟩
  rw [tsOf_some h.sNodup hst]; rfl

theorem inv_schedCut (s : State) (h : Inv s) : Inv (schedCut s) := by
  have hsplit : s.queued = s.queued.takeWhile (fun e => decide (e.1 ≤ s.now)) ++ s.queued.dropWhile (fun e => decide (e.1 ≤ s.now)) :=
    (List.takeWhile_append_dropWhile).symm
  have hdue : ∀ e ∈ s.queued.takeWhile (fun e => decide (e.1 ≤ s.now)), e.1 ≤ s.now := by
    intro e he; have := (mem_takeWhile_imp he).2; simpa using this
  by_cases hemp : (s.queued.takeWhile (fun e => decide (e.1 ≤ s.now))).isEmpty = true
  · have hnil : s.queued.takeWhile (fun e => decide (e.1 ≤ s.now)) = [] := List.isEmpty_iff.mp hemp
    have hrest : s.queued.dropWhile (fun e => decide (e.1 ≤ s.now)) = s.queued := by
      have := hsplit; rw [hnil, List.nil_append] at this; exact this.symm
    have := inv_turn s [] s.queued s.queuedIds h (by simp) (by simp) h.qids
    have he : schedCut s = turned s [] s.queued s.queuedIds := by
      simp only [schedCut, turned, hemp, if_true, hrest, List.map_nil, List.append_nil]
    rw [he]; exact this
  · have := inv_turn s _ _ ((s.queued.dropWhile (fun e => decide (e.1 ≤ s.now))).map (·.2)) h hsplit hdue (fun x => Iff.rfl)
    have he : schedCut s = turned s (s.queued.takeWhile (fun e => decide (e.1 ≤ s.now)))
        (s.queued.dropWhile (fun e => decide (e.1 ≤ s.now))) ((s.queued.dropWhile (fun e => decide (e.1 ≤ s.now))).map (·.2)) := by
      simp only [schedCut, turned, hemp, Bool.false_eq_true, if_false]
    rw [he]; exact this

/-- `_wait_ready`: the loop goes to sleep until the first remaining entry (the timetable is sorted), for
    ever when there is none, or not at all when the first entry is already due. -/
theorem inv_schedSleep (s : State) (h : Inv s) : Inv (schedSleep s) := by
  have base : ∀ a : Option (Option Nat), (∀ tm, a = some tm → s.wake = true ∨ s.poked = true ∨ ∀ e ∈ s.queued, ∃ u, tm = some u ∧ u ≤ e.1) →
      Inv { s with asleep := a, turn := false } := fun a ha => {
    sNodup := h.sNodup, known := h.known, written := h.written, act := h.act, excl := h.excl, actFree := h.actFree
    actStored := h.actStored, nodup := h.nodup, qids := h.qids, entryTs := h.entryTs, deqStored := h.deqStored
    sorted := h.sorted, timer := ha, tracked := h.tracked, early := h.early, oneFlight := h.oneFlight }
  unfold schedSleep
  cases hh : s.queued.head? with
  | none =>
    simp only
    refine base _ (fun tm htm => Or.inr (Or.inr (fun e he => ?_)))
    cases hq : s.queued with
    | nil => rw [hq] at he; cases he
    | cons x xs => rw [hq] at hh; simp at hh
  | some x =>
    simp only
    split
    · refine base _ (fun tm htm => Or.inr (Or.inr (fun e he => ?_)))
      simp only [Option.some.injEq] at htm
      exact ⟨x.1, htm.symm, head_le_of_sorted h.sorted hh he⟩
    · exact base _ (fun tm htm => by cases htm)


/-- `flush()` begins: the flag ends down, but a scheduler that was waiting has been woken. -/
theorem inv_poke (s : State) (h : Inv s) : Inv { s with wake := false, poked := s.poked || s.asleep.isSome } := {
    sNodup := h.sNodup, known := h.known, written := h.written, act := h.act, excl := h.excl, actFree := h.actFree
    actStored := h.actStored, nodup := h.nodup, qids := h.qids, entryTs := h.entryTs, deqStored := h.deqStored
    sorted := h.sorted
    timer := fun tm htm => by
      have htm' : s.asleep = some tm := htm
      exact Or.inr (Or.inl (by simp [htm']))
    tracked := h.tracked, early := h.early, oneFlight := h.oneFlight }

/-- **The invariant is preserved by every calm step.** -/
theorem inv_step (s s' : State) (l : Label) (h : Inv s) (hc : calm s l) (hs : step s l = some s') : Inv s' := by
  cases l with
  | write id ts =>
    simp only [step] at hs
    split at hs
    · simp at hs
    · rename_i hcond
      simp only [Bool.or_eq_true, List.contains_eq_mem, decide_eq_true_eq, Option.isSome_iff_ne_none, ne_eq, not_or,
        Decidable.not_not, Nat.not_lt] at hcond
      simp only [Option.some.injEq] at hs; subst hs
      exact inv_write s id ts h hcond.1.1 (tsOf_none.mp hcond.1.2) hcond.2
  | activate id =>
    simp only [step] at hs
    split at hs
    · rename_i hw
      have hw' : id ∈ s.written := by simpa using hw
      have hna : id ∉ s.active := (h.written id hw').1
      have : ({ s with written := without s.written id } : State).active.contains id = false := by simpa using hna
      simp only [this, Bool.false_eq_true, if_false, Option.some.injEq] at hs
      subst hs
      exact inv_activate s id h hw'
    · simp at hs
  | announce id ts =>
    simp only [step] at hs
    split at hs
    · rename_i hst
      simp only [Option.some.injEq] at hs; subst hs
      refine inv_announce s id ts h ?_ hc.1 hc.2
      simp only [Bool.or_eq_true, List.contains_eq_mem, decide_eq_true_eq, Bool.and_eq_true, Option.isSome_iff_ne_none, ne_eq] at hst
      rcases hst with hst | hst
      · exact Or.inl hst
      · refine Or.inr ⟨hst.1, ?_⟩
        cases hn : tsOf s id with
        | none => exact absurd hn hst.2
        | some v => exact Classical.byContradiction fun hc' => by rw [tsOf_none.mpr hc'] at hn; simp at hn
    · simp at hs
  | tick dt =>
    simp only [step, Option.some.injEq] at hs; subst hs
    exact inv_tick s dt h
  | sched =>
    simp only [step] at hs
    split at hs
    · simp only [Option.some.injEq] at hs; subst hs; exact inv_schedCut s h
    · simp at hs
  | sleep =>
    simp only [step] at hs
    split at hs
    · simp only [Option.some.injEq] at hs; subst hs; exact inv_schedSleep s h
    · simp at hs
  | dequeue id c =>
    simp only [step] at hs
    split at hs
    · rename_i hm
      have hm' : (id, c) ∈ s.deq := by simpa using hm
      obtain ⟨hinv, hsome, hna⟩ := inv_dequeue s id c h hm'
      have h1 : (tsOf ({ s with deq := s.deq.erase (id, c) } : State) id).isNone = false := by
        have : tsOf ({ s with deq := s.deq.erase (id, c) } : State) id = tsOf s id := rfl
        rw [this]; cases hh : tsOf s id <;> simp [hh] at hsome ⊢
      have h2 : ({ s with deq := s.deq.erase (id, c) } : State).active.contains id = false := by simpa using hna
      simp only [h1, h2, Bool.false_eq_true, if_false, Option.some.injEq] at hs
      subst hs; exact hinv
    · simp at hs
  | done id ok =>
    simp only [step] at hs
    split at hs
    · rename_i hm
      simp only [Option.some.injEq] at hs; subst hs
      exact inv_done s id ok h (by simpa using hm)
    · simp at hs
  | retry id w =>
    simp only [step] at hs
    split at hs
    · rename_i hm
      have hm' : id ∈ s.retry := by simpa using hm
      cases w with
      | none =>
        simp only [Option.some.injEq] at hs; subst hs
        exact inv_retry_none s id h hm'
      | some w =>
        simp only [Option.some.injEq] at hs; subst hs
        exact inv_retry_some s id w h hm'
    · simp at hs
  | requeue id =>
    simp only [step] at hs
    split at hs
    · rename_i hm
      have hm' : id ∈ s.retrying := by simpa using hm
      split at hs
      · rename_i wh hts
        simp only [Option.some.injEq] at hs; subst hs
        have hact : id ∈ s.active := (h.act id).mpr (Or.inr (Or.inr (Or.inl hm')))
        have hsid := h.actStored id hact
        obtain ⟨e, he, hid⟩ := List.mem_map.mp hsid
        have hmem : (id, e.2) ∈ s.stored := by rw [← hid]; exact he
        have := tsOf_some h.sNodup hmem
        rw [this] at hts
        simp only [Option.some.injEq] at hts; subst hts
        exact inv_requeue s id e.2 h hm' hmem
      · simp at hs
    · simp at hs
  | remove id =>
    simp only [step] at hs
    split at hs
    · rename_i hm
      simp only [Option.some.injEq] at hs; subst hs
      exact inv_remove s id h (by simpa using hm)
    · simp at hs
  | poke =>
    simp only [step, Option.some.injEq] at hs; subst hs
    exact inv_poke s h
  | flush =>
    simp only [step, Option.some.injEq] at hs; subst hs
    exact inv_flush s h

theorem reach_inv {pre : List (Nat × Nat)} (hpre : (pre.map (·.1)).Nodup) {s : State} (hr : Reach (start pre) s) : Inv s := by
  induction hr with
  | init => exact inv_start pre hpre
  | step _ hc hs ih => exact inv_step _ _ _ ih hc hs


/-! ## The property -/

/-- **Never early.** Whatever the interleaving and the backoff answers, every hand-off to the relay
    that no `flush()` asked for happens at or after the timestamp the storage holds for the message
    at that moment (the due time the backoff policy chose, or the time of the `enqueue`). -/
theorem never_early {pre : List (Nat × Nat)} (hpre : (pre.map (·.1)).Nodup) {s : State} (hr : Reach (start pre) s)
    (id t due : Nat) (c : Cause) (hl : (id, t, due, c) ∈ s.log) (hc : c ≠ .flush) : due ≤ t :=
  (reach_inv hpre hr).early (id, t, due, c) hl hc

/-- **Attempted once due.** If a timetable entry is due: when the scheduler loop is not in the middle
    of a turn it can take one (its timer has run out, or it has been woken, or it is not asleep), and
    that turn creates the `_dequeue` task of the message; when it is in the middle of a turn (its
    spawns may be waiting for a slot of a bounded pool) it can finish the turn, does not go to sleep
    (the entry is due by the clock it reads then) and is back in the first case with the entry still
    in the timetable. -/
theorem due_is_dispatched {pre : List (Nat × Nat)} (hpre : (pre.map (·.1)).Nodup) {s : State} (hr : Reach (start pre) s)
    (t id : Nat) (he : (t, id) ∈ s.queued) (hdue : t ≤ s.now) :
    (s.turn = false → ∃ s', step s .sched = some s' ∧ (id, Cause.sched) ∈ s'.deq) ∧
    (s.turn = true → ∃ s', step s .sleep = some s' ∧ s'.turn = false ∧ s'.asleep = none ∧ (t, id) ∈ s'.queued ∧ s'.now = s.now) := by
  have h := reach_inv hpre hr
  constructor
  · intro hturn
    have hen : schedEnabled s = true := by
      unfold schedEnabled
      cases ha : s.asleep with
      | none => rfl
      | some tm =>
        rcases h.timer tm ha with hw | hw | hall
        · cases tm <;> simp [hw]
        · cases tm <;> simp [hw]
        · obtain ⟨u, rfl, hu⟩ := hall (t, id) he
          have : u ≤ s.now := Nat.le_trans hu hdue
          simp [this]
    refine ⟨schedCut s, by simp [step, hturn, hen], ?_⟩
    have hmem := due_mem_takeWhile h.sorted he hdue
    have hne : (s.queued.takeWhile (fun e => decide (e.1 ≤ s.now))).isEmpty = false := by
      cases hh : s.queued.takeWhile (fun e => decide (e.1 ≤ s.now)) with
      | nil => rw [hh] at hmem; simp at hmem
      | cons _ _ => rfl
    simp only [schedCut, hne, Bool.false_eq_true, if_false]
    exact List.mem_append_right _ (List.mem_map.mpr ⟨(t, id), hmem, rfl⟩)
  · intro hturn
    refine ⟨schedSleep s, by simp [step, hturn], ?_⟩
    unfold schedSleep
    cases hh : s.queued.head? with
    | none =>
      cases hq : s.queued with
      | nil => rw [hq] at he; cases he
      | cons x xs => rw [hq] at hh; simp at hh
    | some x =>
      have hx : x.1 ≤ t := head_le_of_sorted h.sorted hh he
      have : ¬ s.now < x.1 := by omega
      simp only [this, if_false]
      exact ⟨trivial, trivial, he, trivial⟩

/-- Where a stored message the queue has been told about is. -/
inductive Whereabouts (s : State) (id : Nat) : Prop
  | handingOff : id ∈ s.written → Whereabouts s id                  -- enqueue is about to hand it to the relay
  | attempting : id ∈ s.inflight → Whereabouts s id                 -- the relay has it
  | finishing : (id ∈ s.retry ∨ id ∈ s.retrying ∨ id ∈ s.rem) → Whereabouts s id   -- _retry_later / _remove_stored is due to run or running
  | dequeuing : id ∈ dIds s → Whereabouts s id                      -- a _dequeue task is pending
  | scheduled (t : Nat) : (t, id) ∈ s.queued →
      (s.asleep = none ∨ s.wake = true ∨ s.poked = true ∨ ∃ u, s.asleep = some (some u) ∧ u ≤ t) → Whereabouts s id
                                                                    -- in the timetable, and the loop is awake, has been woken, or wakes by then

/-- **Never forgotten.** In every reachable state each stored message the queue knows about
    (enqueued here, loaded, announced, re-queued after a failure or a flush) is in flight, has a
    pending task, or sits in the timetable with the scheduler due to wake no later than its time. -/
theorem never_forgotten {pre : List (Nat × Nat)} (hpre : (pre.map (·.1)).Nodup) {s : State} (hr : Reach (start pre) s)
    (id : Nat) (hk : id ∈ s.known) (hs : id ∈ sIds s) : Whereabouts s id := by
  have h := reach_inv hpre hr
  rcases h.tracked id hk hs with t | t | t | t | t
  · simp at t
  · exact .handingOff t
  · rcases (h.act id).mp t with t | t | t | t
    · exact .attempting t
    · exact .finishing (Or.inl t)
    · exact .finishing (Or.inr (Or.inl t))
    · exact .finishing (Or.inr (Or.inr t))
  · exact .dequeuing t
  · obtain ⟨e, he, hid⟩ := List.mem_map.mp t
    have he' : (e.1, id) ∈ s.queued := by rw [← hid]; exact he
    refine .scheduled e.1 he' ?_
    cases ha : s.asleep with
    | none => exact Or.inl rfl
    | some tm =>
      rcases h.timer tm ha with hw | hw | hall
      · exact Or.inr (Or.inl hw)
      · exact Or.inr (Or.inr (Or.inl hw))
      · obtain ⟨u, rfl, hu⟩ := hall e he
        exact Or.inr (Or.inr (Or.inr ⟨u, rfl, hu⟩))

/-- **flush() never waits**: it is a single step that is always enabled, and after it every
    message that was waiting has a `_dequeue` task of its own; the timetable and its id set are empty
    (so a flushed message that fails again is let back in: `never_forgotten`). -/
theorem flush_returns_and_dispatches (s : State) :
    ∃ s', step s .flush = some s' ∧ s'.queued = [] ∧ s'.queuedIds = [] ∧
      ∀ e ∈ s.queued, (e.2, Cause.flush) ∈ s'.deq := by
  refine ⟨_, rfl, rfl, rfl, ?_⟩
  intro e he
  exact List.mem_append_right _ (List.mem_map.mpr ⟨e, he, rfl⟩)

/-- The timetable's id set is exactly the ids of its entries, in every reachable state. -/
theorem timetable_ids_exact {pre : List (Nat × Nat)} (hpre : (pre.map (·.1)).Nodup) {s : State} (hr : Reach (start pre) s)
    (id : Nat) : id ∈ s.queuedIds ↔ ∃ t, (t, id) ∈ s.queued := by
  rw [(reach_inv hpre hr).qids id]
  constructor
  · intro hm; obtain ⟨e, he, hid⟩ := List.mem_map.mp hm; exact ⟨e.1, by rw [← hid]; exact he⟩
  · rintro ⟨t, ht⟩; exact List.mem_map.mpr ⟨(t, id), ht, rfl⟩

/-- At most one attempt of a message is in flight, and a message in flight has neither a timetable
    entry nor a pending `_dequeue` task. -/
theorem one_attempt_in_flight {pre : List (Nat × Nat)} (hpre : (pre.map (·.1)).Nodup) {s : State} (hr : Reach (start pre) s) :
    s.inflight.Nodup ∧ ∀ id ∈ s.inflight, (∀ t, (t, id) ∉ s.queued) ∧ id ∉ dIds s := by
  have h := reach_inv hpre hr
  refine ⟨h.oneFlight, fun id hid => ?_⟩
  have ha : id ∈ s.active := (h.act id).mpr (Or.inl hid)
  exact ⟨fun t ht => (h.actFree id ha).1 (List.mem_map.mpr ⟨(t, id), ht, rfl⟩), (h.actFree id ha).2⟩

/-- **Without `Calm` the property is false of the model** (and of the code: known finding of C12): the storage
    announces message 1 while `enqueue` is still between the write and the hand-off; the message is
    attempted through the timetable, fails, is re-scheduled for time 5 — and then `enqueue` hands it to the relay
    at time 0. -/
theorem never_early_needs_calm :
    ∃ s, run {} [.write 1 0, .announce 1 0, .sched, .dequeue 1 .sched, .done 1 false, .retry 1 (some 5), .requeue 1, .activate 1] = some s ∧
      (1, 0, 5, Cause.enqueue) ∈ s.log := by
  refine ⟨_, rfl, ?_⟩
  decide

/-! Non-vacuity: a calm run with a retry, a flush and a second failure. -/
def demoTrace : List Label := [.sched, .sleep, .write 1 0, .activate 1, .done 1 false, .retry 1 (some 5), .requeue 1, .sched, .sleep,
    .flush, .dequeue 1 .flush, .done 1 false, .retry 1 (some 7), .requeue 1, .tick 7, .sched, .sleep]

def noAnnounce : Label → Bool
  | .announce _ _ => false
  | _ => true

/-- A run of the executable model without announcements is a calm run. -/
theorem reach_run (s0 : State) (ls : List Label) (s1 : State) (hr : Reach s0 s1) (s2 : State) (h : run s1 ls = some s2)
    (hc : ls.all noAnnounce = true) : Reach s0 s2 := by
  induction ls generalizing s1 with
  | nil => simp [run] at h; exact h ▸ hr
  | cons l ls ih =>
    simp only [List.all_cons, Bool.and_eq_true] at hc
    simp only [run] at h
    cases hs : step s1 l with
    | none => rw [hs] at h; cases h
    | some s' =>
      rw [hs] at h
      refine ih s' (.step hr ?_ hs) h hc.2
      cases l <;> first | trivial | (simp [noAnnounce] at hc)

example : ∃ s, run (start []) demoTrace = some s ∧ Reach (start []) s ∧ s.log.length = 2 ∧ s.turn = false := by
  refine ⟨(run (start []) demoTrace).getD {}, by decide, ?_, by decide, by decide⟩
  exact reach_run _ demoTrace _ .init _ (by decide) (by decide)

end Slimta.C12
