import Model.Attempt
import Proofs.C12
import Proofs.Lemmas.Attempt
import Proofs.C13
import Proofs.Lemmas.QueueM
import Proofs.Lemmas.QueueAttempts
import Proofs.C11
/-!
# C01 — accepted mail is never lost: every recipient reaches a final disposition

Part 1 (this file): the ledger. For every attempt outcome and every history of outcomes (any
mixture of whole-message and per-recipient successes, transient and permanent failures and
unexpected exceptions, any backoff function) each accepted recipient is at all times exactly one
of: reported delivered, failed for good (and then named in a bounce when the sender is not empty),
or still stored for the next attempt; the message leaves storage only when nobody is outstanding;
when the backoff stops granting retries everybody outstanding is failed and bounced.
Scheduling ("keeps being retried") is C12 (`Proofs/Sched.lean`).
-/
namespace Slimta.C01
open Slimta.Attempt

/-- **One attempt conserves the recipients** (restated from the lemma file so that the statement
    is visible here). -/
theorem attempt_conservation (cfg : Cfg) (m : Msg) (o : Outcome) (hc : CompleteOutcome m o) (x : Rcpt) :
    (attempt cfg m o).delivered.count x + ((attempt cfg m o).failed.map Prod.fst).count x
      + restCount (attempt cfg m o) x = m.rcpts.count x :=
  attempt_conserves cfg m o hc x

/-- **The message is removed only when every recipient is final.** -/
theorem removed_only_when_final (cfg : Cfg) (m : Msg) (o : Outcome) (hc : CompleteOutcome m o)
    (hgone : (attempt cfg m o).msg = none) :
    ∀ x ∈ m.rcpts, x ∈ (attempt cfg m o).delivered ∨ x ∈ (attempt cfg m o).failed.map Prod.fst := by
  intro x hx
  have h := attempt_conserves cfg m o hc x
  simp only [restCount, hgone] at h
  have : 0 < m.rcpts.count x := List.count_pos_iff.mpr hx
  by_cases hd : x ∈ (attempt cfg m o).delivered
  · exact Or.inl hd
  · have h0 := List.count_eq_zero_of_not_mem hd
    right
    apply List.count_pos_iff.mp
    omega

/-- **When the backoff stops granting retries nobody is dropped**: the message leaves storage and
    every recipient still outstanding is failed for good (hence bounced, see below). -/
theorem exhaustion_fails_everyone (cfg : Cfg) (m : Msg) (o : Outcome) (hc : CompleteOutcome m o)
    (hb : cfg.backoff (m.attempts + 1) = none) :
    (attempt cfg m o).msg = none ∧
    ∀ x ∈ m.rcpts, x ∈ (attempt cfg m o).delivered ∨ x ∈ (attempt cfg m o).failed.map Prod.fst := by
  have hgone : (attempt cfg m o).msg = none := by
    have hp : ∀ res, (handlePartial cfg m res).msg = none := by
      intro res
      have hunf : handlePartial cfg m res =
          if (tempsOf res).isEmpty then ⟨none, bouncesFor cfg (permsOf res) false, oksOf res, permsOf res, none⟩
          else retryLater cfg m (tempsOf res) (deleteIdxs (res.filterMap fun (rc, v) => match v with
            | .ok | .perm _ => some (m.rcpts.idxOf rc)
            | .temp _ => none) m.rcpts) (bouncesFor cfg (permsOf res) false) (oksOf res) (permsOf res) := rfl
      rw [hunf]
      split
      · rfl
      · simp [retryLater, hb]
    cases o with
    | success => rfl
    | permanent r => rfl
    | transient r => simp [attempt, hb]
    | other r => simp [attempt, hb]
    | mapping res => exact hp res
    | sequence l => exact hp _
  exact ⟨hgone, removed_only_when_final cfg m o hc hgone⟩

/-- **Failed for good ⇒ reported back to the sender** (non-empty sender, default bounce factory):
    the bounces of the attempt name exactly the recipients that failed in it. -/
theorem failed_are_bounced (cfg : Cfg) (hs : cfg.senderNonEmpty = true) (hf : cfg.factoryBounces = true)
    (m : Msg) (o : Outcome) (x : Rcpt) (hx : x ∈ (attempt cfg m o).failed.map Prod.fst) :
    x ∈ (attempt cfg m o).bounces.flatMap (·.rcpts) := by
  have := C13.bounces_name_exactly_the_failed cfg hs hf m o x
  apply List.count_pos_iff.mp
  rw [this]
  exact List.count_pos_iff.mpr hx

/-- **Whole histories.** Summed over all attempts made so far: delivered + failed + still stored
    = the recipients that were accepted. Nothing is lost and nothing is counted twice. -/
theorem history_conservation (cfg : Cfg) (os : List Outcome) (m : Msg)
    (hv : ValidHistory cfg (some m) os) (x : Rcpt) :
    ((runHistory cfg (some m) os).flatMap (·.delivered)).count x
      + (((runHistory cfg (some m) os).flatMap (·.failed)).map Prod.fst).count x
      + (match finalOf cfg (some m) os with | some f => f.rcpts.count x | none => 0)
      = m.rcpts.count x := by
  induction os generalizing m with
  | nil => simp [runHistory, finalOf]
  | cons o rest ih =>
    obtain ⟨hc, hrest⟩ := hv
    have h1 := attempt_conserves cfg m o hc x
    simp only [runHistory, finalOf, List.flatMap_cons, List.count_append, List.map_append]
    cases hm : (attempt cfg m o).msg with
    | none =>
      simp only [restCount, hm] at h1
      simp [runHistory, finalOf]
      omega
    | some m' =>
      rw [hm] at hrest
      have h2 := ih m' hrest
      simp only [restCount, hm] at h1
      omega

/-! ### non-vacuity -/

example : (attempt ⟨fun a => if a < 2 then some 0 else none, true, true⟩ ⟨[0, 1, 2], 1⟩
    (.mapping [(0, .ok), (1, .temp 4), (2, .perm 5)])).msg = none := by decide

/-- **Never unscheduled** (the "eventually" half, as a safety statement over the scheduler's
    transition system, calm environment): in every reachable state a stored message the queue knows
    about is being handed off, in flight, finishing (retry / removal pending), waiting for its
    `_dequeue` task, or in the timetable with the scheduler loop due to wake by its time. Together
    with `C12.due_is_dispatched` nothing accepted is ever left without a next step. -/
theorem accepted_never_unscheduled {pre : List (Nat × Nat)} (hpre : (pre.map (·.1)).Nodup) {s : Sched.State}
    (hr : C12.Reach (C12.start pre) s) (id : Nat) (hk : id ∈ s.known) (hs : id ∈ Sched.sIds s) :
    C12.Whereabouts s id :=
  C12.never_forgotten hpre hr id hk hs

/-! ## The composed machine: ledger and scheduler in one transition system

`Model/QueueM.lean` puts the storage contents, every attempt's envelope, the verdict of `_attempt`, the bounces and the ledger
next to the scheduler state of `Model/Sched.lean`; a step of it IS a step of the scheduler model (`QM.step_sched`) and its
two-phase attempt IS `Attempt.attempt` (`QM.phases_eq_attempt`). The theorems below hold in every state reachable under every
interleaving of enqueues (any recipients), announcements, ticks, scheduler turns, `_dequeue` tasks, relay answers (any `Outcome`
that answers for the recipients it was handed), backoff answers, re-queues, removals and flushes — the calm environment of C12. -/
section composed
open Slimta.QM
open Slimta.Sched (sIds)
variable {fb : Bool} {pre : List (Nat × Nat)} {rc : Nat → List Rcpt} {nn : Nat → Bool} {att : Nat → Nat}

/-- **Exactly one disposition, at every moment of every interleaving**: a recipient the queue accepted is counted once in
    {reported delivered, failed for good, outstanding}. -/
theorem one_disposition (hpre : (pre.map (·.1)).Nodup) (hrc : ∀ id ∈ pre.map (·.1), (rc id).Nodup) {q : State}
    (hr : Reach fb (startAt pre rc nn att) q) (id : Nat) (r : List Rcpt) (ho : q.orig id = some r) (x : Rcpt) (hx : x ∈ r) :
    (q.delivered id).count x + ((q.failed id).map Prod.fst).count x + (outstanding q.s.rem q id).count x = 1 := by
  have h := reach_inv hpre hrc hr
  have h1 := h.led.ledger id r ho x
  have h2 : r.count x = 1 := by
    have hle := List.nodup_iff_count.mp (h.led.nodup id r ho) x
    have := List.count_pos_iff.mpr hx
    omega
  rw [← h2]; exact h1

/-- **Accepted mail is never lost** (the property, over the composed machine): every accepted recipient is reported delivered,
    or failed for good — and then, when a bounce is produced at all (non-empty sender, a factory that returns one), named in a
    bounce that quotes its reply —, or it is outstanding in a message that is still in storage and (once this queue knows the
    message) in flight, finishing, dequeuing, being handed off, or in the timetable with the scheduler due to wake by its time. -/
theorem accepted_never_lost (hpre : (pre.map (·.1)).Nodup) (hrc : ∀ id ∈ pre.map (·.1), (rc id).Nodup) {q : State}
    (hr : Reach fb (startAt pre rc nn att) q) (id : Nat) (r : List Rcpt) (ho : q.orig id = some r) (x : Rcpt) (hx : x ∈ r) :
    x ∈ q.delivered id ∨
    (∃ rp, (x, rp) ∈ q.failed id ∧ ((fb && q.nonNull id) = true → ∃ b ∈ q.bounces id, b.reply = rp ∧ x ∈ b.rcpts)) ∨
    (x ∈ outstanding q.s.rem q id ∧ id ∈ sIds q.s ∧ (id ∈ q.s.known → C12.Whereabouts q.s id)) := by
  have h := reach_inv hpre hrc hr
  have h1 := one_disposition hpre hrc hr id r ho x hx
  by_cases hd : x ∈ q.delivered id
  · exact Or.inl hd
  · by_cases hf : x ∈ (q.failed id).map Prod.fst
    · right; left
      obtain ⟨p, hp, hpx⟩ := List.mem_map.mp hf
      obtain ⟨x', rp⟩ := p
      simp only at hpx; subst hpx
      exact ⟨rp, hp, fun hb => h.led.bounced id x' rp hp hb⟩
    · right; right
      have hd0 := List.count_eq_zero_of_not_mem hd
      have hf0 := List.count_eq_zero_of_not_mem hf
      have ho1 : 0 < (outstanding q.s.rem q id).count x := by omega
      have hxo := List.count_pos_iff.mp ho1
      have hst : id ∈ sIds q.s := by
        cases hm : q.msgs id with
        | none => simp [outstanding, hm] at hxo
        | some m => exact (h.led.stored id).mp (by simp [hm])
      exact ⟨hxo, hst, fun hk => C12.never_forgotten hpre (reach_sched hr) id hk hst⟩

/-- **A message leaves storage only when every recipient is final**, whatever was interleaved with its attempts. -/
theorem removed_means_final (hpre : (pre.map (·.1)).Nodup) (hrc : ∀ id ∈ pre.map (·.1), (rc id).Nodup) {q : State}
    (hr : Reach fb (startAt pre rc nn att) q) (id : Nat) (r : List Rcpt) (ho : q.orig id = some r) (hgone : id ∉ sIds q.s)
    (x : Rcpt) (hx : x ∈ r) : x ∈ q.delivered id ∨ x ∈ (q.failed id).map Prod.fst := by
  rcases accepted_never_lost hpre hrc hr id r ho x hx with h | ⟨rp, h, _⟩ | ⟨_, h, _⟩
  · exact Or.inl h
  · exact Or.inr (List.mem_map.mpr ⟨(x, rp), h, rfl⟩)
  · exact absurd h hgone

/-- **The k-th hand-off of a message carries `attempts = k`**: in every reachable state, under every interleaving, the hand-offs of
    a message to the relay — oldest first — were made with the attempt numbers 0, 1, 2, …: no number is skipped, none is used
    twice (it is the number the relay and, incremented, the backoff function see; a counter that lagged or ran ahead would stretch or
    cut the retry schedule). -/
theorem attempt_numbers_count_up (hpre : (pre.map (·.1)).Nodup) (hrc : ∀ id ∈ pre.map (·.1), (rc id).Nodup) {q : State}
    (hr : Reach fb (start pre rc nn) q) (id : Nat) :
    ((q.handed.filter (·.1 == id)).reverse.map (·.2.2)) = List.range (q.handed.filter (·.1 == id)).length := by
  have h := (reach_A hpre hrc hr).shape id
  simp only [hOf, Nat.add_zero, List.map_id'] at h
  rw [List.map_reverse, h, List.reverse_reverse]

/-- … and the stored counter is the number of hand-offs made, minus the one in progress: what `increment_attempts` will return
    next is always the number of attempts made. -/
theorem stored_attempts_is_handoffs (hpre : (pre.map (·.1)).Nodup) (hrc : ∀ id ∈ pre.map (·.1), (rc id).Nodup) {q : State}
    (hr : Reach fb (start pre rc nn) q) (id : Nat) (m : Msg) (hm : q.msgs id = some m) (hrem : id ∉ q.s.rem) :
    m.attempts + (if id ∈ q.s.inflight ∨ id ∈ q.s.retry then 1 else 0) = (q.handed.filter (·.1 == id)).length :=
  by simpa [counting, hOf] using (reach_A hpre hrc hr).count id m hm hrem

/-- **A restarted queue continues the count**: started on a storage that holds the attempt counter `att id` for each message
    (`QM.startAt`), the hand-offs of a message carry `att id`, `att id + 1`, … — the retry schedule picks up where it was. -/
theorem attempt_numbers_continue (att : Nat → Nat) (hpre : (pre.map (·.1)).Nodup) (hrc : ∀ id ∈ pre.map (·.1), (rc id).Nodup)
    {q : State} (hr : Reach fb (startAt pre rc nn att) q) (id : Nat) (hid : id ∈ pre.map (·.1)) :
    ((q.handed.filter (·.1 == id)).reverse.map (·.2.2)) =
      (List.range (q.handed.filter (·.1 == id)).length).map (· + att id) := by
  have hA := reach_A_from (inv_startAt fb pre rc nn att hpre hrc) (A_startAt pre rc nn att) hr
  have h := hA.shape id
  simp only [hOf, hid, if_true] at h
  rw [List.map_reverse, h, ← List.map_reverse, List.reverse_reverse]

/-- **A message is attempted for the a-th time only if the backoff function allowed it**: in histories where `_retry_later` gets the
    backoff function's answer for the incremented counter, every hand-off other than the first was preceded by `bo a ≠ None`; so
    with a backoff function that gives up from some attempt on, the attempts on a message are bounded and (with
    `accepted_never_lost`) every recipient's outstanding state ends in delivered or failed for good. -/
theorem attempts_need_backoff (bo : Nat → Option Nat) (hpre : (pre.map (·.1)).Nodup) (hrc : ∀ id ∈ pre.map (·.1), (rc id).Nodup)
    {q : State} (hr : ReachB fb bo (start pre rc nn) q) : ∀ e ∈ q.handed, e.2.2 = 0 ∨ (bo e.2.2).isSome :=
  (reach_B hpre hrc hr).handed

/-- … and for a queue restarted on stored counters: every hand-off carries the stored counter of its message or a number the backoff
    function allowed. -/
theorem attempts_need_backoff_after_restart (bo : Nat → Option Nat) (att : Nat → Nat) (hpre : (pre.map (·.1)).Nodup)
    (hrc : ∀ id ∈ pre.map (·.1), (rc id).Nodup) {q : State} (hr : ReachB fb bo (startAt pre rc nn att) q) :
    ∀ e ∈ q.handed, e.2.2 = (if e.1 ∈ pre.map (·.1) then att e.1 else 0) ∨ (bo e.2.2).isSome :=
  (reach_B_from (inv_startAt fb pre rc nn att hpre hrc) (A_startAt pre rc nn att) (B_startAt bo pre rc nn att) hr).handed

/-- with a cut-off: no message is handed to the relay more than `N + 1` times -/
theorem attempts_bounded (bo : Nat → Option Nat) (N : Nat) (hN : ∀ a, N < a → bo a = none)
    (hpre : (pre.map (·.1)).Nodup) (hrc : ∀ id ∈ pre.map (·.1), (rc id).Nodup)
    {q : State} (hr : ReachB fb bo (start pre rc nn) q) (id : Nat) : (q.handed.filter (·.1 == id)).length ≤ N + 1 := by
  have hshape := (reach_A hpre hrc hr.reach).shape id
  have hb := (reach_B hpre hrc hr).handed
  simp only [hOf, Nat.add_zero, List.map_id'] at hshape
  cases hl : q.handed.filter (·.1 == id) with
  | nil => simp
  | cons e rest =>
    -- the newest hand-off carries the largest number, `length - 1`
    rw [hl] at hshape
    simp only [List.map_cons, List.length_cons, range_succ_reverse, List.cons.injEq] at hshape
    have hmem : e ∈ q.handed := (List.mem_filter.mp (by rw [hl]; simp : e ∈ q.handed.filter (·.1 == id))).1
    rcases hb e hmem with h0 | hsome
    · simp only [List.length_cons]; omega
    · have : ¬ N < e.2.2 := fun hlt => by simp [hN _ hlt] at hsome
      simp only [List.length_cons]; omega

/-- … and after a restart: a message the storage held with counter `att id` is handed to the relay at most `N + 1 - att id` more
    times (once, if the counter is already beyond the cut-off). -/
theorem attempts_bounded_after_restart (bo : Nat → Option Nat) (N : Nat) (hN : ∀ a, N < a → bo a = none) (att : Nat → Nat)
    (hpre : (pre.map (·.1)).Nodup) (hrc : ∀ id ∈ pre.map (·.1), (rc id).Nodup)
    {q : State} (hr : ReachB fb bo (startAt pre rc nn att) q) (id : Nat) (hid : id ∈ pre.map (·.1)) :
    (q.handed.filter (·.1 == id)).length ≤ max (N + 1 - att id) 1 := by
  have h0 := inv_startAt fb pre rc nn att hpre hrc
  have hshape := (reach_A_from h0 (A_startAt pre rc nn att) hr.reach).shape id
  have hb := (reach_B_from h0 (A_startAt pre rc nn att) (B_startAt bo pre rc nn att) hr).handed
  simp only [hOf, hid, if_true] at hshape
  cases hl : q.handed.filter (·.1 == id) with
  | nil => simp
  | cons e rest =>
    rw [hl] at hshape
    simp only [List.map_cons, List.length_cons, range_succ_reverse, List.cons.injEq] at hshape
    have hmem : e ∈ q.handed.filter (·.1 == id) := by rw [hl]; simp
    have he1 : e.1 = id := by simpa using (List.mem_filter.mp hmem).2
    have := hb e (List.mem_filter.mp hmem).1
    simp only [he1, hid, if_true] at this
    simp only [List.length_cons]
    rcases this with h0' | hsome
    · have : rest.length = 0 := by omega
      omega
    · have hle : ¬ N < e.2.2 := fun hlt => by simp [hN _ hlt] at hsome
      omega

/-- non-vacuity: a run with a partial delivery, a retry, a second attempt that is deferred and a backoff that gives up -/
def demoRun : List QM.Label :=
  [.sched, .sleep, .write 1 0 [10, 11, 12] true, .activate 1, .done 1 (.mapping [(12, .ok), (10, .temp 1), (11, .perm 2)]),
   .retry 1 (some 5), .requeue 1, .sched, .sleep, .tick 5, .sched, .dequeue 1 .sched, .sleep,
   .done 1 (.transient 3), .retry 1 none, .remove 1]

example : ((QM.run true (QM.start [] (fun _ => []) (fun _ => true)) demoRun).map fun q =>
    (q.delivered 1, q.failed 1, q.bounces 1, q.handed, q.msgs 1)) =
    some ([12], [(11, 2), (10, 3)], [⟨2, [11], false⟩, ⟨3, [10], true⟩], [(1, [10], 1), (1, [10, 11, 12], 0)], none) := by rfl

example : ((QM.run true (QM.start [] (fun _ => []) (fun _ => true)) demoRun).map fun q =>
    (q.handed.filter (·.1 == 1)).reverse.map (·.2.2)) = some [0, 1] := by rfl

end composed

/-! ## The relay contract is met by the relay models

`accepted_never_lost` assumes that a relay answers for exactly the recipients it was handed (`CompleteOutcome`, the hypothesis in
`QM.calm`). For the built-in relays this is a theorem of C11 (`attempt_answers_everyone`, `pipe_answers_everyone`,
`http_answers_everyone`): a per-recipient result has one entry per recipient, in order; and a result of the right length over
distinct recipients is complete (`sequence_complete`). -/

def toRRes (rp : ReplyId) : Relay.Cls → RRes
  | .ok => .ok
  | .perm => .perm rp
  | .temp => .temp rp

theorem relay_contract_met (cfg : Relay.Cfg) (s : Relay.Script) (l : List Relay.Cls) (h : Relay.attempt cfg s = .table l)
    (m : Msg) (hn : m.rcpts.Nodup) (hs : s.rcpts.length = m.rcpts.length) (rp : ReplyId) :
    CompleteOutcome m (.sequence (l.map (toRRes rp))) :=
  sequence_complete m hn _ (by rw [List.length_map, C11.attempt_answers_everyone cfg s l h, hs])


end Slimta.C01
