import Model.Attempt
namespace Slimta.C01
theorem placeholder : (1 : Nat) = 1 := rfl
end Slimta.C01
