import Model.Attempt
import Proofs.C12
import Proofs.Lemmas.Attempt
import Proofs.C13
/-!
# C01 — accepted mail is never lost: every recipient reaches a final disposition

Part 1 (this file): the ledger. For every attempt outcome and every history of outcomes (any
mixture of whole-message and per-recipient successes, transient and permanent failures and
unexpected exceptions, any backoff function) each accepted recipient is at all times exactly one
of: reported delivered, failed for good (and then named in a bounce when the sender is not empty),
or still stored for the next attempt; the message leaves storage only when nobody is outstanding;
when the backoff stops granting retries everybody outstanding is failed and bounced.
Scheduling ("keeps being retried") is C12 (`Proofs/Sched.lean`).
-/
namespace Slimta.C01
open Slimta.Attempt

/-- **One attempt conserves the recipients** (restated from the lemma file so that the statement
    is visible here). -/
theorem attempt_conservation (cfg : Cfg) (m : Msg) (o : Outcome) (hc : CompleteOutcome m o) (x : Rcpt) :
    (attempt cfg m o).delivered.count x + ((attempt cfg m o).failed.map Prod.fst).count x
      + restCount (attempt cfg m o) x = m.rcpts.count x :=
  attempt_conserves cfg m o hc x

/-- **The message is removed only when every recipient is final.** -/
theorem removed_only_when_final (cfg : Cfg) (m : Msg) (o : Outcome) (hc : CompleteOutcome m o)
    (hgone : (attempt cfg m o).msg = none) :
    ∀ x ∈ m.rcpts, x ∈ (attempt cfg m o).delivered ∨ x ∈ (attempt cfg m o).failed.map Prod.fst := by
  intro x hx
  have h := attempt_conserves cfg m o hc x
  simp only [restCount, hgone] at h
  have : 0 < m.rcpts.count x := List.count_pos_iff.mpr hx
  by_cases hd : x ∈ (attempt cfg m o).delivered
  · exact Or.inl hd
  · have h0 := List.count_eq_zero_of_not_mem hd
    right
    apply List.count_pos_iff.mp
    omega

/-- **When the backoff stops granting retries nobody is dropped**: the message leaves storage and
    every recipient still outstanding is failed for good (hence bounced, see below). -/
theorem exhaustion_fails_everyone (cfg : Cfg) (m : Msg) (o : Outcome) (hc : CompleteOutcome m o)
    (hb : cfg.backoff (m.attempts + 1) = none) :
    (attempt cfg m o).msg = none ∧
    ∀ x ∈ m.rcpts, x ∈ (attempt cfg m o).delivered ∨ x ∈ (attempt cfg m o).failed.map Prod.fst := by
  have hgone : (attempt cfg m o).msg = none := by
    have hp : ∀ res, (handlePartial cfg m res).msg = none := by
      intro res
      have hunf : handlePartial cfg m res =
          if (tempsOf res).isEmpty then ⟨none, bouncesFor cfg (permsOf res) false, oksOf res, permsOf res, none⟩
          else retryLater cfg m (tempsOf res) (deleteIdxs (res.filterMap fun (rc, v) => match v with
            | .ok | .perm _ => some (m.rcpts.idxOf rc)
            | .temp _ => none) m.rcpts) (bouncesFor cfg (permsOf res) false) (oksOf res) (permsOf res) := rfl
      rw [hunf]
      split
      · rfl
      · simp [retryLater, hb]
    cases o with
    | success => rfl
    | permanent r => rfl
    | transient r => simp [attempt, hb]
    | other r => simp [attempt, hb]
    | mapping res => exact hp res
    | sequence l => exact hp _
  exact ⟨hgone, removed_only_when_final cfg m o hc hgone⟩

/-- **Failed for good ⇒ reported back to the sender** (non-empty sender, default bounce factory):
    the bounces of the attempt name exactly the recipients that failed in it. -/
theorem failed_are_bounced (cfg : Cfg) (hs : cfg.senderNonEmpty = true) (hf : cfg.factoryBounces = true)
    (m : Msg) (o : Outcome) (x : Rcpt) (hx : x ∈ (attempt cfg m o).failed.map Prod.fst) :
    x ∈ (attempt cfg m o).bounces.flatMap (·.rcpts) := by
  have := C13.bounces_name_exactly_the_failed cfg hs hf m o x
  apply List.count_pos_iff.mp
  rw [this]
  exact List.count_pos_iff.mpr hx

/-- **Whole histories.** Summed over all attempts made so far: delivered + failed + still stored
    = the recipients that were accepted. Nothing is lost and nothing is counted twice. -/
theorem history_conservation (cfg : Cfg) (os : List Outcome) (m : Msg)
    (hv : ValidHistory cfg (some m) os) (x : Rcpt) :
    ((runHistory cfg (some m) os).flatMap (·.delivered)).count x
      + (((runHistory cfg (some m) os).flatMap (·.failed)).map Prod.fst).count x
      + (match finalOf cfg (some m) os with | some f => f.rcpts.count x | none => 0)
      = m.rcpts.count x := by
  induction os generalizing m with
  | nil => simp [runHistory, finalOf]
  | cons o rest ih =>
    obtain ⟨hc, hrest⟩ := hv
    have h1 := attempt_conserves cfg m o hc x
    simp only [runHistory, finalOf, List.flatMap_cons, List.count_append, List.map_append]
    cases hm : (attempt cfg m o).msg with
    | none =>
      simp only [restCount, hm] at h1
      simp [runHistory, finalOf]
      omega
    | some m' =>
      rw [hm] at hrest
      have h2 := ih m' hrest
      simp only [restCount, hm] at h1
      omega

/-! ### non-vacuity -/

example : (attempt ⟨fun a => if a < 2 then some 0 else none, true, true⟩ ⟨[0, 1, 2], 1⟩
    (.mapping [(0, .ok), (1, .temp 4), (2, .perm 5)])).msg = none := by decide

/-- **Never unscheduled** (the "eventually" half, as a safety statement over the scheduler's
    transition system, calm environment): in every reachable state a stored message the queue knows
    about is being handed off, in flight, finishing (retry / removal pending), waiting for its
    `_dequeue` task, or in the timetable with the scheduler loop due to wake by its time. Together
    with `C12.due_is_dispatched` nothing accepted is ever left without a next step. -/
theorem accepted_never_unscheduled {pre : List (Nat × Nat)} (hpre : (pre.map (·.1)).Nodup) {s : Sched.State}
    (hr : C12.Reach (C12.start pre) s) (id : Nat) (hk : id ∈ s.known) (hs : id ∈ Sched.sIds s) :
    C12.Whereabouts s id :=
  C12.never_forgotten hpre hr id hk hs

end Slimta.C01
