import Model.Server
import Proofs.Lemmas.Server
/-!
# C09 — server behaviour does not depend on how client bytes are segmented or pipelined

Property theorems. Model: `Model/Server.lean` (`Server.handle`, `IO.recv_line`/`recv_command`,
`DataReader` through `Model/Data.lean`, the AUTH exchange). A connection is a receive buffer plus
any list of non-empty `recv()` results.
-/
namespace Slimta.C09
open Slimta Slimta.Server

/-- **The command loop is segmentation independent.** For every validator behaviour, every AUTH
    oracle, every server state and every two connections that deliver the same bytes (cut anywhere:
    inside a command, inside the message data, inside an AUTH response; with any part already in
    the receive buffer), the replies sent and the callbacks made (with their arguments, message
    content included), the way the session ends, the final state and the bytes left are equal. -/
theorem loop_segmentation_independent (v : Verdicts) (ao : AuthOracle) (fuel : Nat) (s : St)
    (acc : List Event) (a b : Stream) (h : Same a b) :
    RunEq (loop v ao fuel s a acc) (loop v ao fuel s b acc) :=
  loop_same v ao fuel s acc a b h

theorem go_same (v : Verdicts) (ao : AuthOracle) (fuel k : Nat) (s : St) (acc : List Event)
    (tls : List (List Bytes)) (a b : Stream) (h : Same a b) :
    RunEq (serve.go v ao fuel k s a tls acc) (serve.go v ao fuel k s b tls acc) := by
  induction k generalizing s acc tls a b with
  | zero => exact ⟨rfl, rfl, rfl, h.1⟩
  | succ k ih =>
    simp only [serve.go]
    obtain ⟨he, hend, hst, hrest⟩ := loop_same v ao fuel s acc a b h
    rw [← hend]
    split
    · cases tls with
      | nil => exact ⟨he, by simp, hst, hrest⟩
      | cons t ts =>
        simp only
        rw [← hst, ← he]
        exact ⟨rfl, rfl, rfl, rfl⟩
    · exact ⟨he, hend, hst, hrest⟩

/-- **Whole sessions** (banner, commands, message data, STARTTLS switch-over): delivered in any two
    segmentations of the same clear-text bytes, a session is the same. -/
theorem serve_segmentation_independent (cfg : Cfg) (v : Verdicts) (ao : AuthOracle)
    (tls : List (List Bytes)) (a b : Stream) (h : Same a b) :
    RunEq (serve cfg v ao a tls) (serve cfg v ao b tls) := by
  simp only [serve]
  split
  · exact ⟨rfl, rfl, rfl, h.1⟩
  · rw [h.1]
    exact go_same v ao _ _ _ _ tls a b h

/-- **Message content is never executed as commands, commands are never swallowed into content**:
    the callback trace (which carries the content of every message and every command argument)
    is a function of the byte stream alone. In particular a body holding command-looking lines
    gives the same trace when it arrives in one burst with the commands around it as when it
    arrives byte by byte. -/
theorem events_function_of_bytes (cfg : Cfg) (v : Verdicts) (ao : AuthOracle) (tls : List (List Bytes))
    (bytes : Bytes) (segsA segsB : List Bytes) (bufA bufB : Bytes)
    (hA : bufA ++ segsA.flatten = bytes) (hB : bufB ++ segsB.flatten = bytes)
    (nA : NoEmpty segsA) (nB : NoEmpty segsB) :
    (serve cfg v ao ⟨bufA, segsA⟩ tls).events = (serve cfg v ao ⟨bufB, segsB⟩ tls).events :=
  (serve_segmentation_independent cfg v ao tls ⟨bufA, segsA⟩ ⟨bufB, segsB⟩
    ⟨by simp [Stream.flat, hA, hB], nA, nB⟩).1

/-! ### non-vacuity -/

example : Same ⟨[69, 72], [[76, 79, 32], [120, 13, 10, 81]]⟩ ⟨[], [[69], [72, 76, 79, 32, 120, 13], [10, 81]]⟩ := by
  refine ⟨by decide, ?_, ?_⟩ <;> intro x hx <;> simp at hx <;> rcases hx with rfl | rfl | rfl <;> simp

end Slimta.C09
