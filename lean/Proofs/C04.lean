import Model.DiskFS
import Proofs.C12
import Proofs.C01
import Proofs.Lemmas.Ingress
/-!
# C04 — a crash at any point never loses an acknowledged message (disk queue)

Property theorems. Model: `Model/DiskFS.lean`: every storage operation is a list of atomic
file-system effects; the process may die after any prefix. POSIX atomicity of `rename`/`unlink`
and pickle integrity are assumed (partial: see DESIGN.md).
-/
namespace Slimta.C04
open Slimta.DiskFS

theorem fsGet_fsDel (p q : Path) (fs : FS) : fsGet p (fsDel q fs) = if q = p then none else fsGet p fs := by
  induction fs with
  | nil => simp [fsDel, fsGet]
  | cons x rest ih =>
    obtain ⟨r, c⟩ := x
    simp only [fsDel]
    by_cases hrq : r = q
    · subst hrq
      simp only [beq_self_eq_true, if_true, ih]
      by_cases hp : r = p
      · simp [hp]
      · simp [hp, fsGet]
    · have : (r == q) = false := by simp [hrq]
      simp only [this, Bool.false_eq_true, if_false, fsGet, ih]
      by_cases hp : r = p
      · subst hp
        have : ¬ q = r := fun h => hrq h.symm
        simp [this]
      · simp [hp]

theorem fsGet_fsSet (p q : Path) (c : Content) (fs : FS) :
    fsGet p (fsSet q c fs) = if q = p then some c else fsGet p fs := by
  simp only [fsSet, fsGet, fsGet_fsDel]
  by_cases h : q = p <;> simp [h]

/-- The path an effect changes. -/
def target : Effect → Path
  | .create k | .append k => .tmp k
  | .rename _ dst _ => dst
  | .unlink p => p

/-- An effect that neither targets `p` nor is a rename (which also consumes its temp file, never a
    final path) leaves `p` alone; a rename leaves every path but its destination and its temp file. -/
theorem fsGet_applyEffect (p : Path) (fs : FS) (e : Effect) (h : target e ≠ p) (hp : ∀ k, p ≠ .tmp k) :
    fsGet p (applyEffect fs e) = fsGet p fs := by
  cases e with
  | create k => simp only [applyEffect, fsGet_fsSet]; simp [show ¬ Path.tmp k = p from fun e => hp k e.symm]
  | append k =>
    simp only [applyEffect]
    split
    · simp only [fsGet_fsSet]; simp [show ¬ Path.tmp k = p from fun e => hp k e.symm]
    · rfl
  | rename k dst c =>
    simp only [target] at h
    simp only [applyEffect, fsGet_fsSet, fsGet_fsDel]
    simp [h, show ¬ Path.tmp k = p from fun e => hp k e.symm]
  | unlink q =>
    simp only [target] at h
    simp only [applyEffect, fsGet_fsDel]
    simp [h]

/-- **Effects on other messages (and on temp files) never disturb a message**: whatever prefix of
    whatever operations on other ids has reached the disk, message `id` is recovered as before. -/
theorem foreign_effects_harmless (id : Nat) (es : List Effect) (fs : FS)
    (h : ∀ e ∈ es, target e ≠ .env id ∧ target e ≠ .mfile id) :
    recover (applyAll fs es) id = recover fs id := by
  induction es generalizing fs with
  | nil => rfl
  | cons e rest ih =>
    simp only [applyAll, List.foldl_cons]
    have he := h e (by simp)
    have := ih (applyEffect fs e) (fun x hx => h x (by simp [hx]))
    simp only [applyAll] at this
    rw [this]
    simp only [recover, fsGet_applyEffect (.env id) fs e he.1 (by intro k; simp),
      fsGet_applyEffect (.mfile id) fs e he.2 (by intro k; simp)]

theorem dump_targets (k c : Nat) (dst : Path) (ct : Content) :
    ∀ e ∈ dump k c dst ct, target e = .tmp k ∨ e = .rename k dst ct := by
  intro e he
  simp only [dump, List.mem_append, List.mem_singleton, List.mem_replicate] at he
  rcases he with (rfl | ⟨_, rfl⟩) | rfl
  · exact Or.inl rfl
  · exact Or.inl rfl
  · exact Or.inr rfl

/-- An operation on another message, cut at any point, does not change what is recovered for
    `id` (this covers `write` of a new message, half-removed messages, orphan files). -/
theorem crash_in_other_operation (fs : FS) (k c1 c2 : Nat) (op : Op) (id : Nat) (hne : op.id ≠ id) (n : Nat) :
    recover (crashAt fs k c1 c2 op n) id = recover fs id := by
  apply foreign_effects_harmless
  intro e he
  have he' := List.mem_of_mem_take he
  have key : ∀ (dstid : Nat), dstid ≠ id → ∀ kk cc ct (isEnv : Bool),
      e ∈ dump kk cc (if isEnv then Path.env dstid else Path.mfile dstid) ct →
      target e ≠ .env id ∧ target e ≠ .mfile id := by
    intro dstid hd kk cc ct isEnv hm
    rcases dump_targets kk cc _ ct e hm with ht | rfl
    · rw [ht]; exact ⟨by simp, by simp⟩
    · cases isEnv <;> simp [target, hd]
  cases op with
  | write i e0 ts =>
    simp only [effectsOf, List.mem_append] at he'
    rcases he' with h1 | h2
    · exact key i hne k c1 _ true h1
    · exact key i hne (k + 1) c2 _ false h2
  | remove i =>
    simp only [effectsOf, List.mem_cons, List.mem_singleton, List.not_mem_nil, or_false] at he'
    simp only [Op.id] at hne
    rcases he' with rfl | rfl <;> simp [target, hne]
  | setTs i ts =>
    simp only [effectsOf, Op.id] at he' hne
    split at he'
    · exact key i hne k c1 _ false he'
    · simp at he'
  | incr i =>
    simp only [effectsOf, Op.id] at he' hne
    split at he'
    · exact key i hne k c1 _ false he'
    · simp at he'
  | deliver i idxs =>
    simp only [effectsOf, Op.id] at he' hne
    split at he'
    · exact key i hne k c1 _ false he'
    · simp at he'

theorem take_dump (k c : Nat) (dst : Path) (ct : Content) (n : Nat) :
    (n ≤ c + 1 → ∀ e ∈ (dump k c dst ct).take n, target e = .tmp k) ∧
    (c + 2 ≤ n → (dump k c dst ct).take n = dump k c dst ct) := by
  constructor
  · intro hn e he
    have hlen : ([Effect.create k] ++ List.replicate c (Effect.append k)).length = c + 1 := by simp
    have : (dump k c dst ct).take n = ([Effect.create k] ++ List.replicate c (Effect.append k)).take n := by
      simp only [dump]
      rw [List.take_append_of_le_length (by rw [hlen]; exact hn)]
    rw [this] at he
    have := List.mem_of_mem_take he
    simp only [List.mem_append, List.mem_singleton, List.mem_replicate] at this
    rcases this with rfl | ⟨_, rfl⟩ <;> rfl
  · intro hn
    apply List.take_of_length_le
    simp [dump]; omega

/-- The sharp form: up to and including the last chunk of the temp file the old meta is recovered, from the rename on the new one. -/
theorem meta_update_cut (fs : FS) (k c1 c2 : Nat) (op : Op) (id e : Nat) (m : Meta)
    (hop : op = .setTs id (match op with | .setTs _ t => t | _ => 0) ∨ op = .incr id ∨
           op = .deliver id (match op with | .deliver _ l => l | _ => []))
    (hr : recover fs id = some (e, m)) (n : Nat) :
    recover (crashAt fs k c1 c2 op n) id = some (e, if n ≤ c1 + 1 then m else newMeta m op) := by
  have hmeta : fsGet (.mfile id) fs = some (.metaC m) ∧ fsGet (.env id) fs = some (.envelope e) := by
    simp only [recover] at hr
    split at hr
    · rename_i e' m' h1 h2
      simp at hr; obtain ⟨rfl, rfl⟩ := hr
      exact ⟨h2, h1⟩
    · simp at hr
  have hid : op.id = id := by rcases hop with h | h | h <;> (rw [h]; rfl)
  have heff : effectsOf fs k c1 c2 op = dump k c1 (.mfile id) (.metaC (newMeta m op)) := by
    rcases hop with h | h | h <;> (rw [h]; simp only [effectsOf, Op.id, hmeta.1])
  simp only [crashAt, heff]
  by_cases hn : n ≤ c1 + 1
  · rw [if_pos hn]
    have := foreign_effects_harmless id ((dump k c1 (.mfile id) (.metaC (newMeta m op))).take n) fs (by
      intro x hx
      rw [(take_dump k c1 _ _ n).1 hn x hx]
      exact ⟨by simp, by simp⟩)
    rw [this, hr]
  · rw [if_neg hn]
    rw [(take_dump k c1 _ _ n).2 (by omega)]
    -- all effects applied: temp-file effects are foreign, the rename installs the new meta
    simp only [dump, applyAll, List.foldl_append, List.foldl_cons, List.foldl_nil]
    have hpre : ∀ fs', recover (applyEffect fs' (.rename k (.mfile id) (.metaC (newMeta m op)))) id
        = match fsGet (.env id) fs' with
          | some (.envelope e') => some (e', newMeta m op)
          | _ => none := by
      intro fs'
      simp only [recover, applyEffect, fsGet_fsSet, fsGet_fsDel]
      simp
      cases fsGet (.env id) fs' with
      | none => rfl
      | some c => cases c <;> rfl
    rw [hpre]
    have henv : fsGet (.env id) (List.foldl applyEffect (applyEffect fs (.create k)) (List.replicate c1 (.append k)))
        = some (.envelope e) := by
      have h0 := foreign_effects_harmless id ([Effect.create k] ++ List.replicate c1 (.append k)) fs (by
        intro x hx
        simp only [List.mem_append, List.mem_singleton, List.mem_replicate] at hx
        rcases hx with rfl | ⟨_, rfl⟩ <;> exact ⟨by simp [target], by simp [target]⟩)
      simp only [applyAll, List.foldl_append, List.foldl_cons, List.foldl_nil, hr] at h0
      simp only [recover] at h0
      split at h0
      · rename_i e' m' h1 h2
        simp at h0; rw [h1, h0.1]
      · simp at h0
    rw [henv]

/-- **A meta update cut at any point leaves the old or the new meta, never anything else**, and
    the envelope untouched: attempts, timestamp and delivered recipients are the value before or
    after the operation in progress. -/
theorem crash_in_meta_update (fs : FS) (k c1 c2 : Nat) (op : Op) (id e : Nat) (m : Meta)
    (hop : op = .setTs id (match op with | .setTs _ t => t | _ => 0) ∨ op = .incr id ∨
           op = .deliver id (match op with | .deliver _ l => l | _ => []))
    (hr : recover fs id = some (e, m)) (n : Nat) :
    recover (crashAt fs k c1 c2 op n) id = some (e, m) ∨
    recover (crashAt fs k c1 c2 op n) id = some (e, newMeta m op) := by
  rw [meta_update_cut fs k c1 c2 op id e m hop hr n]
  split
  · exact Or.inl rfl
  · exact Or.inr rfl

/-- **A write becomes visible only complete**: after all its effects the message is recovered with
    the written envelope, attempt count 0 and its timestamp. -/
theorem write_complete (fs : FS) (k c1 c2 id e ts : Nat) :
    recover (applyAll fs (effectsOf fs k c1 c2 (.write id e ts))) id = some (e, ⟨ts, 0, []⟩) := by
  simp only [effectsOf, dump, applyAll, List.foldl_append, List.foldl_cons, List.foldl_nil]
  simp only [recover, applyEffect, fsGet_fsSet, fsGet_fsDel]
  have tmp_env : ∀ (fs' : FS) (kk : Nat), fsGet (.env id)
      (List.foldl applyEffect fs' (List.replicate c2 (Effect.append kk))) = fsGet (.env id) fs' := by
    intro fs' kk
    induction c2 generalizing fs' with
    | zero => rfl
    | succ n ih =>
      simp only [List.replicate_succ, List.foldl_cons]
      rw [ih]
      exact fsGet_applyEffect (.env id) fs' (.append kk) (by simp [target]) (by intro k; simp)
  simp
  rw [tmp_env]
  simp [fsGet_fsSet, fsGet_fsDel]

/-- **A removal in progress hides the message at once** (the envelope file goes first), so a
    half-removed message is never half-loaded, and after it nothing is left to recover. -/
theorem crash_in_remove (fs : FS) (k c1 c2 id : Nat) (n : Nat) (hn : 1 ≤ n) :
    recover (crashAt fs k c1 c2 (.remove id) n) id = none := by
  have h1 : fsGet (.env id) (applyEffect fs (.unlink (.env id))) = none := by
    simp [applyEffect, fsGet_fsDel]
  simp only [crashAt, effectsOf]
  match n, hn with
  | 1, _ => simp [applyAll, recover, h1]
  | n + 2, _ =>
    simp only [List.take_succ_cons, List.take_nil, applyAll, List.foldl_cons]
    simp only [List.foldl_nil, recover]
    rw [fsGet_applyEffect (.env id) _ (.unlink (.mfile id)) (by simp [target]) (by intro k; simp), h1]

/-! ## Histories: an acknowledged message survives whatever the queue does afterwards, and a crash at any point of it

The theorems above are about one operation. A message is acknowledged once its `write` has completed (C02:
`no_reply_before_writes_complete`); from then on the queue runs any number of further operations — writes and removals of
other messages, attempt counters, new due times and delivered marks of this one — and the process may die at any effect of
any of them. -/

structure Step where
  op : Op
  k : Nat
  c1 : Nat
  c2 : Nat
deriving Repr, DecidableEq

/-- One operation carried out completely. -/
def exec (fs : FS) (s : Step) : FS := applyAll fs (effectsOf fs s.k s.c1 s.c2 s.op)

def execAll (fs : FS) (l : List Step) : FS := l.foldl exec fs

/-- Everything the queue may do while it holds message `id`: anything about another message, and for this one a new due time,
    the attempt counter, delivered marks — not a second write of the same id (ids are fresh) and not its removal (which is the
    queue's decision that the message is finished). -/
def Allowed (id : Nat) (op : Op) : Prop :=
  op.id ≠ id ∨ (op = .setTs id (match op with | .setTs _ t => t | _ => 0) ∨ op = .incr id ∨
                op = .deliver id (match op with | .deliver _ l => l | _ => []))

/-- The meta the completed operations leave for `id`. -/
def metaAfter (id : Nat) (m : Meta) (l : List Step) : Meta :=
  l.foldl (fun m s => if s.op.id = id then newMeta m s.op else m) m

theorem crashAt_all (fs : FS) (s : Step) : crashAt fs s.k s.c1 s.c2 s.op ((effectsOf fs s.k s.c1 s.c2 s.op).length) = exec fs s := by
  simp [crashAt, exec]

theorem effects_meta_length (fs : FS) (k c1 c2 : Nat) (op : Op) (id : Nat) (m : Meta)
    (hop : op = .setTs id (match op with | .setTs _ t => t | _ => 0) ∨ op = .incr id ∨
           op = .deliver id (match op with | .deliver _ l => l | _ => []))
    (hm : fsGet (.mfile id) fs = some (.metaC m)) : (effectsOf fs k c1 c2 op).length = c1 + 2 := by
  rcases hop with h | h | h <;> (rw [h]; simp [effectsOf, Op.id, hm, dump])

theorem recover_meta {fs : FS} {id e : Nat} {m : Meta} (hr : recover fs id = some (e, m)) :
    fsGet (.mfile id) fs = some (.metaC m) := by
  simp only [recover] at hr
  split at hr
  · rename_i e' m' h1 h2
    simp at hr; obtain ⟨rfl, rfl⟩ := hr
    exact h2
  · simp at hr

/-- A completed allowed operation: the envelope stays, the meta is what the operation makes of it. -/
theorem exec_allowed (fs : FS) (s : Step) (id e : Nat) (m : Meta) (ha : Allowed id s.op) (hr : recover fs id = some (e, m)) :
    recover (exec fs s) id = some (e, if s.op.id = id then newMeta m s.op else m) := by
  rw [← crashAt_all]
  rcases ha with hne | hop
  · rw [crash_in_other_operation fs s.k s.c1 s.c2 s.op id hne, if_neg hne, hr]
  · have hid : s.op.id = id := by rcases hop with h | h | h <;> (rw [h]; rfl)
    rw [meta_update_cut fs s.k s.c1 s.c2 s.op id e m hop hr, effects_meta_length fs s.k s.c1 s.c2 s.op id m hop (recover_meta hr),
      if_pos hid, if_neg (by omega)]

theorem execAll_allowed (fs : FS) (l : List Step) (id e : Nat) (m : Meta) (hl : ∀ s ∈ l, Allowed id s.op)
    (hr : recover fs id = some (e, m)) : recover (execAll fs l) id = some (e, metaAfter id m l) := by
  induction l generalizing fs m with
  | nil => simpa [execAll, metaAfter] using hr
  | cons s rest ih =>
    simp only [execAll, metaAfter, List.foldl_cons]
    exact ih (exec fs s) _ (fun x hx => hl x (by simp [hx])) (exec_allowed fs s id e m (hl s (by simp)) hr)

/-- **An acknowledged message survives every history and a crash at any point of it** (the property over histories): once the
    write of message `id` has completed — whatever the directories held before —, after any number of completed further
    operations (anything about other messages; due times, attempt counters and delivered marks of this one) and with the process
    dying `n` effects into yet another one, for every `n`: a fresh `DiskStorage` over the directories recovers the message with
    the envelope that was written, and its meta is exactly what the completed operations made of it — or that with the
    interrupted operation applied as well; nothing in between, nothing older. -/
theorem acknowledged_message_survives (fs0 : FS) (k c1 c2 id e ts : Nat) (later : List Step) (last : Step)
    (hl : ∀ s ∈ later, Allowed id s.op) (hlast : Allowed id last.op) (n : Nat) :
    let fs := execAll (exec fs0 ⟨.write id e ts, k, c1, c2⟩) later
    let m := metaAfter id ⟨ts, 0, []⟩ later
    recover (crashAt fs last.k last.c1 last.c2 last.op n) id = some (e, m) ∨
    recover (crashAt fs last.k last.c1 last.c2 last.op n) id = some (e, newMeta m last.op) := by
  intro fs m
  have h0 : recover (exec fs0 ⟨.write id e ts, k, c1, c2⟩) id = some (e, ⟨ts, 0, []⟩) := write_complete fs0 k c1 c2 id e ts
  have hr : recover fs id = some (e, m) := execAll_allowed _ later id e _ hl h0
  rcases hlast with hne | hop
  · left; rw [crash_in_other_operation fs last.k last.c1 last.c2 last.op id hne, hr]
  · exact crash_in_meta_update fs last.k last.c1 last.c2 last.op id e m hop hr n

/-- … and the attempt counter a recovered message shows is never behind the completed `increment_attempts` calls (so a
    restart cannot reset the retry schedule of a message): it counts exactly those, plus the interrupted one if its rename
    happened. -/
theorem metaAfter_attempts (id : Nat) (m : Meta) (l : List Step) :
    (metaAfter id m l).attempts = m.attempts + (l.filter fun s => s.op == .incr id).length := by
  induction l generalizing m with
  | nil => simp [metaAfter]
  | cons s rest ih =>
    simp only [metaAfter, List.foldl_cons] at ih ⊢
    rw [ih]
    by_cases h : s.op = .incr id
    · simp [h, Op.id, newMeta]; omega
    · have hb : (s.op == Op.incr id) = false := by simpa using h
      simp only [List.filter_cons, hb]
      split
      · rename_i hid
        cases hop : s.op <;> simp_all [newMeta, Op.id]
      · simp

/-! ## The restart (C04 ∘ C12): the new queue has the acknowledged message in its timetable

`Queue._load_all` asks a fresh `DiskStorage` for `(timestamp, id)` of everything it finds and announces each to the scheduler. -/
section restart
open Slimta.Sched

/-- What `load()` of a fresh `DiskStorage` over the directories yields, for the ids that ever existed. -/
def loadOf (fs : FS) (ids : List Nat) : List (Nat × Nat) :=
  ids.filterMap fun id => (recover fs id).map fun p => (id, p.2.ts)

theorem loadOf_fst (fs : FS) (ids : List Nat) : ∀ x ∈ (loadOf fs ids).map (·.1), x ∈ ids := by
  intro x hx
  simp only [loadOf, List.mem_map, List.mem_filterMap, Option.map_eq_some_iff] at hx
  obtain ⟨⟨a, b⟩, ⟨i, hi, p, _, hp⟩, rfl⟩ := hx
  simp only [Prod.mk.injEq] at hp
  rw [← hp.1]; exact hi

theorem loadOf_nodup (fs : FS) (ids : List Nat) (h : ids.Nodup) : ((loadOf fs ids).map (·.1)).Nodup := by
  induction ids with
  | nil => simp [loadOf]
  | cons i rest ih =>
    have hr := ih (List.nodup_cons.mp h).2
    simp only [loadOf, List.filterMap_cons]
    cases hrec : recover fs i with
    | none => simpa [loadOf] using hr
    | some p =>
      simp only [Option.map_some, List.map_cons, List.nodup_cons]
      refine ⟨fun hm => (List.nodup_cons.mp h).1 (loadOf_fst fs rest i hm), hr⟩

theorem mem_loadOf {fs : FS} {ids : List Nat} {id e : Nat} {m : Meta} (hr : recover fs id = some (e, m)) (hid : id ∈ ids) :
    (id, m.ts) ∈ loadOf fs ids := by
  simp only [loadOf, List.mem_filterMap, Option.map_eq_some_iff]
  exact ⟨id, hid, (e, m), hr, rfl⟩

/-- **After the crash the restarted queue knows the acknowledged message and has it in its timetable** (C04 ∘ C12): under the
    hypotheses of `acknowledged_message_survives`, a queue started on what a fresh `DiskStorage` loads from the directories
    finds the message with a due time, the announcement of it is a step of the scheduler model, and after that step the message
    is known, stored and scheduled with the loop due to wake — from where `C12.never_forgotten` and `C12.due_is_dispatched`
    carry it through every later state. -/
theorem restarted_queue_schedules_acknowledged (fs0 : FS) (k c1 c2 id e ts : Nat) (later : List Step) (last : Step)
    (hl : ∀ s ∈ later, Allowed id s.op) (hlast : Allowed id last.op) (n : Nat) (ids : List Nat) (hnd : ids.Nodup) (hid : id ∈ ids) :
    let fs := crashAt (execAll (exec fs0 ⟨.write id e ts, k, c1, c2⟩) later) last.k last.c1 last.c2 last.op n
    ((loadOf fs ids).map (·.1)).Nodup ∧
    ∃ due s, (id, due) ∈ loadOf fs ids ∧ Sched.step (C12.start (loadOf fs ids)) (.announce id due) = some s ∧
      C12.Reach (C12.start (loadOf fs ids)) s ∧ id ∈ s.known ∧ id ∈ sIds s ∧ C12.Whereabouts s id := by
  intro fs
  refine ⟨loadOf_nodup fs ids hnd, ?_⟩
  have hsurv := acknowledged_message_survives fs0 k c1 c2 id e ts later last hl hlast n
  obtain ⟨m, hm⟩ : ∃ m, recover fs id = some (e, m) := by
    rcases hsurv with h | h <;> exact ⟨_, h⟩
  have hmem := mem_loadOf hm hid
  have hstep : Sched.step (C12.start (loadOf fs ids)) (.announce id m.ts) =
      some (addQueued { C12.start (loadOf fs ids) with known := [id] } m.ts id) := by
    simp [Sched.step, C12.start, hmem]
  refine ⟨m.ts, _, hmem, hstep, ?_, ?_, ?_, ?_⟩
  · exact C12.Reach.step C12.Reach.init (by simp [C12.calm, C12.start, dIds]) hstep
  · simp [addQueued, C12.start]
  · simp only [addQueued, C12.start, sIds]
    simp only [List.contains_nil, Bool.or_self, Bool.false_eq_true, if_false, List.mem_map]
    exact ⟨(id, m.ts), hmem, rfl⟩
  · refine C12.Whereabouts.scheduled m.ts ?_ (Or.inr (Or.inl ?_))
    · simp [addQueued, C12.start, insort]
    · simp [addQueued, C12.start]

end restart

/-! ### … and nobody the recovered message still lists is lost by the restarted queue (C04 ∘ C01) -/
section restartLedger
open Slimta.QM

/-- The recipients `get` shows for a recovered message: the pickled list with the delivered rounds replayed
    (`envOf e`: the recipients of the envelope pickled with identity `e`). -/
def rcptsOf (envOf : Nat → List Nat) (fs : FS) (id : Nat) : List Nat :=
  match recover fs id with
  | some p => Store.delSeq p.2.delivered (envOf p.1)
  | none => []

/-- The attempt counter `get` shows for a recovered message. -/
def attOf (fs : FS) (id : Nat) : Nat :=
  match recover fs id with
  | some p => p.2.attempts
  | none => 0

theorem delSeq_sublist (idxs : List Nat) (l : List Nat) : (Store.delSeq idxs l).Sublist l := by
  induction idxs generalizing l with
  | nil => simp [Store.delSeq]
  | cons i rest ih =>
    simp only [Store.delSeq, List.foldl_cons]
    exact (ih (l.eraseIdx i)).trans (List.eraseIdx_sublist l i)

/-- **After the crash nobody the message still lists is lost**: under the hypotheses of `acknowledged_message_survives`, start the
    composed queue machine of C01 on what a fresh `DiskStorage` recovers (ids, due times, recipients not yet marked delivered,
    attempt counters). In
    every state the restarted queue reaches — any interleaving of loading announcements, scheduler turns, attempts with any relay
    answers, retries, removals, new enqueues — every such recipient of the acknowledged message is counted exactly once among
    delivered / failed for good / outstanding, and when outstanding the message is stored and has a next step. -/
theorem restarted_queue_never_loses (fs0 : FS) (k c1 c2 id e ts : Nat) (later : List Step) (last : Step)
    (hl : ∀ s ∈ later, Allowed id s.op) (hlast : Allowed id last.op) (n : Nat) (ids : List Nat) (hnd : ids.Nodup) (hid : id ∈ ids)
    (envOf : Nat → List Nat) (henv : ∀ e', (envOf e').Nodup) (fb : Bool) (nn : Nat → Bool) :
    let fs := crashAt (execAll (exec fs0 ⟨.write id e ts, k, c1, c2⟩) later) last.k last.c1 last.c2 last.op n
    (∃ m, recover fs id = some (e, m) ∧ rcptsOf envOf fs id = Store.delSeq m.delivered (envOf e)) ∧
    ∀ q, Reach fb (startAt (loadOf fs ids) (rcptsOf envOf fs) nn (attOf fs)) q → ∀ x ∈ rcptsOf envOf fs id,
      (q.delivered id).count x + ((q.failed id).map Prod.fst).count x + (outstanding q.s.rem q id).count x = 1 ∧
      (x ∈ q.delivered id ∨
       (∃ rp, (x, rp) ∈ q.failed id ∧ ((fb && q.nonNull id) = true → ∃ b ∈ q.bounces id, b.reply = rp ∧ x ∈ b.rcpts)) ∨
       (x ∈ outstanding q.s.rem q id ∧ id ∈ Sched.sIds q.s ∧ (id ∈ q.s.known → C12.Whereabouts q.s id))) := by
  intro fs
  have hsurv := acknowledged_message_survives fs0 k c1 c2 id e ts later last hl hlast n
  obtain ⟨m, hm⟩ : ∃ m, recover fs id = some (e, m) := by
    rcases hsurv with h | h <;> exact ⟨_, h⟩
  refine ⟨⟨m, hm, by simp [rcptsOf, hm]⟩, ?_⟩
  intro q hr x hx
  have hpre := loadOf_nodup fs ids hnd
  have hrc : ∀ i ∈ (loadOf fs ids).map (·.1), (rcptsOf envOf fs i).Nodup := by
    intro i _
    simp only [rcptsOf]
    split
    · exact (delSeq_sublist _ _).nodup (henv _)
    · simp
  have hmem : id ∈ (loadOf fs ids).map (·.1) := List.mem_map.mpr ⟨(id, m.ts), mem_loadOf hm hid, rfl⟩
  have horig0 : (startAt (loadOf fs ids) (rcptsOf envOf fs) nn (attOf fs)).orig id = some (rcptsOf envOf fs id) := by
    have hc : ((loadOf fs ids).map (·.1)).contains id = true := List.contains_iff_mem.mpr hmem
    show (if ((loadOf fs ids).map (·.1)).contains id then some (rcptsOf envOf fs id) else none) = _
    rw [if_pos hc]
  -- what a message was accepted with never changes for an id the queue knows from the start … via the trace lemma
  obtain ⟨ls, hT⟩ := hr.trace
  have horig : q.orig id = some (rcptsOf envOf fs id) :=
    (orig_of_start hT (inv_startAt fb _ _ nn _ hpre hrc) horig0 (Or.inl (by
      show id ∈ Sched.sIds (startAt (loadOf fs ids) (rcptsOf envOf fs) nn (attOf fs)).s
      simpa [startAt, Sched.sIds] using hmem))).1
  exact ⟨C01.one_disposition hpre hrc hr id _ horig x hx, C01.accepted_never_lost hpre hrc hr id _ horig x hx⟩

/-- **The restarted queue continues the retry schedule** (C04 ∘ C01): started on the recovered ids, due times, recipients and
    attempt counters (`QM.startAt`), the hand-offs of a recovered message carry the recovered counter, then counter + 1, … — and by
    `acknowledged_message_survives` / `metaAfter_attempts` that counter is the number of `increment_attempts` calls that completed
    before the crash (plus the interrupted one if its rename happened). -/
theorem restarted_queue_continues_the_count (fs : FS) (ids : List Nat) (hnd : ids.Nodup) (envOf : Nat → List Nat)
    (henv : ∀ e', (envOf e').Nodup) (fb : Bool) (nn : Nat → Bool) (id : Nat) (hid : id ∈ (loadOf fs ids).map (·.1)) {q : State}
    (hr : Reach fb (startAt (loadOf fs ids) (rcptsOf envOf fs) nn (attOf fs)) q) :
    ((q.handed.filter (·.1 == id)).reverse.map (·.2.2)) =
      (List.range (q.handed.filter (·.1 == id)).length).map (· + attOf fs id) := by
  have hrc : ∀ i ∈ (loadOf fs ids).map (·.1), (rcptsOf envOf fs i).Nodup := by
    intro i _
    simp only [rcptsOf]
    split
    · exact (delSeq_sublist _ _).nodup (henv _)
    · simp
  exact C01.attempt_numbers_continue (attOf fs) (loadOf_nodup fs ids hnd) hrc hr id hid

end restartLedger

/-! ### non-vacuity -/

example : recover (applyAll [] (effectsOf [] 0 2 1 (.write 5 9 100))) 5 = some (9, ⟨100, 0, []⟩) := by decide

example : recover (crashAt (applyAll [] (effectsOf [] 0 2 1 (.write 5 9 100))) 2 1 1 (.incr 5) 2) 5
    = some (9, ⟨100, 0, []⟩) := by decide

example : recover (crashAt (applyAll [] (effectsOf [] 0 2 1 (.write 5 9 100))) 2 1 1 (.incr 5) 3) 5
    = some (9, ⟨100, 1, []⟩) := by decide

/-- a history: write 5, another message written, 5's counter raised twice and a recipient marked, message 7 removed; the process
    dies one effect into a new due time for 5 -/
example :
    let later : List Step := [⟨.write 7 3 50, 2, 1, 1⟩, ⟨.incr 5, 4, 2, 0⟩, ⟨.deliver 5 [1], 6, 1, 0⟩, ⟨.incr 5, 8, 1, 0⟩, ⟨.remove 7, 0, 0, 0⟩]
    let fs := execAll (exec [] ⟨.write 5 9 100, 0, 2, 1⟩) later
    recover (crashAt fs 10 1 0 (.setTs 5 400) 1) 5 = some (9, ⟨100, 2, [1]⟩) ∧
    recover (crashAt fs 10 1 0 (.setTs 5 400) 3) 5 = some (9, ⟨400, 2, [1]⟩) ∧
    recover fs 7 = none ∧ metaAfter 5 ⟨100, 0, []⟩ later = ⟨100, 2, [1]⟩ := by decide

end Slimta.C04
