import Model.DiskFS
/-!
# C04 — a crash at any point never loses an acknowledged message (disk queue)

Property theorems. Model: `Model/DiskFS.lean`: every storage operation is a list of atomic
file-system effects; the process may die after any prefix. POSIX atomicity of `rename`/`unlink`
and pickle integrity are assumed (partial: see DESIGN.md).
-/
namespace Slimta.C04
open Slimta.DiskFS

theorem fsGet_fsDel (p q : Path) (fs : FS) : fsGet p (fsDel q fs) = if q = p then none else fsGet p fs := by
  induction fs with
  | nil => simp [fsDel, fsGet]
  | cons x rest ih =>
    obtain ⟨r, c⟩ := x
    simp only [fsDel]
    by_cases hrq : r = q
    · subst hrq
      simp only [beq_self_eq_true, if_true, ih]
      by_cases hp : r = p
      · simp [hp]
      · simp [hp, fsGet]
    · have : (r == q) = false := by simp [hrq]
      simp only [this, Bool.false_eq_true, if_false, fsGet, ih]
      by_cases hp : r = p
      · subst hp
        have : ¬ q = r := fun h => hrq h.symm
        simp [this]
      · simp [hp]

theorem fsGet_fsSet (p q : Path) (c : Content) (fs : FS) :
    fsGet p (fsSet q c fs) = if q = p then some c else fsGet p fs := by
  simp only [fsSet, fsGet, fsGet_fsDel]
  by_cases h : q = p <;> simp [h]

/-- The path an effect changes. -/
def target : Effect → Path
  | .create k | .append k => .tmp k
  | .rename _ dst _ => dst
  | .unlink p => p

/-- An effect that neither targets `p` nor is a rename (which also consumes its temp file, never a
    final path) leaves `p` alone; a rename leaves every path but its destination and its temp file. -/
theorem fsGet_applyEffect (p : Path) (fs : FS) (e : Effect) (h : target e ≠ p) (hp : ∀ k, p ≠ .tmp k) :
    fsGet p (applyEffect fs e) = fsGet p fs := by
  cases e with
  | create k => simp only [applyEffect, fsGet_fsSet]; simp [show ¬ Path.tmp k = p from fun e => hp k e.symm]
  | append k =>
    simp only [applyEffect]
    split
    · simp only [fsGet_fsSet]; simp [show ¬ Path.tmp k = p from fun e => hp k e.symm]
    · rfl
  | rename k dst c =>
    simp only [target] at h
    simp only [applyEffect, fsGet_fsSet, fsGet_fsDel]
    simp [h, show ¬ Path.tmp k = p from fun e => hp k e.symm]
  | unlink q =>
    simp only [target] at h
    simp only [applyEffect, fsGet_fsDel]
    simp [h]

/-- **Effects on other messages (and on temp files) never disturb a message**: whatever prefix of
    whatever operations on other ids has reached the disk, message `id` is recovered as before. -/
theorem foreign_effects_harmless (id : Nat) (es : List Effect) (fs : FS)
    (h : ∀ e ∈ es, target e ≠ .env id ∧ target e ≠ .mfile id) :
    recover (applyAll fs es) id = recover fs id := by
  induction es generalizing fs with
  | nil => rfl
  | cons e rest ih =>
    simp only [applyAll, List.foldl_cons]
    have he := h e (by simp)
    have := ih (applyEffect fs e) (fun x hx => h x (by simp [hx]))
    simp only [applyAll] at this
    rw [this]
    simp only [recover, fsGet_applyEffect (.env id) fs e he.1 (by intro k; simp),
      fsGet_applyEffect (.mfile id) fs e he.2 (by intro k; simp)]

theorem dump_targets (k c : Nat) (dst : Path) (ct : Content) :
    ∀ e ∈ dump k c dst ct, target e = .tmp k ∨ e = .rename k dst ct := by
  intro e he
  simp only [dump, List.mem_append, List.mem_singleton, List.mem_replicate] at he
  rcases he with (rfl | ⟨_, rfl⟩) | rfl
  · exact Or.inl rfl
  · exact Or.inl rfl
  · exact Or.inr rfl

/-- An operation on another message, cut at any point, does not change what is recovered for
    `id` (this covers `write` of a new message, half-removed messages, orphan files). -/
theorem crash_in_other_operation (fs : FS) (k c1 c2 : Nat) (op : Op) (id : Nat) (hne : op.id ≠ id) (n : Nat) :
    recover (crashAt fs k c1 c2 op n) id = recover fs id := by
  apply foreign_effects_harmless
  intro e he
  have he' := List.mem_of_mem_take he
  have key : ∀ (dstid : Nat), dstid ≠ id → ∀ kk cc ct (isEnv : Bool),
      e ∈ dump kk cc (if isEnv then Path.env dstid else Path.mfile dstid) ct →
      target e ≠ .env id ∧ target e ≠ .mfile id := by
    intro dstid hd kk cc ct isEnv hm
    rcases dump_targets kk cc _ ct e hm with ht | rfl
    · rw [ht]; exact ⟨by simp, by simp⟩
    · cases isEnv <;> simp [target, hd]
  cases op with
  | write i e0 ts =>
    simp only [effectsOf, List.mem_append] at he'
    rcases he' with h1 | h2
    · exact key i hne k c1 _ true h1
    · exact key i hne (k + 1) c2 _ false h2
  | remove i =>
    simp only [effectsOf, List.mem_cons, List.mem_singleton, List.not_mem_nil, or_false] at he'
    simp only [Op.id] at hne
    rcases he' with rfl | rfl <;> simp [target, hne]
  | setTs i ts =>
    simp only [effectsOf, Op.id] at he' hne
    split at he'
    · exact key i hne k c1 _ false he'
    · simp at he'
  | incr i =>
    simp only [effectsOf, Op.id] at he' hne
    split at he'
    · exact key i hne k c1 _ false he'
    · simp at he'
  | deliver i idxs =>
    simp only [effectsOf, Op.id] at he' hne
    split at he'
    · exact key i hne k c1 _ false he'
    · simp at he'

theorem take_dump (k c : Nat) (dst : Path) (ct : Content) (n : Nat) :
    (n ≤ c + 1 → ∀ e ∈ (dump k c dst ct).take n, target e = .tmp k) ∧
    (c + 2 ≤ n → (dump k c dst ct).take n = dump k c dst ct) := by
  constructor
  · intro hn e he
    have hlen : ([Effect.create k] ++ List.replicate c (Effect.append k)).length = c + 1 := by simp
    have : (dump k c dst ct).take n = ([Effect.create k] ++ List.replicate c (Effect.append k)).take n := by
      simp only [dump]
      rw [List.take_append_of_le_length (by rw [hlen]; exact hn)]
    rw [this] at he
    have := List.mem_of_mem_take he
    simp only [List.mem_append, List.mem_singleton, List.mem_replicate] at this
    rcases this with rfl | ⟨_, rfl⟩ <;> rfl
  · intro hn
    apply List.take_of_length_le
    simp [dump]; omega

/-- **A meta update cut at any point leaves the old or the new meta, never anything else**, and
    the envelope untouched: attempts, timestamp and delivered recipients are the value before or
    after the operation in progress. -/
theorem crash_in_meta_update (fs : FS) (k c1 c2 : Nat) (op : Op) (id e : Nat) (m : Meta)
    (hop : op = .setTs id (match op with | .setTs _ t => t | _ => 0) ∨ op = .incr id ∨
           op = .deliver id (match op with | .deliver _ l => l | _ => []))
    (hr : recover fs id = some (e, m)) (n : Nat) :
    recover (crashAt fs k c1 c2 op n) id = some (e, m) ∨
    recover (crashAt fs k c1 c2 op n) id = some (e, newMeta m op) := by
  have hmeta : fsGet (.mfile id) fs = some (.metaC m) ∧ fsGet (.env id) fs = some (.envelope e) := by
    simp only [recover] at hr
    split at hr
    · rename_i e' m' h1 h2
      simp at hr; obtain ⟨rfl, rfl⟩ := hr
      exact ⟨h2, h1⟩
    · simp at hr
  have hid : op.id = id := by rcases hop with h | h | h <;> (rw [h]; rfl)
  have heff : effectsOf fs k c1 c2 op = dump k c1 (.mfile id) (.metaC (newMeta m op)) := by
    rcases hop with h | h | h <;> (rw [h]; simp only [effectsOf, Op.id, hmeta.1])
  simp only [crashAt, heff]
  by_cases hn : n ≤ c1 + 1
  · left
    have := foreign_effects_harmless id ((dump k c1 (.mfile id) (.metaC (newMeta m op))).take n) fs (by
      intro x hx
      rw [(take_dump k c1 _ _ n).1 hn x hx]
      exact ⟨by simp, by simp⟩)
    rw [this, hr]
  · right
    rw [(take_dump k c1 _ _ n).2 (by omega)]
    -- all effects applied: temp-file effects are foreign, the rename installs the new meta
    simp only [dump, applyAll, List.foldl_append, List.foldl_cons, List.foldl_nil]
    have hpre : ∀ fs', recover (applyEffect fs' (.rename k (.mfile id) (.metaC (newMeta m op)))) id
        = match fsGet (.env id) fs' with
          | some (.envelope e') => some (e', newMeta m op)
          | _ => none := by
      intro fs'
      simp only [recover, applyEffect, fsGet_fsSet, fsGet_fsDel]
      simp
      cases fsGet (.env id) fs' with
      | none => rfl
      | some c => cases c <;> rfl
    rw [hpre]
    have henv : fsGet (.env id) (List.foldl applyEffect (applyEffect fs (.create k)) (List.replicate c1 (.append k)))
        = some (.envelope e) := by
      have h0 := foreign_effects_harmless id ([Effect.create k] ++ List.replicate c1 (.append k)) fs (by
        intro x hx
        simp only [List.mem_append, List.mem_singleton, List.mem_replicate] at hx
        rcases hx with rfl | ⟨_, rfl⟩ <;> exact ⟨by simp [target], by simp [target]⟩)
      simp only [applyAll, List.foldl_append, List.foldl_cons, List.foldl_nil, hr] at h0
      simp only [recover] at h0
      split at h0
      · rename_i e' m' h1 h2
        simp at h0; rw [h1, h0.1]
      · simp at h0
    rw [henv]

/-- **A write becomes visible only complete**: after all its effects the message is recovered with
    the written envelope, attempt count 0 and its timestamp. -/
theorem write_complete (fs : FS) (k c1 c2 id e ts : Nat) :
    recover (applyAll fs (effectsOf fs k c1 c2 (.write id e ts))) id = some (e, ⟨ts, 0, []⟩) := by
  simp only [effectsOf, dump, applyAll, List.foldl_append, List.foldl_cons, List.foldl_nil]
  simp only [recover, applyEffect, fsGet_fsSet, fsGet_fsDel]
  have tmp_env : ∀ (fs' : FS) (kk : Nat), fsGet (.env id)
      (List.foldl applyEffect fs' (List.replicate c2 (Effect.append kk))) = fsGet (.env id) fs' := by
    intro fs' kk
    induction c2 generalizing fs' with
    | zero => rfl
    | succ n ih =>
      simp only [List.replicate_succ, List.foldl_cons]
      rw [ih]
      exact fsGet_applyEffect (.env id) fs' (.append kk) (by simp [target]) (by intro k; simp)
  simp
  rw [tmp_env]
  simp [fsGet_fsSet, fsGet_fsDel]

/-- **A removal in progress hides the message at once** (the envelope file goes first), so a
    half-removed message is never half-loaded, and after it nothing is left to recover. -/
theorem crash_in_remove (fs : FS) (k c1 c2 id : Nat) (n : Nat) (hn : 1 ≤ n) :
    recover (crashAt fs k c1 c2 (.remove id) n) id = none := by
  have h1 : fsGet (.env id) (applyEffect fs (.unlink (.env id))) = none := by
    simp [applyEffect, fsGet_fsDel]
  simp only [crashAt, effectsOf]
  match n, hn with
  | 1, _ => simp [applyAll, recover, h1]
  | n + 2, _ =>
    simp only [List.take_succ_cons, List.take_nil, applyAll, List.foldl_cons]
    simp only [List.foldl_nil, recover]
    rw [fsGet_applyEffect (.env id) _ (.unlink (.mfile id)) (by simp [target]) (by intro k; simp), h1]

/-! ### non-vacuity -/

example : recover (applyAll [] (effectsOf [] 0 2 1 (.write 5 9 100))) 5 = some (9, ⟨100, 0, []⟩) := by decide

example : recover (crashAt (applyAll [] (effectsOf [] 0 2 1 (.write 5 9 100))) 2 1 1 (.incr 5) 2) 5
    = some (9, ⟨100, 0, []⟩) := by decide

example : recover (crashAt (applyAll [] (effectsOf [] 0 2 1 (.write 5 9 100))) 2 1 1 (.incr 5) 3) 5
    = some (9, ⟨100, 1, []⟩) := by decide

end Slimta.C04
