import Model.Data
import Proofs.Lemmas.Data
/-!
# C05 — message content crosses DATA framing unchanged under any segmentation

Property theorems only. Model: `Model/Data.lean` (transliteration of `DataSender` / `DataReader`).
-/
namespace Slimta.C05
open Slimta Slimta.Data

/-- "plus a final CRLF when the original did not end with one" (the empty message stays empty). -/
def normalize (m : Bytes) : Bytes := if m = [] ∨ endsWith m CRLF = true then m else m ++ CRLF

/-- The message is handed to the sender in parts cut at line boundaries: a non-empty part starts
    either the message or right after a part that ended in LF (`atLineStart`). -/
def LineBoundarySplit (atLineStart : Bool) : List Bytes → Prop
  | [] => True
  | p :: ps => (p ≠ [] → atLineStart = true) ∧
      LineBoundarySplit (if p = [] then atLineStart else p.getLast? == some 10) ps

theorem parts_stuff (parts : List Bytes) (f : Bool) (h : LineBoundarySplit f parts) :
    (parts.map processPart).flatten = stuff f parts.flatten := by
  induction parts generalizing f with
  | nil => simp [stuff]
  | cons p ps ih =>
    obtain ⟨h1, h2⟩ := h
    by_cases hp : p = []
    · subst hp
      simp only [if_true] at h2
      simp [processPart, stuff, ih f h2]
    · have hf : f = true := h1 hp
      subst hf
      simp only [hp, if_false] at h2
      simp only [List.map_cons, List.flatten_cons, processPart, ih _ h2, stuff_append, hp, if_false]

/-- The whole-stream reader on what the sender wrote, followed by any trailing bytes. -/
theorem feed_send (parts : List Bytes) (hb : LineBoundarySplit true parts) (trail : Bytes) :
    feed {} (send parts ++ trail) =
      { data := normalize parts.flatten, cur := [], eod := true, after := trail } := by
  unfold send
  rw [parts_stuff parts true hb]
  generalize parts.flatten = m
  rw [List.append_assoc, feed_append]
  obtain ⟨h1, h2, h3, h4, h5⟩ := feed_stuff m true {} rfl (by intro r hr; simp at hr) (by simp)
  generalize feed {} (stuff true m) = s1 at *
  simp at h3 h4
  unfold endMarker normalize
  by_cases hc : m = [] ∨ endsWith m CRLF = true
  · have hcur : s1.cur = [] := by
      rw [h5]
      rcases hc with rfl | hc
      · simp
      · have := getLast_of_endsWith_crlf m hc
        simp [this.1, this.2]
    have hcond : (m.isEmpty || endsWith m CRLF) = true := by
      rcases hc with rfl | hc
      · simp
      · simp [hc]
    rw [if_pos hcond, if_pos hc, feed_marker s1 h1 hcur]
    rw [hcur] at h3
    cases s1
    simp_all
  · have hcond : (m.isEmpty || endsWith m CRLF) = false := by
      simp at hc
      simp [hc.1, hc.2]
    rw [hcond, if_neg hc]
    simp only [Bool.false_eq_true, if_false]
    have : ([13, 10, 46, 13, 10] : Bytes) ++ trail = 13 :: 10 :: ([46, 13, 10] ++ trail) := rfl
    rw [this, feed_cons, feed_cons, step_other s1 h1 13 (by decide),
      step_lf _ (by simpa using h1) (okCur_snoc s1.cur 13 h2 (by intro _; decide)),
      feed_marker _ (by simpa using h1) (by simp)]
    have h6 : unstuffLine (s1.cur ++ [13]) = unstuffLine s1.cur ++ [13] :=
      unstuffLine_snoc s1.cur 13 (by intro _; decide)
    cases s1
    simp_all [CRLF]
    rw [← List.append_assoc, h3]

/-- **Round trip and exact consumption.** For every message, split into sender parts at line
    boundaries, followed by any trailing bytes, delivered as any initial `recv_buffer` plus any
    sequence of non-empty `recv()` results: the reader returns the normalised message and what is
    left (new `recv_buffer` plus unread socket data) is exactly the trailing bytes. -/
theorem data_roundtrip (parts : List Bytes) (hb : LineBoundarySplit true parts)
    (trail buf0 : Bytes) (segs : List Bytes) (hne : ∀ s ∈ segs, s ≠ [])
    (hs : buf0 ++ segs.flatten = send parts ++ trail) :
    ∃ r, run buf0 segs = .ok r ∧ r.data = normalize parts.flatten ∧
      r.recvBuffer ++ r.unread.flatten = trail := by
  have hfeed : feed (addLines {} buf0) segs.flatten
      = { data := normalize parts.flatten, cur := [], eod := true, after := trail } := by
    rw [addLines_eq_feed, ← feed_append, hs, feed_send parts hb trail]
  have := (recvLoop_spec segs (addLines {} buf0) hne).1 (by rw [hfeed])
  rw [hfeed] at this
  exact this

/-- The reader's observable result: `(data, recv_buffer ++ unread)` or the error. -/
def observable : Except Err Result → Except Err (Bytes × Bytes)
  | .ok r => .ok (r.data, r.recvBuffer ++ r.unread.flatten)
  | .error e => .error e

/-- **Segmentation independence.** Two deliveries of the same byte stream (any initial buffers,
    any cuts into non-empty reads) give the same data and leave the same bytes, for *every*
    stream, not only sender output. -/
theorem data_segmentation_independent (buf0 buf0' : Bytes) (segs segs' : List Bytes)
    (hne : ∀ s ∈ segs, s ≠ []) (hne' : ∀ s ∈ segs', s ≠ [])
    (h : buf0 ++ segs.flatten = buf0' ++ segs'.flatten) :
    observable (run buf0 segs) = observable (run buf0' segs') := by
  have e1 : feed (addLines {} buf0) segs.flatten = feed {} (buf0 ++ segs.flatten) := by
    rw [addLines_eq_feed, ← feed_append]
  have e2 : feed (addLines {} buf0') segs'.flatten = feed {} (buf0 ++ segs.flatten) := by
    rw [addLines_eq_feed, ← feed_append, h]
  have s1 := recvLoop_spec segs (addLines {} buf0) hne
  have s2 := recvLoop_spec segs' (addLines {} buf0') hne'
  rw [e1] at s1
  rw [e2] at s2
  unfold run
  cases hq : (feed {} (buf0 ++ segs.flatten)).eod with
  | true =>
    obtain ⟨r1, hr1, hd1, ha1⟩ := s1.1 hq
    obtain ⟨r2, hr2, hd2, ha2⟩ := s2.1 hq
    simp [hr1, hr2, observable, hd1, hd2, ha1, ha2]
  | false =>
    simp [s1.2 hq, s2.2 hq]

/-- The reader never returns before a complete end-of-data line has arrived (it asks for more
    input instead), so content is never cut short by segmentation. -/
theorem no_result_without_eod (buf0 : Bytes) (segs : List Bytes) (hne : ∀ s ∈ segs, s ≠ [])
    (h : (feed {} (buf0 ++ segs.flatten)).eod = false) :
    run buf0 segs = .error .wouldBlock := by
  have s1 := recvLoop_spec segs (addLines {} buf0) hne
  rw [addLines_eq_feed, ← feed_append] at s1
  unfold run
  rw [addLines_eq_feed]
  exact s1.2 h

/-! ### non-vacuity: the hypotheses are met by concrete non-trivial values -/

example : LineBoundarySplit true [[46, 97, 10], [], [46, 46, 13, 10], [97]] := by
  simp [LineBoundarySplit]

example : ∃ r, run [46, 46] [[97, 10, 46], [46, 46, 13, 10, 97, 13, 10, 46], [13, 10, 81]] = .ok r ∧
    r.data = [46, 97, 10, 46, 46, 13, 10, 97, 13, 10] ∧ r.recvBuffer ++ r.unread.flatten = [81] :=
  data_roundtrip [[46, 97, 10], [], [46, 46, 13, 10], [97]] (by simp [LineBoundarySplit]) [81] [46, 46]
    [[97, 10, 46], [46, 46, 13, 10, 97, 13, 10, 46], [13, 10, 81]] (by simp) (by decide)

end Slimta.C05
