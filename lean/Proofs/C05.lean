import Model.Data
namespace Slimta.C05
open Slimta Slimta.Data

theorem placeholder : (1 : Nat) = 1 := rfl

end Slimta.C05
