import Driver.Util
import Driver.Ops.Data
import Driver.Ops.Reply
import Driver.Ops.Proxy
import Driver.Ops.Envelope
import Driver.Ops.Policy
import Driver.Ops.Store
import Driver.Ops.Attempt
