import Driver.Util
