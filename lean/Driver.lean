import Driver.Util
import Driver.Ops.Data
import Driver.Ops.Reply
