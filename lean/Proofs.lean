import Proofs.C05
