import Proofs.C05
import Proofs.C17
import Proofs.C18
