import Proofs.C05
import Proofs.C17
