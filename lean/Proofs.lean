import Proofs.C05
import Proofs.C17
import Proofs.C18
import Proofs.C20
import Proofs.C16
import Proofs.C15
import Proofs.C13
