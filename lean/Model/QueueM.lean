import Model.Sched
import Model.Attempt
/-
  The composed queue machine: the scheduler transition system of Model/Sched.lean (timetable, id sets,
  pending tasks, scheduler loop) TOGETHER WITH what the storage holds for every message (the recipients
  `store.get` returns, the attempt count), what every delivery attempt was handed, what `_attempt` /
  `_handle_partial_relay` / `_retry_later` / `_perm_fail` (slimta/queue/__init__.py) do with the relay's
  answer, the bounces they ask for, and a ghost ledger (who was reported delivered, who failed for good).

  Every label of Model/Sched.lean is a label here (the relay's answer is the full `Outcome` of
  Model/Attempt.lean instead of a flag, `write` carries the recipients), and a step here IS a step of the
  scheduler model on the embedded `s` (`step_sched` in Proofs/Lemmas/QueueM.lean), so every theorem about
  the scheduler holds of this machine. The two-phase split of one attempt (`phase1` when the relay returns,
  `giveUp` / `keep` when `_retry_later` has asked the backoff function) is proved equal to
  `Attempt.attempt` (`phases_eq_attempt`), so the sequential ledger of Model/Attempt.lean and this machine
  are one definition seen twice.
-/
namespace Slimta.QM
open Slimta.Attempt

/-- What `_attempt` hands to `_retry_later`. -/
inductive Pend
  | whole (r : ReplyId)                                  -- `_retry_later(id, envelope, reply)`: everybody is still outstanding
  | part (pairs : List (Rcpt × ReplyId)) (idxs : List Nat)   -- `_retry_later(id, fail_env, replies, delivered)`
deriving Repr, DecidableEq

/-- The recipients the message is re-queued for. -/
def Pend.out (rcpts : List Rcpt) : Pend → List Rcpt
  | .whole _ => rcpts
  | .part pairs _ => pairs.map Prod.fst

/-- `set_recipients_delivered(id, delivered)` when `delivered is not None`. -/
def Pend.newRcpts (rcpts : List Rcpt) : Pend → List Rcpt
  | .whole _ => rcpts
  | .part _ idxs => deleteIdxs idxs rcpts

structure Phase1 where
  delivered : List Rcpt
  failed : List (Rcpt × ReplyId)
  bounces : List Bounce
  pend : Option Pend           -- `none`: nobody is outstanding, the message leaves the queue
deriving Repr, DecidableEq

def bouncesIf (bn : Bool) (pairs : List (Rcpt × ReplyId)) (tooMany : Bool) : List Bounce :=
  if bn then (splitByReply pairs []).map fun (rp, g) => ⟨rp, g, tooMany⟩ else []

def partial1 (bn : Bool) (m : Msg) (res : List (Rcpt × RRes)) : Phase1 :=
  let deliveredIdx := res.filterMap fun (rc, v) =>
    match v with
    | .ok | .perm _ => some (m.rcpts.idxOf rc)
    | .temp _ => none
  let oks := res.filterMap fun (rc, v) => match v with | .ok => some rc | _ => none
  let perms := res.filterMap fun (rc, v) => match v with | .perm r => some (rc, r) | _ => none
  let temps := res.filterMap fun (rc, v) => match v with | .temp r => some (rc, r) | _ => none
  ⟨oks, perms, bouncesIf bn perms false, if temps.isEmpty then none else some (.part temps deliveredIdx)⟩

/-- `_attempt` from the relay's answer up to (not including) `_retry_later` / the removal. `bn`: a bounce is
    produced (non-empty sender and a bounce factory that returns one). -/
def phase1 (bn : Bool) (m : Msg) : Outcome → Phase1
  | .success => ⟨m.rcpts, [], [], none⟩
  | .permanent r => ⟨[], m.rcpts.map fun rc => (rc, r), if bn then [⟨r, m.rcpts, false⟩] else [], none⟩
  | .transient r | .other r => ⟨[], [], [], some (.whole r)⟩
  | .mapping res => partial1 bn m res
  | .sequence l => partial1 bn m (zipDict m.rcpts l [])

/-- `_retry_later` when the backoff function answers `None`: everybody outstanding fails for good. -/
def giveUp (bn : Bool) (rcpts : List Rcpt) : Pend → List (Rcpt × ReplyId) × List Bounce
  | .whole r => (rcpts.map fun rc => (rc, r), if bn then [⟨r, rcpts, true⟩] else [])
  | .part pairs _ => (pairs, bouncesIf bn pairs true)

def upd {α : Type} (f : Nat → α) (i : Nat) (v : α) : Nat → α := fun j => if j = i then v else f j

structure State where
  s : Sched.State := {}
  msgs : Nat → Option Msg := fun _ => none          -- storage: what `get(id)` returns (recipients, attempts)
  orig : Nat → Option (List Rcpt) := fun _ => none  -- ghost: the recipients the message was accepted with
  nonNull : Nat → Bool := fun _ => true             -- the envelope sender is not ''
  flight : Nat → Option Msg := fun _ => none        -- the envelope an attempt in flight was handed
  pend : Nat → Option Pend := fun _ => none         -- between `_attempt`'s verdict and the end of `_retry_later`
  delivered : Nat → List Rcpt := fun _ => []        -- ghost ledger
  failed : Nat → List (Rcpt × ReplyId) := fun _ => []
  bounces : Nat → List Bounce := fun _ => []        -- what `_bounce` was asked for
  handed : List (Nat × List Rcpt × Nat) := []       -- every hand-off to the relay: id, recipients, `attempts` argument

inductive Label
  | write (id : Nat) (ts : Nat) (rcpts : List Rcpt) (nonNull : Bool)
  | activate (id : Nat)
  | announce (id : Nat) (ts : Nat)
  | tick (dt : Nat)
  | sched
  | sleep
  | dequeue (id : Nat) (c : Sched.Cause)
  | done (id : Nat) (o : Outcome)
  | retry (id : Nat) (w : Option Nat)
  | requeue (id : Nat)
  | remove (id : Nat)
  | poke
  | flush
deriving Repr, DecidableEq

/-- `fb`: the bounce factory returns a bounce. -/
def verdict (fb : Bool) (q : State) (id : Nat) (o : Outcome) : Option Phase1 :=
  (q.flight id).map fun m => phase1 (fb && q.nonNull id) m o

/-- The label of the scheduler model this label is. -/
def toSched (fb : Bool) (q : State) : Label → Sched.Label
  | .write id ts _ _ => .write id ts
  | .activate id => .activate id
  | .announce id ts => .announce id ts
  | .tick dt => .tick dt
  | .sched => .sched
  | .sleep => .sleep
  | .dequeue id c => .dequeue id c
  | .done id o => .done id (match verdict fb q id o with | some p => p.pend.isNone | none => true)
  | .retry id w => .retry id w
  | .requeue id => .requeue id
  | .remove id => .remove id
  | .poke => .poke
  | .flush => .flush

def step (fb : Bool) (q : State) (l : Label) : Option State :=
  match Sched.step q.s (toSched fb q l) with
  | none => none
  | some s' =>
    match l with
    | .write id _ rcpts nn =>
      if rcpts.Nodup && !rcpts.isEmpty then
        some { q with s := s', msgs := upd q.msgs id (some ⟨rcpts, 0⟩), orig := upd q.orig id (some rcpts),
                      nonNull := upd q.nonNull id nn, delivered := upd q.delivered id [], failed := upd q.failed id [],
                      bounces := upd q.bounces id [] }
      else none
    | .activate id =>
      -- `enqueue` hands over the envelope it was given, with attempts = 0
      if q.s.active.contains id then some { q with s := s' }
      else match q.orig id with
        | some r => some { q with s := s', flight := upd q.flight id (some ⟨r, 0⟩), handed := (id, r, 0) :: q.handed }
        | none => none
    | .dequeue id _ =>
      -- `_dequeue` hands over what `store.get` returned
      if (Sched.tsOf q.s id).isNone || q.s.active.contains id then some { q with s := s' }
      else match q.msgs id with
        | some m => some { q with s := s', flight := upd q.flight id (some m), handed := (id, m.rcpts, m.attempts) :: q.handed }
        | none => none
    | .done id o =>
      match verdict fb q id o with
      | none => none
      | some p =>
        some { q with s := s', flight := upd q.flight id none, pend := upd q.pend id p.pend,
                      delivered := upd q.delivered id (q.delivered id ++ p.delivered),
                      failed := upd q.failed id (q.failed id ++ p.failed),
                      bounces := upd q.bounces id (q.bounces id ++ p.bounces) }
    | .retry id w =>
      -- `increment_attempts`, the backoff function, then either everybody fails or the new due time is stored
      match q.pend id, q.msgs id with
      | some pd, some m =>
        let m1 : Msg := { m with attempts := m.attempts + 1 }
        match w with
        | none =>
          let g := giveUp (fb && q.nonNull id) m.rcpts pd
          some { q with s := s', msgs := upd q.msgs id (some m1), pend := upd q.pend id none,
                        failed := upd q.failed id (q.failed id ++ g.1), bounces := upd q.bounces id (q.bounces id ++ g.2) }
        | some _ => some { q with s := s', msgs := upd q.msgs id (some m1) }
      | _, _ => none
    | .requeue id =>
      -- `set_recipients_delivered` (partial deliveries), `active_ids.discard`, `_add_queued`
      match q.pend id, q.msgs id with
      | some pd, some m =>
        some { q with s := s', msgs := upd q.msgs id (some { m with rcpts := pd.newRcpts m.rcpts }), pend := upd q.pend id none }
      | _, _ => none
    | .remove id => some { q with s := s', msgs := upd q.msgs id none }
    | _ => some { q with s := s' }

def run (fb : Bool) (q : State) : List Label → Option State
  | [] => some q
  | l :: ls => match step fb q l with
    | some q' => run fb q' ls
    | none => none

/-- A queue that starts on a storage already holding the messages `pre` (id, timestamp), with recipients `rc id`. -/
def start (pre : List (Nat × Nat)) (rc : Nat → List Rcpt) (nn : Nat → Bool) : State :=
  { s := { stored := pre },
    msgs := fun id => if (pre.map (·.1)).contains id then some ⟨rc id, 0⟩ else none,
    orig := fun id => if (pre.map (·.1)).contains id then some (rc id) else none,
    nonNull := nn }

/-- The same, with the attempt counters the storage holds (a queue restarted after earlier attempts were made). -/
def startAt (pre : List (Nat × Nat)) (rc : Nat → List Rcpt) (nn : Nat → Bool) (att : Nat → Nat) : State :=
  { s := { stored := pre },
    msgs := fun id => if (pre.map (·.1)).contains id then some ⟨rc id, att id⟩ else none,
    orig := fun id => if (pre.map (·.1)).contains id then some (rc id) else none,
    nonNull := nn }

end Slimta.QM
