/-
  Model of what one delivery attempt does to a queued message: Queue._attempt,
  _handle_partial_relay, _retry_later, _perm_fail, _split_by_reply (slimta/queue/__init__.py) with
  the reference storage semantics of Model/Store.lean (recipients marked delivered disappear from
  later gets), and the bounce decision of slimta/bounce.

  Recipients and replies are opaque ids; two replies are equal iff code and message are equal.
-/
namespace Slimta.Attempt

abbrev Rcpt := Nat
abbrev ReplyId := Nat

/-- Per-recipient relay result (`None`/`Reply`, `PermanentRelayError`, `TransientRelayError`). -/
inductive RRes | ok | perm (r : ReplyId) | temp (r : ReplyId)
deriving Repr, DecidableEq

/-- What `relay._attempt(envelope, attempts)` did. `other r`: an unexpected exception, `r` is the
    synthesized `450 Unhandled delivery error` reply. -/
inductive Outcome
  | success
  | mapping (m : List (Rcpt × RRes))        -- a dict: keys unique, in insertion order
  | sequence (l : List RRes)
  | transient (r : ReplyId)
  | permanent (r : ReplyId)
  | other (r : ReplyId)
deriving Repr, DecidableEq

structure Bounce where
  reply : ReplyId
  rcpts : List Rcpt
  tooMany : Bool           -- reply text got the " (Too many retries)" suffix
deriving Repr, DecidableEq

structure Msg where
  rcpts : List Rcpt        -- what `store.get(id)` returns now
  attempts : Nat
deriving Repr, DecidableEq

structure Cfg where
  backoff : Nat → Option Nat      -- attempts -> seconds, `none` = stop retrying
  senderNonEmpty : Bool           -- bounces only when the envelope sender is not ''
  factoryBounces : Bool           -- `bounce_factory` returns a bounce (not `None`)

/-- `_split_by_reply` on `(recipient, reply)` pairs: groups in first-occurrence order. -/
def addToGroup (rc : Rcpt) (rp : ReplyId) : List (ReplyId × List Rcpt) → List (ReplyId × List Rcpt)
  | [] => [(rp, [rc])]
  | (rp', g) :: rest => if rp' == rp then (rp', g ++ [rc]) :: rest else (rp', g) :: addToGroup rc rp rest

def splitByReply : List (Rcpt × ReplyId) → List (ReplyId × List Rcpt) → List (ReplyId × List Rcpt)
  | [], acc => acc
  | (rc, rp) :: rest, acc => splitByReply rest (addToGroup rc rp acc)

/-- The bounces `_perm_fail(None, group_env, reply)` hands to the bounce queue. -/
def bouncesFor (cfg : Cfg) (pairs : List (Rcpt × ReplyId)) (tooMany : Bool) : List Bounce :=
  if cfg.senderNonEmpty && cfg.factoryBounces then
    (splitByReply pairs []).map fun (rp, g) => ⟨rp, g, tooMany⟩
  else []

structure StepOut where
  msg : Option Msg                 -- `none`: removed from storage
  bounces : List Bounce
  delivered : List Rcpt            -- reported delivered by the relay in this attempt
  failed : List (Rcpt × ReplyId)   -- failed for good in this attempt
  retryIn : Option Nat             -- `some w`: timestamp now + w written, message re-queued
deriving Repr, DecidableEq

/-- The recipients left after `set_recipients_delivered(id, idxs)`: positions in `idxs` are gone. -/
def delIdxAux (idxs : List Nat) (i : Nat) : List Rcpt → List Rcpt
  | [] => []
  | x :: xs => if idxs.contains i then delIdxAux idxs (i + 1) xs else x :: delIdxAux idxs (i + 1) xs

def deleteIdxs (idxs : List Nat) (l : List Rcpt) : List Rcpt := delIdxAux idxs 0 l

/-- `_retry_later(id, envelope, replies)` where `pairs` are the recipients still outstanding with
    the reply each failed with. -/
def retryLater (cfg : Cfg) (m : Msg) (pairs : List (Rcpt × ReplyId)) (newRcpts : List Rcpt)
    (bounces : List Bounce) (delivered : List Rcpt) (failed : List (Rcpt × ReplyId)) : StepOut :=
  match cfg.backoff (m.attempts + 1) with
  | none => ⟨none, bounces ++ bouncesFor cfg pairs true, delivered, failed ++ pairs, none⟩
  | some w => ⟨some ⟨newRcpts, m.attempts + 1⟩, bounces, delivered, failed, some w⟩

def handlePartial (cfg : Cfg) (m : Msg) (res : List (Rcpt × RRes)) : StepOut :=
  let deliveredIdx := res.filterMap fun (rc, v) =>
    match v with
    | .ok | .perm _ => some (m.rcpts.idxOf rc)
    | .temp _ => none
  let oks := res.filterMap fun (rc, v) => match v with | .ok => some rc | _ => none
  let perms := res.filterMap fun (rc, v) => match v with | .perm r => some (rc, r) | _ => none
  let temps := res.filterMap fun (rc, v) => match v with | .temp r => some (rc, r) | _ => none
  let pb := bouncesFor cfg perms false
  if temps.isEmpty then ⟨none, pb, oks, perms, none⟩
  else retryLater cfg m temps (deleteIdxs deliveredIdx m.rcpts) pb oks perms

/-- `dict(zip(envelope.recipients, results))`: later duplicates overwrite earlier values but keep
    the first key's position. -/
def zipDict : List Rcpt → List RRes → List (Rcpt × RRes) → List (Rcpt × RRes)
  | rc :: rs, v :: vs, acc =>
    zipDict rs vs (if acc.any (·.1 == rc) then acc.map (fun p => if p.1 == rc then (rc, v) else p) else acc ++ [(rc, v)])
  | _, _, acc => acc

/-- One delivery attempt of message `m`. -/
def attempt (cfg : Cfg) (m : Msg) : Outcome → StepOut
  | .success => ⟨none, [], m.rcpts, [], none⟩
  | .permanent r =>
    let pairs := m.rcpts.map fun rc => (rc, r)
    ⟨none, if cfg.senderNonEmpty && cfg.factoryBounces then [⟨r, m.rcpts, false⟩] else [], [], pairs, none⟩
  | .transient r | .other r =>
    match cfg.backoff (m.attempts + 1) with
    | none =>
      ⟨none, if cfg.senderNonEmpty && cfg.factoryBounces then [⟨r, m.rcpts, true⟩] else [], [],
        m.rcpts.map fun rc => (rc, r), none⟩
    | some w => ⟨some ⟨m.rcpts, m.attempts + 1⟩, [], [], [], some w⟩
  | .mapping res => handlePartial cfg m res
  | .sequence l => handlePartial cfg m (zipDict m.rcpts l [])

structure Trace where
  msg : Option Msg
  rounds : List StepOut
deriving Repr

/-- A whole history: one outcome per attempt, until the message leaves storage. -/
def runHistory (cfg : Cfg) : Option Msg → List Outcome → List StepOut
  | none, _ => []
  | some _, [] => []
  | some m, o :: os => let s := attempt cfg m o
                       s :: runHistory cfg s.msg os

end Slimta.Attempt
