/-
  Model of slimta/relay/smtp/mx.py: MxRecord._resolve_mx / _resolve_a / _resolve / get,
  MxSmtpRelay._get_rcpt_domain, choose_mx and the error mapping of MxSmtpRelay.attempt
  (the delivery itself is Model/Relay.lean).
-/
namespace Slimta.Mx

/-- The answer of the resolver to one query. -/
inductive Ans (α : Type)
  | records (l : List α)
  | noData          -- ARES_ENODATA
  | notFound        -- ARES_ENOTFOUND
  | error           -- any other DNSError
deriving Repr

/-- `_resolve_mx`: insert each record before the first one with a strictly greater priority, else append. -/
def insertRec (r : Nat × Nat) : List (Nat × Nat) → List (Nat × Nat)
  | [] => [r]
  | x :: xs => if x.1 > r.1 then r :: x :: xs else x :: insertRec r xs

def sortMx (answer : List (Nat × Nat)) : List (Nat × Nat) := answer.foldl (fun acc r => insertRec r acc) []

inductive Resolved
  | hosts (l : List (Nat × Nat))    -- (priority, host); the domain itself is host 0
  | nothing                         -- neither MX nor A: `None`
  | dnsError
deriving Repr, DecidableEq

/-- `_resolve`: MX first; on "no data" / "not found" the A records of the domain (one entry per address). -/
def resolve (mx : Ans (Nat × Nat)) (a : Ans Nat) : Resolved :=
  match mx with
  | .records l => .hosts (sortMx l)
  | .error => .dnsError
  | .noData | .notFound =>
    match a with
    | .records l => .hosts (l.map fun _ => (0, 0))
    | .noData | .notFound => .nothing
    | .error => .dnsError

inductive Outcome
  | deliverTo (host : Nat)
  | permanent       -- 550 5.1.2 No usable DNS records found / recipient without a domain
  | transient       -- 451 4.4.3 DNS lookup failed
deriving Repr, DecidableEq

/-- `choose_mx` -/
def chooseMx (records : List (Nat × Nat)) (attempts : Nat) : Option Nat :=
  (records[attempts % records.length]?).map (·.2)

/-- `MxSmtpRelay.attempt` up to handing the envelope to the relay of the chosen host. -/
def route (hasDomain : Bool) (mx : Ans (Nat × Nat)) (a : Ans Nat) (attempts : Nat) : Outcome :=
  if !hasDomain then .permanent
  else match resolve mx a with
    | .dnsError => .transient
    | .nothing => .permanent
    | .hosts l =>
      if l.isEmpty then .permanent
      else match chooseMx l attempts with
        | some h => .deliverTo h
        | none => .permanent

/-! ## the expiring cache of `MxRecord` -/

/-- What the resolver would answer right now: MX records `(priority, host, ttl)`, A records by their `ttl`. -/
structure Query where
  mx : Ans (Nat × Nat × Nat)
  a : Ans Nat

structure Cache where
  records : Option (List (Nat × Nat)) := none     -- `_records`
  expiration : Nat := 0                            -- `_expiration`; 0 = nothing worth keeping
deriving Repr, DecidableEq

/-- `expired`: `not self._expiration or time.time() >= self._expiration` -/
def expired (c : Cache) (now : Nat) : Bool := c.expiration == 0 || now ≥ c.expiration

def maxExp (now : Nat) (ttls : List Nat) : Nat := ttls.foldl (fun e t => max e (now + t)) 0

/-- `_resolve` with the expiration it computes: `none` = a DNSError is raised; `some (none, 0)` = neither MX nor A. -/
def resolveTtl (now : Nat) (q : Query) : Option (Option (List (Nat × Nat)) × Nat) :=
  match q.mx with
  | .records l => some (some (sortMx (l.map fun r => (r.1, r.2.1))), maxExp now (l.map fun r => r.2.2))
  | .error => none
  | .noData | .notFound =>
    match q.a with
    | .records l => some (some (l.map fun _ => (0, 0)), maxExp now l)
    | .noData | .notFound => some (none, 0)
    | .error => none

/-- `MxRecord.get()` at time `now`: the new cache, whether the resolver was asked, and what `get` gives
    (`nothing` = the ValueError "No usable DNS records found"). -/
def cacheGet (c : Cache) (now : Nat) (q : Query) : Cache × Bool × Resolved :=
  if expired c now then
    match resolveTtl now q with
    | none => (c, true, .dnsError)                       -- the exception leaves the object as it was
    | some (recs, exp) =>
      let c' : Cache := ⟨recs, exp⟩
      (c', true, match recs with
                 | some (r :: rs) => .hosts (r :: rs)
                 | _ => .nothing)
  else
    (c, false, match c.records with
               | some (r :: rs) => .hosts (r :: rs)
               | _ => .nothing)

/-- `MxSmtpRelay.attempt` for a domain whose `MxRecord` is `c`. -/
def routeCached (c : Cache) (now : Nat) (q : Query) (attempts : Nat) : Cache × Bool × Outcome :=
  let (c', asked, r) := cacheGet c now q
  (c', asked, match r with
    | .dnsError => .transient
    | .nothing => .permanent
    | .hosts l => match chooseMx l attempts with
      | some h => .deliverTo h
      | none => .permanent)

end Slimta.Mx
