/-
  Model of slimta/relay/smtp/mx.py: MxRecord._resolve_mx / _resolve_a / _resolve / get,
  MxSmtpRelay._get_rcpt_domain, choose_mx and the error mapping of MxSmtpRelay.attempt
  (the delivery itself is Model/Relay.lean).
-/
namespace Slimta.Mx

/-- The answer of the resolver to one query. -/
inductive Ans (α : Type)
  | records (l : List α)
  | noData          -- ARES_ENODATA
  | notFound        -- ARES_ENOTFOUND
  | error           -- any other DNSError
deriving Repr

/-- `_resolve_mx`: insert each record before the first one with a strictly greater priority, else append. -/
def insertRec (r : Nat × Nat) : List (Nat × Nat) → List (Nat × Nat)
  | [] => [r]
  | x :: xs => if x.1 > r.1 then r :: x :: xs else x :: insertRec r xs

def sortMx (answer : List (Nat × Nat)) : List (Nat × Nat) := answer.foldl (fun acc r => insertRec r acc) []

inductive Resolved
  | hosts (l : List (Nat × Nat))    -- (priority, host); the domain itself is host 0
  | nothing                         -- neither MX nor A: `None`
  | dnsError
deriving Repr, DecidableEq

/-- `_resolve`: MX first; on "no data" / "not found" the A records of the domain (one entry per address). -/
def resolve (mx : Ans (Nat × Nat)) (a : Ans Nat) : Resolved :=
  match mx with
  | .records l => .hosts (sortMx l)
  | .error => .dnsError
  | .noData | .notFound =>
    match a with
    | .records l => .hosts (l.map fun _ => (0, 0))
    | .noData | .notFound => .nothing
    | .error => .dnsError

inductive Outcome
  | deliverTo (host : Nat)
  | permanent       -- 550 5.1.2 No usable DNS records found / recipient without a domain
  | transient       -- 451 4.4.3 DNS lookup failed
deriving Repr, DecidableEq

/-- `choose_mx` -/
def chooseMx (records : List (Nat × Nat)) (attempts : Nat) : Option Nat :=
  (records[attempts % records.length]?).map (·.2)

/-- `MxSmtpRelay.attempt` up to handing the envelope to the relay of the chosen host. -/
def route (hasDomain : Bool) (mx : Ans (Nat × Nat)) (a : Ans Nat) (attempts : Nat) : Outcome :=
  if !hasDomain then .permanent
  else match resolve mx a with
    | .dnsError => .transient
    | .nothing => .permanent
    | .hosts l =>
      if l.isEmpty then .permanent
      else match chooseMx l attempts with
        | some h => .deliverTo h
        | none => .permanent

end Slimta.Mx
