import Model.Bytes
/-
  Model of slimta/smtp/reply.py (Reply code / message / enhanced status code) and of
  IO.send_reply / IO.recv_reply in slimta/smtp/io.py.
-/
namespace Slimta.Reply

open Slimta

/-! ## wire level (bytes) -/

/-- One match of `line_pattern = (.*?)\r?\n`: the bytes before the first LF without one
    optional trailing CR (the lazy group gives the CR to `\r?`), and the rest after the LF. -/
def stripCR (l : Bytes) : Bytes :=
  match l.getLast? with
  | some 13 => l.dropLast
  | _ => l

def matchLine (input : Bytes) : Option (Bytes × Bytes) :=
  match splitLF input with
  | none => none
  | some (l, r) => some (stripCR l.dropLast, r)

theorem matchLine_length {i c r : Bytes} (h : matchLine i = some (c, r)) : r.length < i.length := by
  unfold matchLine at h
  split at h
  · simp at h
  · rename_i l r' heq
    simp at h
    obtain ⟨_, rfl⟩ := h
    exact splitLF_length heq

/-- `line_pattern.finditer(message)`: all complete lines; a tail without LF is dropped. -/
def allLines (msg : Bytes) : List Bytes :=
  match h : matchLine msg with
  | none => []
  | some (c, r) =>
    have : r.length < msg.length := matchLine_length h
    c :: allLines r
termination_by msg.length

def joinCRLF : List Bytes → Bytes
  | [] => []
  | [l] => l
  | l :: rest => l ++ CRLF ++ joinCRLF rest

/-- `IO.send_reply`: `code-line` for all but the last line of `message + CRLF`, `code line` last. -/
def encodeLines (code : Bytes) : List Bytes → Bytes
  | [] => []
  | [l] => code ++ [32] ++ l ++ CRLF
  | l :: rest => code ++ [45] ++ l ++ CRLF ++ encodeLines code rest

def encode (code msg : Bytes) : Bytes := encodeLines code (allLines (msg ++ CRLF))

/-- `reply_line_pattern = ((\d\d\d)([ \t-])(.*?))\r?\n` on a line content (CR/LF removed):
    `(code, separator, text)`. -/
def parseReplyLine (c : Bytes) : Option (Bytes × Byte × Bytes) :=
  match c with
  | d1 :: d2 :: d3 :: sep :: text =>
    if isDigit d1 && isDigit d2 && isDigit d3 && (sep == 32 || sep == 9 || sep == 45)
    then some ([d1, d2, d3], sep, text) else none
  | _ => none

/-- Strict UTF-8 validity, as `bytes.decode('utf-8')` (no surrogates, no overlongs, ≤ U+10FFFF). -/
def utf8Ok : Bytes → Bool
  | [] => true
  | b0 :: r0 =>
    if b0 < 0x80 then utf8Ok r0
    else if 0xC2 ≤ b0 && b0 ≤ 0xDF then
      match r0 with
      | b1 :: r1 => (0x80 ≤ b1 && b1 ≤ 0xBF) && utf8Ok r1
      | _ => false
    else if 0xE0 ≤ b0 && b0 ≤ 0xEF then
      match r0 with
      | b1 :: b2 :: r2 =>
        let lo : Byte := if b0 == 0xE0 then 0xA0 else 0x80
        let hi : Byte := if b0 == 0xED then 0x9F else 0xBF
        (lo ≤ b1 && b1 ≤ hi) && (0x80 ≤ b2 && b2 ≤ 0xBF) && utf8Ok r2
      | _ => false
    else if 0xF0 ≤ b0 && b0 ≤ 0xF4 then
      match r0 with
      | b1 :: b2 :: b3 :: r3 =>
        let lo : Byte := if b0 == 0xF0 then 0x90 else 0x80
        let hi : Byte := if b0 == 0xF4 then 0x8F else 0xBF
        (lo ≤ b1 && b1 ≤ hi) && (0x80 ≤ b2 && b2 ≤ 0xBF) && (0x80 ≤ b3 && b3 ≤ 0xBF) && utf8Ok r3
      | _ => false
    else false

/-- `code_pattern = ^[12345]\d\d$` on the three digits of a reply line. -/
def codeOk : Bytes → Bool
  | d :: _ => 49 ≤ d && d ≤ 53
  | [] => false

/-- Result of scanning the current `recv_buffer` (the inner `while start_i is not None`). -/
inductive Scan
  | needMore (code : Option Bytes) (lines : List Bytes) (buf : Bytes)
  | done (code : Bytes) (body : Bytes) (buf : Bytes)
  | bad (buf : Bytes)
deriving Repr, DecidableEq

/-- Scan complete lines of `buf`. `code`/`lines` persist across `buffered_recv()` calls. -/
def scan (code : Option Bytes) (lines : List Bytes) (buf : Bytes) : Scan :=
  match h : matchLine buf with
  | none => .needMore code lines buf
  | some (c, r) =>
    have : r.length < buf.length := matchLine_length h
    match parseReplyLine c with
    | none => .bad r                                      -- not a reply line: BadReply, line consumed
    | some (cd, sep, text) =>
      if code.isSome && code != some cd then .bad buf      -- different code: BadReply, line not consumed
      else if sep != 45 then
        let body := joinCRLF (lines ++ [text])
        if utf8Ok body && codeOk cd then .done cd body r else .bad r    -- UnicodeDecodeError / code outside 1xx-5xx -> BadReply
      else scan (some cd) (lines ++ [text]) r
termination_by buf.length

inductive Err | badReply | connectionLost | wouldBlock
deriving Repr, DecidableEq

structure Result where
  code : Bytes
  body : Bytes
  recvBuffer : Bytes
  unread : List Bytes
deriving Repr, DecidableEq

/-- The outer `while incomplete:` loop with `buffered_recv()`. On `BadReply` the new
    `recv_buffer` is reported too. -/
def recvLoop (code : Option Bytes) (lines : List Bytes) (buf : Bytes) :
    List Bytes → Except (Err × Bytes) Result
  | [] =>
    match scan code lines buf with
    | .done c b r => .ok ⟨c, b, r, []⟩
    | .bad r => .error (.badReply, r)
    | .needMore _ _ b => .error (.wouldBlock, b)
  | seg :: rest =>
    match scan code lines buf with
    | .done c b r => .ok ⟨c, b, r, seg :: rest⟩
    | .bad r => .error (.badReply, r)
    | .needMore c' l' b =>
      if seg.isEmpty then .error (.connectionLost, b) else recvLoop c' l' (b ++ seg) rest

/-- `IO.recv_reply()` with `recv_buffer = buf0` and the socket yielding `segs`. -/
def recvRun (buf0 : Bytes) (segs : List Bytes) : Except (Err × Bytes) Result :=
  recvLoop none [] buf0 segs

/-! ## Reply object (text level)

Python's `str` regexes use Unicode `\d` and `\s`; the classes are parameters. -/

structure Classes where
  isD : Char → Bool
  isS : Char → Bool

abbrev Text := List Char

/-- `_esc`: `None`, `False` or the three groups. -/
inductive Esc
  | none | off | groups (cls : Char) (subj det : Text)
deriving Repr, DecidableEq

structure R where
  code : Option Text
  msg : Option Text        -- `_message`
  esc : Esc                -- `_esc`
deriving Repr, DecidableEq

/-- `\d\d?\d?` greedy at the start of `t`: `(digits, rest)`. -/
def takeDigits3 (k : Classes) (t : Text) : Option (Text × Text) :=
  match t with
  | a :: b :: c :: r =>
    if k.isD a then
      if k.isD b then
        if k.isD c then some ([a, b, c], r) else some ([a, b], c :: r)
      else some ([a], b :: c :: r)
    else none
  | [a, b] => if k.isD a then (if k.isD b then some ([a, b], []) else some ([a], [b])) else none
  | [a] => if k.isD a then some ([a], []) else none
  | [] => none

/-- `message_esc_pattern = ^([245]\.\d\d?\d?\.\d\d?\d?)\s+` : `(class, subject, detail, rest after
    the white space)`.  Greedy digit groups never need backtracking here: the group is followed by
    a literal `.` resp. by `\s`, which no digit matches when `isD` and `isS`/`.` are disjoint; the
    correspondence validates this against CPython. -/
def matchEscPrefix (k : Classes) (t : Text) : Option (Char × Text × Text × Text) :=
  match t with
  | c :: '.' :: r1 =>
    if c == '2' || c == '4' || c == '5' then
      match takeDigits3 k r1 with
      | some (subj, '.' :: r2) =>
        match takeDigits3 k r2 with
        | some (det, s :: r3) =>
          if k.isS s then some (c, subj, det, (s :: r3).dropWhile k.isS) else none
        | _ => none
      | _ => none
    else none
  | _ => none

/-- `code_0 = self._code and self._code[0]`; ESC is looked for when there is no code yet or its
    class is 2, 4 or 5. -/
def escAllowed (r : R) : Bool :=
  match r.code with
  | some (c0 :: _) => c0 == '2' || c0 == '4' || c0 == '5'
  | _ => true

/-- `message.setter` -/
def setMessage (k : Classes) (r : R) (value : Option Text) : R :=
  match value with
  | some v =>
    if v.isEmpty || !escAllowed r then { r with msg := some v, esc := (match r.esc with | .groups .. => .none | e => e) }
    else match matchEscPrefix k v with
      | some (c, subj, det, rest) => { r with msg := some rest, esc := .groups c subj det }
      | none => { r with msg := some v, esc := (match r.esc with | .groups .. => .none | e => e) }
  | none => { r with msg := none, esc := (match r.esc with | .groups .. => .none | e => e) }

/-- `enhanced_status_code` getter -/
def getEsc (r : R) : Option Text :=
  match r.code with
  | some (c0 :: _) =>
    if c0 == '2' || c0 == '4' || c0 == '5' then
      match r.esc with
      | .groups _ subj det => some (c0 :: '.' :: (subj ++ '.' :: det))
      | .off => none
      | .none => some [c0, '.', '0', '.', '0']
    else none
  | _ => none

/-- `message` getter -/
def getMessage (r : R) : Option Text :=
  match getEsc r, r.msg with
  | some e, some m => if m.isEmpty then some m else some (e ++ ' ' :: m)
  | _, m => m

/-- `code.setter` (a valid code): nothing else changes; the enhanced status code's class follows the
    code the next time it is read. -/
def setCode (r : R) (code : Text) : R := { r with code := some code }

/-- `enhanced_status_code = False` -/
def escOff (r : R) : R := { r with esc := .off }

/-- `Reply(code, message)` -/
def mk (k : Classes) (code : Text) (message : Text) : R :=
  setMessage k { code := some code, msg := none, esc := .none } (some message)

end Slimta.Reply
