import Model.Bytes
/-
  Model of slimta/smtp/datasender.py (DataSender) and slimta/smtp/datareader.py (DataReader).
-/
namespace Slimta.Data

open Slimta

/-! ## DataSender -/

/-- `_process_part`: a leading `.` and every `.` that follows `\n` is doubled.
    `prevLF = true` for the first byte of a part (the leading-dot rule). -/
def stuff (prevLF : Bool) : Bytes → Bytes
  | [] => []
  | b :: rest =>
    if prevLF && b == 46 then 46 :: 46 :: stuff false rest
    else b :: stuff (b == 10) rest

def processPart (part : Bytes) : Bytes := stuff true part

/-- `_calc_end_marker`: `.\r\n` if the whole message is empty or ends in CRLF, else `\r\n.\r\n`. -/
def endMarker (msg : Bytes) : Bytes :=
  if msg.isEmpty || endsWith msg CRLF then [46, 13, 10] else [13, 10, 46, 13, 10]

/-- Everything `DataSender(*parts).send(io)` puts on the wire. -/
def send (parts : List Bytes) : Bytes :=
  (parts.map processPart).flatten ++ endMarker parts.flatten

/-! ## DataReader -/

/-- `eod_pattern = ^\.\s*?\n$` applied to one finished line (exactly one LF, at the end):
    `.` followed only by white space. -/
def isEodLine (line : Bytes) : Bool :=
  match line with
  | [] => false
  | b :: rest => b == 46 && rest.all isWs && rest.getLast? == some 10

/-- Reader state. `data` = joined `lines[:i]` (or `lines[:EOD]` once found), `cur` = `lines[i]`
    while before EOD; `after` = joined `lines[EOD+1:]`. -/
structure RS where
  data : Bytes := []
  cur : Bytes := []
  eod : Bool := false
  after : Bytes := []
deriving Repr, DecidableEq

/-- Remove an initial period on non-EOD lines (RFC 821 4.5.2). -/
def unstuffLine : Bytes → Bytes
  | 46 :: rest => rest
  | l => l

/-- `handle_finished_line` for the completed line `line` (= `lines[i]`) while `EOD is None`. -/
def finishLine (s : RS) (line : Bytes) : RS :=
  if isEodLine line then { s with eod := true, cur := [] }
  else { s with data := s.data ++ unstuffLine line, cur := [] }

/-- `add_lines(piece)`: one `fullline_pattern` match at a time. Once `EOD` is set the lines are
    only collected (they become `recv_buffer` in `return_all`). -/
def addLines (s : RS) (piece : Bytes) : RS :=
  if s.eod then { s with after := s.after ++ piece }
  else match h : splitLF piece with
  | none => { s with cur := s.cur ++ piece }
  | some (l, r) =>
    have : r.length < piece.length := splitLF_length h
    addLines (finishLine s (s.cur ++ l)) r
termination_by piece.length

/-- Byte-at-a-time reference reader used by the proofs. -/
def feedByte (s : RS) (b : Byte) : RS :=
  if s.eod then { s with after := s.after ++ [b] }
  else if b == 10 then finishLine s (s.cur ++ [b])
  else { s with cur := s.cur ++ [b] }

def feed (s : RS) (bs : Bytes) : RS := bs.foldl feedByte s

inductive Err | connectionLost | messageTooBig | wouldBlock
deriving Repr, DecidableEq

structure Result where
  data : Bytes
  recvBuffer : Bytes
  unread : List Bytes
deriving Repr, DecidableEq

/-- `if self.max_size and self.size > self.max_size` -/
def tooBig (maxSize : Option Nat) (size : Nat) : Bool :=
  match maxSize with
  | some m => m != 0 && size > m
  | none => false

/-- `recv()`'s loop after `from_recv_buffer`: pull pieces until EOD. `wouldBlock` = the scripted
    socket has nothing more (the real reader would block). An oversized message is read to its end
    like any other (see `runLimited`). -/
def recvLoop (s : RS) : List Bytes → Except Err Result
  | [] => if s.eod then .ok ⟨s.data, s.after, []⟩ else .error .wouldBlock
  | piece :: rest =>
    if s.eod then .ok ⟨s.data, s.after, piece :: rest⟩
    else if piece.isEmpty then .error .connectionLost
    else recvLoop (addLines s piece) rest

/-- `DataReader(io).recv()` with `io.recv_buffer = buf0` and the socket yielding `segs`. -/
def run (buf0 : Bytes) (segs : List Bytes) : Except Err Result :=
  recvLoop (addLines {} buf0) segs

structure Limited where
  data : Option Bytes        -- `none`: MessageTooBig was raised (after the whole message was consumed)
  recvBuffer : Bytes
  unread : List Bytes
deriving Repr, DecidableEq

/-- `DataReader(io, max_size).recv()`: the size is the number of bytes up to and including the
    end-of-data line. -/
def runLimited (maxSize : Option Nat) (buf0 : Bytes) (segs : List Bytes) : Except Err Limited :=
  match run buf0 segs with
  | .error e => .error e
  | .ok r =>
    let consumed := (buf0.length + segs.flatten.length) - (r.recvBuffer.length + r.unread.flatten.length)
    if tooBig maxSize consumed then .ok ⟨none, r.recvBuffer, r.unread⟩
    else .ok ⟨some r.data, r.recvBuffer, r.unread⟩

end Slimta.Data
