import Model.Bytes
/-
  Model of slimta/smtp/datasender.py (DataSender) and slimta/smtp/datareader.py (DataReader).
-/
namespace Slimta.Data

open Slimta

/-! ## DataSender -/

/-- `_process_part`: a leading `.` and every `.` that follows `\n` is doubled.
    `prevLF = true` for the first byte of a part (the leading-dot rule). -/
def stuff (prevLF : Bool) : Bytes → Bytes
  | [] => []
  | b :: rest =>
    if prevLF && b == 46 then 46 :: 46 :: stuff false rest
    else b :: stuff (b == 10) rest

def processPart (part : Bytes) : Bytes := stuff true part

/-- `_calc_end_marker`: `.\r\n` if the whole message is empty or ends in CRLF, else `\r\n.\r\n`. -/
def endMarker (msg : Bytes) : Bytes :=
  if msg.isEmpty || endsWith msg CRLF then [46, 13, 10] else [13, 10, 46, 13, 10]

/-- Everything `DataSender(*parts).send(io)` puts on the wire. -/
def send (parts : List Bytes) : Bytes :=
  (parts.map processPart).flatten ++ endMarker parts.flatten

/-! ## DataReader -/

/-- `eod_pattern = ^\.\s*?\n$` applied to one finished line (exactly one LF, at the end):
    `.` followed only by white space. -/
def isEodLine (line : Bytes) : Bool :=
  match line with
  | [] => false
  | b :: rest => b == 46 && rest.all isWs && rest.getLast? == some 10

/-- Reader state. `data` = joined `lines[:i]` (or `lines[:EOD]` once found), `cur` = `lines[i]`
    while before EOD; `after` = joined `lines[EOD+1:]`. -/
structure RS where
  data : Bytes := []
  cur : Bytes := []
  eod : Bool := false
  after : Bytes := []
  size : Nat := 0
deriving Repr, DecidableEq

/-- `handle_finished_line` for the completed line `line` (= `lines[i]`). -/
def finishLine (s : RS) (line : Bytes) : RS :=
  if s.eod then { s with after := s.after ++ line }
  else if isEodLine line then { s with eod := true, cur := [] }
  else
    let line' := match line with
      | 46 :: rest => rest
      | l => l
    { s with data := s.data ++ line', cur := [] }

/-- `_append_line(tail)` for the unfinished remainder of a piece. -/
def appendPartial (s : RS) (tail : Bytes) : RS :=
  if s.eod then { s with after := s.after ++ tail } else { s with cur := s.cur ++ tail }

/-- `add_lines(piece)`: one `fullline_pattern` match at a time. -/
def addLines (s : RS) (piece : Bytes) : RS :=
  match h : splitLF piece with
  | none => appendPartial s piece
  | some (l, r) =>
    have : r.length < piece.length := splitLF_length h
    addLines (finishLine s (s.cur ++ l)) r
termination_by piece.length

/-- Byte-at-a-time reference reader used by the proofs. -/
def feedByte (s : RS) (b : Byte) : RS :=
  if s.eod then { s with after := s.after ++ [b] }
  else if b == 10 then finishLine s (s.cur ++ [b])
  else { s with cur := s.cur ++ [b] }

inductive Err | connectionLost | messageTooBig | wouldBlock
deriving Repr, DecidableEq

structure Result where
  data : Bytes
  recvBuffer : Bytes
  unread : List Bytes
deriving Repr, DecidableEq

/-- `recv()`'s loop after `from_recv_buffer`: pull pieces until EOD. `wouldBlock` = the scripted
    socket has nothing more (the real reader would block). -/
def tooBig (maxSize : Option Nat) (size : Nat) : Bool :=
  match maxSize with
  | some m => m != 0 && size > m
  | none => false

def recvLoop (maxSize : Option Nat) (s : RS) : List Bytes → Except Err Result
  | [] => if s.eod then .ok ⟨s.data, s.after, []⟩ else .error .wouldBlock
  | piece :: rest =>
    if s.eod then .ok ⟨s.data, s.after, piece :: rest⟩
    else if piece.isEmpty then .error .connectionLost
    else if tooBig maxSize (s.size + piece.length) then .error .messageTooBig
    else recvLoop maxSize (addLines { s with size := s.size + piece.length } piece) rest

/-- `DataReader(io, max_size).recv()` with `io.recv_buffer = buf0` and the socket yielding `segs`. -/
def run (maxSize : Option Nat) (buf0 : Bytes) (segs : List Bytes) : Except Err Result :=
  recvLoop maxSize (addLines {} buf0) segs

end Slimta.Data
