import Model.Wire
/-
  The HTTP transport end to end (slimta/relay/http.py: HttpRelayClient._build_headers / _handle_request;
  the WSGI server's environ; slimta/edge/wsgi.py: WsgiEdge._get_sender / _get_recipients / _get_ehlo /
  _get_envelope). Bytes are `List Nat` as in the HTTP part of Model/Wire.lean; `str` values are their UTF-8
  bytes (the relay encodes, the edge decodes: the identity on what an encoder produced).

  Modelled, not verified: the HTTP/1.1 framing of http.client and gevent.pywsgi. What is taken from them is
  what PEP 3333 and pywsgi's `get_environ` do with the header list: the values of equally named headers are
  joined with `,`; `CONTENT_LENGTH` is the Content-Length value; `wsgi.input.read(n)` gives the first `n`
  body bytes.
-/
namespace Slimta.HttpHop
open Slimta.Wire

inductive HName | contentLength | contentType | ehlo | sender | rcpt
deriving Repr, DecidableEq

/-- What crosses the hop. -/
structure Env where
  ehlo : List Nat
  sender : List Nat
  rcpts : List (List Nat)
  data : List Nat             -- `envelope.flatten()`: header data ++ message data
deriving Repr, DecidableEq

structure Request where
  headers : List (HName × List Nat)
  body : List Nat
deriving Repr, DecidableEq

/-- `str(n)` -/
def decimal (n : Nat) : List Nat :=
  if h : n < 10 then [48 + n] else decimal (n / 10) ++ [48 + n % 10]
termination_by n
decreasing_by omega

/-- `int(s)` on a plain decimal string -/
def parseDecimal (l : List Nat) : Option Nat :=
  if l.isEmpty then none
  else l.foldl (fun acc c => acc.bind fun a => if isDigitN c then some (a * 10 + (c - 48)) else none) (some 0)

/-- `_build_headers` + `_handle_request`: the header list in the order it is written, and the body. -/
def buildRequest (e : Env) : Request :=
  { headers := [(.contentLength, decimal e.data.length),
                (.contentType, [109, 101, 115, 115, 97, 103, 101, 47, 114, 102, 99, 56, 50, 50]),   -- message/rfc822
                (.ehlo, e.ehlo), (.sender, b64enc e.sender)] ++ e.rcpts.map fun r => (.rcpt, b64enc r),
    body := e.data }

/-- The WSGI environ entry of a header name: absent, or the values joined with `,`. -/
def environGet (r : Request) (n : HName) : Option (List Nat) :=
  match (r.headers.filter (·.1 == n)).map (·.2) with
  | [] => none
  | vs => some (joinTokens vs)

/-- `_get_envelope` (+ `_get_ehlo`): `none` = an exception (bad base64, bad Content-Length). `dflt` is the
    `[REMOTE_ADDR]` default of `_get_ehlo`. -/
def edgeEnvelope (dflt : List Nat) (r : Request) : Option Env := do
  let sender ← b64dec ((environGet r .sender).getD [])
  let rcpts ← match environGet r .rcpt with
    | none => some []
    | some raw => if raw.isEmpty then some [] else (splitTokens raw).mapM b64dec
  let cl ← match environGet r .contentLength with
    | none => some 0
    | some v => parseDecimal v
  pure { ehlo := (environGet r .ehlo).getD dflt, sender := sender, rcpts := rcpts, data := r.body.take cl }

end Slimta.HttpHop
