import Model.Policy
import Model.Edge
import Model.QueueM
import Model.Relay
/-
  One call of `Queue.enqueue(envelope)` (slimta/queue/__init__.py) as the edges make it, composed from
  the three models it crosses:

    envelopes = self._run_policies(envelope)                       -- Model/Policy.lean
    ids = self._pool_imap('store', self.store.write, envelopes, repeat(now))
    results = list(zip(envelopes, ids))                            -- Model/Edge.lean: what the client is told
    for env, id in results:                                        -- Model/QueueM.lean: what the queue machine does
        if not isinstance(id, BaseException):
            if self.relay and id not in self.active_ids: … spawn _attempt(id, env, 0)
        elif not isinstance(id, QueueError):
            raise id

  The call is a list of labels of the composed queue machine (a `write` per envelope the storage took,
  then a hand-off per stored envelope up to the first exception that is re-raised) and the result list
  the edge chooses its reply from. The writes run in greenlets of their own: in the machine each is a
  step of its own, and anything else may happen between two of them (`Proofs/C02.lean`, the composed section,
  quantifies over every such history).
-/
namespace Slimta.Ingress
open Slimta

/-- What `store.write` did with the k-th envelope. -/
inductive W
  | ok (id : Nat)
  | queueError (reply : Option Nat)
  | otherExc
deriving Repr, DecidableEq

def W.toWrite : W → Edge.Write
  | .ok _ => .ok
  | .queueError r => .queueError r
  | .otherExc => .otherExc

/-- The recipients of an envelope as the queue machine knows them: by their position in the message as the edge received it. -/
def rcptsOf (e : Policy.Env) : List Nat := e.rcpts.map Prod.fst

structure Call where
  envs : List Policy.Env      -- the envelopes `_run_policies` returned
  ws : List W                 -- what the storage did with each of them
  now : Nat
  nonNull : Bool              -- the sender is not ''
  relay : Bool                -- the queue has a relay (`self.relay`)

def writeLabels (now : Nat) (nn : Bool) : List Policy.Env → List W → List QM.Label
  | e :: es, .ok id :: ws => .write id now (rcptsOf e) nn :: writeLabels now nn es ws
  | _ :: es, _ :: ws => writeLabels now nn es ws
  | _, _ => []

/-- The loop over the results once every write is joined. -/
def handoffLabels : List W → List QM.Label
  | [] => []
  | .ok id :: ws => .activate id :: handoffLabels ws
  | .queueError _ :: ws => handoffLabels ws
  | .otherExc :: _ => []

def labels (c : Call) : List QM.Label :=
  writeLabels c.now c.nonNull c.envs c.ws ++ (if c.relay then handoffLabels c.ws else [])

/-- What `enqueue` returns to the edge (`none`: it raises). -/
def results (c : Call) : Option (List Edge.Res) := Edge.enqueue (c.ws.map W.toWrite)

def smtpCode (c : Call) : Nat := Edge.smtpSees (results c)
def wsgiCode (c : Call) : Nat := Edge.wsgiSees (results c)

/-- `Queue.enqueue(envelope)` for a policy chain. -/
def call (cfg : Policy.Cfg) (ps : List Policy.Pol) (e : Policy.Env) (ws : List W) (now : Nat) (nn relay : Bool) : Call :=
  { envs := Policy.runPolicies cfg ps e, ws := ws, now := now, nonNull := nn, relay := relay }

/-! ## The proxying queue in front of an SMTP relay

`ProxyQueue.enqueue` (slimta/queue/proxy.py) calls `relay._attempt(envelope, 0)` in the edge's own greenlet; with a
`StaticSmtpRelay` behind it what comes back is the result of Model/Relay.lean. `code i c`: the code of the reply the error object
for recipient `i` (class `c`) carries — whatever the next hop said, or what the relay made up for a failure of its own. -/

def relayOutOf (code : Nat → Relay.Cls → Nat) : Relay.Result → Edge.RelayOut
  | .table l => .perRcpt (l.zipIdx.map fun (c, i) => match c with | .ok => none | c => some (code i c))
  | .raised c => .raised (code 0 c)

/-- What the client of the edge sees when the message goes edge → ProxyQueue → SMTP relay → a next hop behaving as `s`. -/
def proxyHop (code : Nat → Relay.Cls → Nat) (cfg : Relay.Cfg) (s : Relay.Script) : Option (List Edge.Res) :=
  some (Edge.proxyEnqueue (relayOutOf code (Relay.attempt cfg s)))

/-! ## The HTTP hop: HttpRelay on the sending host, WsgiEdge + Queue on the receiving one

`WsgiEdge._enqueue_envelope` answers with `_build_http_response(reply)`: the status and an `X-Smtp-Reply` header carrying the code;
when `enqueue` raises, the edge's own exception handler answers a bare 500. `HttpRelayClient._process_response`
(Model/Relay.lean `httpAttempt`) classifies what it gets. -/

def wsgiResponse (r : Option (List Edge.Res)) : Relay.HttpOut :=
  match r with
  | some l => .response (Edge.wsgiStatus l) (some (Edge.smtpReply l))
  | none => .response 500 none

/-- What the HTTP relay reports for a message of `n` recipients when the storage of the receiving queue behaves as `ws`. -/
def httpHop (n : Nat) (ws : List Edge.Write) : Relay.Result := Relay.httpAttempt n (wsgiResponse (Edge.enqueue ws))

end Slimta.Ingress
