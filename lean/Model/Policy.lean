/-
  Model of Queue._run_policies (slimta/queue/__init__.py) and the built-in queue policies
  (slimta/policy/split.py, forward.py, headers.py) with Envelope.copy (deep copy).

  Objects have identity (`eid`); a deep copy gets a fresh identity, and with it fresh recipient
  list and header objects. Recipients are (slot, value): the slot is the position in the original
  envelope (ghost, never read), the value an opaque address id.
-/
namespace Slimta.Policy

inductive Hdr | date | msgid | received | other (k : Nat)
deriving Repr, DecidableEq

structure Env where
  eid : Nat
  sender : Nat
  body : Nat
  rcpts : List (Nat × Nat)
  hdrs : List Hdr
deriving Repr, DecidableEq

inductive Pol
  | split | domainSplit | forward (rules : List Nat) | addDate | addMsgId | addReceived | peel
deriving Repr, DecidableEq

/-- Library / configuration results the policies consult, as functions (oracles):
    `domKey v` = lower-cased domain of address `v` (`none`: no or empty domain);
    `subn rule v` = `re.subn(pattern, repl, v, count)` as `(new value, changes, new value non-empty)`. -/
structure Cfg where
  domKey : Nat → Option Nat
  subn : Nat → Nat → (Nat × Nat × Bool)

structure St where
  results : List Env
  next : Nat
deriving Repr

/-- `envelope.copy(new_rcpts)` with a non-empty fresh list. -/
def copyEnv (e : Env) (rcpts : List (Nat × Nat)) (next : Nat) : Env :=
  { e with eid := next, rcpts := rcpts }

/-- `RecipientSplit.apply` output list, allocating identities from `next`. -/
def splitCopies (e : Env) : List (Nat × Nat) → Nat → List Env
  | [], _ => []
  | r :: rs, next => copyEnv e [r] next :: splitCopies e rs (next + 1)

/-- `_get_domain_groups`: OrderedDict of groups in first-occurrence order, and the bad recipients. -/
def addToGroups (k : Nat) (r : Nat × Nat) : List (Nat × List (Nat × Nat)) → List (Nat × List (Nat × Nat))
  | [] => [(k, [r])]
  | (k', g) :: rest => if k' == k then (k', g ++ [r]) :: rest else (k', g) :: addToGroups k r rest

def domainGroups (cfg : Cfg) : List (Nat × Nat) → List (Nat × List (Nat × Nat)) × List (Nat × Nat)
    → List (Nat × List (Nat × Nat)) × List (Nat × Nat)
  | [], acc => acc
  | r :: rs, (groups, bad) =>
    match cfg.domKey r.2 with
    | some k => domainGroups cfg rs (addToGroups k r groups, bad)
    | none => domainGroups cfg rs (groups, bad ++ [r])

def copiesOf (e : Env) : List (List (Nat × Nat)) → Nat → List Env
  | [], _ => []
  | g :: gs, next => copyEnv e g next :: copiesOf e gs (next + 1)

/-- `Forward.apply` on one recipient: first rule whose result is non-empty with changes > 0. -/
def forwardOne (cfg : Cfg) (v : Nat) : List Nat → Nat
  | [] => v
  | rule :: rest =>
    let (nv, changes, nonEmpty) := cfg.subn rule v
    if nonEmpty && changes > 0 then nv else forwardOne cfg v rest

def hasHdr (h : Hdr) (l : List Hdr) : Bool := l.contains h

/-- `policy.apply(current)`: the (possibly mutated) current object, the returned list (if any and
    non-empty) and the allocator. -/
def apply (cfg : Cfg) (p : Pol) (e : Env) (next : Nat) : Env × Option (List Env) × Nat :=
  match p with
  | .split =>
    if e.rcpts.length ≤ 1 then (e, none, next)
    else (e, some (splitCopies e e.rcpts next), next + e.rcpts.length)
  | .domainSplit =>
    let (groups, bad) := domainGroups cfg e.rcpts ([], [])
    if groups.length + bad.length ≤ 1 then (e, none, next)
    else
      let lists := groups.map (·.2) ++ bad.map fun b => [b]
      (e, some (copiesOf e lists next), next + lists.length)
  | .forward rules =>
    ({ e with rcpts := e.rcpts.map fun (s, v) => (s, forwardOne cfg v rules) }, none, next)
  | .addDate => ({ e with hdrs := if hasHdr .date e.hdrs then e.hdrs else e.hdrs ++ [.date] }, none, next)
  | .addMsgId => ({ e with hdrs := if hasHdr .msgid e.hdrs then e.hdrs else e.hdrs ++ [.msgid] }, none, next)
  | .addReceived => ({ e with hdrs := .received :: e.hdrs }, none, next)
  | .peel =>
    -- a custom policy that keeps the first recipient in the input envelope and returns the input
    -- together with one copy holding the others
    match e.rcpts with
    | r :: r2 :: rs =>
      let e' := { e with rcpts := [r] }
      (e', some [e', copyEnv e (r2 :: rs) next], next + 1)
    | _ => (e, none, next)

/-- In-place mutation is visible through the `results` list. -/
def replaceObj (e : Env) : List Env → List Env
  | [] => []
  | x :: xs => if x.eid == e.eid then e :: xs else x :: replaceObj e xs

/-- `results.remove(current)` (identity comparison) -/
def removeObj (eid : Nat) : List Env → List Env
  | [] => []
  | x :: xs => if x.eid == eid then xs else x :: removeObj eid xs

/-- `recurse(current, i)` with `ps = queue_policies[i:]`. -/
def recurse (cfg : Cfg) : List Pol → Env → St → St
  | [], _, st => st
  | p :: ps, cur, st =>
    match apply cfg p cur st.next with
    | (cur', none, next') => recurse cfg ps cur' { results := replaceObj cur' st.results, next := next' }
    | (cur', some ret, next') =>
      let st1 : St := { results := removeObj cur'.eid (replaceObj cur' st.results) ++ ret, next := next' }
      ret.foldl (fun s env => recurse cfg ps env s) st1

/-- `Queue._run_policies(envelope)` -/
def runPolicies (cfg : Cfg) (ps : List Pol) (e : Env) : List Env :=
  (recurse cfg ps e { results := [e], next := e.eid + 1 }).results

end Slimta.Policy
