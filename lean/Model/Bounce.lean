import Model.Bytes
import Model.Envelope
/-
  Model of slimta/util/bytesformat.py (BytesFormat: `_parse_template`, `_format` in the modes `remove`
  and `ignore`) and of slimta/bounce/__init__.py (`Bounce._get_delivery_info`,
  `_get_substitution_table`, `_build_message`): the bytes a bounce message is made of, and what
  `Envelope.parse` / `flatten` (Model/Envelope.lean) then make of them.

  Text values (`str` in the code) are their UTF-8 bytes; the rendered recipient list is an input of the
  table (the code joins the addresses with `recipient_join` and encodes with `xmlcharrefreplace`; the
  join of ASCII addresses is `joinRcpts`).
-/
namespace Slimta.Bounce
open Slimta

inductive Part
  | lit (b : Bytes)
  | key (k : Bytes)
deriving Repr, DecidableEq

/-- bytes `\w` -/
def isWord (b : UInt8) : Bool := (48 ≤ b && b ≤ 57) || (65 ≤ b && b ≤ 90) || (97 ≤ b && b ≤ 122) || b == 95

/-- After a `{`: `(\w+)\}` — the key and what follows the closing brace. -/
def matchKey (r : Bytes) : Option (Bytes × Bytes) :=
  let k := r.takeWhile isWord
  if k.isEmpty then none
  else match r.dropWhile isWord with
    | 125 :: r' => some (k, r')
    | _ => none

def flushLit (lit : Bytes) : List Part := if lit.isEmpty then [] else [.lit lit]

/-- `_parse_template`: `re.finditer(br'\{(\w+)\}', template)`, literals in between. `fuel` ≥ length. -/
def parseGo : Nat → Bytes → Bytes → List Part
  | 0, _, lit => flushLit lit
  | _ + 1, [], lit => flushLit lit
  | fuel + 1, b :: r, lit =>
    if b == 123 then
      match matchKey r with
      | some (k, r') => flushLit lit ++ Part.key k :: parseGo fuel r' []
      | none => parseGo fuel r (lit ++ [b])
    else parseGo fuel r (lit ++ [b])

def parseTemplate (t : Bytes) : List Part := parseGo (t.length + 1) t []

/-- `_format` with keyword arguments only; `remove`: an unknown key vanishes, else it stays as `{key}`. -/
def format (remove : Bool) (tbl : Bytes → Option Bytes) : List Part → Bytes
  | [] => []
  | .lit b :: ps => b ++ format remove tbl ps
  | .key k :: ps =>
    (match tbl k with
     | some v => v
     | none => if remove then [] else [123] ++ k ++ [125]) ++ format remove tbl ps

def CRLF : Bytes := [13, 10]

def joinWith (sep : Bytes) : List Bytes → Bytes
  | [] => []
  | [x] => x
  | x :: y :: r => x ++ sep ++ joinWith sep (y :: r)

/-- `recipient_join.join(recipients)` with the default `'\r\n- '`. -/
def joinRcpts (rs : List Bytes) : Bytes := joinWith [13, 10, 45, 32] rs

def str (s : String) : Bytes := s.toUTF8.toList

/-- What `_get_delivery_info` needs. -/
structure Info where
  client : Option (Bytes × Bytes)     -- `envelope.client` non-empty: (name, ip), each defaulting to `unknown`
  host : Option Bytes                 -- `reply.address` (its first component when it is a tuple), if any
  code : Bytes
  message : Bytes

def deliveryInfo (i : Info) : Bytes :=
  joinWith CRLF
    ((match i.client with
      | some (n, ip) => [str "Received-From-MTA: dns; " ++ n ++ str " (" ++ ip ++ str ")"]
      | none => []) ++
     (match i.host with
      | some h => [str "Remote-MTA: dns; " ++ h]
      | none => []) ++
     [str "Diagnostic-Code: smtp; " ++ i.code ++ [32] ++ i.message])

structure Input where
  sender : Bytes
  rcpts : Bytes                 -- the rendered recipient list
  info : Info
  clientName : Bytes
  clientIp : Bytes
  protocol : Bytes
  boundary : Bytes
  headersOnly : Bool
  origHeader : Bytes            -- `envelope.flatten()`: header data ...
  origBody : Bytes              -- ... and message data

/-- `_get_substitution_table` -/
def table (x : Input) (k : Bytes) : Option Bytes :=
  if k == str "boundary" then some x.boundary
  else if k == str "sender" then some x.sender
  else if k == str "recipients" then some x.rcpts
  else if k == str "delivery_info" then some (deliveryInfo x.info)
  else if k == str "client_name" then some x.clientName
  else if k == str "client_ip" then some x.clientIp
  else if k == str "protocol" then some x.protocol
  else if k == str "content_type" then some (if x.headersOnly then str "text/rfc822-headers" else str "message/rfc822")
  else if k == str "code" then some x.info.code
  else if k == str "message" then some x.info.message
  else none

/-- `_build_message` up to `self.parse`: the bytes of the bounce message. -/
def payload (hdr ftr : List Part) (x : Input) : Bytes :=
  format true (table x) hdr ++ (x.origHeader ++ ((if x.headersOnly then [] else x.origBody) ++ format true (table x) ftr))

/-- ... and what the bounce envelope flattens to (header data, message data). -/
def build (hdr ftr : List Part) (x : Input) : Bytes × Bytes := Envelope.parseFlatten (payload hdr ftr x)

end Slimta.Bounce

namespace Slimta.Bounce

/-- `default_header_template` after its `\r?\n` -> `\r\n` substitution. -/
def defaultHeaderText : String :=
  "From: MAILER-DAEMON\r\nTo: {sender}\r\nSubject: Undelivered Mail Returned to Sender\r\nAuto-Submitted: auto-replied\r\nMIME-Version: 1.0\r\nContent-Type: multipart/report; report-type=delivery-status;\r\n    boundary=\"{boundary}\"\r\nContent-Transfer-Encoding: 7bit\r\n\r\nThis is a multi-part message in MIME format.\r\n\r\n--{boundary}\r\nContent-Type: text/plain\r\n\r\nDelivery failed for:\r\n- {recipients}\r\n\r\nDestination host responded:\r\n{code} {message}\r\n\r\n--{boundary}\r\nContent-Type: message/delivery-status\r\n\r\n{delivery_info}\r\n\r\n--{boundary}\r\nContent-Type: {content_type}\r\n\r\n"

def defaultFooterText : String := "\r\n--{boundary}--\r\n"

def defaultHdr : List Part := parseTemplate (str defaultHeaderText)
def defaultFtr : List Part := parseTemplate (str defaultFooterText)

end Slimta.Bounce
