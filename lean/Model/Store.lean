/-
  Model of the QueueStorage contract (slimta/queue/__init__.py docstrings) and of the two ways the
  backends keep delivered recipients: in place (slimta/queue/dict.py) and as an accumulated index
  list applied on `get` (slimta/diskstorage, slimta/redisstorage, slimta/cloudstorage).
-/
namespace Slimta.Store



structure Rec where
  sender : Nat
  content : Nat
  rcpts : List Nat          -- as written (accumulating backends) / current (in-place backend)
  delivered : List Nat      -- accumulated index list (accumulating backends only)
  attempts : Nat
  ts : Nat
  hasEnv : Bool := true     -- false: a redis hash recreated by an update after the message was removed
deriving Repr, DecidableEq

/-- `inplace`: dict. `accum`: disk, cloud. `redis`: like `accum`, except that HSET / HINCRBY on a key
    that does not exist create it (known finding: a removed id reappears in `load`). -/
inductive Kind | inplace | accum | redis
deriving Repr, DecidableEq

inductive Op
  | write (sender content : Nat) (rcpts : List Nat) (ts : Nat)
  | setTs (id : Nat) (ts : Nat)
  | incr (id : Nat)
  | deliver (id : Nat) (idxs : List Nat)
  | get (id : Nat)
  | remove (id : Nat)
  | load
deriving Repr, DecidableEq

inductive Out
  | id (i : Nat)
  | unit
  | attempts (n : Nat)
  | env (sender content : Nat) (rcpts : List Nat) (attempts : Nat)
  | listing (l : List (Nat × Nat))
  | missing                 -- KeyError / OSError / nothing there
deriving Repr, DecidableEq

structure St where
  recs : List (Nat × Rec)
  next : Nat
deriving Repr, DecidableEq

def init : St := { recs := [], next := 0 }

def lookup (i : Nat) : List (Nat × Rec) → Option Rec
  | [] => none
  | (j, r) :: rest => if j == i then some r else lookup i rest

def update (i : Nat) (f : Rec → Rec) : List (Nat × Rec) → List (Nat × Rec)
  | [] => []
  | (j, r) :: rest => if j == i then (j, f r) :: rest else (j, r) :: update i f rest

def erase (i : Nat) : List (Nat × Rec) → List (Nat × Rec)
  | [] => []
  | (j, r) :: rest => if j == i then rest else (j, r) :: erase i rest

/-- insertion into a descending list: `sorted(idxs, reverse=True)` -/
def insertDesc (x : Nat) : List Nat → List Nat
  | [] => [x]
  | y :: ys => if y ≤ x then x :: y :: ys else y :: insertDesc x ys

def sortDesc : List Nat → List Nat
  | [] => []
  | x :: xs => insertDesc x (sortDesc xs)

/-- `del recipients[i]` for each index in the given order. -/
def delSeq (idxs : List Nat) (l : List Nat) : List Nat := idxs.foldl (fun acc i => acc.eraseIdx i) l

/-- The recipients a `get` shows. -/
def visible (k : Kind) (r : Rec) : List Nat :=
  match k with
  | .inplace => r.rcpts
  | _ => delSeq r.delivered r.rcpts

def step (k : Kind) (s : St) : Op → St × Out
  | .write sender content rcpts ts =>
    ({ recs := s.recs ++ [(s.next, ⟨sender, content, rcpts, [], 0, ts, true⟩)], next := s.next + 1 }, .id s.next)
  | .setTs i ts =>
    match lookup i s.recs with
    | none => if k == .redis then ({ s with recs := s.recs ++ [(i, ⟨0, 0, [], [], 0, ts, false⟩)] }, .unit)
              else (s, .missing)
    | some _ => ({ s with recs := update i (fun r => { r with ts := ts }) s.recs }, .unit)
  | .incr i =>
    match lookup i s.recs with
    | none => if k == .redis then ({ s with recs := s.recs ++ [(i, ⟨0, 0, [], [], 1, 0, false⟩)] }, .attempts 1)
              else (s, .missing)
    | some r => ({ s with recs := update i (fun r => { r with attempts := r.attempts + 1 }) s.recs }, .attempts (r.attempts + 1))
  | .deliver i idxs =>
    match lookup i s.recs with
    | none => if k == .redis then ({ s with recs := s.recs ++ [(i, ⟨0, 0, [], sortDesc idxs, 0, 0, false⟩)] }, .unit)
              else (s, .missing)
    | some _ =>
      match k with
      | .inplace => ({ s with recs := update i (fun r => { r with rcpts := delSeq (sortDesc idxs) r.rcpts }) s.recs }, .unit)
      | _ => ({ s with recs := update i (fun r => { r with delivered := r.delivered ++ sortDesc idxs }) s.recs }, .unit)
  | .get i =>
    match lookup i s.recs with
    | none => (s, .missing)
    | some r => if r.hasEnv then (s, .env r.sender r.content (visible k r) r.attempts) else (s, .missing)
  | .remove i => ({ s with recs := erase i s.recs }, .unit)
  | .load => (s, .listing (s.recs.map fun (i, r) => (r.ts, i)))

def run (k : Kind) : St → List Op → St × List Out
  | s, [] => (s, [])
  | s, op :: ops =>
    let (s1, o) := step k s op
    let (s2, os) := run k s1 ops
    (s2, o :: os)

end Slimta.Store
