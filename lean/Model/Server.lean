import Model.Bytes
import Model.Data
import Model.Reply
/-
  Model of slimta/smtp/server.py (Server.handle and the _command_* methods), IO.recv_line /
  recv_command (slimta/smtp/io.py) and the transaction bookkeeping of SmtpSession
  (slimta/edge/smtp.py). Replies are reply codes; what the application's validators decide is a
  function from the callback number to a replacement code.
-/
namespace Slimta.Server

open Slimta

/-! ## reading from the connection -/

/-- `io.recv_buffer` plus what later `recv()` calls will return. -/
structure Stream where
  buf : Bytes
  segs : List Bytes
deriving Repr, DecidableEq

def Stream.flat (s : Stream) : Bytes := s.buf ++ s.segs.flatten

inductive Stop | wouldBlock | connectionLost
deriving Repr, DecidableEq

/-- `IO.recv_line()`: one `line_pattern` match at the head of the buffer, receiving more as needed. -/
def recvLine (buf : Bytes) : List Bytes → Except Stop (Bytes × Stream)
  | [] =>
    match Reply.matchLine buf with
    | some (l, r) => .ok (l, ⟨r, []⟩)
    | none => .error .wouldBlock
  | seg :: rest =>
    match Reply.matchLine buf with
    | some (l, r) => .ok (l, ⟨r, seg :: rest⟩)
    | none => if seg.isEmpty then .error .connectionLost else recvLine (buf ++ seg) rest

def isAlpha (b : Byte) : Bool := (65 ≤ b && b ≤ 90) || (97 ≤ b && b ≤ 122)
def upper (b : Byte) : Byte := if 97 ≤ b && b ≤ 122 then b - 32 else b

def rstripWs (l : Bytes) : Bytes := (l.reverse.dropWhile isWs).reverse

/-- `IO.recv_command()` on a received line: `command_pattern` / `command_arg_pattern`. -/
def parseCommand (line : Bytes) : Option (Bytes × Option Bytes) :=
  let name := line.takeWhile isAlpha
  let rest := line.dropWhile isAlpha
  if name.isEmpty then none
  else if rest.all isWs then some (name.map upper, none)
  else match rest with
    | [] => none
    | b :: _ =>
      if isWs b then
        let arg := rstripWs (rest.dropWhile isWs)
        -- `.` does not match LF (a line holds none) ; the argument is non-empty here
        some (name.map upper, some arg)
      else none

/-! ## command arguments -/

def lower (b : Byte) : Byte := if 65 ≤ b && b ≤ 90 then b + 32 else b

/-- `from_pattern` / `to_pattern`: keyword, colon, white space, `<`; returns what follows `<`. -/
def matchPrefix (kw : Bytes) (arg : Bytes) : Option Bytes :=
  if (arg.take kw.length).map lower == kw then
    match (arg.drop kw.length).dropWhile isWs with
    | 60 :: rest => some rest
    | _ => none
  else none

/-- `find_outside_quotes(arg, b'>', start)` relative to the text after `<`: `(address, rest after >)`.
    Inside a double-quoted run a backslash makes the next byte part of the run. -/
def splitAddrAux (quoted escaped : Bool) : Bytes → Option (Bytes × Bytes)
  | [] => none
  | b :: rest =>
    if !quoted && b == 62 then some ([], rest)
    else
      let q' := if !quoted then b == 34 else if escaped then true else if b == 92 then true else !(b == 34)
      let e' := quoted && !escaped && b == 92
      match splitAddrAux q' e' rest with
      | some (a, r) => some (b :: a, r)
      | none => none

def splitAddr (quoted : Bool) : Bytes → Option (Bytes × Bytes) := splitAddrAux quoted false

def isWord (b : Byte) : Bool := isDigit b || isAlpha b || b == 95
def isAlnum (b : Byte) : Bool := isDigit b || isAlpha b
def isKwChar (b : Byte) : Bool := isAlnum b || b == 45
def isValChar (b : Byte) : Bool := (0x21 ≤ b && b ≤ 0x3C) || (0x3E ≤ b && b ≤ 0x7F)

/-- `_gather_params`: `(KEYWORD, value?)` in order of appearance (a later duplicate wins in the
    dict). `prevWord`: whether the previous byte was a `\w` byte (for `\b`). -/
def gatherParams (fuel : Nat) (prevWord : Bool) (s : Bytes) : List (Bytes × Option Bytes) :=
  match fuel with
  | 0 => []
  | fuel + 1 =>
    match s with
    | [] => []
    | b :: rest =>
      if !prevWord && isAlnum b then
        let kw := (b :: rest).takeWhile isKwChar
        let after := (b :: rest).dropWhile isKwChar
        let lastWord := match kw.getLast? with | some c => isWord c | none => false
        match after with
        | 61 :: vrest =>
          let v := vrest.takeWhile isValChar
          if v.isEmpty then (kw.map upper, none) :: gatherParams fuel lastWord after
          else (kw.map upper, some v) ::
            gatherParams fuel (match v.getLast? with | some c => isWord c | none => false) (vrest.dropWhile isValChar)
        | _ => (kw.map upper, none) :: gatherParams fuel lastWord after
      else gatherParams fuel (isWord b) rest

def lookupParam (k : Bytes) (ps : List (Bytes × Option Bytes)) : Option (Option Bytes) :=
  (ps.reverse.find? fun p => p.1 == k).map (·.2)

def kwSIZE : Bytes := [83, 73, 90, 69]

/-- `int(params[b'SIZE'])`: `True` (keyword without value) is 1; digits only otherwise. -/
def sizeValue : Option Bytes → Option Nat
  | none => some 1
  | some v => if !v.isEmpty && v.all isDigit then some (v.foldl (fun a d => a * 10 + (d.toNat - 48)) 0) else none

/-! ## server state, callbacks, events -/

inductive Tri | unset | no | yes
deriving Repr, DecidableEq

def Tri.truthy : Tri → Bool
  | .yes => true
  | _ => false

structure Cfg where
  startTls : Bool           -- an SSL context is configured and TLS is not immediate
  auth : Bool               -- AUTH is offered (PLAIN, LOGIN)
  maxSize : Option Nat      -- SIZE extension parameter
  immediateTls : Bool := false
  custom : List Bytes := []   -- commands the handler object has a method for (upper-case names)
  session : Bool := false   -- the handler object is edge/smtp.py's SmtpSession: its RSET consults no validator and it has no NOOP / QUIT method, so these three never see a verdict
deriving Repr, DecidableEq

structure St where
  bannered : Bool := false
  ehloAs : Option Bytes := none
  haveMail : Tri := .unset
  haveRcpt : Tri := .unset
  authed : Bool := false
  encrypted : Bool := false
  extTls : Bool
  extAuth : Bool
  extSize : Option Nat
  -- SmtpSession
  envelope : Option (Bytes × List Bytes) := none
  sessEhlo : Option Bytes := none
  ncb : Nat := 0                          -- number of validator-visible callbacks made so far
  custom : List Bytes := []
  session : Bool := false
deriving Repr, DecidableEq

inductive Cb
  | banner | ehlo (a : Bytes) | helo (a : Bytes) | starttls | tlsHandshake
  | auth (authcid secret authzid : Bytes)
  | mail (addr : Bytes) (params : List (Bytes × Option Bytes)) | rcpt (addr : Bytes) (params : List (Bytes × Option Bytes))
  | data | haveData (content : Option Bytes) | rset | noop | quit
  | custom (name : Bytes) (arg : Option Bytes) | close
deriving Repr, DecidableEq

inductive Event
  | reply (code : Nat)
  | cb (c : Cb)
deriving Repr, DecidableEq

abbrev Verdicts := Nat → Option Nat

/-- What the loop in `handle` does next. -/
inductive Next
  | continue_        -- read the next command
  | closed           -- StopIteration: CLOSE callback was made, the session is over
  | aborted          -- an exception propagated out of `handle` (after `421` / `501`)
  | data             -- `354` accepted: read message data now
  | tls              -- `220` accepted: handshake now
  | auth (mech : Bytes) (initial : Option Bytes)   -- run the SASL exchange now
deriving Repr, DecidableEq

/-- Call a validator-visible callback: its verdict may replace the default code. -/
def callback (v : Verdicts) (s : St) (c : Cb) (dflt : Nat) : St × List Event × Nat :=
  let code := (v s.ncb).getD dflt
  ({ s with ncb := s.ncb + 1 }, [.cb c], code)

/-- `reply.send` + `_check_close_code`. -/
def finish (s : St) (evs : List Event) (code : Nat) : St × List Event × Next :=
  if code == 221 || code == 421 then (s, evs ++ [.reply code, .cb .close], .closed)
  else (s, evs ++ [.reply code], .continue_)

def utf8 (b : Bytes) : Bool := Reply.utf8Ok b

def kwFROM : Bytes := [102, 114, 111, 109, 58]
def kwTO : Bytes := [116, 111, 58]

def cmdIs (name : Bytes) (s : String) : Bool := name == s.toUTF8.toList

/-- `_command_EHLO` / `_command_HELO` -/
def stepHello (v : Verdicts) (s : St) (isE : Bool) (arg : Option Bytes) : St × List Event × Next :=
  if !s.bannered then (s, [.reply 503], .continue_)
  else match arg with
    | none => (s, [.reply 501], .continue_)
    | some a =>
      if a.isEmpty then (s, [.reply 501], .continue_)
      else if !utf8 a then (s, [.reply 501], .aborted)
      else
        let (s1, evs, code) := callback v s (if isE then .ehlo a else .helo a) 250
        let s2 := if code == 250 then
            { s1 with haveMail := .unset, haveRcpt := .unset, ehloAs := some a, envelope := none, sessEhlo := some a,
                      extTls := if isE then s1.extTls else false, extAuth := if isE then s1.extAuth else false,
                      extSize := if isE then s1.extSize else none }
          else s1
        finish s2 evs code

/-- `_command_STARTTLS` up to the handshake -/
def stepStartTls (v : Verdicts) (s : St) (arg : Option Bytes) : St × List Event × Next :=
  if !s.extTls then (s, [.reply 500], .continue_)
  else if arg.isSome then (s, [.reply 501], .continue_)
  else if s.ehloAs.isNone then (s, [.reply 503], .continue_)
  else
    let (s1, evs, code) := callback v s .starttls 220
    if code == 221 || code == 421 then (s1, evs ++ [.reply code, .cb .close], .closed)
    else if code == 220 then (s1, evs ++ [.reply 220], .tls)
    else (s1, evs ++ [.reply code], .continue_)

/-- `_command_AUTH` up to the SASL exchange -/
def stepAuth (s : St) (arg : Option Bytes) : St × List Event × Next :=
  if !s.extAuth then (s, [.reply 500], .continue_)
  else if s.ehloAs.isNone || s.authed || s.haveMail.truthy then (s, [.reply 503], .continue_)
  else match arg with
    | none => (s, [.reply 501], .continue_)
    | some a =>
      let mech := a.takeWhile fun b => isAlnum b || b == 95 || b == 45
      let rest := a.dropWhile fun b => isAlnum b || b == 95 || b == 45
      if mech.isEmpty then (s, [.reply 504], .continue_)
      else if rest.isEmpty then (s, [], .auth (mech.map upper) none)
      else match rest with
        | b :: _ => if isWs b then (s, [], .auth (mech.map upper) (some (rest.dropWhile isWs)))
                    else (s, [.reply 504], .continue_)
        | [] => (s, [.reply 504], .continue_)

/-- The accepted part of `_command_MAIL`: callback, reply, flag. -/
def mailAccepted (v : Verdicts) (s : St) (addr : Bytes) (params : List (Bytes × Option Bytes)) : St × List Event × Next :=
  let (s1, evs, code) := callback v s (.mail addr params) 250
  -- the flag is assigned after `_check_close_code`: a closing code leaves it alone
  let s2 := { s1 with haveMail := if code == 221 || code == 421 then s1.haveMail
                                  else if s1.haveMail.truthy || code == 250 then .yes else .no,
                      envelope := if code == 250 then some (addr, []) else s1.envelope }
  finish s2 evs code

/-- `_command_MAIL` -/
def stepMail (v : Verdicts) (s : St) (arg : Option Bytes) : St × List Event × Next :=
  match arg with
  | none => (s, [.reply 501], .continue_)
  | some a =>
    match matchPrefix kwFROM a with
    | none => (s, [.reply 501], .continue_)
    | some afterLt =>
      match splitAddr false afterLt with
      | none => (s, [.reply 501], .continue_)
      | some (addr, rest) =>
        if !utf8 addr then (s, [.reply 501], .aborted)
        else if s.ehloAs.isNone then (s, [.reply 503], .continue_)
        else if s.haveMail.truthy then (s, [.reply 503], .continue_)
        else
          let params := gatherParams (rest.length + 1) false rest
          match lookupParam kwSIZE params with
          | none => mailAccepted v s addr params
          | some sv =>
            match sizeValue sv with
            | none => (s, [.reply 501], .continue_)
            | some size =>
              match s.extSize with
              | none => (s, [.reply 504], .continue_)
              | some m => if size > m then (s, [.reply 552], .continue_) else mailAccepted v s addr params

/-- `_command_RCPT` -/
def stepRcpt (v : Verdicts) (s : St) (arg : Option Bytes) : St × List Event × Next :=
  match arg with
  | none => (s, [.reply 501], .continue_)
  | some a =>
    match matchPrefix kwTO a with
    | none => (s, [.reply 501], .continue_)
    | some afterLt =>
      match splitAddr false afterLt with
      | none => (s, [.reply 501], .continue_)
      | some (addr, rest) =>
        if !utf8 addr then (s, [.reply 501], .aborted)
        else if !s.haveMail.truthy then (s, [.reply 503], .continue_)
        else
          let params := gatherParams (rest.length + 1) false rest
          let (s1, evs, code) := callback v s (.rcpt addr params) 250
          let s2 := { s1 with haveRcpt := if code == 221 || code == 421 then s1.haveRcpt
                                          else if s1.haveRcpt.truthy || code == 250 then .yes else .no,
                              envelope := if code == 250 then s1.envelope.map (fun (f, r) => (f, r ++ [addr])) else s1.envelope }
          finish s2 evs code

/-- `_command_DATA` up to reading the message -/
def stepData (v : Verdicts) (s : St) (arg : Option Bytes) : St × List Event × Next :=
  if arg.isSome then (s, [.reply 501], .continue_)
  else if !s.haveMail.truthy || !s.haveRcpt.truthy then (s, [.reply 503], .continue_)
  else
    let (s1, evs, code) := callback v s .data 354
    if code == 221 || code == 421 then (s1, evs ++ [.reply code, .cb .close], .closed)
    else if code == 354 then (s1, evs ++ [.reply 354], .data)
    else (s1, evs ++ [.reply code], .continue_)

/-- `_command_RSET` -/
def stepRset (v : Verdicts) (s : St) (arg : Option Bytes) : St × List Event × Next :=
  if arg.isSome then (s, [.reply 501], .continue_)
  else
    let (s1, evs, code) := if s.session then (s, [Event.cb .rset], 250) else callback v s .rset 250
    let s2 := if code == 250 then { s1 with haveMail := .unset, haveRcpt := .unset } else s1
    finish { s2 with envelope := none } evs code

def stepNoop (v : Verdicts) (s : St) : St × List Event × Next :=
  let (s1, evs, code) := if s.session then (s, [Event.cb .noop], 250) else callback v s .noop 250
  finish s1 evs code

def stepQuit (v : Verdicts) (s : St) (arg : Option Bytes) : St × List Event × Next :=
  if arg.isSome then (s, [.reply 501], .continue_)
  else
    let (s1, evs, code) := if s.session then (s, [Event.cb .quit], 221) else callback v s .quit 221
    finish s1 evs code

/-- `_command_custom` for a command the handler object has a method for: the handler gets a private
    copy of the `500` reply, which it may change. -/
def stepCustom (v : Verdicts) (s : St) (name : Bytes) (arg : Option Bytes) : St × List Event × Next :=
  let (s1, evs, code) := callback v s (.custom name arg) 500
  finish s1 evs code

/-- One received command line (already parsed by `parseCommand`; `none` = no pattern matched). -/
def step (v : Verdicts) (s : St) (cmd : Option (Bytes × Option Bytes)) : St × List Event × Next :=
  match cmd with
  | none => (s, [.reply 500], .continue_)
  | some (name, arg) =>
    if cmdIs name "EHLO" then stepHello v s true arg
    else if cmdIs name "HELO" then stepHello v s false arg
    else if cmdIs name "STARTTLS" then stepStartTls v s arg
    else if cmdIs name "AUTH" then stepAuth s arg
    else if cmdIs name "MAIL" then stepMail v s arg
    else if cmdIs name "RCPT" then stepRcpt v s arg
    else if cmdIs name "DATA" then stepData v s arg
    else if cmdIs name "RSET" then stepRset v s arg
    else if cmdIs name "NOOP" then stepNoop v s
    else if cmdIs name "QUIT" then stepQuit v s arg
    else if s.custom.contains name then stepCustom v s name arg
    else
      -- `_command_custom`: the handler object has no such method: `500`
      (s, [.reply 500], .continue_)

/-- After the message data was read: HAVE_DATA, reply, forget the transaction. -/
def afterData (v : Verdicts) (s : St) (content : Option Bytes) : St × List Event × Next :=
  let dflt := if content.isNone then 552 else 250
  -- SmtpSession.HAVE_DATA answers MessageTooBig before it would ask the validators: no verdict is consumed then
  let (s1, evs, code) := if s.session && content.isNone then (s, [Event.cb (.haveData content)], dflt)
                         else callback v s (.haveData content) dflt
  -- MessageTooBig is answered by the session without consulting the validators: the verdict is ignored
  let code' := if content.isNone then 552 else code
  let s2 := { s1 with haveMail := .unset, haveRcpt := .unset, envelope := none }
  finish s2 evs code'

/-- After a successful TLS handshake: back to the just-greeted state. -/
def afterTls (s : St) : St × List Event :=
  ({ s with ehloAs := none, extTls := false, encrypted := true, haveMail := .unset, haveRcpt := .unset,
            envelope := none, sessEhlo := none }, [.cb .tlsHandshake])

def initSt (cfg : Cfg) : St :=
  { extTls := cfg.startTls, extAuth := cfg.auth, extSize := cfg.maxSize, encrypted := cfg.immediateTls, custom := cfg.custom, session := cfg.session }

/-- `_command_BANNER_` -/
def banner (v : Verdicts) (s : St) : St × List Event × Next :=
  let (s1, evs, code) := callback v s .banner 220
  let s2 := { s1 with bannered := code == 220 }
  finish s2 evs code

end Slimta.Server

namespace Slimta.Server
open Slimta

/-! ## the session loop -/

/-- Library results the AUTH exchange consults (oracles): `base64.b64decode` of a response line
    (`none` = binascii.Error) and pysasl's parse of a decoded PLAIN response
    (`authzid NUL authcid NUL secret`; `none` = AuthenticationError). -/
structure AuthOracle where
  b64 : Bytes → Option Bytes
  plain : Bytes → Option (Bytes × Bytes × Bytes)      -- (authcid, secret, authzid)

def mPLAIN : Bytes := [80, 76, 65, 73, 78]
def mLOGIN : Bytes := [76, 79, 71, 73, 78]

/-- One challenge: use the initial response if present, else send `334` and read a line.
    Result: decoded response, or the error reply code. -/
def challenge (ao : AuthOracle) (initial : Option Bytes) (st : Stream) :
    Except Stop (Except Nat Bytes × List Event × Stream) :=
  match initial with
  | some r =>
    if r == [42] then .ok (.error 501, [], st)
    else match ao.b64 r with
      | some d => .ok (.ok d, [], st)
      | none => .ok (.error 501, [], st)
  | none =>
    match recvLine st.buf st.segs with
    | .error e => .error e
    | .ok (line, st') =>
      if line == [42] then .ok (.error 501, [.reply 334], st')
      else match ao.b64 line with
        | some d => .ok (.ok d, [.reply 334], st')
        | none => .ok (.error 501, [.reply 334], st')

/-- `AuthSession.server_attempt` + the rest of `_command_AUTH`. -/
def authExchange (v : Verdicts) (ao : AuthOracle) (s : St) (mech : Bytes) (initial : Option Bytes) (st : Stream) :
    Except Stop (St × List Event × Next × Stream) :=
  if mech != mPLAIN && mech != mLOGIN then .ok (s, [.reply 504], .continue_, st)
  else if !s.encrypted then .ok (s, [.reply 504], .continue_, st)       -- both are plain-text mechanisms
  else
    let done (creds : Bytes × Bytes × Bytes) (evs : List Event) (st' : Stream) : St × List Event × Next × Stream :=
      let (s1, cevs, code) := callback v s (.auth creds.1 creds.2.1 creds.2.2) 235
      let s2 := { s1 with authed := code == 235 }
      let (s3, evs3, nx) := finish s2 (evs ++ cevs) code
      (s3, evs3, nx, st')
    if mech == mPLAIN then
      match challenge ao initial st with
      | .error e => .error e
      | .ok (.error code, evs, st') => .ok (s, evs ++ [.reply code], .continue_, st')
      | .ok (.ok blob, evs, st') =>
        match ao.plain blob with
        | none => .ok (s, evs ++ [.reply 501], .continue_, st')
        | some creds => .ok (done creds evs st')
    else
      match challenge ao initial st with
      | .error e => .error e
      | .ok (.error code, evs, st') => .ok (s, evs ++ [.reply code], .continue_, st')
      | .ok (.ok user, evs, st') =>
        match challenge ao none st' with
        | .error e => .error e
        | .ok (.error code, evs2, st'') => .ok (s, evs ++ evs2 ++ [.reply code], .continue_, st'')
        | .ok (.ok pass, evs2, st'') =>
          -- pysasl decodes both answers as UTF-8 once it has them: bytes that are not UTF-8 are malformed credentials (501)
          if !utf8 user || !utf8 pass then .ok (s, evs ++ evs2 ++ [.reply 501], .continue_, st'')
          else .ok (done (user, pass, user) (evs ++ evs2) st'')   -- pysasl: empty authzid = authcid

structure Run where
  events : List Event
  ending : String           -- "closed" | "aborted" | "wouldBlock" | "connectionLost" | "tls" (handshake needed)
  state : St
  rest : Stream
deriving Repr

/-- The command loop of `Server.handle` on one (clear-text or TLS) byte stream. `fuel` bounds the
    number of commands; every command consumes at least one byte. When a handshake is due the run
    stops with ending "tls": the caller continues on the TLS stream. -/
def loop (v : Verdicts) (ao : AuthOracle) : Nat → St → Stream → List Event → Run
  | 0, s, st, acc => ⟨acc, "fuel", s, st⟩
  | fuel + 1, s, st, acc =>
    match recvLine st.buf st.segs with
    | .error .wouldBlock => ⟨acc, "wouldBlock", s, st⟩
    | .error .connectionLost => ⟨acc, "connectionLost", s, st⟩
    | .ok (line, st1) =>
      let (s1, evs, nx) := step v s (parseCommand line)
      match nx with
      | .continue_ => loop v ao fuel s1 st1 (acc ++ evs)
      | .closed => ⟨acc ++ evs, "closed", s1, st1⟩
      | .aborted => ⟨acc ++ evs, "aborted", s1, st1⟩
      | .tls => ⟨acc ++ evs, "tls", s1, st1⟩
      | .data =>
        match Data.runLimited s1.extSize st1.buf st1.segs with
        | .error .connectionLost => ⟨acc ++ evs, "connectionLost", s1, st1⟩
        | .error _ => ⟨acc ++ evs, "wouldBlock", s1, st1⟩
        | .ok r =>
          let (s2, evs2, nx2) := afterData v s1 r.data
          match nx2 with
          | .closed => ⟨acc ++ evs ++ evs2, "closed", s2, ⟨r.recvBuffer, r.unread⟩⟩
          | _ => loop v ao fuel s2 ⟨r.recvBuffer, r.unread⟩ (acc ++ evs ++ evs2)
      | .auth mech initial =>
        match authExchange v ao s1 mech initial st1 with
        | .error .wouldBlock => ⟨acc ++ evs, "wouldBlock", s1, st1⟩
        | .error .connectionLost => ⟨acc ++ evs, "connectionLost", s1, st1⟩
        | .ok (s2, evs2, nx2, st2) =>
          match nx2 with
          | .closed => ⟨acc ++ evs ++ evs2, "closed", s2, st2⟩
          | _ => loop v ao fuel s2 st2 (acc ++ evs ++ evs2)

/-- A whole session: banner, then the loop; after each successful STARTTLS the next stream of
    `tlsStreams` (the decrypted bytes) replaces the socket and the receive buffer starts empty. -/
def serve (cfg : Cfg) (v : Verdicts) (ao : AuthOracle) (st : Stream) (tlsStreams : List (List Bytes)) : Run :=
  let s0 := initSt cfg
  let pre : List Event := if cfg.immediateTls then [.cb .tlsHandshake] else []
  let (s1, evs, nx) := banner v s0
  match nx with
  | .closed => ⟨pre ++ evs, "closed", s1, st⟩
  | _ =>
    let fuel := st.flat.length + (tlsStreams.map fun t => t.flatten.length).sum + 2
    let rec go (k : Nat) (s : St) (st : Stream) (tls : List (List Bytes)) (acc : List Event) : Run :=
      match k with
      | 0 => ⟨acc, "fuel", s, st⟩
      | k + 1 =>
        let r := loop v ao fuel s st acc
        if r.ending == "tls" then
          match tls with
          | [] => { r with ending := "tls-no-stream" }
          | t :: ts =>
            let (s2, evs2) := afterTls r.state
            go k s2 ⟨[], t⟩ ts (r.events ++ evs2)
        else r
    go (tlsStreams.length + 1) s1 st tlsStreams (pre ++ evs)

end Slimta.Server
