/-
  Model of the timetable / scheduler of slimta/queue/__init__.py (Queue._run, _check_ready,
  _wait_ready, _add_queued, _dequeue, _retry_later, _remove_stored, flush, enqueue's hand-off,
  _load_all / _wait_store) as a labelled transition system over virtual time. One label per
  atomic section of the code: the code between two points where a greenlet can yield, for a
  storage whose calls do not yield inside a section. Pools may be bounded: a `spawn` that blocks on
  a full pool is a task that is pending for longer (a pending task stands for "spawn called, not yet
  run", including the time the spawn waits for a slot and the time a `_dequeue` task spends in
  `store.get`); the one place where a blocking spawn splits an atomic section that matters is the
  scheduler loop, whose turn is therefore two labels: `sched` (wake up, `_check_ready`: cut the due
  entries, spawn their `_dequeue` tasks) and `sleep` (`_wait_ready`, with the clock read again) —
  everything else may happen in between.
-/
namespace Slimta.Sched

inductive Cause | sched | flush | enqueue
deriving Repr, DecidableEq

structure State where
  now : Nat := 0
  stored : List (Nat × Nat) := []       -- (id, timestamp) as the storage holds them
  queued : List (Nat × Nat) := []       -- the timetable: (timestamp, id), kept sorted by bisect.insort
  queuedIds : List Nat := []
  active : List Nat := []
  written : List Nat := []              -- enqueue: written to storage, not yet marked active
  deq : List (Nat × Cause) := []        -- pending _dequeue tasks and what spawned them
  inflight : List Nat := []             -- attempts handed to the relay, not yet returned
  retry : List Nat := []                -- attempts that ended in a transient failure: _retry_later is due
  retrying : List Nat := []             -- _retry_later has stored the new timestamp, the message is not released yet
                                        -- (set_timestamp / set_recipients_delivered of a yielding storage are in between)
  rem : List Nat := []                  -- _remove_stored is due
  asleep : Option (Option Nat) := none  -- scheduler loop: none = runnable, some t = in wake.wait(t - now)
  turn : Bool := false                  -- the loop is between `_check_ready` and `_wait_ready` (its spawns may be waiting for a pool slot)
  wake : Bool := false                  -- the wake Event's flag
  poked : Bool := false                 -- flush(): wake.set(); wake.clear() — wakes a waiting scheduler, leaves the flag down
  known : List Nat := []                -- ids this queue has been told about (enqueue / load / wait)
  log : List (Nat × Nat × Nat × Cause) := []   -- attempts handed to the relay: (id, time, stored timestamp, cause)
deriving Repr, DecidableEq

inductive Label
  | write (id : Nat) (ts : Nat)       -- enqueue: store.write returned the new id; ts = the time enqueue() was entered
  | activate (id : Nat)               -- enqueue: the id is marked active and its first attempt spawned
  | announce (id : Nat) (ts : Nat)    -- load() / wait() yields (ts, id): _add_queued
  | tick (dt : Nat)                   -- time passes
  | sched                             -- the scheduler loop (wakes up and) runs _check_ready: due entries become _dequeue tasks
  | sleep                             -- the loop reaches _wait_ready: sleeps until the first remaining timestamp, for ever, or not at all
  | dequeue (id : Nat) (c : Cause)    -- a pending _dequeue task gets its store.get answer and goes on
  | done (id : Nat) (ok : Bool)       -- the relay returns: ok = the message leaves the queue; else transient failure
  | retry (id : Nat) (w : Option Nat) -- _retry_later up to store.set_timestamp: `none` = the backoff function gave up; `some t` = the due time it
                                      -- chose (time of the call + its answer), now in storage
  | requeue (id : Nat)                -- the end of _retry_later: active_ids.discard, _add_queued((when, id))
  | remove (id : Nat)                 -- _remove_stored
  | poke                              -- flush() begins: wake.set(); wake.clear() — a waiting scheduler loop is woken, the flag ends down
  | flush                             -- flush() has the lock: it takes every entry out of the timetable (their _dequeue tasks follow)
deriving Repr, DecidableEq

/-- bisect.insort (insort_right) on tuples -/
def lt (a b : Nat × Nat) : Bool := a.1 < b.1 || (a.1 == b.1 && a.2 < b.2)

def insort (e : Nat × Nat) : List (Nat × Nat) → List (Nat × Nat)
  | [] => [e]
  | x :: xs => if lt e x then e :: x :: xs else x :: insort e xs

def tsOf (s : State) (id : Nat) : Option Nat := (s.stored.find? (·.1 == id)).map (·.2)

/-- `_add_queued` -/
def addQueued (s : State) (ts id : Nat) : State :=
  if s.queuedIds.contains id || s.active.contains id then s
  else { s with queued := insort (ts, id) s.queued, queuedIds := id :: s.queuedIds, wake := true }

def without (l : List Nat) (id : Nat) : List Nat := l.filter (· != id)

/-- The hand-off of a message to the relay (`active_ids.add`, spawn `_attempt`). -/
def handOff (s : State) (id : Nat) (c : Cause) : State :=
  { s with active := id :: s.active, inflight := id :: s.inflight,
           log := (id, s.now, (tsOf s id).getD 0, c) :: s.log }

def schedEnabled (s : State) : Bool :=
  match s.asleep with
  | none => true
  | some none => s.wake || s.poked
  | some (some t) => s.wake || s.poked || t ≤ s.now

/-- Waking up (`wake.clear()` if the loop was waiting) and `_check_ready(now)`: everything due leaves
    the timetable for a `_dequeue` task each. -/
def schedCut (s : State) : State :=
  let due := s.queued.takeWhile (fun e => e.1 ≤ s.now)
  let rest := s.queued.dropWhile (fun e => e.1 ≤ s.now)
  let s1 := if due.isEmpty then s
    else { s with queued := rest, queuedIds := rest.map (·.2), deq := s.deq ++ due.map (fun e => (e.2, Cause.sched)) }
  { s1 with asleep := none, turn := true, wake := if s.asleep.isSome then false else s.wake, poked := false }

/-- `_wait_ready(time.time())`: nothing queued: wait for the wake event; first entry in the future: wait
    until then; first entry due (it arrived while the spawns were waiting): go round again at once. -/
def schedSleep (s : State) : State :=
  match s.queued.head? with
  | none => { s with asleep := some none, turn := false }
  | some e => if s.now < e.1 then { s with asleep := some (some e.1), turn := false } else { s with asleep := none, turn := false }

def step (s : State) : Label → Option State
  | .write id ts =>
    if s.known.contains id || (tsOf s id).isSome || s.now < ts then none
    else some { s with stored := (id, ts) :: s.stored, written := id :: s.written, known := id :: s.known }
  | .activate id =>
    if s.written.contains id then
      let s1 := { s with written := without s.written id }
      some (if s1.active.contains id then s1 else handOff s1 id .enqueue)
    else none
  | .announce id ts =>
    -- the storage reports a message it holds. A message this queue has not heard of yet comes with the timestamp the
    -- storage holds for it; an announcement of a known message may be stale (Redis: the entry pushed when it was written)
    if s.stored.contains (id, ts) || (s.known.contains id && (tsOf s id).isSome) then
      some (addQueued { s with known := if s.known.contains id then s.known else id :: s.known } ts id)
    else none
  | .tick dt => some { s with now := s.now + dt }
  | .sched => if !s.turn && schedEnabled s then some (schedCut s) else none
  | .sleep => if s.turn then some (schedSleep s) else none
  | .dequeue id c =>
    if s.deq.contains (id, c) then
      let s1 := { s with deq := s.deq.erase (id, c) }
      some (if (tsOf s1 id).isNone then s1          -- store.get: KeyError
            else if s1.active.contains id then s1
            else handOff s1 id c)
    else none
  | .done id ok =>
    if s.inflight.contains id then
      let s1 := { s with inflight := without s.inflight id }
      some (if ok then { s1 with rem := id :: s1.rem } else { s1 with retry := id :: s1.retry })
    else none
  | .retry id w =>
    if s.retry.contains id then
      let s1 := { s with retry := without s.retry id }
      match w with
      | none => some { s1 with rem := id :: s1.rem }        -- too many retries: the message leaves the queue
      | some when =>
        some { s1 with stored := s1.stored.map (fun e => if e.1 == id then (id, when) else e), retrying := id :: s1.retrying }
    else none
  | .requeue id =>
    if s.retrying.contains id then
      match tsOf s id with
      | some when =>
        some (addQueued { s with retrying := without s.retrying id, active := without s.active id } when id)
      | none => none
    else none
  | .remove id =>
    if s.rem.contains id then
      some { s with rem := without s.rem id, stored := s.stored.filter (·.1 != id),
                    queuedIds := without s.queuedIds id, active := without s.active id }
    else none
  | .poke => some { s with wake := false, poked := s.poked || s.asleep.isSome }
  | .flush =>
    some { s with deq := s.deq ++ s.queued.map (fun e => (e.2, Cause.flush)), queued := [], queuedIds := [] }

def run (s : State) : List Label → Option State
  | [] => some s
  | l :: ls => match step s l with
    | some s' => run s' ls
    | none => none

end Slimta.Sched
