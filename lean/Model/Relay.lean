/-
  Model of one delivery attempt of slimta/relay/smtp/client.py (SmtpRelayClient._run / _handshake /
  _deliver), slimta/relay/smtp/lmtpclient.py, SmtpRelayError.factory, and of the result
  classification of slimta/relay/pipe.py and slimta/relay/http.py.

  The downstream server is a script: what it does at each stage.
-/
namespace Slimta.Relay

/-- What the server does when a reply is due. -/
inductive Out
  | code (c : Nat)     -- a well-formed reply with this code
  | bad                -- a line that is not a reply (BadReply), incl. a numeric code outside [1-5]xx
  | close              -- the connection is closed / reset
  | stall              -- nothing arrives before the applicable timeout
deriving Repr, DecidableEq

inductive Cls | ok | perm | temp
deriving Repr, DecidableEq

inductive Result
  | table (l : List Cls)       -- per recipient, in envelope order
  | raised (c : Cls)           -- PermanentRelayError / TransientRelayError for the whole message (never `ok`)
deriving Repr, DecidableEq

inductive Connect | ok | refused | timeout
deriving Repr, DecidableEq

structure Script where
  connect : Connect := .ok
  banner : Out := .code 220
  ehlo : Out := .code 250
  helo : Out := .code 250
  pipelining : Bool := true
  offersTls : Bool := false
  eightBit : Bool := true
  smtputf8 : Bool := true
  starttls : Out := .code 220
  ehlo2 : Out := .code 250
  auth : Out := .code 235
  mail : Out := .code 250
  rcpts : List Out := []
  data : Out := .code 354
  eod : Out := .code 250                 -- SMTP: the reply to the message data
  eodPer : List Out := []                -- LMTP: one reply per accepted recipient
  rset : Out := .code 250
deriving Repr

structure Cfg where
  lmtp : Bool := false
  tlsRequired : Bool := false
  credentials : Bool := false
  body8bit : Bool := false
  hasEncoder : Bool := false
  utf8Addr : Bool := false          -- the sender or a recipient address is not ASCII
deriving Repr

def isError (c : Nat) : Bool := c / 100 == 4 || c / 100 == 5
def factory (c : Nat) : Cls := if c / 100 == 5 then .perm else .temp

/-- Reading one reply: the code; `none` = bad reply, disconnect or stall, each of which ends the
    attempt with a transient error (BadReply / ConnectionLost -> 421; Timeout -> 421 timed out). -/
def readCode : Out → Option Nat
  | .code c => some c
  | _ => none

def readCodes : List Out → Option (List Nat)
  | [] => some []
  | o :: rest =>
    match readCode o, readCodes rest with
    | some c, some cs => some (c :: cs)
    | _, _ => none

/-- A command whose error reply aborts the attempt with that reply's class: `none` = go on. -/
def mustSucceed (o : Out) : Option Result :=
  match readCode o with
  | none => some (.raised .temp)
  | some c => if isError c then some (.raised (factory c)) else none

/-- `_handshake`: `none` = completed. -/
def handshake (cfg : Cfg) (s : Script) : Option Result :=
  match mustSucceed s.banner with
  | some r => some r
  | none =>
    let afterHello : Option Result :=
      if cfg.lmtp then mustSucceed s.ehlo
      else
        match readCode s.ehlo with
        | none => some (.raised .temp)
        | some c =>
          let hello : Option Result :=
            if isError c then (if c == 500 then mustSucceed s.helo else some (.raised (factory c))) else none
          match hello with
          | some r => some r
          | none =>
            if cfg.tlsRequired || (s.offersTls && !(isError c)) then
              match readCode s.starttls with
              | none => some (.raised .temp)
              | some t =>
                if isError t && cfg.tlsRequired then some (.raised (factory t))
                else mustSucceed s.ehlo2
            else none
    match afterHello with
    | some r => some r
    | none => if cfg.credentials then mustSucceed s.auth else none

/-- `_fail`: a failure `e` of the whole message; a recipient without a reply of its own gets `e`. Then
    `kinds = set(isinstance(value, PermanentRelayError) for value in rcpt_results.values())`: one kind for everybody (all
    permanent, or all transient): `e` itself is raised — also when every recipient had a reply of its own of the OTHER kind,
    which happens only when MAIL was refused and the pipelined RCPTs were answered all the same (what a server says to RCPT
    after it refused the sender is no verdict about the recipient); two kinds: the per-recipient table is returned. -/
def fail (own : List (Option Cls)) (e : Cls) : Result :=
  let filled := own.map fun o => o.getD e
  if filled.all (· == .perm) || filled.all (· != .perm) then .raised e else .table filled

def ownClasses (rcpts : List Nat) : List (Option Cls) :=
  rcpts.map fun c => if isError c then some (factory c) else none

/-- `_check_replies`, given the replies to MAIL, each RCPT and DATA: `inl` = the attempt's result
    (a failure), `inr` = per-recipient classes so far. -/
def checkReplies (mail : Nat) (rcpts : List Nat) (data : Nat) : Result ⊕ List Cls :=
  if isError mail then .inl (fail (ownClasses rcpts) (factory mail))
  else if rcpts.all isError then .inl (fail (ownClasses rcpts) (factory (rcpts.headD 550)))
  else if isError data then .inl (fail (ownClasses rcpts) (factory data))
  else .inr (rcpts.map fun c => if isError c then factory c else .ok)

/-- LMTP: the per-recipient end-of-data replies go, in order, to the accepted recipients. -/
def mergeLmtp : List Cls → List Nat → List Cls
  | [], _ => []
  | .ok :: ps, e :: es => (if isError e then factory e else .ok) :: mergeLmtp ps es
  | .ok :: ps, [] => .temp :: mergeLmtp ps []
  | p :: ps, es => p :: mergeLmtp ps es

/-- `_deliver` for one envelope with `n = s.rcpts.length` recipients. -/
def deliver (cfg : Cfg) (s : Script) : Result :=
  if (!s.eightBit && cfg.body8bit && !cfg.hasEncoder) || (cfg.utf8Addr && !s.smtputf8) then .raised .perm   -- 554 Conversion not allowed / 553 Address requires SMTPUTF8
  else
    match readCode s.mail with
    | none => .raised .temp
    | some mail =>
      -- without PIPELINING a refused sender aborts before any RCPT is sent
      if !s.pipelining && isError mail then .raised (factory mail)
      else
        match readCodes s.rcpts with
        | none => .raised .temp
        | some rcpts =>
          match readCode s.data with
          | none => .raised .temp
          | some data =>
            match checkReplies mail rcpts data with
            | .inl r => r
            | .inr per =>
              if cfg.lmtp then
                let accepted := per.filter (· == .ok)
                match readCodes (s.eodPer.take accepted.length) with
                | none => .raised .temp
                | some eods => .table (mergeLmtp per eods)
              else
                match readCode s.eod with
                | none => .raised .temp
                | some e => if isError e then fail (ownClasses rcpts) (factory e) else .table per

/-- One whole attempt: connect, handshake, deliver. -/
def attempt (cfg : Cfg) (s : Script) : Result :=
  match s.connect with
  | .refused => .raised .temp          -- 451 Connection failed
  | .timeout => .raised .temp          -- 421 timed out
  | .ok =>
    match handshake cfg s with
    | some e => e
    | none => deliver cfg s

/-! ## pipe and HTTP relays -/

/-- `PipeRelay`: exit status 0 = delivered; otherwise permanent iff the output starts with an
    enhanced status code `5.x.x `, else transient; a timeout is transient. -/
inductive PipeOut | exit0 | fail5xx | failOther | timeout | killed
deriving Repr, DecidableEq

def pipeCls : PipeOut → Cls
  | .exit0 => .ok
  | .fail5xx => .perm
  | .failOther => .temp
  | .timeout => .temp
  | .killed => .temp          -- the program died from a signal (negative returncode): not a delivery

/-- per-recipient mode: a table; single mode: the first recipient's process decides the message. -/
def pipeAttempt (perRecipient : Bool) (outs : List PipeOut) : Result :=
  if perRecipient then .table (outs.map pipeCls)
  else match outs.head? with
    | some .exit0 => .table (outs.map fun _ => .ok)
    | some o => .raised (pipeCls o)
    | none => .table []

/-- `HttpRelay`: status 2xx = delivered; otherwise the X-Smtp-Reply header code decides if there
    is one; without it a 4xx status (the request is at fault) is permanent, anything else
    transient; connection failure / timeout = transient. `hdr`: the code of the X-Smtp-Reply header. -/
inductive HttpOut | response (status : Nat) (hdr : Option Nat) | refused | timeout
deriving Repr, DecidableEq

def httpAttempt (n : Nat) : HttpOut → Result
  | .refused => .raised .temp
  | .timeout => .raised .temp
  | .response status hdr =>
    if status / 100 == 2 then .table (List.replicate n .ok)
    else match hdr with
      | some c => .raised (factory c)
      | none => if status / 100 == 4 then .raised .perm else .raised .temp

end Slimta.Relay
