import Model.Bytes
/-
  Model of slimta/util/proxyproto.py (ProxyProtocolV1, ProxyProtocolV2, ProxyProtocol).
-/
namespace Slimta.Proxy

open Slimta

/-- A socket as seen through `recv_into`: the bytes still to come and, per call, the most the
    kernel hands out (`short`; when exhausted every call is filled as far as data allows). -/
structure Sock where
  stream : Bytes
  short : List Nat
deriving Repr, DecidableEq

/-- `sock.recv_into(where, n)` for `n ≥ 1`: `none` = EOF (returned 0). -/
def recv (s : Sock) (n : Nat) : Option (Bytes × Sock) :=
  if s.stream.isEmpty then none
  else
    let lim := match s.short with
      | [] => n
      | k :: _ => max 1 (min k n)
    some (s.stream.take lim, { stream := s.stream.drop lim, short := s.short.drop 1 })

theorem recv_length {s s' : Sock} {n : Nat} {got : Bytes} (hn : 0 < n) (h : recv s n = some (got, s')) :
    0 < got.length ∧ got.length ≤ n ∧ s.stream = got ++ s'.stream := by
  unfold recv at h
  split at h
  · simp at h
  · rename_i hne
    simp at h
    obtain ⟨rfl, rfl⟩ := h
    have hpos : 0 < s.stream.length := by
      cases hs : s.stream with
      | nil => simp [hs] at hne
      | cons a b => simp
    refine ⟨?_, ?_, by simp⟩
    · simp only [List.length_take]
      split <;> omega
    · simp only [List.length_take]
      split <;> omega

/-- `while len(read) < target: recv_into(where, target - len(read))`; `none` = EOF assertion. -/
def readN (target : Nat) (read : Bytes) (s : Sock) : Option (Bytes × Sock) :=
  if h : read.length < target then
    match hr : recv s (target - read.length) with
    | none => none
    | some (got, s') =>
      have : 0 < got.length := (recv_length (by omega) hr).1
      readN target (read ++ got) s'
  else some (read, s)
termination_by target - read.length
decreasing_by simp; omega

def endsCR (b : Bytes) : Bool := b.getLast? == some 13
def endsCRLF (b : Bytes) : Bool := endsWith b CRLF

/-- Second loop of `__read_pp_line`: 1 or 2 bytes at a time up to 107, stop after CRLF. -/
def readLineLoop (read : Bytes) (s : Sock) : Option (Bytes × Sock) :=
  if h : read.length < 107 then
    let tryRead := min (107 - read.length) (if endsCR read then 1 else 2)
    match hr : recv s tryRead with
    | none => none
    | some (got, s') =>
      have : 0 < got.length := (recv_length (by simp [tryRead]; split <;> omega) hr).1
      let read' := read ++ got
      if endsCRLF read' then some (read', s') else readLineLoop read' s'
  else some (read, s)
termination_by 107 - read.length
decreasing_by simp; omega

/-- `__read_pp_line(sock, initial)` -/
def readV1Line (initial : Bytes) (s : Sock) : Option (Bytes × Sock) :=
  match readN 8 initial s with
  | none => none
  | some (read, s') => readLineLoop read s'

/-! ### v1 line parsing -/

/-- `bytes.split(b' ')` -/
def splitSP : Bytes → List Bytes
  | [] => [[]]
  | b :: rest =>
    if b == 32 then [] :: splitSP rest
    else match splitSP rest with
      | [] => [[b]]
      | p :: ps => (b :: p) :: ps

inductive Family | inet | inet6
deriving Repr, DecidableEq

/-- An address as handed to `EdgeServer.handle`: `(None, None)`, `(ip text, port)` or a UNIX path. -/
inductive Addr
  | none
  | ip (text : Bytes) (port : Nat)
  | unix (path : Bytes)
deriving Repr, DecidableEq

def decVal (ds : Bytes) : Nat := ds.foldl (fun acc d => acc * 10 + (d.toNat - 48)) 0

/-- `__get_pp_port`: ASCII digits only (at least one), value at most 65535. -/
def parsePort (p : Bytes) : Option Nat :=
  if !p.isEmpty && p.all isDigit then
    let v := decVal p
    if v ≤ 65535 then some v else none
  else none

/-- IP text -> normalised text, as `inet_ntop(family, inet_pton(family, text.decode('ascii')))`;
    `none` when the library rejects the text. An oracle: theorems hold for every such function. -/
abbrev IpOracle := Family → Bytes → Option Bytes

def proxyPrefix : Bytes := [80, 82, 79, 88, 89, 32]           -- "PROXY "
def kwUNKNOWN : Bytes := [85, 78, 75, 78, 79, 87, 78]
def kwTCP4 : Bytes := [84, 67, 80, 52]
def kwTCP6 : Bytes := [84, 67, 80, 54]

/-- `parse_pp_line`; `none` = AssertionError. -/
def parseV1 (ipo : IpOracle) (line : Bytes) : Option (Addr × Addr) :=
  if proxyPrefix.isPrefixOf line && endsCRLF line then
    let body := (line.drop 6).take (line.length - 8)
    match splitSP body with
    | [] => none
    | p0 :: ps =>
      if p0 == kwUNKNOWN then some (.none, .none)
      else
        let fam? : Option Family := if p0 == kwTCP4 then some .inet else if p0 == kwTCP6 then some .inet6 else none
        match fam?, ps with
        | some fam, [a1, a2, p1, p2] =>
          match ipo fam a1, parsePort p1, ipo fam a2, parsePort p2 with
          | some s, some sp, some d, some dp => some (.ip s sp, .ip d dp)
          | _, _, _, _ => none
        | _, _ => none
  else none

/-! ### v2 -/

def sigV2 : Bytes := [13, 10, 13, 10, 0, 13, 10, 81, 85, 73, 84, 10]

def be16 (a b : Byte) : Nat := a.toNat * 256 + b.toNat

/-- Decimal digits of a byte value (as `inet_ntop` prints an octet). -/
def dec3 (x : Byte) : Bytes :=
  let n := x.toNat
  if n < 10 then [UInt8.ofNat (48 + n)]
  else if n < 100 then [UInt8.ofNat (48 + n / 10), UInt8.ofNat (48 + n % 10)]
  else [UInt8.ofNat (48 + n / 100), UInt8.ofNat (48 + n / 10 % 10), UInt8.ofNat (48 + n % 10)]

def dotted (a : Bytes) : Bytes :=
  match a with
  | [x0, x1, x2, x3] => dec3 x0 ++ [46] ++ dec3 x1 ++ [46] ++ dec3 x2 ++ [46] ++ dec3 x3
  | _ => []

def rstripNul (b : Bytes) : Bytes := (b.reverse.dropWhile (· == 0)).reverse

inductive Outcome
  | proceed (src : Addr)
  | drop
deriving Repr, DecidableEq

/-- `process_pp_v2` + the `try/except` of `handle`. `ntop6` is the IPv6 text oracle. -/
def processV2 (ntop6 : Bytes → Bytes) (initial : Bytes) (s : Sock) : Outcome × Sock :=
  match readN 16 initial s with
  | none => (.proceed .none, { s with stream := [], short := [] })      -- EOF while reading: everything consumed
  | some (hdr, s1) =>
    if hdr.take 12 != sigV2 then (.proceed .none, s1)
    else
      let vc := hdr.getD 12 0
      let fp := hdr.getD 13 0
      if vc &&& 0xf0 != 0x20 then (.proceed .none, s1)
      else
        let cmd := vc &&& 0x0f
        if cmd != 0 && cmd != 1 then (.proceed .none, s1)
        else
        let alen := be16 (hdr.getD 14 0) (hdr.getD 15 0)
        match readN alen [] s1 with
        | none => (.proceed .none, { s1 with stream := [], short := [] })
        | some (ad, s2) =>
          let fam := fp &&& 0xf0
          let res : Option Addr :=
            if fam == 0x10 then
              if ad.length < 12 then none
              else some (.ip (dotted (ad.take 4)) (be16 (ad.getD 8 0) (ad.getD 9 0)))
            else if fam == 0x20 then
              if ad.length < 36 then none
              else some (.ip (ntop6 (ad.take 16)) (be16 (ad.getD 32 0) (ad.getD 33 0)))
            else if fam == 0x30 then
              if ad.length < 216 then none
              else some (.unix (rstripNul (ad.take 108)))
            else some .none
          match res with
          | none => (.proceed .none, s2)
          | some a => if cmd == 0 then (.drop, s2) else (.proceed a, s2)

/-- `ProxyProtocolV1.handle` / the v1 branch: read the line, parse, map failure to the invalid
    address. -/
def processV1 (ipo : IpOracle) (initial : Bytes) (s : Sock) : Outcome × Sock :=
  match readV1Line initial s with
  | none => (.proceed .none, { s with stream := [], short := [] })
  | some (line, s') =>
    match parseV1 ipo line with
    | some (src, _) => (.proceed src, s')
    | none => (.proceed .none, s')

def handleV1 (ipo : IpOracle) (s : Sock) : Outcome × Sock := processV1 ipo [] s
def handleV2 (ntop6 : Bytes → Bytes) (s : Sock) : Outcome × Sock := processV2 ntop6 [] s

/-- `ProxyProtocol.handle`: peek 8 bytes, dispatch. -/
def handle (ipo : IpOracle) (ntop6 : Bytes → Bytes) (s : Sock) : Outcome × Sock :=
  match readN 8 [] s with
  | none => (.proceed .none, { s with stream := [], short := [] })
  | some (initial, s1) =>
    if proxyPrefix.isPrefixOf initial then processV1 ipo initial s1
    else if initial == sigV2.take 8 then processV2 ntop6 initial s1
    else (.proceed .none, s1)

end Slimta.Proxy
