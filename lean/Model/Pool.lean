/-
  Model of slimta/util/deque.py (BlockingDeque) and slimta/relay/pool.py (RelayPool,
  RelayPoolClient.poll) together with the client loop shared by SmtpRelayClient._run and
  HttpRelayClient._run, as a labelled transition system: one label per atomic section (code
  between two points where a greenlet can yield).
-/
namespace Slimta.Pool

/-! ## BlockingDeque: a deque plus a semaphore that counts its items -/

structure BDeque where
  items : List Nat := []
  sema : Nat := 0
deriving Repr, DecidableEq

inductive DOp
  | append (x : Nat) | appendleft (x : Nat) | extend (xs : List Nat) | extendleft (xs : List Nat)
  | pop | popleft | remove (x : Nat) | clear
deriving Repr, DecidableEq

inductive DOut
  | unit | val (x : Nat) | wouldBlock | indexError | valueError
deriving Repr, DecidableEq

/-- One call. `wouldBlock`: the semaphore is at 0, the caller waits (state unchanged). -/
def BDeque.step (d : BDeque) : DOp → BDeque × DOut
  | .append x => ({ items := d.items ++ [x], sema := d.sema + 1 }, .unit)
  | .appendleft x => ({ items := x :: d.items, sema := d.sema + 1 }, .unit)
  -- extend/extendleft release once per item by which the length grew
  | .extend xs => ({ items := d.items ++ xs, sema := d.sema + ((d.items ++ xs).length - d.items.length) }, .unit)
  | .extendleft xs =>
    ({ items := xs.reverse ++ d.items, sema := d.sema + ((xs.reverse ++ d.items).length - d.items.length) }, .unit)
  | .pop =>
    if d.sema = 0 then (d, .wouldBlock)
    else match d.items.getLast? with
      | some x => ({ items := d.items.dropLast, sema := d.sema - 1 }, .val x)
      | none => ({ d with sema := d.sema - 1 }, .indexError)
  | .popleft =>
    if d.sema = 0 then (d, .wouldBlock)
    else match d.items with
      | x :: rest => ({ items := rest, sema := d.sema - 1 }, .val x)
      | [] => ({ d with sema := d.sema - 1 }, .indexError)
  | .remove x =>
    if x ∈ d.items then
      if d.sema = 0 then ({ d with items := d.items.erase x }, .wouldBlock)
      else ({ items := d.items.erase x, sema := d.sema - 1 }, .unit)
    else (d, .valueError)
  | .clear => ({ items := [], sema := 0 }, .unit)

def BDeque.run (d : BDeque) : List DOp → BDeque
  | [] => d
  | op :: ops => BDeque.run (d.step op).1 ops

/-! ## The pool -/

/-- Where a client greenlet is. `reused`: it has completed a delivery on its connection. -/
inductive CSt
  | ready (reused : Bool)            -- started / between two messages: about to call poll()
  | idle (reused : Bool)             -- inside poll(), waiting on the semaphore, `idle = True`
  | busy (r : Nat) (reused : Bool)   -- holds request r (its result is not set)
  | exiting                          -- _run is over (returned or raised); the link callback is pending
deriving Repr, DecidableEq

def CSt.isIdle : CSt → Bool
  | .idle _ => true
  | _ => false

def CSt.holds (r : Nat) : CSt → Bool
  | .busy r' _ => r' == r
  | _ => false

structure State where
  size : Nat                    -- pool_size; 0 / None = unbounded
  reuse : Bool                  -- idle_timeout is not None: clients poll again after a delivery
  persistent : Bool := false    -- HttpRelayClient: after an idle expiry the client closes its connection and polls again
  clients : List CSt := []      -- the pool set, in order of creation
  queue : List Nat := []        -- pending requests (each is one (AsyncResult, Envelope) tuple)
  resulted : List Nat := []     -- requests whose AsyncResult has been set
  attempted : List Nat := []
deriving Repr, DecidableEq

inductive Label
  | attempt (r : Nat)     -- RelayPool.attempt up to result.get(): _check_idle, queue.append
  | poll (c : Nat)        -- a ready client calls poll(): takes the head or starts waiting
  | wake (c : Nat)        -- a waiting client acquires the semaphore and pops the head
  | expire (c : Nat)      -- idle_timeout ends poll() with (None, None): the client leaves
  | finish (c : Nat)      -- the result is set and the transaction is over
  | fail (c : Nat)        -- the result is set (an error); the connection is given up
  | requeue (c : Nat)     -- the server had timed out: the request is put back in front, the client leaves
  | drop (c : Nat)        -- the connection breaks between two messages (e.g. RSET fails)
  | unlink (c : Nat)      -- RelayPool._remove_client
deriving Repr, DecidableEq

def addClient (s : State) : State := { s with clients := s.clients ++ [.ready false] }

/-- `_check_idle` -/
def checkIdle (s : State) : State :=
  if s.clients.any CSt.isIdle then s
  else if s.size == 0 || s.clients.length < s.size then addClient s
  else s

def setSt (s : State) (c : Nat) (st : CSt) : State := { s with clients := s.clients.set c st }

/-- `requeueFresh`: whether a client that has not delivered anything on its connection may put
    its request back (slimta: only a reused connection is taken to have timed out). -/
def step (requeueFresh : Bool) (s : State) : Label → Option State
  | .attempt r =>
    if r ∈ s.attempted then none
    else
      let s1 := checkIdle s
      some { s1 with queue := s1.queue ++ [r], attempted := r :: s1.attempted }
  | .poll c =>
    match s.clients[c]? with
    | some (.ready ru) =>
      (match s.queue with
       | r :: q => some (setSt { s with queue := q } c (.busy r ru))
       | [] => some (setSt s c (.idle ru)))
    | _ => none
  | .wake c =>
    match s.clients[c]?, s.queue with
    | some (.idle ru), r :: q => some (setSt { s with queue := q } c (.busy r ru))
    | _, _ => none
  | .expire c =>
    match s.clients[c]? with
    | some (.idle _) => if s.reuse then some (setSt s c (if s.persistent then .ready false else .exiting)) else none
    | _ => none
  | .finish c =>
    match s.clients[c]? with
    | some (.busy r _) =>
      some (setSt { s with resulted := r :: s.resulted } c (if s.reuse then .ready true else .exiting))
    | _ => none
  | .fail c =>
    match s.clients[c]? with
    | some (.busy r _) => some (setSt { s with resulted := r :: s.resulted } c .exiting)
    | _ => none
  | .requeue c =>
    match s.clients[c]? with
    | some (.busy r ru) =>
      if ru || requeueFresh then some (setSt { s with queue := r :: s.queue } c .exiting) else none
    | _ => none
  | .drop c =>
    match s.clients[c]? with
    | some (.ready _) => some (setSt s c .exiting)
    | _ => none
  | .unlink c =>
    match s.clients[c]? with
    | some .exiting =>
      let s1 := { s with clients := s.clients.eraseIdx c }
      some (if !s1.queue.isEmpty && s1.clients.isEmpty then addClient s1 else s1)
    | _ => none

def init (size : Nat) (reuse : Bool) (persistent : Bool := false) : State :=
  { size := size, reuse := reuse, persistent := persistent }

/-- Run a trace; `none` as soon as a label is not enabled. -/
def run (rf : Bool) (s : State) : List Label → Option State
  | [] => some s
  | l :: ls => match step rf s l with
    | some s' => run rf s' ls
    | none => none

end Slimta.Pool
