/-
  Command-level model of one delivery over an established SMTP / LMTP relay connection
  (slimta/relay/smtp/client.py SmtpRelayClient._deliver / _send_envelope / _check_replies /
  _send_message_data / _send_empty_data / _rset, slimta/relay/smtp/lmtpclient.py
  LmtpRelayClient._deliver, on top of slimta/smtp/client.py): which commands go out, in which order,
  for every way the peer may answer. The result classes are Model/Relay.lean's business; this model
  is about what is on the connection when the delivery is over.
-/
namespace Slimta.RelaySession

inductive Cmd | mail | rcpt | data | body | empty | rset
deriving Repr, DecidableEq

/-- What the peer does about one expected reply: a reply code, or the connection is of no use any
    more (closed, silent until the timeout, not a reply). -/
inductive Ans | code (c : Nat) | broken
deriving Repr, DecidableEq

def isError (c : Nat) : Bool := c / 100 == 4 || c / 100 == 5

structure Out where
  cmds : List Cmd          -- commands written to the connection, in order
  alive : Bool             -- the connection is kept for the next message
  delivered : Bool         -- the message data was sent and answered without an error (for LMTP: for every accepted recipient)
  rest : List Ans          -- answers not consumed
deriving Repr, DecidableEq

/-- Read `k` answers: the codes, or `none` as soon as one is missing or broken. -/
def readN : Nat → List Ans → Option (List Nat × List Ans)
  | 0, as => some ([], as)
  | _ + 1, [] => none
  | _ + 1, .broken :: _ => none
  | k + 1, .code c :: as => (readN k as).map fun (cs, r) => (c :: cs, r)

def dead (cmds : List Cmd) : Out := ⟨cmds, false, false, []⟩

/-- The end of a failed delivery: `_fail`, then `_rset()`. -/
def failRset (cmds : List Cmd) (as : List Ans) : Out :=
  match readN 1 as with
  | none => dead (cmds ++ [.rset])
  | some (_, r) => ⟨cmds ++ [.rset], true, false, r⟩

/-- After MAIL / RCPT / DATA have been answered with `m`, `rs`, `d`. -/
def afterEnvelope (lmtp pipelining : Bool) (cmds : List Cmd) (m : Nat) (rs : List Nat) (d : Nat) (as : List Ans) : Out :=
  let accepted := (rs.filter fun c => !isError c).length
  let nAns := if lmtp then accepted else 1
  if isError m || accepted == 0 || isError d then
    -- `_check_replies` raises; a `354` already given must still be answered with an empty message
    if !isError d then
      if pipelining then
        -- the replies to the empty message are read only when RSET (not a pipelined command) has been written
        match readN (nAns + 1) as with
        | none => dead (cmds ++ [.empty, .rset])
        | some (_, r) => ⟨cmds ++ [.empty, .rset], true, false, r⟩
      else
        match readN nAns as with
        | none => dead (cmds ++ [.empty])
        | some (_, r) => failRset (cmds ++ [.empty]) r
    else failRset cmds as
  else
    match readN nAns as with
    | none => dead (cmds ++ [.body])
    | some (bs, r) =>
      if bs.any isError then
        -- SMTP: the message was refused: `_fail`, RSET. LMTP: some recipient was refused: RSET as well
        failRset (cmds ++ [.body]) r
      else ⟨cmds ++ [.body], true, true, r⟩

/-- One delivery to `n` recipients. With PIPELINING the three kinds of command go out before the
    first reply is read; without it a refused MAIL ends the transaction at once. -/
def deliver (lmtp pipelining : Bool) (n : Nat) (as : List Ans) : Out :=
  let envCmds := [Cmd.mail] ++ List.replicate n Cmd.rcpt ++ [Cmd.data]
  if pipelining then
    match readN (n + 2) as with
    | none => dead envCmds
    | some (cs, r) =>
      match cs with
      | m :: tl => afterEnvelope lmtp true envCmds m (tl.take n) (tl.getD n 0) r
      | [] => dead envCmds
  else
    match readN 1 as with
    | none => dead [.mail]
    | some (ms, r1) =>
      let m := ms.headD 0
      if isError m then failRset [.mail] r1
      else
        match readN n r1 with
        | none =>
          -- the connection broke while the RCPT replies were read: how many RCPT commands had gone out
          dead ([.mail] ++ List.replicate ((r1.takeWhile fun a => a != .broken).length + 1 |>.min n) .rcpt)
        | some (rs, r2) =>
          match readN 1 r2 with
          | none => dead envCmds
          | some (ds, r3) => afterEnvelope lmtp false envCmds m rs (ds.headD 0) r3

/-- Several messages over one connection, as long as it stays alive. -/
def session (lmtp pipelining : Bool) : List Nat → List Ans → List Cmd
  | [], _ => []
  | n :: ns, as =>
    let o := deliver lmtp pipelining n as
    o.cmds ++ (if o.alive then session lmtp pipelining ns o.rest else [])

end Slimta.RelaySession
