/-
  Model of how the edges turn the result of `Edge.handoff` / `Queue.enqueue` / `ProxyQueue.enqueue`
  into what the client is told: slimta/edge/smtp.py SmtpSession.HAVE_DATA, slimta/edge/wsgi.py
  WsgiEdge._enqueue_envelope + _build_http_response, slimta/queue/__init__.py Queue.enqueue (writes
  joined before it returns), slimta/queue/proxy.py ProxyQueue.enqueue.
-/
namespace Slimta.Edge

/-- The second component of one `(envelope, result)` pair returned by `enqueue`. -/
inductive Res
  | id                               -- an id string: the envelope is in storage / was relayed
  | queueError (reply : Option Nat)  -- QueueError, with the code of the reply it carries, if it carries one
  | relayError (code : Nat)          -- RelayError (ProxyQueue) with the code of its reply
deriving Repr, DecidableEq

/-- The outcome of one `store.write`. -/
inductive Write
  | ok
  | queueError (reply : Option Nat)
  | otherExc                          -- any other exception: enqueue re-raises it
deriving Repr, DecidableEq

/-- `Queue.enqueue`: `none` = an exception propagates out of `handoff`. -/
def enqueue (ws : List Write) : Option (List Res) :=
  if ws.contains .otherExc then none
  else some (ws.map fun
    | .ok => .id
    | .queueError r => .queueError r
    | .otherExc => .id)

/-- The first failure among the results, if any. -/
def firstError : List Res → Option Res
  | [] => none
  | .id :: rs => firstError rs
  | r :: _ => some r

/-- The code of the reply to the end of DATA. -/
def replyCode : Option Res → Nat
  | none => 250                       -- 2.6.0 Message accepted for delivery
  | some (.queueError none) => 451    -- 4.3.0 Error queuing message
  | some (.queueError (some c)) => c
  | some (.relayError c) => c
  | some .id => 250

def smtpReply (results : List Res) : Nat := replyCode (firstError results)

/-- `_build_http_response` -/
def httpStatus (code : Nat) : Nat :=
  if code / 100 == 2 then 204 else if code / 100 == 4 then 503 else if code == 535 then 401 else 500

def wsgiStatus (results : List Res) : Nat := httpStatus (smtpReply results)

/-- What the client of each edge sees for a `handoff` outcome; an exception is `421` (SMTP, the
    session ends) / `500` (WSGI). -/
def smtpSees (r : Option (List Res)) : Nat := match r with | some l => smtpReply l | none => 421
def wsgiSees (r : Option (List Res)) : Nat := match r with | some l => wsgiStatus l | none => 500

/-! ## ProxyQueue -/

/-- What `relay._attempt` gave: nothing / a Reply (whole message delivered), per-recipient values
    (`none` = delivered, `some c` = an error object with reply code `c`), or a raised RelayError. -/
inductive RelayOut
  | whole
  | perRcpt (l : List (Option Nat))
  | raised (code : Nat)
deriving Repr, DecidableEq

def proxyEnqueue : RelayOut → List Res
  | .whole => [.id]
  | .raised c => [.relayError c]
  | .perRcpt l => match l.find? Option.isSome with
    | some (some c) => [.relayError c]
    | _ => [.id]

/-! ## The order of events in `Queue.enqueue` -/

structure EnqState where
  pending : List Nat := []            -- writes spawned and not finished
  results : List (Nat × Write) := []
  replied : Option Nat := none        -- the code the client has been sent
deriving Repr, DecidableEq

inductive EnqLabel
  | writeDone (i : Nat) (w : Write)
  | reply
deriving Repr, DecidableEq

def resultsInOrder (n : Nat) (rs : List (Nat × Write)) : List Write :=
  (List.range n).filterMap fun i => (rs.find? (·.1 == i)).map (·.2)

def enqStep (n : Nat) (s : EnqState) : EnqLabel → Option EnqState
  | .writeDone i w =>
    if s.pending.contains i then some { s with pending := s.pending.filter (· != i), results := (i, w) :: s.results } else none
  | .reply =>
    -- `_pool_imap` joins every write before `enqueue` returns; only then is the reply chosen
    if s.pending.isEmpty && s.replied.isNone then
      some { s with replied := some (smtpSees (enqueue (resultsInOrder n s.results))) }
    else none

def enqInit (n : Nat) : EnqState := { pending := List.range n }

end Slimta.Edge
