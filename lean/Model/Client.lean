import Model.Bytes
import Model.Reply
/-
  Model of the reply bookkeeping of slimta/smtp/client.py (Client, LmtpClient): every command
  appends a Reply object ("slot") to `reply_queue`; `_flush_pipeline` pops the slots in order and
  parses one reply from the connection into each.
-/
namespace Slimta.Client

open Slimta

inductive Method
  | banner | ehlo | helo | lhlo | mail | rcpt | data | sendData | sendEmpty | rset | quit | custom | getReply
deriving Repr, DecidableEq

structure St where
  queue : List Nat := []                          -- slot ids waiting for their reply, oldest first
  next : Nat := 0                                 -- next slot id = number of slots issued so far
  pipelining : Bool := false                      -- 'PIPELINING' in self.extensions
  filled : List (Nat × Bytes × Bytes) := []       -- (slot, code, text) in the order they were filled
  buf : Bytes := []
  segs : List Bytes := []
  lmtp : Bool := false
  rcpttos : List Nat := []                        -- LMTP: slots of the RCPT commands of this transaction
  dataSlots : List (List Nat) := []               -- LMTP: what each send_data returned
  failed : Option String := none                  -- the exception that ended the run
deriving Repr

/-- `_flush_pipeline`: one `Reply.recv` per queued slot, in order. -/
def flush (fuel : Nat) (s : St) : St :=
  match fuel with
  | 0 => s
  | fuel + 1 =>
    match s.queue with
    | [] => s
    | slot :: rest =>
      match Reply.recvRun s.buf s.segs with
      | .ok r => flush fuel { s with queue := rest, filled := s.filled ++ [(slot, r.code, r.body)],
                                     buf := r.recvBuffer, segs := r.unread }
      | .error (.badReply, rb) => { s with queue := rest, buf := rb, segs := [], failed := some "BadReply" }
      | .error (.wouldBlock, _) => { s with queue := rest, failed := some "wouldBlock" }
      | .error (.connectionLost, _) => { s with queue := rest, failed := some "connectionLost" }

def lookupFilled (slot : Nat) (f : List (Nat × Bytes × Bytes)) : Option (Bytes × Bytes) :=
  (f.find? fun x => x.1 == slot).map (·.2)

/-- Does the EHLO/LHLO reply text advertise PIPELINING? (`Extensions.parse_string`, ASCII white space) -/
def advertisesPipelining (text : Bytes) : Bool :=
  let lines := Reply.allLines (text ++ CRLF)
  (lines.drop 1).any fun l =>
    let l' := l.dropWhile isWs
    let name := l'.takeWhile fun b => isDigit b || (65 ≤ b && b ≤ 90) || (97 ≤ b && b ≤ 122) || b == 45
    name.map (fun b => if 97 ≤ b && b ≤ 122 then b - 32 else b) == "PIPELINING".toUTF8.toList

def enqueue (s : St) : St × Nat := ({ s with queue := s.queue ++ [s.next], next := s.next + 1 }, s.next)

def flushNow (s : St) : St := flush (s.queue.length + 1) s

def flushUnlessPipelining (s : St) : St := if s.pipelining then s else flushNow s

def codeIs2xx (c : Bytes) : Bool := c.head? == some 50

/-- One client method call. -/
def call (s : St) (m : Method) : St :=
  if s.failed.isSome then s else
  match m with
  | .banner | .helo | .data | .quit | .custom | .getReply =>
    let (s1, _) := enqueue s
    flushNow s1
  | .rset =>
    let (s1, _) := enqueue s
    let s2 := flushNow s1
    if s.lmtp then { s2 with rcpttos := [] } else s2
  | .ehlo | .lhlo =>
    let (s1, slot) := enqueue s
    let s2 := flushNow s1
    match lookupFilled slot s2.filled with
    | some (code, text) =>
      if code == [50, 53, 48] then { s2 with pipelining := advertisesPipelining text, rcpttos := if m == .lhlo then [] else s2.rcpttos }
      else s2
    | none => s2
  | .mail =>
    let (s1, _) := enqueue s
    flushUnlessPipelining s1
  | .rcpt =>
    let (s1, slot) := enqueue s
    let s2 := flushUnlessPipelining s1
    if s.lmtp then { s2 with rcpttos := s2.rcpttos ++ [slot] } else s2
  | .sendData | .sendEmpty =>
    if s.lmtp then
      -- one data reply per recipient whose RCPT reply is 2xx; an RCPT reply not yet received has no code
      if s.rcpttos.any fun r => (lookupFilled r s.filled).isNone then { s with failed := some "AttributeError" }
      else
        let accepted := s.rcpttos.filter fun r => match lookupFilled r s.filled with
          | some (c, _) => codeIs2xx c
          | none => false
        let s1 := accepted.foldl (fun st _ => (enqueue st).1) s
        let slots := (List.range accepted.length).map (· + s.next)
        flushUnlessPipelining { s1 with rcpttos := [], dataSlots := s.dataSlots ++ [slots] }
    else
      let (s1, _) := enqueue s
      flushUnlessPipelining s1

def run (s : St) (ms : List Method) : St := ms.foldl call s

/-- `Client.starttls`: the STARTTLS command (`custom_command`: a reply slot of its own, read at once) and, when the reply
    is `220`, `Client.encrypt` -> `IO.encrypt_socket_client`: the socket is replaced by the TLS stream `tls` and
    `recv_buffer` is emptied. -/
def starttls (s : St) (tls : List Bytes) : St :=
  let slot := s.next
  let s1 := call s .custom
  match lookupFilled slot s1.filled with
  | some (code, _) => if code == [50, 50, 48] && s1.failed.isNone then { s1 with buf := [], segs := tls } else s1
  | none => s1

end Slimta.Client
