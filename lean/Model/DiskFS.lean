import Model.Store
/-
  Model of slimta/diskstorage/__init__.py as file-system effects: AioFile.dump (mkstemp, chunked
  aio_write, os.rename), DiskOps, DiskStorage.{write,set_timestamp,increment_attempts,
  set_recipients_delivered,remove,load,get}. Used for the crash property C04.
-/
namespace Slimta.DiskFS

inductive Path
  | env (id : Nat)
  | mfile (id : Nat)
  | tmp (k : Nat)
deriving Repr, DecidableEq

structure Meta where
  ts : Nat
  attempts : Nat
  delivered : List Nat
deriving Repr, DecidableEq

/-- What a file holds: a complete pickle of an envelope / of a meta dict, or a temp file that has
    received `n` chunks so far. -/
inductive Content
  | envelope (e : Nat)            -- envelope identity (sender, recipients, content as written)
  | metaC (m : Meta)
  | partialFile (chunks : Nat)
deriving Repr, DecidableEq

abbrev FS := List (Path × Content)

def fsGet (p : Path) : FS → Option Content
  | [] => none
  | (q, c) :: rest => if q == p then some c else fsGet p rest

def fsDel (p : Path) : FS → FS
  | [] => []
  | (q, c) :: rest => if q == p then fsDel p rest else (q, c) :: fsDel p rest

def fsSet (p : Path) (c : Content) (fs : FS) : FS := (p, c) :: fsDel p fs

inductive Effect
  | create (k : Nat)                              -- mkstemp
  | append (k : Nat)                              -- one aio_write chunk completed
  | rename (k : Nat) (dst : Path) (c : Content)   -- os.rename(tmp, final): the final file appears complete
  | unlink (p : Path)                             -- os.remove (a missing file is ignored)
deriving Repr, DecidableEq

def applyEffect (fs : FS) : Effect → FS
  | .create k => fsSet (.tmp k) (.partialFile 0) fs
  | .append k => match fsGet (.tmp k) fs with
    | some (.partialFile n) => fsSet (.tmp k) (.partialFile (n + 1)) fs
    | _ => fs
  | .rename k dst c => fsSet dst c (fsDel (.tmp k) fs)
  | .unlink p => fsDel p fs

def applyAll (fs : FS) (es : List Effect) : FS := es.foldl applyEffect fs

/-- `AioFile.dump` of an object pickled into `chunks ≥ 1` pieces, through temp file `k`. -/
def dump (k chunks : Nat) (dst : Path) (c : Content) : List Effect :=
  [.create k] ++ List.replicate chunks (.append k) ++ [.rename k dst c]

inductive Op
  | write (id : Nat) (e : Nat) (ts : Nat)
  | setTs (id : Nat) (ts : Nat)
  | incr (id : Nat)
  | deliver (id : Nat) (idxs : List Nat)
  | remove (id : Nat)
deriving Repr, DecidableEq

def Op.id : Op → Nat
  | .write i _ _ | .setTs i _ | .incr i | .deliver i _ | .remove i => i

/-- The new meta a read-modify-write operation stores. -/
def newMeta (m : Meta) : Op → Meta
  | .setTs _ ts => { m with ts := ts }
  | .incr _ => { m with attempts := m.attempts + 1 }
  | .deliver _ idxs => { m with delivered := m.delivered ++ Store.sortDesc idxs }   -- `_add_delivered_round`
  | _ => m

/-- The effects of one storage operation, in order. `k` = first unused temp name, `c1 c2` = chunk
    counts of the pickles written (oracle; at least one chunk each). Read-modify-write operations
    read the meta file first (no effect); on a missing meta file they raise before any effect. -/
def effectsOf (fs : FS) (k c1 c2 : Nat) : Op → List Effect
  | .write id e ts =>
    dump k c1 (.env id) (.envelope e) ++ dump (k + 1) c2 (.mfile id) (.metaC ⟨ts, 0, []⟩)
  | .remove id => [.unlink (.env id), .unlink (.mfile id)]
  | op => match fsGet (.mfile op.id) fs with
    | some (.metaC m) => dump k c1 (.mfile op.id) (.metaC (newMeta m op))
    | _ => []

/-- What a fresh `DiskStorage` over the directories finds for message `id`: `load()` lists ids with
    an `.env` file and skips those whose meta cannot be read; `get` needs both. -/
def recover (fs : FS) (id : Nat) : Option (Nat × Meta) :=
  match fsGet (.env id) fs, fsGet (.mfile id) fs with
  | some (.envelope e), some (.metaC m) => some (e, m)
  | _, _ => none

/-- The directories after the process died `n` effects into operation `op`. -/
def crashAt (fs : FS) (k c1 c2 : Nat) (op : Op) (n : Nat) : FS :=
  applyAll fs ((effectsOf fs k c1 c2 op).take n)

end Slimta.DiskFS
