/-
  Timeout scopes of slimta/smtp/server.py (Server.handle and what it calls), slimta/edge/smtp.py
  (closing the session), slimta/relay/smtp/client.py (SmtpRelayClient._run and every step of it),
  slimta/relay/pipe.py and slimta/relay/http.py: which `with Timeout(...)` each blocking step sits
  in, and what that means for any behaviour of the peer. Time is in milliseconds.
-/
namespace Slimta.Timeouts

inductive Scope | command | data | connect | single | unscoped
deriving Repr, DecidableEq

structure Cfg where
  command : Nat
  data : Nat
  connect : Nat
  single : Nat        -- the one timeout of a pipe / HTTP relay attempt
deriving Repr

def limit (c : Cfg) : Scope → Option Nat
  | .command => some c.command
  | .data => some c.data
  | .connect => some c.connect
  | .single => some c.single
  | .unscoped => none

/-- One blocking step: the scope the code puts it in, and the peer's behaviour during it — the gaps
    after which the pieces the step needs arrive (a line in several segments, message data in
    trickles, a handshake in flights); `none` = that piece never comes. -/
structure Wait where
  scope : Scope
  gaps : List (Option Nat)
deriving Repr

/-- Total time the peer takes to supply everything; `none` = never. -/
def need : List (Option Nat) → Option Nat
  | [] => some 0
  | none :: _ => none
  | some g :: rest => (need rest).map (g + ·)

inductive Res
  | done (elapsed : Nat)
  | timedOut (elapsed : Nat)
  | hung
deriving Repr, DecidableEq

/-- gevent's `with Timeout(T)`: one deadline for the whole block, however the bytes trickle. -/
def runWait (c : Cfg) (w : Wait) : Res :=
  match limit c w.scope, need w.gaps with
  | some T, some n => if n ≤ T then .done n else .timedOut T
  | some T, none => .timedOut T
  | none, some n => .done n
  | none, none => .hung

inductive Ending
  | completed
  | timedOut (k : Nat) (sinceLastCompleted : Nat)   -- at the k-th wait
  | hung (k : Nat)
deriving Repr, DecidableEq

/-- Run the waits in order until one does not complete. Returns total elapsed time and how it ended. -/
def runAll (c : Cfg) : Nat → List Wait → Nat × Ending
  | _, [] => (0, .completed)
  | k, w :: ws =>
    match runWait c w with
    | .done n => let (t, e) := runAll c (k + 1) ws; (n + t, e)
    | .timedOut n => (n, .timedOut k n)
    | .hung => (0, .hung k)

/-! ## the code's table: which scope each blocking step sits in -/

/-- blocking steps of a server session -/
inductive ServerStage
  | tlsImmediate      -- handshake before the banner (tls_immediately)
  | command           -- _recv_command: the whole assembly of one command line
  | data              -- DataReader.recv(): the whole DATA phase
  | authResponse      -- AuthSession: waiting for the reply to a 334 challenge
  | starttlsHandshake -- handshake after `220 Go ahead`
  | close             -- IO.close(): TLS shutdown waiting for the peer's close_notify
deriving Repr, DecidableEq

def serverScope : ServerStage → Scope
  | .tlsImmediate => .command
  | .command => .command
  | .data => .data
  | .authResponse => .command
  | .starttlsHandshake => .command
  | .close => .command

/-- blocking steps of one relay attempt (SMTP / LMTP client) -/
inductive RelayStage
  | connect | tlsImmediate | banner | ehlo | helo | starttls | auth | mail | rcpt | data | sendData | rset | quit | close
  | idleReply         -- _check_server_timeout: reading what a server said while the connection sat idle
deriving Repr, DecidableEq

def relayScope : RelayStage → Scope
  | .connect => .connect
  | .sendData => .data
  | _ => .command

/-- the one blocking exchange of a pipe relay (the child process) and of an HTTP relay attempt (request and response) -/
inductive OtherStage | pipeExec | httpRequest
deriving Repr, DecidableEq

def otherScope : OtherStage → Scope
  | _ => .single

def allServerStages : List ServerStage := [.tlsImmediate, .command, .data, .authResponse, .starttlsHandshake, .close]
def allRelayStages : List RelayStage :=
  [.connect, .tlsImmediate, .banner, .ehlo, .helo, .starttls, .auth, .mail, .rcpt, .data, .sendData, .rset, .quit, .close, .idleReply]

end Slimta.Timeouts
