import Model.Bytes
import Model.Server
/-
  The client half of a relay hop: how slimta/smtp/client.py builds MAIL / RCPT command lines,
  how slimta/smtp/extensions.py builds and parses the EHLO extension lines, and how
  slimta/relay/http.py / slimta/edge/wsgi.py carry sender and recipients in base64 headers.
  The server half (command parsing, address extraction) is Model/Server.lean.
-/
namespace Slimta.Wire
open Slimta

def str (s : String) : Bytes := s.toUTF8.toList

/-- `Client.mailfrom`: `MAIL FROM:<addr>` plus ` SIZE=n` when a size is given and SIZE is offered.
    `addr` is the address already encoded (`_encode`: UTF-8 with SMTPUTF8, ASCII otherwise). -/
def sizePart : Option Bytes → Bytes
  | some d => [32, 83, 73, 90, 69, 61] ++ d
  | none => []

def buildMail (addr : Bytes) (size : Option Bytes) : Bytes :=
  [77, 65, 73, 76, 32, 70, 82, 79, 77, 58, 60] ++ addr ++ [62] ++ sizePart size

/-- `Client.rcptto` -/
def buildRcpt (addr : Bytes) : Bytes := [82, 67, 80, 84, 32, 84, 79, 58, 60] ++ addr ++ [62]

/-- The (quoted, escaped) state after scanning `a` the way `find_outside_quotes` does; `none` if a
    `>` is met outside quotes (the address would be cut there). -/
def quoteEndAux (quoted escaped : Bool) : Bytes → Option (Bool × Bool)
  | [] => some (quoted, escaped)
  | b :: rest =>
    if !quoted && b == 62 then none
    else quoteEndAux (if !quoted then b == 34 else if escaped then true else if b == 92 then true else !(b == 34))
                     (quoted && !escaped && b == 92) rest

def quoteEnd (quoted : Bool) (a : Bytes) : Option Bool := (quoteEndAux quoted false a).map (·.1)

/-- What a relay client puts on the wire for one transaction after the handshake (pipelined or
    not, these are the bytes): MAIL, one RCPT per recipient, DATA, the message as `DataSender`
    frames the parts it is given (`SmtpRelayClient._send_envelope`: header block, body). -/
def rcptBytes (rs : List Bytes) : Bytes := (rs.map fun r => buildRcpt r ++ CRLF).flatten
def hopBytes (a : Bytes) (rs : List Bytes) (parts : List Bytes) : Bytes :=
  buildMail a none ++ CRLF ++ (rcptBytes rs ++ ([68, 65, 84, 65] ++ CRLF ++ Data.send parts))

/-- Addresses that survive the hop: every `>` is inside a double-quoted run, the quotes are
    balanced (a backslash-escaped quote inside a run does not count), there is no line break in it (it is one command line). -/
def CleanAddr (a : Bytes) : Prop := quoteEnd false a = some false ∧ ∀ b ∈ a, b ≠ 10

/-! ## EHLO extensions -/

def isExtFirst (b : Byte) : Bool := isDigit b || Server.isAlpha b
def isExtChar (b : Byte) : Bool := isExtFirst b || b == 45

def lstripWs (l : Bytes) : Bytes := l.dropWhile isWs

/-- `Extensions.build_string`, one line per extension: `NAME` or `NAME param`. -/
def buildExtLine (name : Bytes) (param : Option Bytes) : Bytes :=
  match param with
  | some p => if p.isEmpty then name else name ++ [32] ++ p
  | none => name

/-- `parse_pattern` = `^\s*([a-zA-Z0-9][a-zA-Z0-9-]*)\s*(.*?)\s*$` on one line (no line break in it):
    the name (upper-cased by `add`) and the parameter (`none` when empty). -/
def parseExtLine (line : Bytes) : Option (Bytes × Option Bytes) :=
  let l := lstripWs line
  match l with
  | [] => none
  | b :: _ =>
    if isExtFirst b then
      let name := l.takeWhile isExtChar
      let arg := Server.rstripWs (lstripWs (l.dropWhile isExtChar))
      some (name.map Server.upper, if arg.isEmpty then none else some arg)
    else none

/-! ## base64 (RFC 4648 alphabet, padded), on byte values as `Nat` -/

def b64char (i : Nat) : Nat :=
  if i < 26 then 65 + i else if i < 52 then 97 + (i - 26) else if i < 62 then 48 + (i - 52) else if i = 62 then 43 else 47

def b64val (c : Nat) : Option Nat :=
  if 65 ≤ c ∧ c ≤ 90 then some (c - 65)
  else if 97 ≤ c ∧ c ≤ 122 then some (c - 97 + 26)
  else if 48 ≤ c ∧ c ≤ 57 then some (c - 48 + 52)
  else if c = 43 then some 62
  else if c = 47 then some 63
  else none

def b64enc : List Nat → List Nat
  | a :: b :: c :: rest =>
    b64char (a / 4) :: b64char ((a % 4) * 16 + b / 16) :: b64char ((b % 16) * 4 + c / 64) :: b64char (c % 64) :: b64enc rest
  | [a, b] => [b64char (a / 4), b64char ((a % 4) * 16 + b / 16), b64char ((b % 16) * 4), 61]
  | [a] => [b64char (a / 4), b64char ((a % 4) * 16), 61, 61]
  | [] => []

/-- Strict decoder of what `b64enc` produces (Python's `b64decode` is more lenient: it skips
    characters outside the alphabet). -/
def b64dec : List Nat → Option (List Nat)
  | [] => some []
  | [c0, c1, 61, 61] =>
    match b64val c0, b64val c1 with
    | some n0, some n1 => if n1 % 16 = 0 then some [n0 * 4 + n1 / 16] else none
    | _, _ => none
  | [c0, c1, c2, 61] =>
    match b64val c0, b64val c1, b64val c2 with
    | some n0, some n1, some n2 => if n2 % 4 = 0 then some [n0 * 4 + n1 / 16, (n1 % 16) * 16 + n2 / 4] else none
    | _, _, _ => none
  | c0 :: c1 :: c2 :: c3 :: rest =>
    match b64val c0, b64val c1, b64val c2, b64val c3, b64dec rest with
    | some n0, some n1, some n2, some n3, some tl =>
      some ((n0 * 4 + n1 / 16) :: ((n1 % 16) * 16 + n2 / 4) :: ((n2 % 4) * 64 + n3) :: tl)
    | _, _, _, _, _ => none
  | _ => none

/-! ## recipients in one HTTP header value -/

def isSep (c : Nat) : Bool := c == 44 || c == 59          -- `,` `;`
def isWsN (c : Nat) : Bool := c == 32 || c == 9 || c == 10 || c == 13 || c == 12 || c == 11

/-- several `X-Envelope-Recipient` headers as the WSGI server presents them: joined with `,` -/
def joinTokens : List (List Nat) → List Nat
  | [] => []
  | [t] => t
  | t :: ts => t ++ 44 :: joinTokens ts

def lstripN (l : List Nat) : List Nat := l.dropWhile isWsN
def rstripN (l : List Nat) : List Nat := (l.reverse.dropWhile isWsN).reverse

/-- `split_pattern = \s*[,;]\s*`: split at separators, white space around them dropped. -/
def splitRaw : List Nat → List Nat → List (List Nat)
  | acc, [] => [acc.reverse]
  | acc, c :: rest => if isSep c then acc.reverse :: splitRaw [] rest else splitRaw (c :: acc) rest

/-- white space is dropped next to a separator only: not before the first token, not after the last -/
def trimInner : Bool → List (List Nat) → List (List Nat)
  | _, [] => []
  | first, [t] => [if first then t else lstripN t]
  | first, t :: ts => (if first then rstripN t else rstripN (lstripN t)) :: trimInner false ts

def splitTokens (l : List Nat) : List (List Nat) := trimInner true (splitRaw [] l)

/-! ## the SMTP reply inside an HTTP response (`X-Smtp-Reply`) -/

/-- `wsgiref.headers._formatparam` with quoting: backslash and double quote are escaped -/
def escapeParam (v : List Nat) : List Nat :=
  v.flatMap fun c => if c == 92 then [92, 92] else if c == 34 then [92, 34] else [c]

def formatParam (name : List Nat) (value : List Nat) : List Nat :=
  if value.isEmpty then name else name ++ [61, 34] ++ escapeParam value ++ [34]

/-- `_build_http_response`: `Headers.add_header('X-Smtp-Reply', code, message=…[, command=…])` -/
def buildXReply (code msg : List Nat) (cmd : Option (List Nat)) : List Nat :=
  code ++ [59, 32] ++ formatParam [109, 101, 115, 115, 97, 103, 101] msg ++
  (match cmd with
   | some c => [59, 32] ++ formatParam [99, 111, 109, 109, 97, 110, 100] c
   | none => [])

def isDigitN (c : Nat) : Bool := 48 ≤ c && c ≤ 57

/-- `reply_code_pattern = ^\s*(\d\d\d)\s*;` of the relay (ASCII digits; `\s` as in `isWsN`) -/
def parseXReplyCode (h : List Nat) : Option (List Nat) :=
  match lstripN h with
  | d1 :: d2 :: d3 :: rest =>
    if isDigitN d1 && isDigitN d2 && isDigitN d3 then
      match lstripN rest with
      | 59 :: _ => some [d1, d2, d3]
      | _ => none
    else none
  | _ => none

end Slimta.Wire
