/-
  Byte-string helpers shared by every byte-level model.
  No Mathlib import: this file is linked into the native `modeldriver`.
-/
namespace Slimta

abbrev Byte := UInt8
abbrev Bytes := List UInt8

def LF : Byte := 10
def CR : Byte := 13
def DOT : Byte := 46
def SP : Byte := 32
def TAB : Byte := 9
def CRLF : Bytes := [13, 10]

/-- Python bytes `\s` : `[ \t\n\r\f\v]`. -/
def isWs (b : Byte) : Bool := b == 32 || b == 9 || b == 10 || b == 13 || b == 12 || b == 11

def isDigit (b : Byte) : Bool := 48 ≤ b && b ≤ 57

/-- `s.endswith(suffix)` -/
def endsWith (s suf : Bytes) : Bool := suf.isSuffixOf s

/-- Split at the first LF: `(line including LF, rest)`; `none` when there is no LF.
    This is one match of Python's `re.compile(br'.*\n')` in `finditer` (`.` excludes `\n`). -/
def splitLF : Bytes → Option (Bytes × Bytes)
  | [] => none
  | b :: rest =>
    if b == 10 then some ([b], rest)
    else match splitLF rest with
      | none => none
      | some (l, r) => some (b :: l, r)

theorem splitLF_length {p l r : Bytes} (h : splitLF p = some (l, r)) : r.length < p.length := by
  induction p generalizing l r with
  | nil => simp [splitLF] at h
  | cons b rest ih =>
    simp only [splitLF] at h
    split at h
    · simp at h; obtain ⟨_, rfl⟩ := h; simp
    · split at h
      · simp at h
      · rename_i l' r' heq
        simp at h; obtain ⟨_, rfl⟩ := h
        have := ih heq; simp; omega

/-- `re.sub('\r?\n', '\r\n', text)`: the documented normalisation of line breaks. -/
def normGo (prevCR : Bool) : Bytes → Bytes
  | [] => []
  | b :: r => if b == 10 then (if prevCR then [10] else [13, 10]) ++ normGo false r
              else b :: normGo (b == 13) r

def normCRLF (m : Bytes) : Bytes := normGo false m

def hexDigit (n : Nat) : Char :=
  if n < 10 then Char.ofNat (48 + n) else Char.ofNat (87 + n)

def toHex (b : Bytes) : String :=
  String.ofList (b.flatMap fun x => [hexDigit (x.toNat / 16), hexDigit (x.toNat % 16)])

def hexVal (c : Char) : Option Nat :=
  if '0' ≤ c && c ≤ '9' then some (c.toNat - 48)
  else if 'a' ≤ c && c ≤ 'f' then some (c.toNat - 87)
  else none

def ofHexChars : List Char → Option Bytes
  | [] => some []
  | [_] => none
  | a :: b :: rest => do
    let x ← hexVal a
    let y ← hexVal b
    let r ← ofHexChars rest
    pure (UInt8.ofNat (x * 16 + y) :: r)

/-- `-` denotes the empty byte string on the line protocol. -/
def ofHex (s : String) : Option Bytes :=
  if s == "-" then some [] else ofHexChars s.toList

def toHexOrDash (b : Bytes) : String := if b.isEmpty then "-" else toHex b

end Slimta
