import Model.Bytes
/-
  Model of slimta/envelope/__init__.py: Envelope.parse / flatten on messages with a well-formed
  header block, and the 8-bit check of encode_7bit. CPython's `email` package is modelled only on
  that domain (header source lines are kept; line endings become CRLF).
-/
namespace Slimta.Envelope

open Slimta

/-- After the `\r?\n` of `_HEADER_BOUNDARY = \r?\n\s*?\n`: lazy white space up to the next LF.
    Returns what follows the match. -/
def wsThenLF : Bytes → Option Bytes
  | [] => none
  | b :: r => if b == 10 then some r else if isWs b then wsThenLF r else none

/-- The regex anchored at the head of the list. -/
def tryAt : Bytes → Option Bytes
  | 13 :: 10 :: r => wsThenLF r
  | 10 :: r => wsThenLF r
  | _ => none

/-- `re.search(_HEADER_BOUNDARY, data)`: leftmost match; `(data[:match.end], data[match.end:])`. -/
def findB : Bytes → Option (Bytes × Bytes)
  | [] => none
  | b :: rest =>
    match tryAt (b :: rest) with
    | some payload => some ((b :: rest).take ((b :: rest).length - payload.length), payload)
    | none => match findB rest with
      | none => none
      | some (h, p) => some (b :: h, p)

/-- `Envelope.parse(data)` followed by `flatten()`, on the well-formed domain: the header block is
    regenerated line by line with CRLF endings, the payload is kept as it is. -/
def parseFlatten (d : Bytes) : Bytes × Bytes :=
  match findB d with
  | none => (normCRLF d ++ [13, 10], [])     -- a header block and nothing else: the generator closes it with a blank line
  | some (hd, payload) => (normCRLF hd, payload)

/-- One physical line without its terminator; `none` at the end. -/
def lineOf (b : Bytes) : Option (Bytes × Bytes) :=
  match splitLF b with
  | none => if b.isEmpty then none else some (b, [])
  | some (l, r) =>
    let c := l.dropLast
    some ((if c.getLast? == some 13 then c.dropLast else c), r)

theorem lineOf_length {b c r : Bytes} (h : lineOf b = some (c, r)) : r.length < b.length := by
  unfold lineOf at h
  split at h
  · split at h
    · simp at h
    · rename_i hne; simp at h; obtain ⟨_, rfl⟩ := h
      cases b with
      | nil => simp at hne
      | cons x xs => simp
  · rename_i l r' heq
    simp at h; obtain ⟨_, rfl⟩ := h
    exact splitLF_length heq

def splitColon : Bytes → Option (Bytes × Bytes)
  | [] => none
  | b :: r => if b == 58 then some ([], r) else (splitColon r).map fun (n, v) => (b :: n, v)

def lstripWs (v : Bytes) : Bytes := v.dropWhile fun b => b == 32 || b == 9

/-- The header fields of a header block, in order: `(name, value lines)`; a line starting with
    SP/TAB continues the previous field; a blank line ends the block. -/
def fieldsOf (hd : Bytes) (acc : List (Bytes × List Bytes)) : List (Bytes × List Bytes) :=
  match h : lineOf hd with
  | none => acc.reverse
  | some (c, r) =>
    have : r.length < hd.length := lineOf_length h
    if c.isEmpty then acc.reverse
    else if c.head? == some 32 || c.head? == some 9 then
      match acc with
      | (n, ls) :: rest => fieldsOf r ((n, ls ++ [c]) :: rest)
      | [] => fieldsOf r acc
    else match splitColon c with
      | some (n, v) => fieldsOf r ((n, [lstripWs v]) :: acc)
      | none => acc.reverse
termination_by hd.length

def isAscii (b : Bytes) : Bool := b.all fun x => x < 128

/-- `encode_7bit(None)`: `none` = UnicodeDecodeError raised, the envelope is not passed on. -/
def encode7bitNoEncoder (body : Bytes) : Option Bytes := if isAscii body then some body else none

end Slimta.Envelope
