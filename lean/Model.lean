import Model.Bytes
import Model.Data
