import Model.Bytes
import Model.Data
import Model.Reply
import Model.Proxy
import Model.Envelope
import Model.Policy
import Model.Store
import Model.Attempt
