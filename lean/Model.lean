import Model.Bytes
import Model.Data
import Model.Reply
