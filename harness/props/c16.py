"""C16 — queue policies conserve recipients and content.

Implementation: real Queue._run_policies with the real RecipientSplit, RecipientDomainSplit, Forward,
AddDateHeader, AddMessageIdHeader, AddReceivedHeader (+ one custom policy that returns its input among its outputs).
Model: `policy run` of the Lean driver (Model/Policy.lean); re.subn results and domain keys ride on the op line.
"""
import itertools
import re

from harness.core import CaseResult, hit, rng_for

RULE = ('every chain up to a length bound over {split, domain-split, 5 forwarding rule sets (incl. an exemption rule that rewrites an address to itself), add-date, add-message-id, '
        'add-received, peel(custom: returns its input among its outputs)} x recipient lists (duplicates, mixed-case '
        'domains, missing/empty domains, up to 12 domains) x header sets (with/without Date, Message-Id, Received); '
        'outputs compared with the model in order; aliasing probed by identity and by mutate-one-read-others. '
        'distinct = distinct (chain, recipients, headers); non-trivial = chain non-empty.')

BUDGET_S = {'quick': 150, 'thorough': 1500}

RULESETS = {
    'F0.1': [0, 1], 'F2.3': [2, 3], 'F4': [4], 'F5.2.1': [5, 2, 1],
    'F6.1': [6, 1],          # an exemption rule (matches, rewrites to the same address) in front of a rule that would rewrite
}
RULES = [(r'^a@', 'aa@', 0), (r'@x\.com$', '@fwd.example', 0), (r'^.*$', '', 0), (r'@y\.org', '@Y.ORG', 1),
         (r'zzz', 'q', 0), (r'^(c.*)@(.*)$', r'\2@\1', 0), (r'^(g)@(.*)$', r'\1@\2', 0)]
TOKENS = ['S', 'D', 'F0.1', 'F2.3', 'F4', 'F5.2.1', 'F6.1', 'A', 'M', 'R', 'P']
RCPT_POOL = ['a@x.com', 'b@X.COM', 'c@y.org', 'd@Y.org', 'noat', 'e@', 'f@z.net', 'g@x.com', 'h@d1.example', 'i@d2.example',
             'j@d3.example', 'k@d4.example', 'l@d5.example', 'm@d6.example', 'n@d7.example', 'o@d8.example', '@nolocal', 'p@q@x.com']
HDRSETS = [
    b'From: a@b\r\nSubject: x\r\n',
    b'Date: Mon, 1 Jan 2001 00:00:00 +0000\r\nFrom: a@b\r\n',
    b'From: a@b\r\nmessage-id: <1@x>\r\nDATE: today\r\n',
    b'Received: from a by b; now\r\nFrom: a@b\r\nDate: x\r\nDate: y\r\n',
    b'X-A: 1\r\n',
]


def rcpt_lists(rng, n):
    out = [[], ['a@x.com'], ['a@x.com', 'a@x.com'], ['a@x.com', 'b@X.COM'], ['noat', 'e@'], ['a@x.com', 'c@y.org', 'b@X.COM', 'noat'],
           ['c@y.org', 'd@Y.org', 'c@y.org'], RCPT_POOL[:16]]
    while len(out) < n:
        k = rng.choice([1, 2, 2, 3, 3, 4, 5, 8, 12])
        out.append([rng.choice(RCPT_POOL) for _ in range(k)])
    return out[:n]


def cases(tier, seed, phase):
    full = 3 if tier == 'quick' else 4
    nlists = 16 if tier == 'quick' else 40
    idx = 0
    for n in range(0, full + 1):
        for chain in itertools.product(TOKENS, repeat=n):
            idx += 1
            rng = rng_for(seed, 'c16', idx)
            lists = rcpt_lists(rng, nlists)
            picks = lists if n <= 2 else [lists[(idx + k) % len(lists)] for k in range(4)] + [rng.choice(lists)]
            for rl in picks:
                yield {'chain': list(chain), 'rcpts': rl, 'hdrs': (idx + len(rl)) % len(HDRSETS)}
    for j in range(6000 if tier == 'quick' else 80000):
        rng = rng_for(seed, 'c16r', j)
        chain = [rng.choice(TOKENS) for _ in range(rng.randint(4, 6))]
        rl = [rng.choice(RCPT_POOL) for _ in range(rng.choice([1, 2, 3, 4, 6, 10]))]
        yield {'chain': chain, 'rcpts': rl, 'hdrs': rng.randrange(len(HDRSETS))}


def spec_forward_one(v, rules):
    for ri in rules:
        pat, repl, count = RULES[ri]
        nv, ch = re.subn(pat, repl, v, count)
        if nv and ch > 0:
            return nv
    return v


def spec_domkey(v):
    if '@' not in v:
        return None
    d = v.rsplit('@', 1)[1]
    return d.lower() if d else None


def hdr_summary(env):
    out = []
    names = {}
    for k in env.headers.keys():
        lk = k.lower()
        if lk == 'date':
            out.append('d')
        elif lk == 'message-id':
            out.append('m')
        elif lk == 'received':
            out.append('r')
        else:
            out.append('o%d' % names.setdefault(lk, len(names)))
    return out


_QUEUES = {}


def build_queue(chain):
    from slimta.queue import Queue
    from slimta.queue.dict import DictStorage
    from slimta.policy import QueuePolicy
    from slimta.policy.split import RecipientSplit, RecipientDomainSplit
    from slimta.policy.forward import Forward
    from slimta.policy.headers import AddDateHeader, AddMessageIdHeader, AddReceivedHeader

    class Peel(QueuePolicy):
        def apply(self, envelope):
            if len(envelope.recipients) < 2:
                return
            rest = envelope.recipients[1:]
            envelope.recipients = envelope.recipients[:1]
            return [envelope, envelope.copy(rest)]

    q = Queue(DictStorage())
    for t in chain:
        if t == 'S':
            q.add_policy(RecipientSplit())
        elif t == 'D':
            q.add_policy(RecipientDomainSplit())
        elif t == 'A':
            q.add_policy(AddDateHeader())
        elif t == 'M':
            q.add_policy(AddMessageIdHeader('host.example'))
        elif t == 'R':
            q.add_policy(AddReceivedHeader())
        elif t == 'P':
            q.add_policy(Peel())
        else:
            f = Forward()
            for ri in RULESETS[t]:
                f.add_mapping(*RULES[ri])
            q.add_policy(f)
    return q


def run_case(case, model):
    from slimta.envelope import Envelope
    chain, rcpts = case['chain'], list(case['rcpts'])
    hits = []
    env = Envelope('sender@example.com', list(rcpts))
    body = b'body \xff\r\n.\r\n'
    env.parse(HDRSETS[case['hdrs']] + b'\r\n' + body)
    env.timestamp = 1234567890.0
    env.receiver = 'rcv.example'
    env.client = {'ip': '1.2.3.4', 'name': 'client'}
    hdr0 = hdr_summary(env)
    # the policy objects of a chain live as long as the worker does (as in a running MTA): a policy must not remember anything from
    # the messages it has seen (every (chain, recipients) pair comes by several times, with other header sets)
    q = _QUEUES.get(tuple(chain))
    if q is None:
        q = _QUEUES[tuple(chain)] = build_queue(chain)
    try:
        outs = q._run_policies(env)
    except Exception as e:
        hits.append(hit('c16.raises.' + type(e).__name__, '_run_policies raised', observed=repr(e)))
        return CaseResult(None, hits, (tuple(chain), tuple(rcpts), case['hdrs']), ['raised'])
    # ---- model
    ids = {}

    def vid(s):
        return ids.setdefault(s, len(ids))
    vals = list(dict.fromkeys(rcpts))
    frontier = list(vals)
    seen = set(vals)
    for _ in range(len(chain) + 1):          # closure of the values under the rule sets
        new = []
        for v in frontier:
            for ri in range(len(RULES)):
                nv, ch = re.subn(RULES[ri][0], RULES[ri][1], v, RULES[ri][2])
                if nv not in seen:
                    seen.add(nv)
                    new.append(nv)
        frontier = new
    allvals = sorted(seen)
    for v in rcpts:
        vid(v)
    for v in allvals:
        vid(v)
    dom = {}
    domt = []
    for v in allvals:
        k = spec_domkey(v)
        domt.append('%d=%s' % (ids[v], '!' if k is None else str(dom.setdefault(k, len(dom)))))
    subt = []
    for ri in range(len(RULES)):
        for v in allvals:
            nv, ch = re.subn(RULES[ri][0], RULES[ri][1], v, RULES[ri][2])
            subt.append('%d:%d=%d:%d:%d' % (ri, ids[v], vid(nv), ch, 1 if nv else 0))
    mchain = ','.join(t if not t.startswith('F') else 'F' + '.'.join(map(str, RULESETS[t])) for t in chain) or '-'
    line = 'policy run %s %s %s %s %s' % (mchain, ','.join(str(ids[v]) for v in rcpts) or '-', ','.join(hdr0) or '-',
                                          ';'.join(domt) or '-', ';'.join(subt) or '-')
    mres = model.ask(line)
    canon_parts = []
    for o in outs:
        canon_parts.append('%s/%s' % (','.join(str(ids.get(r, -1)) for r in o.recipients) or '-', ','.join(hdr_summary(o)) or '-'))
    canon = '|'.join(canon_parts)
    mcanon = '|'.join('%s/%s' % (','.join(x.split(':')[1] for x in part.split('/')[0].split(',')) if part.split('/')[0] != '-' else '-',
                                  part.split('/')[1]) for part in mres.split('|')) if mres != 'bad-op' else mres
    mismatch = None
    if canon != mcanon:
        mismatch = {'op': 'policy run', 'impl': canon, 'model': mcanon, 'line': line[:400]}
    # the model's ghost slots must be a permutation of the original positions (cross-check of the theorem's statement)
    if mres != 'bad-op':
        slots = sorted(int(x.split(':')[0]) for part in mres.split('|') for x in part.split('/')[0].split(',') if part.split('/')[0] != '-')
        if slots != list(range(len(rcpts))) and mismatch is None:
            mismatch = {'op': 'policy run slots', 'model': mres}
    # ---- monitor
    fwd_chain = [RULESETS[t] for t in chain if t.startswith('F')]
    expect = []
    for r in rcpts:
        for rules in fwd_chain:
            r = spec_forward_one(r, rules)
        expect.append(r)
    got = [r for o in outs for r in o.recipients]
    if sorted(got) != sorted(expect):
        hits.append(hit('c16.recipients-not-conserved', 'outputs do not carry each (rewritten) recipient exactly once',
                        observed=sorted(got), expected=sorted(expect)))
    for o in outs:
        if o.sender != 'sender@example.com':
            hits.append(hit('c16.sender-changed', 'an output has another sender', observed=o.sender))
        if o.flatten()[1] != body:
            hits.append(hit('c16.body-changed', 'an output has another body', observed=o.flatten()[1].hex()))
    if len(outs) > 1:
        if len({id(o.recipients) for o in outs}) != len(outs) or len({id(o.headers) for o in outs}) != len(outs) \
                or len({id(o) for o in outs}) != len(outs):
            hits.append(hit('c16.outputs-share-objects', 'two outputs share a recipient list / header object'))
        else:
            snap = [(list(o.recipients), o.headers.items()) for o in outs]
            outs[0].recipients.append('probe@probe')
            outs[0].headers['X-Probe'] = '1'
            for k in range(1, len(outs)):
                if (list(outs[k].recipients), outs[k].headers.items()) != snap[k]:
                    hits.append(hit('c16.outputs-share-state', 'changing one output changed another', observed=k))
                    break
            outs[0].recipients.pop()
            del outs[0].headers['X-Probe']
    # ---- a policy that fails: whatever it raises must come out of _run_policies (nothing half-processed is handed on as a result)
    if chain and not hits and mismatch is None and (len(rcpts) + len(chain) + case['hdrs']) % 4 == 0:
        from slimta.policy import QueuePolicy
        for exc_type in (IndexError, KeyError, ValueError):
            class Raiser(QueuePolicy):
                def apply(self, envelope):
                    raise exc_type('policy failed')
            q3 = build_queue(chain)
            pos = (len(rcpts) + case['hdrs']) % (len(chain) + 1)
            q3.queue_policies.insert(pos, Raiser())
            env3 = Envelope('sender@example.com', list(rcpts))
            env3.parse(HDRSETS[case['hdrs']] + b'\r\n' + body)
            env3.timestamp, env3.receiver, env3.client = env.timestamp, env.receiver, dict(env.client)
            try:
                r3 = q3._run_policies(env3)
                hits.append(hit('c16.policy-exception-swallowed.' + exc_type.__name__, 'a queue policy raised and _run_policies returned envelopes all the same',
                                observed={'position': pos, 'outputs': [list(o.recipients)[:4] for o in r3][:4]}, expected=exc_type.__name__))
                break
            except exc_type:
                pass
            except Exception as e:
                hits.append(hit('c16.raises.' + type(e).__name__, 'a failing policy made _run_policies raise something else', observed=repr(e)))
                break
    # ---- the next message: same recipients through the same policy objects, after the outputs of this one were rewritten in place
    # (what a later policy or the relay may do): it must come out exactly as this one did
    if chain and not hits and mismatch is None:
        for o in outs:
            o.recipients[:] = ['rewritten-%d@elsewhere.example' % i for i in range(len(o.recipients))]
        env2 = Envelope('sender@example.com', list(rcpts))
        env2.parse(HDRSETS[case['hdrs']] + b'\r\n' + body)
        env2.timestamp, env2.receiver, env2.client = env.timestamp, env.receiver, dict(env.client)
        try:
            outs2 = q._run_policies(env2)
            canon2 = '|'.join('%s/%s' % (','.join(str(ids.get(r, -1)) for r in o.recipients) or '-', ','.join(hdr_summary(o)) or '-') for o in outs2)
        except Exception as e:
            canon2 = 'raised %r' % e
        if canon2 != canon:
            hits.append(hit('c16.policy-remembers-previous-message', 'the same message through the same policy objects came out differently the second '
                            'time (after the first one\'s outputs had been rewritten in place)', observed=canon2, expected=canon))
        outs = outs2 if canon2 == canon else outs
    nA, nM, nR = chain.count('A'), chain.count('M'), chain.count('R')
    for o in outs:
        hs = hdr_summary(o)
        wd = hdr0.count('d') if (hdr0.count('d') or not nA) else 1
        wm = hdr0.count('m') if (hdr0.count('m') or not nM) else 1
        if hs.count('d') != wd or hs.count('m') != wm:
            hits.append(hit('c16.date-or-message-id-count', 'Date / Message-Id not added exactly when absent',
                            observed=hs, expected=[wd, wm]))
            break
        if hs[:nR] != ['r'] * nR or hs.count('r') != hdr0.count('r') + nR:
            hits.append(hit('c16.received-not-first', 'a new Received header is not first', observed=hs))
            break
    tags = ['len=%d' % len(chain), 'outs=%s' % ('1' if len(outs) == 1 else '2-4' if len(outs) <= 4 else '5+'),
            'rcpts=%s' % ('0-1' if len(rcpts) <= 1 else '2-4' if len(rcpts) <= 4 else '5+')]
    tags += sorted({'has-' + t[0] for t in chain})
    key = (tuple(chain), tuple(rcpts), case['hdrs']) if chain else None
    return CaseResult(mismatch, hits, key, tags)
